(** * C02: facts about the two optimisations that hold for every program.
    (1) Folding the cast of a constant produces exactly the value the VM's CAST computes from that constant.
    (2) Forwarding a stored value to the load that directly follows the store preserves what the load delivers. *)
From Coq Require Import String ZArith List Bool PrimFloat Arith Lia.
From NSL Require Import Model.PyNum Model.IR Model.VM Model.WfIR Model.Lower Model.Opt Proofs.WfIRProofs.
Import ListNotations.

(** constant folding = the VM's conversion, for every constant and every scalar target type *)
Theorem fold_cast_is_vm_cast : forall t c v, fold_cast t c = OOk v -> cast_scalar t (const_val c) = Ok (const_val v).
Proof.
  intros t c v H. destruct t as [u| | | | | |]; cbn in H; try discriminate; destruct c as [z|f]; cbn [const_val cast_scalar].
  - inversion H; subst. reflexivity.
  - destruct (floor_float f) as [z| |]; try discriminate. inversion H; subst. reflexivity.
  - destruct (float_of_Z z) as [g| |]; try discriminate. inversion H; subst. reflexivity.
  - inversion H; subst. reflexivity.
Qed.

(** where folding refuses (a conversion that raises in Python), the VM's CAST of the same constant fails too *)
Theorem fold_cast_raises_only_where_vm_fails : forall t c, fold_cast t c = ORaise -> forall v, cast_scalar t (const_val c) <> Ok v.
Proof.
  intros t c H v. destruct t as [u| | | | | |]; cbn in H; try discriminate; try (cbn; discriminate);
    destruct c as [z|f]; cbn in H |- *; try discriminate;
    try (destruct (floor_float f); discriminate); try (destruct (float_of_Z z); discriminate).
Qed.

Lemma slookup_supdate_same x w : forall g, slookup x (supdate x w g) = Some w.
Proof.
  unfold slookup, supdate. induction g as [|[k u] g IH]; cbn; [rewrite String.eqb_refl; reflexivity|].
  destruct (String.eqb x k) eqn:Ek; cbn; [rewrite String.eqb_refl; reflexivity|]. rewrite Ek. exact IH.
Qed.
Lemma nth_list_set_same' {A} (w : A) : forall l n, (n < length l)%nat -> nth_error (list_set l n w) n = Some w.
Proof. induction l as [|y l IH]; intros [|n] H; cbn in *; try lia; [reflexivity|]. apply IH. lia. Qed.

(** a load that directly follows a store to the same variable delivers the stored value: both steps of the VM model,
    for locals, arguments and globals, whatever the rest of the frame and heap *)
Theorem load_after_store_delivers_stored : forall F pc fr st sc v src w iS iL pc1 fr1 st1,
  i_body iS = IStore sc v src -> i_body iL = ILoad sc v -> rget fr src = Ok w ->
  step F pc fr st iS = StNext pc1 fr1 st1 ->
  exists fr2, step F pc1 fr1 st1 iL = StNext (S pc1) fr2 st1 /\ rget fr2 (i_ref iL) = Ok w.
Proof.
  intros F pc fr st sc v src w iS iL pc1 fr1 st1 HS HL Hsrc Hstep.
  unfold step in Hstep. rewrite HS in Hstep. rewrite Hsrc in Hstep. cbn [lift] in Hstep.
  unfold step. rewrite HL.
  destruct sc, v as [x|n]; try discriminate.
  - (* global *) inversion Hstep; subst. cbn [globals]. rewrite slookup_supdate_same.
    eexists. split; [reflexivity|]. unfold rget, rset. cbn. rewrite rlookup_update_same. reflexivity.
  - (* argument *) destruct (Nat.ltb n (length (fargs (rset fr (i_ref iS) w)))) eqn:El; [|discriminate]. inversion Hstep; subst. cbn [fargs].
    apply Nat.ltb_lt in El. cbn [fargs rset] in *. rewrite (nth_list_set_same' w (fargs fr) n El).
    eexists. split; [reflexivity|]. unfold rget, rset. cbn. rewrite rlookup_update_same. reflexivity.
  - (* local *) inversion Hstep; subst. cbn [vars]. rewrite slookup_supdate_same.
    eexists. split; [reflexivity|]. unfold rget, rset. cbn. rewrite rlookup_update_same. reflexivity.
Qed.
