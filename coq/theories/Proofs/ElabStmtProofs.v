(** * C01, straight-line statements, stage 2: elaboration of declarations and assignments preserves the reference
    semantics.  The agreement between the reference state and the VM memory (every visible name denotes the same number
    on both sides) is kept by every simple statement; what the statement does to the VM memory is [texec]. *)
From Coq Require Import String ZArith List Bool PrimFloat Arith Lia.
From NSL Require Import Base.Types Base.Syntax Spec.Overload Model.PyNum Model.IR Model.VM Model.TypesBin Model.Elab Model.Lower Spec.RefSem
                        Proofs.OpsAgree Proofs.OptProofs Proofs.LowerExprProofs Proofs.ElabExprProofs Proofs.ReturnExprProofs Proofs.CallAgreeProofs Proofs.LowerStmtProofs.
Import ListNotations.

(** ** the reference state: reads after writes *)
Lemma frame_set_get f x s f' : frame_set f x s = Some f' -> find (fun p => String.eqb (fst p) x) f' = Some (x, s) \/ exists k, find (fun p => String.eqb (fst p) x) f' = Some (k, s).
Proof.
  revert f'. induction f as [|[k w] f IH]; intros f' H; cbn in H; [discriminate|]. destruct (String.eqb_spec k x) as [->|Hne].
  - inversion H; subst. cbn. rewrite String.eqb_refl. left. reflexivity.
  - destruct (frame_set f x s) as [f0|] eqn:E; [|discriminate]. inversion H; subst. cbn. destruct (String.eqb_spec k x); [contradiction|]. apply IH. reflexivity.
Qed.
Lemma frame_set_find_same f x s f' : frame_set f x s = Some f' -> option_map snd (find (fun p => String.eqb (fst p) x) f') = Some s.
Proof. intros H. destruct (frame_set_get _ _ _ _ H) as [E|[k E]]; rewrite E; reflexivity. Qed.
Lemma frame_set_find_other f x s f' y : frame_set f x s = Some f' -> y <> x -> find (fun p => String.eqb (fst p) y) f' = find (fun p => String.eqb (fst p) y) f.
Proof.
  revert f'. induction f as [|[k w] f IH]; intros f' H Hne; cbn in H; [discriminate|]. destruct (String.eqb_spec k x) as [->|Hk].
  - inversion H; subst. cbn. destruct (String.eqb_spec x y); [congruence|reflexivity].
  - destruct (frame_set f x s) as [f0|] eqn:E; [|discriminate]. inversion H; subst. cbn. destruct (String.eqb k y); [reflexivity|]. apply IH; auto.
Qed.
Lemma frame_set_none_find f x s : frame_set f x s = None -> find (fun p => String.eqb (fst p) x) f = None.
Proof.
  induction f as [|[k w] f IH]; cbn; intros H; [reflexivity|]. destruct (String.eqb_spec k x); [discriminate|].
  destruct (frame_set f x s); [discriminate|]. apply IH. reflexivity.
Qed.
Lemma frame_set_some_find f x s f' : frame_set f x s = Some f' -> find (fun p => String.eqb (fst p) x) f <> None.
Proof.
  revert f'. induction f as [|[k w] f IH]; intros f' H; cbn in H; [discriminate|]. cbn. destruct (String.eqb_spec k x); [discriminate|].
  destruct (frame_set f x s) as [f0|] eqn:E; [|discriminate]. eapply IH. reflexivity.
Qed.

Lemma frames_set_get fs x s : forall fs', frames_set fs x s = Some fs' -> frames_get fs' x = Some s.
Proof.
  induction fs as [|f fs IH]; intros fs' H; cbn in H; [discriminate|].
  destruct (frame_set f x s) as [f'|] eqn:E.
  - inversion H; subst. cbn. pose proof (frame_set_find_same _ _ _ _ E) as Hf. destruct (find _ f'); cbn in Hf; [inversion Hf; reflexivity|discriminate].
  - destruct (frames_set fs x s) as [fs0|] eqn:E2; [|discriminate]. inversion H; subst. cbn. rewrite (frame_set_none_find _ _ _ E). apply IH. reflexivity.
Qed.
Lemma frames_set_other fs x s y : forall fs', frames_set fs x s = Some fs' -> y <> x -> frames_get fs' y = frames_get fs y.
Proof.
  induction fs as [|f fs IH]; intros fs' H Hne; cbn in H; [discriminate|].
  destruct (frame_set f x s) as [f'|] eqn:E.
  - inversion H; subst. cbn. rewrite (frame_set_find_other _ _ _ _ y E Hne). reflexivity.
  - destruct (frames_set fs x s) as [fs0|] eqn:E2; [|discriminate]. inversion H; subst. cbn. rewrite (IH fs0 eq_refl Hne). reflexivity.
Qed.
Lemma frames_set_none_get fs x s : frames_set fs x s = None -> frames_get fs x = None.
Proof.
  induction fs as [|f fs IH]; cbn; intros H; [reflexivity|]. destruct (frame_set f x s) eqn:E; [discriminate|].
  rewrite (frame_set_none_find _ _ _ E). destruct (frames_set fs x s); [discriminate|]. apply IH. reflexivity.
Qed.

Lemma var_set_get st x s st' : var_set st x s = RefSem.ROk st' -> var_get st' x = RefSem.ROk s.
Proof.
  unfold var_set, var_get. destruct (frames_set (locals st) x s) as [l'|] eqn:E.
  - intros H. inversion H; subst. cbn. rewrite (frames_set_get _ _ _ _ E). reflexivity.
  - destruct (frame_set (globs st) x s) as [g'|] eqn:Eg; [|discriminate]. intros H. inversion H; subst. cbn.
    rewrite (frames_set_none_get _ _ _ E). pose proof (frame_set_find_same _ _ _ _ Eg) as Hf. destruct (find _ g'); cbn in Hf; [inversion Hf; reflexivity|discriminate].
Qed.
Lemma var_set_other st x s st' y : var_set st x s = RefSem.ROk st' -> y <> x -> var_get st' y = var_get st y.
Proof.
  unfold var_set, var_get. intros H Hne. destruct (frames_set (locals st) x s) as [l'|] eqn:E.
  - inversion H; subst. cbn. rewrite (frames_set_other _ _ _ y _ E Hne). reflexivity.
  - destruct (frame_set (globs st) x s) as [g'|] eqn:Eg; [|discriminate]. inversion H; subst. cbn.
    rewrite (frame_set_find_other _ _ _ _ y Eg Hne). reflexivity.
Qed.
Lemma declare_get st x s : var_get (declare st x s) x = RefSem.ROk s.
Proof. unfold declare, var_get. destruct (locals st) as [|f r]; cbn; rewrite String.eqb_refl; reflexivity. Qed.
Lemma declare_other st x s y : y <> x -> var_get (declare st x s) y = var_get st y.
Proof.
  intros Hne. unfold declare, var_get. destruct (locals st) as [|f r]; cbn; destruct (String.eqb_spec x y); try congruence; reflexivity.
Qed.

(** ** the VM memory: reads after writes *)
Lemma slookup_supdate_other x y w g : y <> x -> slookup y (supdate x w g) = slookup y g.
Proof.
  intros Hne. unfold slookup, supdate. induction g as [|[k u] g IH]; cbn.
  - destruct (String.eqb_spec y x); [contradiction|reflexivity].
  - destruct (String.eqb_spec x k) as [->|Hk]; cbn.
    + destruct (String.eqb_spec y k); [contradiction|reflexivity].
    + destruct (String.eqb y k); [reflexivity|exact IH].
Qed.
Lemma go_idx_nth x : forall l k n, go_idx x l k = VIndex n -> k <= n /\ nth_error l (n - k) = Some x.
Proof.
  induction l as [|y l IH]; intros k n H; cbn in H; [discriminate|]. destruct (String.eqb_spec x y) as [->|Hne].
  - inversion H; subst. rewrite Nat.sub_diag. split; [lia|reflexivity].
  - destruct (IH (S k) n H) as [Hle Hn]. split; [lia|]. replace (n - k) with (S (n - S k)) by lia. exact Hn.
Qed.
Lemma nth_list_set_other {A} (w : A) : forall l n m, n <> m -> nth_error (list_set l n w) m = nth_error l m.
Proof. induction l as [|y l IH]; intros [|n] [|m] H; cbn; try reflexivity; try congruence. apply IH. congruence. Qed.

(** unfolding of the reference semantics on the statements of the fragment *)
Lemma exec_expr_unfold M fu e st : exec M (S fu) (SExpr e) st = (rdo p <- eval M fu e st; RefSem.ROk (ONormal, snd p)).
Proof. reflexivity. Qed.
Lemma exec_decl_unfold M fu t x init st :
  exec M (S fu) (SDecl t x init) st =
  (let st1 := declare st x (zero_of (m_structs M) 8 t) in
   match init with
   | None => RefSem.ROk (ONormal, st1)
   | Some e => rdo p <- eval M fu e st1; let '(v, st2) := p in rdo st3 <- var_set st2 x v; RefSem.ROk (ONormal, st3)
   end).
Proof. reflexivity. Qed.
Lemma eval_assign_unfold M fu x e st :
  eval M (S fu) (EAssign AAssign (EVar x) e) st =
  (rdo p <- eval M fu e st; let '(v, st1) := p in
   rdo cur <- var_get st1 x; rdo new <- sto_set cur [] v; rdo st3 <- var_set st1 x new; RefSem.ROk (v, st3)).
Proof. reflexivity. Qed.

Lemma ty_eqb_prim_r t p : ty_eqb t (TPrim p) = true -> t = TPrim p.
Proof. destruct t; cbn; intros H; try discriminate. apply pty_eqb_eq in H. congruence. Qed.
Lemma ty_eqb_prim_l p t : ty_eqb (TPrim p) t = true -> t = TPrim p.
Proof. destruct t; cbn; intros H; try discriminate. apply pty_eqb_eq in H. congruence. Qed.

Definition num_ty_b (t : ty) : bool := ty_eqb t tint || ty_eqb t tfloat.
Lemma num_ty_b_sound t : num_ty_b t = true -> num_ty t.
Proof.
  unfold num_ty_b, num_ty, tint, tfloat. intros H. apply orb_prop in H as [H|H]; destruct t as [[[]| |]| | |]; cbn in H; try discriminate; auto.
Qed.

Definition ssimple0 (s : stmt) : bool :=
  match s with
  | SDecl t _ None => num_ty_b t
  | SDecl t _ (Some e) => num_ty_b t && spure e
  | SExpr (EAssign AAssign (EVar _) e) => spure e
  | _ => false
  end.
Definition stok (s : tstmt) : bool :=
  match s with TDecl _ _ (Some e) => tok e | TExpr (XAssign _ e) => tok e | _ => true end.
Definition stexprs (s : tstmt) : list texpr := match s with TDecl _ _ (Some e) => [e] | TExpr (XAssign _ e) => [e] | _ => [] end.

Definition env_step (env : tenv) (s : stmt) : tenv := match s with SDecl t x _ => tdeclare env x t | _ => env end.
Definition env_after (env : tenv) (l : list stmt) : tenv := fold_left env_step l env.

Section Stage2S.
  Variable M : module.
  Variable G : genv.
  Variable structs : list sdef.
  Variable gl args : list string.
  Variable cs : list (nat * irty * cval).

  Definition lit_ok (te : texpr) : Prop :=
    (forall z, In z (tilits te) -> exists c, const_lookup cs (ITInt false) (KInt z) = Some c /\ snd c = KInt z) /\
    (forall f, In f (tflits te) -> (exists c, const_lookup cs ITFloat (KFloat f) = Some c /\ snd c = KFloat f) /\ PrimFloat.eqb f f = true).
  Definition fresh_decl (s : stmt) : Prop :=
    match s with SDecl _ x _ => existsb (String.eqb x) gl = false /\ existsb (String.eqb x) args = false | _ => True end.

  Definition Agree (env : tenv) (st : RefSem.state) (locals : list string) (V : list (string * val)) (A : list val) (vs : vmstate) : Prop :=
    forall x t, tlookup env x = Some t ->
      num_ty t /\ exists w, var_get st x = RefSem.ROk (SV w) /\ has_ty w t /\ var_val gl args locals (mkfr V A) vs x = Ok (v_of w).

  Lemma tlookup_tdeclare_same env x t : tlookup (tdeclare env x t) x = Some t.
  Proof. destruct env as [|sc r]; cbn; rewrite String.eqb_refl; reflexivity. Qed.
  Lemma tlookup_tdeclare_other env x t y : y <> x -> tlookup (tdeclare env x t) y = tlookup env y.
  Proof. intros H. destruct env as [|sc r]; cbn; destruct (String.eqb_spec x y); try congruence; reflexivity. Qed.

  Lemma zero_agree c : c <> CUInt ->
    zero_of (m_structs M) 8 (TPrim (PScalar c)) = SV (zero_rval c) /\ has_ty (zero_rval c) (TPrim (PScalar c)) /\
    zero_val (adapt structs 8 (TPrim (PScalar c))) = v_of (zero_rval c).
  Proof. destruct c; try congruence; intros _; repeat split. Qed.

  Lemma Agree_declare env st locals V A vs x c : c <> CUInt ->
    existsb (String.eqb x) gl = false -> existsb (String.eqb x) args = false -> Agree env st locals V A vs ->
    Agree (tdeclare env x (TPrim (PScalar c))) (declare st x (zero_of (m_structs M) 8 (TPrim (PScalar c)))) (x :: locals)
          (supdate x (zero_val (adapt structs 8 (TPrim (PScalar c)))) V) A vs.
  Proof.
    intros Hc Hg Ha Hag y t Hy. destruct (zero_agree c Hc) as (Hz1 & Hz2 & Hz3). destruct (String.eqb_spec y x) as [->|Hne].
    - rewrite tlookup_tdeclare_same in Hy. inversion Hy; subst t. split; [destruct c; try congruence; [right|left]; reflexivity|].
      exists (zero_rval c). rewrite Hz1, declare_get. split; [reflexivity|]. split; [exact Hz2|].
      unfold var_val. rewrite Hg, Ha. cbn [existsb]. rewrite String.eqb_refl. cbn [orb mkfr vars]. rewrite slookup_supdate_same, Hz3. reflexivity.
    - rewrite (tlookup_tdeclare_other _ _ _ _ Hne) in Hy. destruct (Hag y t Hy) as (Hn & w & Hw1 & Hw2 & Hw3). split; [exact Hn|]. exists w.
      rewrite (declare_other _ _ _ _ Hne). split; [exact Hw1|]. split; [exact Hw2|].
      unfold var_val in *. cbn [existsb mkfr vars fargs] in *. destruct (String.eqb_spec y x); [contradiction|]. cbn [orb].
      rewrite (slookup_supdate_other _ _ _ _ Hne). exact Hw3.
  Qed.

  Lemma Agree_store env st locals V A vs x t w st' V' A' vs' :
    Agree env st locals V A vs -> tlookup env x = Some t -> has_ty w t -> var_set st x (SV w) = RefSem.ROk st' ->
    store_var gl args locals V A vs x (v_of w) = Some (V', A', vs') -> Agree env st' locals V' A' vs'.
  Proof.
    intros Hag Hx Hw Hset Hst y t' Hy. destruct (String.eqb_spec y x) as [->|Hne].
    - rewrite Hx in Hy. inversion Hy; subst t'. destruct (Hag x t Hx) as (Hn & _). split; [exact Hn|]. exists w.
      rewrite (var_set_get _ _ _ _ Hset). split; [reflexivity|]. split; [exact Hw|].
      unfold store_var in Hst. unfold var_val. destruct (existsb (String.eqb x) gl).
      + inversion Hst; subst. cbn [globals]. rewrite slookup_supdate_same. reflexivity.
      + destruct (existsb (String.eqb x) args).
        * destruct (arg_idx args x) as [s0|n]; [discriminate|]. destruct (Nat.ltb n (length A)) eqn:El; [|discriminate]. inversion Hst; subst.
          cbn [mkfr fargs]. apply Nat.ltb_lt in El. rewrite (nth_list_set_same' _ A n El). reflexivity.
        * destruct (existsb (String.eqb x) locals); [|discriminate]. inversion Hst; subst. cbn [mkfr vars]. rewrite slookup_supdate_same. reflexivity.
    - destruct (Hag y t' Hy) as (Hn & w' & Hw1 & Hw2 & Hw3). split; [exact Hn|]. exists w'. rewrite (var_set_other _ _ _ _ y Hset Hne).
      split; [exact Hw1|]. split; [exact Hw2|].
      unfold store_var in Hst. unfold var_val in *. cbn [mkfr vars fargs] in *.
      destruct (existsb (String.eqb x) gl) eqn:Egx.
      + inversion Hst; subst. cbn [globals]. destruct (existsb (String.eqb y) gl); [rewrite (slookup_supdate_other _ _ _ _ Hne); exact Hw3|exact Hw3].
      + destruct (existsb (String.eqb x) args) eqn:Eax.
        * destruct (arg_idx args x) as [s0|n] eqn:Eix; [discriminate|]. destruct (Nat.ltb n (length A)); [|discriminate]. inversion Hst; subst.
          destruct (existsb (String.eqb y) gl); [exact Hw3|]. destruct (existsb (String.eqb y) args); [|exact Hw3].
          destruct (arg_idx args y) as [s1|m] eqn:Eiy; [exact Hw3|].
          assert (n <> m).
          { rewrite arg_idx_go in Eix, Eiy. destruct (go_idx_nth x args 0 n Eix) as [_ H1]. destruct (go_idx_nth y args 0 m Eiy) as [_ H2]. rewrite Nat.sub_0_r in *. congruence. }
          rewrite (nth_list_set_other _ A n m H). exact Hw3.
        * destruct (existsb (String.eqb x) locals); [|discriminate]. inversion Hst; subst.
          destruct (existsb (String.eqb y) gl); [exact Hw3|]. destruct (existsb (String.eqb y) args); [exact Hw3|].
          destruct (existsb (String.eqb y) locals); [|exact Hw3]. rewrite (slookup_supdate_other _ _ _ _ Hne). exact Hw3.
  Qed.

  (** a bound name can be stored to *)
  Lemma store_var_defined locals V A vs x w0 w : var_val gl args locals (mkfr V A) vs x = Ok w0 -> exists r, store_var gl args locals V A vs x w = Some r.
  Proof.
    unfold var_val, store_var. cbn [mkfr vars fargs]. destruct (existsb (String.eqb x) gl); [eauto|]. destruct (existsb (String.eqb x) args).
    - destruct (arg_idx args x) as [s0|n]; [discriminate|]. destruct (nth_error A n) eqn:En; [|discriminate]. intros _.
      assert (n < length A) by (apply nth_error_Some; congruence). apply Nat.ltb_lt in H. rewrite H. eauto.
    - destruct (existsb (String.eqb x) locals); [eauto|discriminate].
  Qed.

  Lemma lit_teval te locals fr vs : lit_ok te ->
    (forall z, In z (tilits te) -> teval structs gl args cs locals fr vs (XInt z) = Ok (VInt z)) /\
    (forall f, In f (tflits te) -> teval structs gl args cs locals fr vs (XFloat f) = Ok (VFloat f) /\ PrimFloat.eqb f f = true).
  Proof.
    intros [Hi Hf]. split.
    - intros z Hz. destruct (Hi z Hz) as (c & Hc & Hs). cbn [teval]. rewrite Hc, Hs. reflexivity.
    - intros f Hin. destruct (Hf f Hin) as ((c & Hc & Hs) & Hn). split; [|exact Hn]. cbn [teval]. rewrite Hc, Hs. reflexivity.
  Qed.

  Theorem simple_stmt_preserved_0 : forall s ts env env' fuel st fl st1 locals V A vs,
    ssimple0 s = true -> elab_stmt G env s = EOk (ts, env') -> stok ts = true -> (forall te, In te (stexprs ts) -> lit_ok te) -> fresh_decl s ->
    exec M fuel s st = RefSem.ROk (fl, st1) -> Agree env st locals V A vs ->
    fl = ONormal /\ simple ts = true /\
    exists locals' V' A' vs', texec structs gl args cs locals V A vs ts = Some (locals', V', A', vs') /\ Agree env' st1 locals' V' A' vs'.
  Proof.
    intros s ts env env' fuel st fl st1 locals V A vs Hs He Hk Hlit Hfr Hex Hag.
    destruct fuel as [|fu]; [discriminate|].
    destruct s as [t x init|e| | | | | | | |]; try discriminate.
    - (* declaration *)
      rewrite exec_decl_unfold in Hex. cbn [elab_stmt] in He. cbn [fresh_decl] in Hfr. destruct Hfr as [Hg Ha].
      destruct init as [e|].
      + cbn [ssimple0] in Hs. apply andb_prop in Hs as [Hnt Hp]. pose proof (num_ty_b_sound _ Hnt) as Hnum.
        destruct (num_ty_cases _ Hnum) as (c & -> & Hc).
        cbn [elab_opt ebind] in He. destruct (elab G COn (tdeclare env x (TPrim (PScalar c))) e) as [te| |] eqn:Ee; cbn [ebind] in He; try discriminate.
        destruct (ty_eqb (type_of te) (TPrim (PScalar c))) eqn:Ety; [|discriminate]. inversion He; subst ts env'; clear He.
        cbn [stok] in Hk. pose proof (Agree_declare env st locals V A vs x c Hc Hg Ha Hag) as Hag1.
        set (st0 := declare st x (zero_of (m_structs M) 8 (TPrim (PScalar c)))) in *.
        set (V1 := supdate x (zero_val (adapt structs 8 (TPrim (PScalar c)))) V) in *.
        cbn zeta in Hex. destruct (eval M fu e st0) as [[v st2]| | |] eqn:Ev; cbn [rbind] in Hex; try discriminate.
        destruct (lit_teval te (x :: locals) (mkfr V1 A) vs (Hlit te (or_introl eq_refl))) as [Hli Hlf].
        destruct (elab_pure_correct M G structs gl args cs (x :: locals) (mkfr V1 A) vs _ st0 Hag1 e te Hp Ee Hk Hli Hlf) as (Hpt & Hsem).
        destruct (Hsem _ _ _ Ev) as (-> & w & -> & Hwt & Hwv).
        destruct (var_set st0 x (SV w)) as [st3| | |] eqn:Evs; cbn [rbind] in Hex; try discriminate. inversion Hex; subst fl st1; clear Hex.
        split; [reflexivity|]. split; [cbn [simple]; exact Hpt|].
        cbn [texec]. fold V1. rewrite Hwv. eexists _, _, _, _. split; [reflexivity|].
        apply (Agree_store (tdeclare env x (TPrim (PScalar c))) st0 (x :: locals) V1 A vs x (TPrim (PScalar c)) w st3); auto.
        * apply tlookup_tdeclare_same.
        * rewrite <- (ty_eqb_prim_r _ _ Ety). exact Hwt.
        * unfold store_var. rewrite Hg, Ha. cbn [existsb]. rewrite String.eqb_refl. reflexivity.
      + cbn [ssimple0] in Hs. pose proof (num_ty_b_sound _ Hs) as Hnum. destruct (num_ty_cases _ Hnum) as (c & -> & Hc).
        cbn [elab_opt ebind] in He. inversion He; subst ts env'; clear He. cbn zeta in Hex. inversion Hex; subst fl st1; clear Hex.
        split; [reflexivity|]. split; [reflexivity|]. cbn [texec]. eexists _, _, _, _. split; [reflexivity|].
        apply Agree_declare; assumption.
    - (* assignment *)
      destruct e as [| | | |o l r| | | | | |]; try discriminate. destruct o; try discriminate. destruct l as [| |x| | | | | | | |]; try discriminate.
      cbn [ssimple0] in Hs. rewrite exec_expr_unfold in Hex. cbn [elab_stmt ebind] in He.
      destruct (elab G COn env (EAssign AAssign (EVar x) r)) as [e'| |] eqn:Ee; cbn [ebind] in He; try discriminate. inversion He; subst ts env'; clear He.
      cbn [elab kids ebind aop_op] in Ee. destruct (tlookup env x) as [t|] eqn:Etx; cbn [ebind] in Ee; try discriminate.
      destruct (elab G COn env r) as [te| |] eqn:Er; cbn [ebind] in Ee; try discriminate.
      cbn [type_of] in Ee. destruct (ty_eqb t (type_of te) && is_scalar_ty t) eqn:Ec; [|discriminate]. inversion Ee; subst e'; clear Ee.
      apply andb_prop in Ec as [Ety Hsc]. cbn [stok] in Hk.
      destruct fu as [|fu']; [discriminate|]. rewrite eval_assign_unfold in Hex.
      destruct (eval M fu' r st) as [[v st2]| | |] eqn:Ev; cbn [rbind] in Hex; try discriminate.
      destruct (lit_teval te locals (mkfr V A) vs (Hlit te (or_introl eq_refl))) as [Hli Hlf].
      destruct (elab_pure_correct M G structs gl args cs locals (mkfr V A) vs env st Hag r te Hs Er Hk Hli Hlf) as (Hpt & Hsem).
      destruct (Hsem _ _ _ Ev) as (-> & w & -> & Hwt & Hwv).
      destruct (Hag x t Etx) as (Hnum & w0 & Hg0 & _ & Hv0). rewrite Hg0 in Hex. cbn [rbind sto_set] in Hex.
      destruct (var_set st x (SV w)) as [st3| | |] eqn:Evs; cbn [rbind] in Hex; try discriminate. inversion Hex; subst fl st1; clear Hex. cbn [snd].
      split; [reflexivity|]. destruct (num_ty_cases _ Hnum) as (c & -> & Hc).
      split; [cbn [simple]; exact Hpt|].
      destruct (store_var_defined locals V A vs x (v_of w0) (v_of w) Hv0) as [[[V' A'] vs'] Hst].
      cbn [texec]. rewrite Hwv, Hst. eexists _, _, _, _. split; [reflexivity|].
      apply (Agree_store env st locals V A vs x (TPrim (PScalar c)) w st3 V' A' vs'); auto.
      rewrite <- (ty_eqb_prim_l _ _ Ety). exact Hwt.
  Qed.
End Stage2S.

(** ** bodies: simple statements, then [return e] *)
(** ** compound assignment: [x op= e] is [x = x op e] for the front end and for the reference semantics *)
Definition desugar (s : stmt) : stmt :=
  match s with
  | SExpr (EAssign o (EVar x) r) => match aop_binop o with Some bo => SExpr (EAssign AAssign (EVar x) (EBin bo (EVar x) r)) | None => s end
  | _ => s
  end.
Definition ssimple (s : stmt) : bool := ssimple0 (desugar s).

Lemma desugar_elab G env s : elab_stmt G env s = elab_stmt G env (desugar s).
Proof.
  destruct s as [| e | | | | | | | |]; try reflexivity. destruct e as [| | | |o l r| | | | | |]; try reflexivity. destruct l as [| |x| | | | | | | |]; try reflexivity.
  destruct o; try reflexivity; cbn [desugar aop_binop elab_stmt]; f_equal;
    cbn [elab kids ebind aop_op self_on]; destruct (tlookup env x) as [t|]; cbn [ebind]; try reflexivity;
    destruct (elab G COn env r) as [r0| |]; cbn [ebind]; try reflexivity;
    cbn [type_of]; destruct t as [pl| | |]; try reflexivity; destruct (type_of r0) as [pr| | |]; try reflexivity;
    destruct (resolve_binop _ pl pr); try reflexivity; destruct (is_scalar pl && is_scalar pr); reflexivity.
Qed.

Lemma eval_compound M fu o l r st bo : aop_binop o = Some bo -> eval M (S fu) (EAssign o l r) st = eval M fu (EAssign AAssign l (EBin bo l r)) st.
Proof. destruct o; cbn [aop_binop]; intros H; inversion H; reflexivity. Qed.

Lemma desugar_exec M s : forall fuel st r, exec M fuel s st = RefSem.ROk r -> exists fuel', exec M fuel' (desugar s) st = RefSem.ROk r.
Proof.
  intros fuel st r H. destruct s as [| e | | | | | | | |]; try (exists fuel; exact H). destruct e as [| | | |o l r0| | | | | |]; try (exists fuel; exact H).
  destruct l as [| |x| | | | | | | |]; try (exists fuel; exact H). cbn [desugar]. destruct (aop_binop o) as [bo|] eqn:Eo; [|exists fuel; exact H].
  destruct fuel as [|[|fu]]; try discriminate.
  rewrite exec_expr_unfold in H. rewrite (eval_compound M fu o (EVar x) r0 st bo Eo) in H. exists (S fu). rewrite exec_expr_unfold. exact H.
Qed.

Lemma desugar_simple0 s : ssimple s = true -> ssimple0 (desugar s) = true.
Proof. intros H; exact H. Qed.
Lemma desugar_decl s : ssimple s = true -> (forall t x i, s = SDecl t x i -> desugar s = s).
Proof. intros _ t x i ->. reflexivity. Qed.
Lemma desugar_env_step env s : env_step env (desugar s) = env_step env s.
Proof. destruct s as [| e | | | | | | | |]; try reflexivity. destruct e as [| | | |o l r| | | | | |]; try reflexivity. destruct l; try reflexivity. cbn. destruct (aop_binop o); reflexivity. Qed.

Section Stage2W.
  Variable M : module.
  Variable G : genv.
  Variable structs : list sdef.
  Variable gl args : list string.
  Variable cs : list (nat * irty * cval).

  Lemma desugar_fresh s : fresh_decl gl args (desugar s) <-> fresh_decl gl args s.
  Proof. destruct s as [| e | | | | | | | |]; try tauto. destruct e as [| | | |o l r| | | | | |]; try tauto. destruct l; try tauto. cbn. destruct (aop_binop o); cbn; tauto. Qed.

  Theorem simple_stmt_preserved : forall s ts env env' fuel st fl st1 locals V A vs,
    ssimple s = true -> elab_stmt G env s = EOk (ts, env') -> stok ts = true -> (forall te, In te (stexprs ts) -> lit_ok cs te) -> fresh_decl gl args s ->
    exec M fuel s st = RefSem.ROk (fl, st1) -> Agree gl args env st locals V A vs ->
    fl = ONormal /\ simple ts = true /\
    exists locals' V' A' vs', texec structs gl args cs locals V A vs ts = Some (locals', V', A', vs') /\ Agree gl args env' st1 locals' V' A' vs'.
  Proof.
    intros s ts env env' fuel st fl st1 locals V A vs Hs He Hk Hlit Hfr Hex Hag.
    rewrite desugar_elab in He. apply desugar_exec in Hex as [fuel' Hex]. apply desugar_fresh in Hfr.
    exact (simple_stmt_preserved_0 M G structs gl args cs (desugar s) ts env env' fuel' st fl st1 locals V A vs Hs He Hk Hlit Hfr Hex Hag).
  Qed.
End Stage2W.

Section Body.
  Variable M : module.
  Variable G : genv.
  Variable structs : list sdef.
  Variable gl args : list string.
  Variable cs : list (nat * irty * cval).

  Definition body_exprs (tl : list tstmt) : list texpr := flat_map stexprs tl.

  Lemma elab_body_app_ret : forall l env e tb, elab_body G env (l ++ [SRet (Some e)]) = EOk tb ->
    exists tl te env1, tb = tl ++ [TRet (Some te)] /\ elab G COn env1 e = EOk te /\ length tl = length l.
  Proof.
    induction l as [|s r IH]; intros env e tb H; cbn [app elab_body] in H.
    - cbn [elab_stmt elab_opt ebind] in H. destruct (elab G COn env e) as [te| |] eqn:Ee; cbn [ebind elab_body] in H; try discriminate.
      inversion H; subst. exists [], te, env. auto.
    - destruct (elab_stmt G env s) as [[ts env']| |] eqn:Es; cbn [ebind] in H; try discriminate.
      destruct (elab_body G env' (r ++ [SRet (Some e)])) as [tb'| |] eqn:Er; cbn [ebind] in H; try discriminate. inversion H; subst tb.
      destruct (IH env' e tb' Er) as (tl & te & env1 & -> & Hte & Hlen). exists (ts :: tl), te, env1. cbn. auto.
  Qed.

  Lemma elab_stmt_env_0 env s ts env' : ssimple0 s = true -> elab_stmt G env s = EOk (ts, env') -> env' = env_step env s.
  Proof.
    intros Hs He. destruct s as [t x init|e0| | | | | | | |]; try discriminate; cbn [elab_stmt env_step] in *.
    - destruct init as [e0|]; cbn [elab_opt ebind] in He.
      + destruct (elab G COn (tdeclare env x t) e0) as [te0| |]; cbn [ebind] in He; try discriminate. destruct (ty_eqb (type_of te0) t); [|discriminate]. inversion He; reflexivity.
      + inversion He; reflexivity.
    - destruct (elab G COn env e0) as [e'| |]; cbn [ebind] in He; try discriminate. inversion He; reflexivity.
  Qed.

  Lemma elab_stmt_env env s ts env' : ssimple s = true -> elab_stmt G env s = EOk (ts, env') -> env' = env_step env s.
  Proof. intros Hs He. rewrite desugar_elab in He. rewrite <- (desugar_env_step env s). exact (elab_stmt_env_0 env (desugar s) ts env' Hs He). Qed.

  Theorem simple_body_preserved : forall l env e tl te fuel st fl st1 locals V A vs,
    forallb ssimple l = true -> spure e = true ->
    elab_body G env (l ++ [SRet (Some e)]) = EOk (tl ++ [TRet (Some te)]) -> length tl = length l ->
    forallb stok tl = true -> tok te = true -> (forall x, In x (body_exprs tl) -> lit_ok cs x) -> lit_ok cs te ->
    Forall (fresh_decl gl args) l ->
    exec_list M fuel (l ++ [SRet (Some e)]) st = RefSem.ROk (fl, st1) -> Agree gl args env st locals V A vs ->
    forallb simple tl = true /\ tpure te = true /\
    exists locals' V' A' vs' v,
      texec_list structs gl args cs locals V A vs tl = Some (locals', V', A', vs') /\
      teval structs gl args cs locals' (mkfr V' A') vs' te = Ok (v_of v) /\ fl = OReturn (SV v) /\
      Agree gl args (env_after env l) st1 locals' V' A' vs'.
  Proof.
    induction l as [|s r IH]; intros env e tl te fuel st fl st1 locals V A vs Hs Hp He Hlen Hk Hkt Hlit Hlt Hfr Hex Hag.
    - destruct tl; [|discriminate]. cbn [app] in *. cbn [elab_body elab_stmt elab_opt ebind] in He.
      destruct (elab G COn env e) as [te'| |] eqn:Ee; cbn [ebind elab_body] in He; try discriminate. inversion He; subst te'; clear He.
      apply exec_list_return in Hex as (fu & s0 & Hev & ->).
      destruct (lit_teval structs gl args cs te locals (mkfr V A) vs Hlt) as [Hli Hlf].
      destruct (elab_pure_correct M G structs gl args cs locals (mkfr V A) vs env st Hag e te Hp Ee Hkt Hli Hlf) as (Hpt & Hsem).
      destruct (Hsem _ _ _ Hev) as (-> & v & -> & _ & Hv).
      split; [reflexivity|]. split; [exact Hpt|]. exists locals, V, A, vs, v. cbn [texec_list]. split; [reflexivity|]. split; [exact Hv|]. split; [reflexivity|exact Hag].
    - destruct tl as [|ts tl]; [discriminate|]. cbn [app] in *. cbn [elab_body] in He.
      destruct (elab_stmt G env s) as [[ts' env']| |] eqn:Es; cbn [ebind] in He; try discriminate.
      destruct (elab_body G env' (r ++ [SRet (Some e)])) as [tb'| |] eqn:Er; cbn [ebind] in He; try discriminate. inversion He; subst ts' tb'; clear He.
      cbn [forallb] in Hs, Hk. apply andb_prop in Hs as [Hs1 Hsr]. apply andb_prop in Hk as [Hk1 Hkr]. inversion Hfr as [|? ? Hf1 Hfr']; subst.
      destruct fuel as [|fu]; [discriminate|]. rewrite exec_list_cons in Hex.
      destruct (exec M fu s st) as [[fl1 st2]| | |] eqn:Ex; cbn [rbind] in Hex; try discriminate.
      destruct (simple_stmt_preserved M G structs gl args cs s ts env env' fu st fl1 st2 locals V A vs Hs1 Es Hk1) as (-> & Hsim & locals1 & V1 & A1 & vs1 & Ht1 & Hag1); auto.
      { intros x Hx. apply Hlit. unfold body_exprs. cbn [flat_map]. apply in_or_app. left. exact Hx. }
      destruct (IH env' e tl te fu st2 fl st1 locals1 V1 A1 vs1 Hsr Hp Er) as (Hsim' & Hpt & locals' & V' & A' & vs' & v & Ht2 & Hv & Hfl & Henv); auto.
      { intros x Hx. apply Hlit. unfold body_exprs. cbn [flat_map]. apply in_or_app. right. exact Hx. }
      rewrite (elab_stmt_env env s ts env' Hs1 Es) in Henv.
      split; [cbn [forallb]; rewrite Hsim, Hsim'; reflexivity|]. split; [exact Hpt|].
      exists locals', V', A', vs', v. cbn [texec_list]. rewrite Ht1. split; [exact Ht2|]. split; [exact Hv|]. split; [exact Hfl|exact Henv].
  Qed.
End Body.
