(** * C04: assigning through an index changes exactly the selected component of a copy (VECTOR_SET), and the vector the
    copy was taken from stays as it was. *)
From Coq Require Import String ZArith List Bool Arith Lia PrimFloat.
From NSL Require Import Model.PyNum Model.IR Model.VM Proofs.WfIRProofs Proofs.CallProofs.
Import ListNotations.
Local Open Scope Z_scope.

Definition is_scalar_val (v : val) : bool := match v with VRef _ => false | _ => true end.

(** deepcopy of a list of scalars: a new object with the same elements *)
Lemma deepcopy_scalars_fold fu : forall l h out, forallb is_scalar_val l = true ->
  fold_left (fun acc x => do p <- acc; let '(h', o) := p in do q <- deepcopy fu h' x; let '(h'', x') := q in Ok (h'', o ++ [x'])) l (Ok (h, out))
  = Ok (h, out ++ l).
Proof.
  induction l as [|x l IH]; intros h out H; cbn [fold_left]; [rewrite app_nil_r; reflexivity|].
  cbn in H. apply andb_prop in H as [Hx Hl].
  assert (E : deepcopy fu h x = Ok (h, x)) by (destruct x; try discriminate; destruct fu; reflexivity).
  cbn [bind]. rewrite E. cbn [bind]. rewrite (IH h (out ++ [x]) Hl). rewrite <- app_assoc. reflexivity.
Qed.

Lemma deepcopy_vector fu h a l : hget h a = Some (OList l) -> forallb is_scalar_val l = true ->
  deepcopy (S fu) h (VRef a) = Ok (h ++ [OList l], VRef (length h)).
Proof.
  intros Ha Hl. cbn [deepcopy]. rewrite Ha. rewrite (deepcopy_scalars_fold fu l h [] Hl). cbn. reflexivity.
Qed.

Lemma hget_app_new (h : heap) o : hget (h ++ [o]) (length h) = Some o.
Proof. unfold hget. rewrite nth_error_app2 by lia. rewrite Nat.sub_diag. reflexivity. Qed.

Lemma list_set_app_new {A} (h : list A) o o' : list_set (h ++ [o]) (length h) o' = h ++ [o'].
Proof. induction h as [|x h IH]; cbn; [reflexivity|]. rewrite IH. reflexivity. Qed.

(** VECTOR_SET: the result register refers to a NEW object equal to the source vector except at index i, where it
    holds the stored scalar; every object that existed before -- the source vector included -- is unchanged. *)
Theorem step_vector_set : forall F pc fr st i k arr idx src pa l (z : Z) w,
  i_body i = ISetIdx k arr idx src ->
  rget fr src = Ok w -> rget fr arr = Ok (VRef pa) -> rget fr idx = Ok (VInt z) ->
  hget (hp st) pa = Some (OList l) -> forallb is_scalar_val l = true ->
  0 <= z < Z.of_nat (length l) ->
  step F pc fr st i = StNext (S pc) (rset fr (i_ref i) (VRef (length (hp st)))) (with_heap st (hp st ++ [OList (list_set l (Z.to_nat z) w)])).
Proof.
  intros F pc fr st i k arr idx src pa l z w Hb Hs Ha Hi Hpa Hl Hz.
  unfold step. rewrite Hb. rewrite Hs. cbn [lift]. rewrite Ha. cbn [lift].
  rewrite (deepcopy_vector 7 (hp st) pa l Hpa Hl). cbn [lift]. rewrite Hi. cbn [lift].
  unfold py_setitem. rewrite hget_app_new. unfold norm_index.
  assert (E : (0 <=? z) && (z <? Z.of_nat (length l)) = true) by (apply andb_true_intro; split; [apply Z.leb_le|apply Z.ltb_lt]; lia).
  rewrite E. cbn [bind lift]. unfold hset. rewrite list_set_app_new. reflexivity.
Qed.

(** exactly the selected component changes *)
Lemma list_set_nth_same {A} (l : list A) n x : (n < length l)%nat -> nth_error (list_set l n x) n = Some x.
Proof. revert n; induction l; intros [|n] H; cbn in *; try lia; auto. apply IHl. lia. Qed.
Lemma list_set_nth_other {A} (l : list A) n m x : n <> m -> nth_error (list_set l m x) n = nth_error l n.
Proof. revert n m; induction l; intros [|n] [|m] H; cbn; auto; try congruence. Qed.

Corollary vector_set_exact : forall (l : list val) i w,
  (i < length l)%nat ->
  nth_error (list_set l i w) i = Some w /\ (forall j, j <> i -> nth_error (list_set l i w) j = nth_error l j) /\ length (list_set l i w) = length l.
Proof.
  intros l i w H. split; [apply list_set_nth_same; exact H|]. split; [intros j Hj; apply list_set_nth_other; exact Hj|].
  clear H. revert i; induction l; intros [|i]; cbn; auto.
Qed.
