(** * Specification of operator typing (C09), transcribed sentence by sentence from the property. *)
From Coq Require Import String ZArith List Bool Arith.
From NSL Require Import Base.Types.
Import ListNotations.

(** "two scalars promote to the wider of float > int > uint" *)
Definition wider (a b : comp) : comp :=
  match a, b with
  | CFloat, _ | _, CFloat => CFloat
  | CInt, _ | _, CInt => CInt
  | CUInt, CUInt => CUInt
  end.

(** the outcome the language defines for (operator, left, right) *)
Inductive typing :=
  | Rejected                                  (* "every other combination is rejected" *)
  | Undefined                                 (* "comparing two matrices is left undefined" *)
  | Typed (result : list pty) (left right : pty).
      (* acceptable result types (a r x 1 shape may be written as a vector or as a one-column matrix),
         and the types the two operands are converted to *)

Definition spec_binop (o : binop) (l r : pty) : typing :=
  let c := wider (comp_of l) (comp_of r) in
  if is_comparison o then
    match l, r with
    | PScalar _, PScalar _ => Typed [PScalar CInt] (PScalar c) (PScalar c)
    | PVec _ n, PVec _ m => if Nat.eqb n m then Typed [PVec CInt n] (PVec c n) (PVec c n) else Rejected
    | PMat _ _ _, PMat _ _ _ => Undefined
    | _, _ => Rejected
    end
  else match o with
  | ODiv =>   (* "/ takes a scalar right operand under any left shape" *)
      match r with
      | PScalar _ => Typed [with_comp l c] (with_comp l c) (PScalar c)
      | _ => Rejected
      end
  | OMul =>   (* scalar on either side; matrix times matrix or vector with agreeing inner dimensions; never vector x vector *)
      match l, r with
      | PScalar _, _ => Typed [with_comp r c] (PScalar c) (with_comp r c)
      | _, PScalar _ => Typed [with_comp l c] (with_comp l c) (PScalar c)
      | PMat _ rows k, PMat _ k' cols =>
          if Nat.eqb k k' then
            Typed (if Nat.eqb cols 1 then [PMat c rows 1; PVec c rows] else [PMat c rows cols]) (with_comp l c) (with_comp r c)
          else Rejected
      | PMat _ rows k, PVec _ n =>
          if Nat.eqb k n then Typed [PVec c rows; PMat c rows 1] (with_comp l c) (with_comp r c) else Rejected
      | _, _ => Rejected
      end
  | _ =>      (* + - % && || : two scalars, or two vectors / two matrices of identical shape, component-wise *)
      match l, r with
      | PScalar _, PScalar _ => Typed [PScalar c] (PScalar c) (PScalar c)
      | PVec _ n, PVec _ m => if Nat.eqb n m then Typed [PVec c n] (PVec c n) (PVec c n) else Rejected
      | PMat _ a b, PMat _ a' b' => if Nat.eqb a a' && Nat.eqb b b' then Typed [PMat c a b] (PMat c a b) (PMat c a b) else Rejected
      | _, _ => Rejected
      end
  end.
