"""C01 -- Compiled programs compute what the source says (scalar core, VM)."""
import os, json
import shapes, nslgen, gentyped, vmcases
from common import TranslatorAbort

STATIC = ["Base/Syntax.v", "Model/PyNum.v", "Model/IR.v", "Model/VM.v", "Model/Elab.v", "Model/Lower.v", "Spec/RefSem.v", "Proofs/OpsAgree.v",
          "Proofs/LowerExprProofs.v", "Proofs/ElabExprProofs.v", "Proofs/ReturnExprProofs.v", "Proofs/CallAgreeProofs.v", "Proofs/ReturnExprExample.v", "Harness/FragLib.v",
          "Proofs/LowerStmtProofs.v", "Proofs/ElabStmtProofs.v", "Proofs/StraightLineProofs.v", "Proofs/StraightLineExample.v", "Harness/FragLib2.v", "Proofs/FlowLowerProofs.v", "Proofs/FlowFuncProofs.v", "Harness/FlowLib.v",
          "Proofs/FlowElabProofs.v", "Proofs/FlowTableProofs.v", "Proofs/FlowSimProofs.v", "Proofs/FlowSimExample.v", "Harness/FlowLib2.v",
          "Proofs/LoopLowerProofs.v", "Proofs/LoopElabProofs.v", "Proofs/LoopSimProofs.v", "Proofs/LoopSimExample.v", "Proofs/DoSimExample.v", "Proofs/ForLowerExample.v", "Proofs/ForElabProofs.v", "Proofs/ForSimExample.v", "Harness/LoopLib.v"]


def gen_programs(ctx, n):
    rng = ctx.rng
    out = []
    for k in range(n):
        g = gentyped.TGen(rng, floats=(k % 5 != 0), arrays=(k % 3 != 0), structs=(k % 4 == 0), calls=(k % 2 == 0), max_depth=2 + k % 2)
        m, exported, globs = g.module()
        calls = g.calls(exported, globs, 3)
        mode = ["canonical", "dense", "wild", "lines"][k % 4]
        text, _ = nslgen.render(m, mode, rng)
        out.append((m, calls, text))
    return out


def return_programs(ctx, n):
    """modules whose functions are `return <pure scalar expression>;` over int/float parameters and globals: the fragment of
    theorem C01_return_expression_functions_partial (a few with && / || on float operands, outside its [tok] restriction)"""
    from nslgen import Module, Global, Func, Arg, Block, Ret, B, V
    rng = ctx.rng
    out = []
    for k in range(n):
        g = gentyped.TGen(rng, floats=True, arrays=False, structs=False, calls=False, side_effects=False, max_depth=3)
        genv = gentyped.Env()
        genv.vars = {"g0": "int", "g1": "float"}
        items = [Global("int", "g0"), Global("float", "g1")]
        sigs = []
        for j in range(rng.choice([1, 2, 3])):
            ret = rng.choice(["int", "float"])
            params = [("int", "a"), ("float", "b"), ("int", "c")][: rng.choice([1, 2, 3])]
            env = gentyped.Env(genv); env.bounds = {}
            for t, nm in params:
                env.vars[nm] = t
            e = g.expr(env, ret, 2 + k % 3, pure=True)
            if k % 9 == 8 and j == 0:
                e = B("&&", V("g1"), e)            # float operand of a logical operator
                ret = "int"
            items.append(Func("f%d" % j, [Arg(t, nm) for t, nm in params], ret, Block([Ret(e)]), export=True))
            sigs.append(("f%d" % j, params))
        calls = []
        for c in range(3):
            fname, params = rng.choice(sigs)
            calls.append({"fn": fname, "args": {nm: (rng.randrange(-6, 9) if t == "int" else rng.choice([0.5, -1.25, 3.0, 0.1, 7.5, -0.3])) for t, nm in params},
                          "globals": {"g0": rng.randrange(-4, 7), "g1": rng.choice([0.25, -2.0, 1.1])} if c == 0 else {}, "read_globals": ["g0", "g1"]})
        m = Module(items)
        text, _ = nslgen.render(m, ["canonical", "dense", "wild", "lines"][k % 4], rng)
        out.append((m, calls, text))
    return out


def straight_programs(ctx, n):
    """modules of straight-line functions: declarations of int / float locals (with and without initialiser), plain assignments to locals,
    parameters and globals, a return -- the fragment of theorem C01_straight_line_functions_partial (some with += or a float && to fall outside)"""
    from nslgen import Module, Global, Func, Arg, Block, Ret, B, V, Decl, ES, A
    rng = ctx.rng
    out = []
    for k in range(n):
        g = gentyped.TGen(rng, floats=(k % 4 != 0), arrays=False, structs=False, calls=False, side_effects=False, max_depth=2)
        genv = gentyped.Env(); genv.vars = {"g0": "int", "g1": "float"}
        items = [Global("int", "g0"), Global("float", "g1")]
        sigs = []
        for j in range(rng.choice([1, 2])):
            params = [("int", "a"), ("float", "b"), ("int", "c")][: rng.choice([1, 2, 3])]
            env = gentyped.Env(genv); env.bounds = {}
            for t, nm in params:
                env.vars[nm] = t
            body = []
            for q in range(rng.choice([1, 2, 3, 4, 5])):
                t = rng.choice(["int", "float"]) if k % 4 != 0 else "int"
                if rng.random() < 0.45:
                    x = "v%d_%d" % (j, q)
                    body.append(Decl(t, x, tg_expr(g, env, t) if rng.random() < 0.7 else None)); env.vars[x] = t
                else:
                    cands = [nm for nm, ty in env.all().items() if ty == t]
                    if cands:
                        body.append(ES(A(V(rng.choice(cands)), tg_expr(g, env, t), "+=" if k % 11 == 10 else "=")))
            rt = rng.choice(["int", "float"]) if k % 4 != 0 else "int"
            body.append(Ret(tg_expr(g, env, rt)))
            items.append(Func("f%d" % j, [Arg(t, nm) for t, nm in params], rt, Block(body), export=True))
            sigs.append(("f%d" % j, params))
        calls = []
        for c in range(3):
            fname, params = rng.choice(sigs)
            calls.append({"fn": fname, "args": {nm: (rng.randrange(-6, 9) if t == "int" else rng.choice([0.5, -1.25, 3.0, 0.1, 7.5, -0.3])) for t, nm in params},
                          "globals": {"g0": rng.randrange(-4, 7), "g1": rng.choice([0.25, -2.0, 1.1])} if c == 0 else {}, "read_globals": ["g0", "g1"]})
        m = Module(items)
        text, _ = nslgen.render(m, ["canonical", "dense", "wild", "lines"][k % 4], rng)
        out.append((m, calls, text))
    return out


def conditional_programs(ctx, n):
    """functions with if / if-else statements (nested, with blocks) over assignments, between declarations, ending in a return: the fragment
    of theorems C01_conditional_lowering_partial and C01_conditional_functions_partial"""
    from nslgen import Module, Global, Func, Arg, Block, Ret, B, V, Decl, ES, A, If
    rng = ctx.rng
    out = []
    for k in range(n):
        g = gentyped.TGen(rng, floats=(k % 3 != 0), arrays=False, structs=False, calls=False, side_effects=False, max_depth=2)
        genv = gentyped.Env(); genv.vars = {"g0": "int", "g1": "float"}
        params = [("int", "a"), ("float", "b"), ("int", "c")][: rng.choice([2, 3])]
        env = gentyped.Env(genv); env.bounds = {}
        for t, nm in params:
            env.vars[nm] = t
        def assign():
            t = rng.choice(["int", "float"]) if k % 3 != 0 else "int"
            cands = [nm for nm, ty in env.all().items() if ty == t]
            return ES(A(V(rng.choice(cands)), tg_expr(g, env, t), rng.choice(["=", "=", "+="])))
        def branch(depth):
            stmts = []
            for _ in range(rng.choice([1, 2])):
                if depth > 0 and rng.random() < 0.35:
                    stmts.append(cond(depth - 1))
                else:
                    stmts.append(assign())
            return Block(stmts)
        def cond(depth):
            c = tg_expr(g, env, "int")
            return If(c, branch(depth), branch(depth) if rng.random() < 0.6 else None)
        body = []
        for q in range(rng.choice([2, 3, 4])):
            r_ = rng.random()
            if r_ < 0.3:
                t = rng.choice(["int", "float"]) if k % 3 != 0 else "int"
                x = "v%d" % q
                body.append(Decl(t, x, tg_expr(g, env, t) if rng.random() < 0.7 else None)); env.vars[x] = t
            elif r_ < 0.75:
                body.append(cond(2))
            else:
                body.append(assign())
        rt = rng.choice(["int", "float"]) if k % 3 != 0 else "int"
        body.append(Ret(tg_expr(g, env, rt)))
        m = Module([Global("int", "g0"), Global("float", "g1"), Func("f0", [Arg(t, nm) for t, nm in params], rt, Block(body), export=True)])
        calls = [{"fn": "f0", "args": {nm: (rng.randrange(-6, 9) if t == "int" else rng.choice([0.5, -1.25, 3.0, 0.1, 7.5, -0.3])) for t, nm in params},
                  "globals": {"g0": rng.randrange(-4, 7), "g1": rng.choice([0.25, -2.0, 1.1])} if c == 0 else {}, "read_globals": ["g0", "g1"]} for c in range(3)]
        text, _ = nslgen.render(m, ["canonical", "dense", "wild", "lines"][k % 4], rng)
        out.append((m, calls, text))
    return out


def loop_programs(ctx, n):
    """functions with while and do loops at the top level (between declarations, assignments and conditionals): a counter declared before the loop,
    a pure condition on it, a body of assignments and nested conditionals that does not assign the counter, the increment last -- the fragment
    of theorem C01_loop_functions_partial"""
    from nslgen import Module, Global, Func, Arg, Block, Ret, B, V, Decl, ES, A, If, While, Do, For, I
    rng = ctx.rng
    out = []
    for k in range(n):
        g = gentyped.TGen(rng, floats=(k % 3 != 0), arrays=False, structs=False, calls=False, side_effects=False, max_depth=2)
        genv = gentyped.Env(); genv.vars = {"g0": "int", "g1": "float"}
        params = [("int", "a"), ("float", "b"), ("int", "c")][: rng.choice([2, 3])]
        env = gentyped.Env(genv); env.bounds = {}
        for t, nm in params:
            env.vars[nm] = t
        counters = set()
        def assign():
            t = rng.choice(["int", "float"]) if k % 3 != 0 else "int"
            cands = [nm for nm, ty in env.all().items() if ty == t and nm not in counters]
            return ES(A(V(rng.choice(cands)), tg_expr(g, env, t), rng.choice(["=", "=", "+="])))
        def branch(depth):
            stmts = []
            for _ in range(rng.choice([1, 2])):
                stmts.append(cond(depth - 1) if depth > 0 and rng.random() < 0.3 else assign())
            return Block(stmts)
        def cond(depth):
            return If(tg_expr(g, env, "int"), branch(depth), branch(depth) if rng.random() < 0.5 else None)
        body = []
        nloops = 0
        for q in range(rng.choice([2, 3, 4])):
            r_ = rng.random()
            if r_ < 0.25:
                t = rng.choice(["int", "float"]) if k % 3 != 0 else "int"
                x = "v%d" % q
                body.append(Decl(t, x, tg_expr(g, env, t) if rng.random() < 0.7 else None)); env.vars[x] = t
            elif r_ < 0.45:
                body.append(cond(1))
            elif r_ < 0.6:
                body.append(assign())
            else:
                i = "i%d" % q
                body.append(Decl("int", i, I(0))); env.vars[i] = "int"; counters.add(i)
                bound = rng.choice([I(2), I(3), B("%", B("*", V("a"), V("a")), I(4)), I(0)])
                inner = [assign() if rng.random() < 0.6 else cond(1) for _ in range(rng.choice([1, 2]))]
                lbody = Block(inner + [ES(A(V(i), B("+", V(i), I(1))))])
                # a quarter of the loops are for loops with the counter declared in the header; of the others two in five are do
                # loops: the body runs once before the condition is evaluated, also when the bound is 0
                kind_ = rng.random()
                if kind_ < 0.25:
                    body.pop(); del env.vars[i]       # the counter lives in the header, it is not visible after the loop
                    body.append(For(Decl("int", i, I(0)), B("<", V(i), bound), A(V(i), B("+", V(i), I(1))), Block(inner)))
                else:
                    body.append(Do(lbody, B("<", V(i), bound)) if kind_ < 0.55 else While(B("<", V(i), bound), lbody))
                nloops += 1
        rt = rng.choice(["int", "float"]) if k % 3 != 0 else "int"
        body.append(Ret(tg_expr(g, env, rt)))
        m = Module([Global("int", "g0"), Global("float", "g1"), Func("f0", [Arg(t, nm) for t, nm in params], rt, Block(body), export=True)])
        calls = [{"fn": "f0", "args": {nm: (rng.randrange(-6, 9) if t == "int" else rng.choice([0.5, -1.25, 3.0, 0.1, 7.5, -0.3])) for t, nm in params},
                  "globals": {"g0": rng.randrange(-4, 7), "g1": rng.choice([0.25, -2.0, 1.1])} if c == 0 else {}, "read_globals": ["g0", "g1"]} for c in range(3)]
        text, _ = nslgen.render(m, ["canonical", "dense", "wild", "lines"][k % 4], rng)
        out.append((m, calls, text))
    return out


def conversion_programs(ctx, n):
    """functions in which a float variable (local, parameter, global) is initialised or assigned from an INT expression -- the compiler accepts this
    and inserts no cast -- and is then divided / multiplied / compared as a float.  The source says the variable is a float, so the specification side
    is given the same function with every such int expression e written (e) * 1.0 (an exact conversion); the implementation gets the original text.
    Returns (spec module, calls, text): the lowering comparison is skipped for these (the two sources differ by construction)."""
    from nslgen import Module, Global, Func, Arg, Block, Ret, B, V, Decl, ES, A, P, F, I
    rng = ctx.rng
    out = []
    for k in range(n):
        g = gentyped.TGen(rng, floats=False, arrays=False, structs=False, calls=False, side_effects=False, max_depth=1)
        genv = gentyped.Env(); genv.vars = {"g0": "int"}
        env = gentyped.Env(genv); env.bounds = {}
        params = [("int", "a"), ("int", "b"), ("float", "c")]
        env.vars["a"] = "int"; env.vars["b"] = "int"
        def conv(e, spec):
            return B("*", P(e), F("1.0")) if spec else e
        ie = [tg_expr(g, env, "int") for _ in range(4)]
        shape = k % 5
        def body(spec):
            b = [Decl("float", "x", conv(ie[0], spec))]
            if shape in (0, 3):
                b.append(Decl("float", "y", conv(ie[1], spec)))
            else:
                b.append(Decl("float", "y")); b.append(ES(A(V("y"), conv(ie[1], spec))))
            if shape == 1:
                b.append(ES(A(V("g1"), conv(ie[2], spec)))); b.append(Decl("float", "q", B("/", V("x"), V("g1"))))
            elif shape == 2:
                b.append(ES(A(V("c"), conv(ie[2], spec)))); b.append(Decl("float", "q", B("/", V("c"), V("y"))))
            elif shape == 3:
                b.append(ES(A(V("x"), V("y"), "/="))); b.append(Decl("float", "q", V("x")))
            else:
                b.append(Decl("float", "q", B("/", V("x"), V("y"))))
            b.append(ES(A(V("g1"), B("+", V("q"), B("*", V("x"), F("0.5"))))))
            b.append(Ret(B(rng2.choice(["+", "-", "*"]), V("q"), V("y"))))
            return b
        import random
        seed = rng.randrange(1 << 30)
        rng2 = random.Random(seed); bi = body(False)
        rng2 = random.Random(seed); bs = body(True)
        mk = lambda b: Module([Global("int", "g0"), Global("float", "g1"), Func("f0", [Arg(t, nm) for t, nm in params], "float", Block(b), export=True)])
        calls = [{"fn": "f0", "args": {"a": rng.randrange(-9, 10), "b": rng.choice([2, 3, 4, 5, -2, 7, 1]), "c": rng.choice([0.5, 2.0, -1.5])},
                  "globals": {"g0": rng.randrange(-4, 7), "g1": 1.5} if c == 0 else {}, "read_globals": ["g0", "g1"]} for c in range(3)]
        text, _ = nslgen.render(mk(bi), ["canonical", "dense", "wild", "lines"][k % 4], rng)
        out.append((mk(bs), calls, text))
    return out


def targeted_programs(ctx):
    """a fixed corpus of shapes that random generation reaches only now and then (each was the failing input of an earlier seeded change):
    locals declared without initialiser inside loop bodies and read before they are written (zero again at every execution of the declaration);
    equality and relational operators mixed without parentheses; division and remainder with every sign combination; nested compound assignments"""
    from nslgen import Module, Global, Func, Arg, Block, Ret, B, V, Decl, ES, A, I, F, For, While, Do, Pre, Idx, If, _B
    out = []
    def loop(kind, body):
        if kind == "for":
            return [For(Decl("int", "i", I(1)), B("<=", V("i"), V("n")), Pre("++", "i"), Block(body))]
        if kind == "while":
            return [Decl("int", "i", I(1)), While(B("<=", V("i"), V("n")), Block(body + [ES(Pre("++", "i"))]))]
        return [Decl("int", "i", I(1)), Do(Block(body + [ES(Pre("++", "i"))]), B("<=", V("i"), V("n")))]
    for kind in ("for", "while", "do"):
        scalar = [Decl("int", "acc"), ES(A(V("acc"), V("i"), "+=")), ES(A(V("total"), B("+", B("*", V("total"), I(10)), V("acc"))))]
        arr = [Decl("int", "a", None, dims=[3]), ES(A(Idx(V("a"), B("%", V("i"), I(3))), B("+", B("+", Idx(V("a"), B("%", V("i"), I(3))), V("i")), I(1)))),
               ES(A(V("total"), B("+", B("*", V("total"), I(10)), Idx(V("a"), B("%", V("i"), I(3))))))]
        flt = [Decl("float", "w"), ES(A(V("w"), B("+", V("w"), F("0.5")))), ES(A(V("total"), B("+", V("total"), B(">", V("w"), F("0.75")))))]
        for nm, body in (("scalar", scalar), ("array", arr), ("float", flt)):
            m = Module([Global("int", "total"), Func("f", [Arg("int", "n")], "int", Block([ES(A(V("total"), I(0)))] + loop(kind, body) + [Ret(V("total"))]), export=True)])
            calls = [{"fn": "f", "args": {"n": n_}, "globals": {"total": 0} if c == 0 else {}, "read_globals": ["total"]} for c, n_ in enumerate((3, 1, 4))]
            out.append((m, calls))
    # comparison chains written without parentheses (the AST nests them as the grammar groups them: relational binds tighter than equality, both left-associative)
    rel, eq = ["<", "<=", ">", ">="], ["==", "!="]
    for e_ in eq:
        for r_ in rel:
            shapes_ = [B(e_, V("a"), B(r_, V("b"), V("c"))),                      # a == b < c
                       B(e_, B(r_, V("a"), V("b")), V("c")),                      # a < b == c
                       B(e_, B(r_, V("a"), V("b")), B(r_, V("c"), V("d")))]      # a < b == c < d
            for sh in shapes_:
                m = Module([Func("f", [Arg("int", x) for x in "abcd"], "int", Block([Ret(sh)]), export=True)])
                calls = [{"fn": "f", "args": dict(zip("abcd", v)), "globals": {}, "read_globals": []} for v in ((-2, -2, 2, 0), (1, 0, 1, 1), (0, 1, 0, 2))]
                out.append((m, calls))
    # signs of / and %
    m = Module([Func("q", [Arg("int", "a"), Arg("int", "b")], "int", Block([Ret(B("+", B("*", B("/", V("a"), V("b")), I(100)), B("%", V("a"), V("b"))))]), export=True)])
    out.append((m, [{"fn": "q", "args": {"a": a_, "b": b_}, "globals": {}, "read_globals": []} for a_, b_ in ((7, 2), (-7, 2), (7, -2), (-7, -2), (1, 3), (-1, 3))]))
    # arrays of several dimensions as storage: every element is a variable of its own -- write one element, read all of them (local and global
    # arrays, 2 and 3 dimensions, literal and computed indices); an implementation that shares rows shows the write in the other rows
    def cells(dims):
        if not dims:
            return [[]]
        return [[i] + r for i in range(dims[0]) for r in cells(dims[1:])]
    def at(name, idx):
        e = V(name)
        for i in idx:
            e = Idx(e, i if isinstance(i, dict) else I(i))
        return e
    for dims in ([2, 3], [3, 2], [2, 2, 2]):
        for where in ("local", "global"):
            for computed in (False, True):
                widx = [V("r"), V("c")] + [I(1)] * (len(dims) - 2) if computed else [dims[0] - 1] + [0] * (len(dims) - 1)
                body = ([Decl("int", "t", None, dims=dims)] if where == "local" else []) + [ES(A(at("t", widx), V("v")))]
                if computed:
                    body.append(ES(A(at("t", [0] * len(dims)), B("+", at("t", [0] * len(dims)), I(5)))))
                body.append(Decl("int", "s", I(0)))
                for idx in cells(dims):
                    body.append(ES(A(V("s"), B("+", B("*", V("s"), I(3)), at("t", idx)))))
                body.append(Ret(V("s")))
                m = Module(([Global("int", "t", dims)] if where == "global" else []) +
                           [Func("f", [Arg("int", "r"), Arg("int", "c"), Arg("int", "v")], "int", Block(body), export=True)])
                def zeros(ds):
                    return 0 if not ds else [zeros(ds[1:]) for _ in range(ds[0])]
                calls = [{"fn": "f", "args": {"r": r_, "c": c_, "v": v_}, "globals": {"t": zeros(dims)} if where == "global" and q == 0 else {},
                          "read_globals": ["t"] if where == "global" else []}
                         for q, (r_, c_, v_) in enumerate(((0, 0, 20), (dims[0] - 1, dims[1] - 1, 7), (0, 1, 1)))]
                out.append((m, calls))
    res = []
    for k, (m, calls) in enumerate(out):
        text, _ = nslgen.render(m, ["canonical", "dense", "wild", "lines"][k % 4], ctx.rng)
        res.append((m, calls, text))
    return res


def tg_expr(g, env, t):
    return g.expr(env, t, 2, pure=True)


def run(ctx):
    ctx.static_obligations(STATIC)
    repo = ctx.sync_repo(1)[0]
    shapes.write(ctx, repo, ["rewriteassign", "argrewrite", "compiler", "pass", "visitor"])
    try:
        from translate import t_vm
        open(os.path.join(ctx.dyn, "Gen_VM.v"), "w").write(t_vm.generate(repo))
        ctx.compile_dyn(["Gen_Shapes", "Gen_VM", "Agree_VM", "Props_C01"])
    except TranslatorAbort as e:
        ctx.broken.append("translator T3/T4/T5 (VM arms, FromOperation, operator maps) aborted: %s" % e)
        ctx.obligations.append({"name": "T345.translate", "ok": False})
    progs = targeted_programs(ctx) + gen_programs(ctx, 160 if ctx.tier == "quick" else 3000)
    nret = 60 if ctx.tier == "quick" else 1500
    ret_from = len(progs)
    progs = progs + return_programs(ctx, nret)
    straight_from = len(progs)
    progs = progs + straight_programs(ctx, 60 if ctx.tier == "quick" else 1500)
    flow_from = len(progs)
    progs = progs + conditional_programs(ctx, 60 if ctx.tier == "quick" else 1500)
    loop_from = len(progs)
    progs = progs + loop_programs(ctx, 50 if ctx.tier == "quick" else 1200)
    conv_from = len(progs)
    progs = progs + conversion_programs(ctx, 40 if ctx.tier == "quick" else 600)
    jobs = [vmcases.job(text, calls, optimize=False) for (m, calls, text) in progs]
    res = ctx.run_impl("compile_impl.py", jobs, nworkers=16)
    blocks, meta, direct_bad = [], [], []
    for k, ((m, calls, text), r) in enumerate(zip(progs, res)):
        if not r["accept"] or "ir" not in r or "calls" not in r:
            direct_bad.append((text, r)); continue
        d, e = vmcases.case_block(k, m, r, calls, with_ir=(k < conv_from))
        if k >= conv_from:
            pass
        elif k >= loop_from:
            e = "(%s + 1000 * (300000000 + loop_case M_%d + 1000000000 * loop_lower_case M_%d))" % (e, k, k)
        elif k >= flow_from:
            e = "(%s + 1000 * (200000000 + flow_case2 M_%d))" % (e, k)
        elif k >= straight_from:
            e = "(%s + 1000 * (100000000 + straight_case M_%d))" % (e, k)
        elif k >= ret_from:
            e = "(%s + 1000 * frag_case M_%d)" % (e, k)        # how many functions of the module lie in the proved fragment
        blocks.append((d, e)); meta.append((text, calls, r))
    files = vmcases.write_case_files(ctx, "C01", blocks)
    outs = ctx.eval_cases(files, timeout=900)
    codes = vmcases.collect_codes(ctx, files, outs, len(blocks))
    stats = {"programs": len(progs), "rejected_by_compiler": len(direct_bad), "agree_all": 0, "vm_model_differs": 0, "spec_differs": 0,
             "lowering_model_differs": 0, "outside_lowering_fragment": 0, "vm_model_skipped": 0, "spec_out_of_domain": 0}
    bad_spec, bad_model = [], []
    frag = {"functions": 0, "inside_proved_fragment": 0, "literal_test_passed": 0}
    sfrag = {"functions": 0, "inside_proved_fragment": 0, "literal_test_passed": 0, "lowered_ir_also_in_forwarding_fragment": 0}
    lfrag = {"functions": 0, "inside_end_to_end_fragment_literals_exact": 0, "of_which_with_a_loop": 0, "of_which_with_a_do_loop": 0, "of_which_with_a_for_loop": 0}
    tfrag = {"functions": 0, "inside_typed_lowering_fragment": 0, "of_which_with_a_for_loop": 0}
    ffrag = {"functions": 0, "inside_lowering_fragment": 0, "of_which_with_a_conditional": 0, "inside_end_to_end_fragment_literals_exact": 0}
    for x, c in zip(meta, codes):
        if c is None:
            continue
        if c >= 1000:
            fc = c // 1000
            c = c % 1000
            if fc >= 1000000000:      # typed-level loop fragment (while, do, for): functions, inside, with a for loop
                tc, fc = fc // 1000000000, fc % 1000000000
                tfrag["functions"] += tc // 10000; tfrag["inside_typed_lowering_fragment"] += (tc // 100) % 100; tfrag["of_which_with_a_for_loop"] += tc % 100
            if fc >= 300000000:
                fc -= 300000000
                lfrag["functions"] += fc // 100000000; lfrag["inside_end_to_end_fragment_literals_exact"] += (fc // 1000000) % 100
                lfrag["of_which_with_a_loop"] += (fc // 10000) % 100; lfrag["of_which_with_a_do_loop"] += (fc // 100) % 100; lfrag["of_which_with_a_for_loop"] += fc % 100
            elif fc >= 200000000:
                fc -= 200000000
                ffrag["functions"] += fc // 1000000; ffrag["inside_lowering_fragment"] += (fc // 10000) % 100
                ffrag["of_which_with_a_conditional"] += (fc // 100) % 100; ffrag["inside_end_to_end_fragment_literals_exact"] += fc % 100
            elif fc >= 100000000:
                fc -= 100000000
                sfrag["functions"] += fc // 1000000; sfrag["inside_proved_fragment"] += (fc // 10000) % 100
                sfrag["literal_test_passed"] += (fc // 100) % 100; sfrag["lowered_ir_also_in_forwarding_fragment"] += fc % 100
            else:
                frag["functions"] += fc // 10000; frag["inside_proved_fragment"] += (fc // 100) % 100; frag["literal_test_passed"] += fc % 100
        if c & 2:
            stats["spec_differs"] += 1; bad_spec.append(x)
        if c & 1:
            stats["vm_model_differs"] += 1; bad_model.append(("vm", x))
        if c & 4: stats["vm_model_skipped"] += 1
        if c & 8: stats["spec_out_of_domain"] += 1
        if c & 64: stats["outside_lowering_fragment"] += 1
        elif c & 16:
            stats["lowering_model_differs"] += 1; bad_model.append(("lowering", x))
        if c == 0: stats["agree_all"] += 1
    ctx.cov["evaluations"] = sum(len(c) for _, c, _ in progs)
    ctx.cov["distinct_nontrivial"] = len({t for _, _, t in progs})
    ctx.cov["programs"] = len(progs)
    ctx.cov["rule"] = ("random well-typed programs of the scalar core (ints/floats, local and global scalars, n-D arrays, structs, all 13 operators, compound "
                       "assignment, ++/--, if/else, for/while/do with break/continue, early return, overloaded and recursive helper calls) in four layouts, three "
                       "invocations each with random arguments and globals; the real IR is dumped and (i) compared for equality with the lowering model's IR, "
                       "(ii) executed by the VM model, (iii) the source is executed by the reference semantics; all three compared with the real VM's results inside Coq. "
                       "Every program is distinct (by text) and counted non-trivial (contains control flow or calls). Plus modules of functions with nested if / if-else statements over assignments (the fragment of the conditional-lowering theorem), of functions with while loops at the top level (the fragment of the loop theorem), of straight-line functions (declarations, assignments, return), of functions in which float variables are initialised / assigned from int expressions (no cast is inserted; the specification is given the explicit conversion) and of functions `return <pure scalar expression>;` "
                       "(the fragment of the end-to-end theorem): for each, the boolean fragment test is evaluated inside Coq on the source AST and the same three-way comparison is made.")
    ctx.cov["samples"] = [{"source": t[:600], "calls": c, "impl": r["calls"]} for t, c, r in meta[:2]]
    stats["return_expression_functions"] = frag
    stats["straight_line_functions"] = sfrag
    stats["conditional_functions"] = ffrag
    stats["loop_functions"] = lfrag
    stats["loop_functions_typed_level"] = tfrag
    ctx.extra["input_distribution"] = stats
    ctx.extra["disagreements_checked"] = len(codes)
    if bad_spec or direct_bad:
        if bad_spec:
            t, c, r = min(bad_spec, key=lambda x: len(x[0]))
            ctx.violation("failing-input", {"what": "the VM's result or the globals after the call differ from the reference semantics of the source",
                                            "source": t, "calls": c, "observed": r["calls"], "count": len(bad_spec)})
        else:
            t, r = direct_bad[0]
            ctx.violation("failing-input", {"what": "a well-typed core program was rejected by the compiler or could not be run", "source": t, "observed": {k: v for k, v in r.items() if k != "ir"}, "count": len(direct_bad)})
    elif bad_model:
        which, (t, c, r) = bad_model[0]
        ctx.broken.append("correspondence (%s model): differs from the implementation on %d program(s), e.g. %s" % (which, len(bad_model), t[:300]))
