"""C10 -- Overload resolution picks the unique best viable candidate."""
import os, json, itertools
from common import TranslatorAbort, coq_list, parse_coq_values
from translate import t_types

STATIC = ["Base/Types.v", "Spec/Overload.v", "Model/Overload.v", "Proofs/OverloadProofs.v"]
CC = {"f": "CFloat", "i": "CInt", "u": "CUInt"}
U9 = [["S", "i"], ["S", "u"], ["S", "f"], ["V", "i", 2], ["V", "f", 2], ["V", "f", 3], ["V", "f", 4], ["M", "f", 3, 3], ["T", "S1"]]
U4 = [["S", "i"], ["S", "f"], ["V", "f", 2], ["T", "S1"]]

HEADER = """From Coq Require Import String ZArith List Bool Arith.
From NSL Require Import Base.Util Base.Types Spec.Overload Model.Overload.
Import ListNotations.
Open Scope Z_scope.
Definition D (n : string) (ps : list ty) : fdecl := {| fd_name := n; fd_params := ps |}.
Definition fdecl_eqb (a b : fdecl) : bool :=
  String.eqb (fd_name a) (fd_name b) && (Nat.eqb (length (fd_params a)) (length (fd_params b)))
  && forallb (fun p => ty_eqb (fst p) (snd p)) (combine (fd_params a) (fd_params b)).
(* implementation outcome: Some k = declaration k was returned; codes -1 ambiguous, -2 nomatch, -3 unknown, -9 other *)
Definition res_eqb (decls : list fdecl) (r : resolution) (i : Z) : bool :=
  match r with
  | Found d => if i <? 0 then false else match nth_error decls (Z.to_nat i) with Some d' => fdecl_eqb d d' | None => false end
  | Ambiguous => i =? -1 | NoMatch => i =? -2 | Unknown => i =? -3 end.
Definition chk (decls : list fdecl) (name : string) (args : list ty) (i : Z) : Z :=
  verdict (res_eqb decls (find_function decls name args) i) (res_eqb decls (spec_resolve decls name args) i).
Definition expect (decls : list fdecl) (name : string) (args : list ty) : Z :=
  match spec_resolve decls name args with
  | Found d => (fix idx (l : list fdecl) (k : Z) : Z := match l with [] => -9 | x :: r => if fdecl_eqb x d then k else idx r (k + 1) end) decls 0
  | Ambiguous => -1 | NoMatch => -2 | Unknown => -3 end.
"""


def cty(t):
    if t[0] == "S": return "(TPrim (PScalar %s))" % CC[t[1]]
    if t[0] == "V": return "(TPrim (PVec %s %d))" % (CC[t[1]], t[2])
    if t[0] == "M": return "(TPrim (PMat %s %d %d))" % (CC[t[1]], t[2], t[3])
    return '(TStruct "%s")' % t[1]


SP = {"f": "float", "i": "int", "u": "uint"}
def spell(t):
    if t[0] == "S": return SP[t[1]]
    if t[0] == "V": return "%s%d" % (SP[t[1]], t[2])
    if t[0] == "M": return "%s%dx%d" % (SP[t[1]], t[2], t[3])
    return t[1]


def value(t):
    if t[0] == "S": return 1.5 if t[1] == "f" else 2
    if t[0] == "V": return [value(["S", t[1]])] * t[2]
    if t[0] == "M": return [[1.0] * t[3] for _ in range(t[2])]
    return {"x": 1.0}


def cdecls(decls):
    return coq_list(['D "%s" %s' % (n, coq_list([cty(p) for p in ps])) for n, ps in decls])


def gen_cases(rng, tier):
    cases = []
    # exhaustive: every ordered set of <= 3 one-parameter overloads over the 9-type universe x every argument type
    sigs1 = [[t] for t in U9]
    for k in (1, 2, 3):
        for combo in itertools.permutations(sigs1, k):
            for a in U9:
                cases.append(([("g", list(p)) for p in combo], "g", [a]))
    n_ex1 = len(cases)
    # two parameters over a 4-type universe: every ordered set of <= 2 overloads x every argument list (exhaustive),
    # ordered triples: all in thorough, a stratified sample in quick
    sigs2 = [[a, b] for a in U4 for b in U4]
    args2 = [[a, b] for a in U4 for b in U4]
    for k in (1, 2):
        for combo in itertools.permutations(sigs2, k):
            for a in args2:
                cases.append(([("g", list(p)) for p in combo], "g", a))
    triples = list(itertools.permutations(sigs2, 3))
    if tier == "quick":
        triples = rng.sample(triples, 250)
    for combo in triples:
        for a in (args2 if tier != "quick" else rng.sample(args2, 6)):
            cases.append(([("g", list(p)) for p in combo], "g", a))
    n_ex = len(cases)
    # random: mixed arities 0..3, up to 5 overloads, duplicates, other names, unknown names, full universe
    for _ in range(1500 if tier == "quick" else 60000):
        nd = rng.choice([0, 1, 2, 3, 3, 4, 5])
        decls = []
        for _ in range(nd):
            ar = rng.choice([0, 1, 2, 2, 3])
            decls.append((rng.choice(["g", "g", "g", "h"]), [rng.choice(U9) for _ in range(ar)]))
        if decls and rng.random() < 0.15:
            decls.append(rng.choice(decls))
        args = [rng.choice(U9) for _ in range(rng.choice([0, 1, 2, 2, 3]))]
        if decls and rng.random() < 0.5:
            args = list(rng.choice(decls)[1])
            if args and rng.random() < 0.6:
                args[rng.randrange(len(args))] = rng.choice(U9)
        cases.append((decls, rng.choice(["g", "g", "g", "h", "k"]), args))
    return cases, n_ex1, n_ex


def run(ctx):
    ctx.static_obligations(STATIC)
    repo = ctx.sync_repo(1)[0]
    try:
        open(os.path.join(ctx.dyn, "Gen_Types.v"), "w").write(t_types.generate(repo))
        ctx.compile_dyn(["Gen_Types", "Agree_Types", "Props_C10"])
    except TranslatorAbort as e:
        ctx.broken.append("translator T6 (types.py Match/Function.Match) aborted: %s" % e)
        ctx.obligations.append({"name": "T6.translate", "ok": False})
    rng = ctx.rng
    cases, n_ex1, n_ex = gen_cases(rng, ctx.tier)
    jobs = [{"k": "resolve", "cases": cases[i:i + 1000]} for i in range(0, len(cases), 1000)]
    res = [x for chunk in ctx.run_impl("c10_impl.py", jobs, nworkers=16) for x in chunk]
    code = {"ambiguous": -1, "nomatch": -2, "unknown": -3}
    lines = []
    for (decls, name, args), x in zip(cases, res):
        i = x[1] if x[0] == "found" else code.get(x[0], -9)
        lines.append('chk %s "%s" %s (%d)' % (cdecls(decls), name, coq_list([cty(a) for a in args]), i))
    # end to end: overloads returning distinct constants, the call inside an exported function
    e2e_cases, e2e_lines = [], []
    pool = [c for c in cases[n_ex1:] if c[1] == "g" and all(n == "g" for n, _ in c[0]) and len(c[0]) >= 1
            and len({json.dumps(p) for _, p in c[0]}) == len(c[0])]
    for (decls, name, args) in rng.sample(pool, min(len(pool), 150 if ctx.tier == "quick" else 1500)):
        # the caller is placed before, between or after the overloads: the outcome must not depend on the declaration order
        fns = ["function g(%s) -> int { return %d; }\n" % (", ".join("%s p%d" % (spell(p), j) for j, p in enumerate(ps)), k + 1) for k, (n, ps) in enumerate(decls)]
        fns.insert(rng.randrange(len(fns) + 1), "export function f(%s) -> int { return g(%s); }\n" % (", ".join("%s a%d" % (spell(a), j) for j, a in enumerate(args)),
                                                                                                       ", ".join("a%d" % j for j in range(len(args)))))
        src = "struct S1 { float x; }\n" + "".join(fns)
        e2e_cases.append((decls, args, src, {"a%d" % j: value(a) for j, a in enumerate(args)}))
        e2e_lines.append('expect %s "g" %s' % (cdecls(decls), coq_list([cty(a) for a in args])))
    res2 = [x for chunk in ctx.run_impl("c10_impl.py", [{"k": "e2e", "cases": [(c[2], c[3]) for c in e2e_cases[i:i + 20]]}
                                                       for i in range(0, len(e2e_cases), 20)], nworkers=16) for x in chunk]
    files, per = [], 1500
    for k in range(0, len(lines), per):
        f = os.path.join(ctx.dyn, "cases_C10_%d.v" % (k // per))
        open(f, "w").write(HEADER + "Definition cases : list Z := [\n  " + ";\n  ".join(lines[k:k + per]) + "].\nEval vm_compute in cases.\n")
        files.append(f)
    f2 = os.path.join(ctx.dyn, "cases_C10_e2e.v")
    open(f2, "w").write(HEADER + "Definition cases : list Z := [\n  " + ";\n  ".join(e2e_lines) + "].\nEval vm_compute in cases.\n")
    outs = ctx.eval_cases(files + [f2])
    codes = []
    for f in files:
        ok, out, err = outs[f]
        vals = parse_coq_values(out) if ok else []
        if not ok or not vals or not isinstance(vals[0], list):
            ctx.broken.append("correspondence: %s did not evaluate: %s" % (os.path.basename(f), err[-300:]))
            codes.extend([None] * min(per, len(lines) - len(codes)))
        else:
            codes.extend(vals[0])
    bad_model = [(c, x) for c, x, k in zip(cases, res, codes) if k is not None and k & 1]
    bad_spec = [(c, x) for c, x, k in zip(cases, res, codes) if k is not None and k & 2]
    ok, out, err = outs[f2]
    exp = parse_coq_values(out)[0] if ok and e2e_lines else ([] if not e2e_lines else None)
    e2e_bad = []
    if exp is None or len(exp) != len(e2e_cases):
        ctx.broken.append("correspondence: end-to-end expectations did not evaluate: %s" % err[-300:])
    else:
        for (decls, args, src, vals), want, got in zip(e2e_cases, exp, res2):
            if want >= 0:
                good = got[0] == "ran" and got[1] == want + 1
            else:
                good = got[0] == "reject"
            if not good:
                e2e_bad.append({"source": src, "args": vals, "expected": ("g overload #%d runs (returns %d)" % (want, want + 1)) if want >= 0 else
                                {-1: "rejected: ambiguous", -2: "rejected: no matching overload", -3: "rejected: unknown function"}[want], "observed": got})
    dist = {"exhaustive_one_param_cases": n_ex1, "two_param_cases": n_ex - n_ex1, "random_cases": len(cases) - n_ex, "e2e_programs": len(e2e_cases)}
    for x in res:
        dist["impl_" + x[0]] = dist.get("impl_" + x[0], 0) + 1
    ctx.cov["evaluations"] = len(cases) + len(e2e_cases)
    ctx.cov["distinct_nontrivial"] = len({json.dumps(c) for c in cases if len(c[0]) >= 2}) + len(e2e_cases)
    ctx.cov["rule"] = ("Scope.RegisterFunction/FindFunction driven directly: every ordered set of <=3 one-parameter overloads over a 9-type universe "
                       "(int,uint,float,int2,float2,float3,float4,float3x3,struct) x every argument type (exhaustive); every ordered set of <=2 (thorough: <=3) "
                       "two-parameter overloads over {int,float,float2,struct} x every argument list; random sets with mixed arity 0-3, duplicates, other and "
                       "unknown names; plus end-to-end programs whose overloads return distinct constants (the calling function declared before, between or after them), run on the VM. Non-trivial: at least two declarations; distinct by content.")
    ctx.cov["samples"] = [{"decls": c[0], "name": c[1], "args": c[2], "impl": x} for c, x in list(zip(cases, res))[n_ex1 + 5000:n_ex1 + 5003]] + \
                         ([{"source": e2e_cases[0][2], "observed": res2[0]}] if e2e_cases else [])
    ctx.extra["input_distribution"] = dist
    ctx.extra["disagreements_checked"] = len(codes) + len(e2e_cases)
    if bad_spec:
        (c, x) = min(bad_spec, key=lambda p: len(json.dumps(p[0])))
        ctx.violation("failing-input", {"what": "Scope.FindFunction does not pick the unique best viable candidate", "declarations": c[0], "call_name": c[1], "argument_types": c[2],
                                        "observed": x, "count": len(bad_spec)})
    elif e2e_bad:
        ctx.violation("failing-input", dict(e2e_bad[0], what="the function that runs is not the specified overload (or accept/reject differs)", count=len(e2e_bad)))
    elif bad_model:
        (c, x) = bad_model[0]
        ctx.broken.append("correspondence: FindFunction differs from NSL.Model.Overload on %d case(s), e.g. %s -> %s" % (len(bad_model), json.dumps(c)[:300], x))
