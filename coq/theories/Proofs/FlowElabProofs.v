(** * C01, conditionals, source side: elaboration of assignments, blocks and conditionals preserves the reference
    semantics.  Blocks and conditionals push a frame and pop it again; without declarations inside, the frame stays empty,
    so the agreement on the visible names is untouched by the pushes and pops. *)
From Coq Require Import String ZArith List Bool PrimFloat Arith Lia.
From NSL Require Import Base.Types Base.Syntax Spec.Overload Model.PyNum Model.IR Model.VM Model.TypesBin Model.Elab Model.Lower Spec.RefSem
                        Proofs.OpsAgree Proofs.OptProofs Proofs.LowerExprProofs Proofs.ElabExprProofs Proofs.ReturnExprProofs Proofs.CallAgreeProofs
                        Proofs.LowerStmtProofs Proofs.ElabStmtProofs Proofs.StraightLineProofs Proofs.HistoryRefineProofs Proofs.FlowLowerProofs Proofs.FlowFuncProofs.
Import ListNotations.

(** ** the shape of the local frames *)
Definition shape (st : RefSem.state) : list (list string) := map (map fst) (locals st).

Lemma frames_set_shape fs x s : forall fs', frames_set fs x s = Some fs' -> map (map fst) fs' = map (map fst) fs.
Proof.
  induction fs as [|f fs IH]; intros fs' H; cbn in H; [discriminate|]. destruct (frame_set f x s) as [f'|] eqn:E.
  - inversion H; subst. cbn. rewrite (frame_set_keys _ _ _ _ E). reflexivity.
  - destruct (frames_set fs x s) as [fs0|] eqn:E2; [|discriminate]. inversion H; subst. cbn. rewrite (IH fs0 eq_refl). reflexivity.
Qed.
Lemma var_set_shape st x s st' : var_set st x s = RefSem.ROk st' -> shape st' = shape st.
Proof.
  unfold var_set, shape. destruct (frames_set (locals st) x s) as [l'|] eqn:E.
  - intros H. inversion H; subst. cbn. apply (frames_set_shape _ _ _ _ E).
  - destruct (frame_set (globs st) x s); [|discriminate]. intros H. inversion H; subst. reflexivity.
Qed.

Lemma var_get_push st x : var_get (push_frame st) x = var_get st x.
Proof. reflexivity. Qed.
Lemma shape_push st : shape (push_frame st) = [] :: shape st.
Proof. reflexivity. Qed.
Lemma var_get_pop st x r : shape st = [] :: r -> var_get (pop_frame st) x = var_get st x.
Proof.
  unfold shape, var_get, pop_frame. destruct (locals st) as [|f fs]; [discriminate|]. cbn. intros H. inversion H. destruct f; [reflexivity|discriminate].
Qed.
Lemma shape_pop st r : shape st = [] :: r -> shape (pop_frame st) = r.
Proof. unfold shape, pop_frame. destruct (locals st) as [|f fs]; [discriminate|]. cbn. intros H. inversion H. reflexivity. Qed.

Lemma tlookup_push env x : tlookup ([] :: env) x = tlookup env x.
Proof. reflexivity. Qed.

Section Src.
  Variable M : module.
  Variable G : genv.
  Variable structs : list sdef.
  Variable gl args : list string.
  Variable cs : list (nat * irty * cval).

  Lemma Agree_push env st locals V A vs : Agree gl args env st locals V A vs -> Agree gl args ([] :: env) (push_frame st) locals V A vs.
  Proof. intros H x t Hx. rewrite tlookup_push in Hx. destruct (H x t Hx) as (Hn & w & Hg & Hw & Hv). split; [exact Hn|]. exists w. rewrite var_get_push. auto. Qed.
  Lemma Agree_pop env st r locals V A vs : shape st = [] :: r -> Agree gl args ([] :: env) st locals V A vs -> Agree gl args env (pop_frame st) locals V A vs.
  Proof. intros Hs H x t Hx. rewrite <- tlookup_push in Hx. destruct (H x t Hx) as (Hn & w & Hg & Hw & Hv). split; [exact Hn|]. exists w. rewrite (var_get_pop _ _ _ Hs). auto. Qed.

  Lemma truthy_v_of h w : truthy h (v_of w) = Ok (truth w).
  Proof. destruct w; reflexivity. Qed.

  (** assignments keep the shape *)
  Lemma assign_shape s fuel st fl st1 : ssimple s = true -> (forall t x i, s <> SDecl t x i) -> exec M fuel s st = RefSem.ROk (fl, st1) -> shape st1 = shape st.
  Proof.
    intros Hs Hnd H. apply desugar_exec in H as [fuel' H]. unfold ssimple in Hs.
    assert (Hnd' : forall t x i, desugar s <> SDecl t x i).
    { intros t x i E. destruct s as [t0 x0 i0|e| | | | | | | |]; try discriminate; [apply (Hnd t0 x0 i0); reflexivity|].
      cbn in E. destruct e as [| | | |o l r| | | | | |]; try discriminate. destruct l; try discriminate. destruct (aop_binop o); discriminate. }
    destruct (desugar s) as [t x init|e| | | | | | | |]; try discriminate; [exfalso; apply (Hnd' t x init); reflexivity|].
    destruct fuel' as [|fu]; [discriminate|].
    destruct e as [| | | |o l r| | | | | |]; try discriminate. destruct o; try discriminate. destruct l as [| |x| | | | | | | |]; try discriminate.
    cbn [ssimple0] in Hs. rewrite exec_expr_unfold in H. destruct fu as [|fu']; [discriminate|]. rewrite eval_assign_unfold in H.
    destruct (eval M fu' r st) as [[v st2]| | |] eqn:Ev; cbn [rbind] in H; try discriminate. apply (eval_pure_state M r fu' _ _ _ Hs) in Ev. subst st2.
    destruct (var_get st x) as [cur| | |]; cbn [rbind sto_set] in H; try discriminate.
    destruct (var_set st x v) as [st3| | |] eqn:Es; cbn [rbind] in H; try discriminate. inversion H; subst. cbn [snd]. apply (var_set_shape _ _ _ _ Es).
  Qed.
End Src.

Lemma exec_block_unfold M fu b st : exec M (S fu) (SBlock b) st = (rdo r <- exec_list M fu b (push_frame st); let '(fl, st1) := r in RefSem.ROk (fl, pop_frame st1)).
Proof. reflexivity. Qed.
Lemma exec_if_unfold M fu c t f st :
  exec M (S fu) (SIf c t f) st =
  (let st0 := push_frame st in
   rdo p <- (rdo p <- eval M fu c st0; let '(v, st1) := p in rdo x <- scalar v; RefSem.ROk (truth x, st1)); let '(b, st1) := p in
   rdo r <- (if b then exec M fu t st1 else match f with Some f' => exec M fu f' st1 | None => RefSem.ROk (ONormal, st1) end);
   let '(fl, st2) := r in RefSem.ROk (fl, pop_frame st2)).
Proof. reflexivity. Qed.
Lemma exec_list_nil M fu st : exec_list M (S fu) [] st = RefSem.ROk (ONormal, st).
Proof. reflexivity. Qed.

Lemma elab_block_unfold G env b : elab_stmt G env (SBlock b) = (edo b' <- elab_body G ([] :: env) b; EOk (TBlock b', env)).
Proof. reflexivity. Qed.
Lemma elab_if_unfold G env c t f :
  elab_stmt G env (SIf c t f) =
  (let env1 := [] :: env in
   edo c' <- elab G COn env1 c;
   edo p <- elab_stmt G env1 t; let '(t', env2) := p in
   edo f' <- match f with None => EOk None | Some f0 => edo q <- elab_stmt G env2 f0; EOk (Some (fst q)) end;
   EOk (TIf c' t' f', env)).
Proof. reflexivity. Qed.

Fixpoint bsrc (n : nat) (s : stmt) : bool :=
  match n with
  | O => false
  | S m =>
      match s with
      | SExpr (EAssign _ (EVar _) _) => ssimple s
      | SBlock l => forallb (bsrc m) l
      | SIf c t f => spure c && bsrc m t && match f with Some f' => bsrc m f' | None => true end
      | _ => false
      end
  end.
Fixpoint bexprs (n : nat) (ts : tstmt) : list texpr :=
  match n with
  | O => []
  | S m =>
      match ts with
      | TExpr (XAssign _ e) => [e]
      | TBlock l => flat_map (bexprs m) l
      | TIf c t f => c :: bexprs m t ++ match f with Some f' => bexprs m f' | None => [] end
      | _ => []
      end
  end.

Section Src2.
  Variable M : module.
  Variable G : genv.
  Variable structs : list sdef.
  Variable gl args : list string.
  Variable cs : list (nat * irty * cval).

  Definition bgood (n : nat) (ts : tstmt) : Prop := forall x, In x (bexprs n ts) -> tok x = true /\ lit_ok cs x.

  Definition src_ok (n : nat) (s : stmt) : Prop :=
    forall ts env env' fuel st fl st1 locals V A vs,
      elab_stmt G env s = EOk (ts, env') -> bgood n ts ->
      exec M fuel s st = RefSem.ROk (fl, st1) -> Agree gl args env st locals V A vs ->
      fl = ONormal /\ shape st1 = shape st /\
      exists V' A' vs', bexec structs gl args n cs locals ts V A vs = Some (V', A', vs') /\ Agree gl args env st1 locals V' A' vs'.

  Lemma src_assign m o x r : ssimple (SExpr (EAssign o (EVar x) r)) = true -> src_ok (S m) (SExpr (EAssign o (EVar x) r)).
  Proof.
    intros Hs ts env env' fuel st fl st1 locals V A vs He Hg Hex Hag. set (s := SExpr (EAssign o (EVar x) r)) in *.
    pose proof (elab_stmt_env G env s ts env' Hs He) as Henv. assert (Hes : env_step env s = env) by reflexivity. rewrite Hes in Henv. subst env'.
    assert (Hts : exists e', ts = TExpr e').
    { unfold s in He. cbn [elab_stmt ebind] in He. destruct (elab G COn env (EAssign o (EVar x) r)) as [e'| |]; cbn [ebind] in He; try discriminate. inversion He. eexists; reflexivity. }
    destruct Hts as [e' ->].
    destruct (simple_stmt_preserved M G structs gl args cs s (TExpr e') env env fuel st fl st1 locals V A vs Hs He) as (Hfl & Hsim & locals' & V' & A' & vs' & Hte & Hag'); auto.
    { destruct e' as [| | | | |l0 r0| | | | |]; try exact eq_refl. cbn [stok]. apply (Hg r0). cbn. left. reflexivity. }
    { destruct e' as [| | | | |l0 r0| | | | |]; cbn [stexprs]; try (intros q Hq; contradiction). intros q Hq. destruct Hq as [<-|[]]. apply (Hg r0). cbn. left. reflexivity. }
    { exact Logic.I. }
    split; [exact Hfl|].
    destruct e' as [| | | | |l0 r0| | | | |]; try discriminate. destruct l0 as [| |x0 t0| | | | | | | |]; try discriminate. destruct t0 as [[c0| |]| | |]; try discriminate.
    split; [apply (assign_shape M s fuel st fl st1 Hs); [intros; discriminate|exact Hex]|].
    cbn [texec] in Hte. cbn [bexec].
    destruct (teval structs gl args cs locals (mkfr V A) vs r0) as [w| |]; try discriminate.
    destruct (store_var gl args locals V A vs x0 w) as [[[V1 A1] vs1]|]; [|discriminate]. inversion Hte; subst. exists V', A', vs'. split; [reflexivity|exact Hag'].
  Qed.
End Src2.

(** ** static part: the elaborated statement is in the typed fragment, the environment comes back unchanged *)
Section Static3.
  Variable G : genv.

  Lemma env_num_push env : env_num env -> env_num ([] :: env).
  Proof. intros H x t Hx. apply (H x t). exact Hx. Qed.

  Definition bnonan (n : nat) (ts : tstmt) : Prop := forall x, In x (bexprs n ts) -> forall f, In f (tflits x) -> PrimFloat.eqb f f = true.

  Lemma bsrc_static : forall n s ts env env', bsrc n s = true -> elab_stmt G env s = EOk (ts, env') -> env_num env -> bnonan n ts ->
    bstmt n ts = true /\ env' = env.
  Proof.
    induction n as [|n IHn]; intros s ts env env' Hs He Hn Hnan; [discriminate|].
    destruct s as [| e | b | | c t f | | | | |]; cbn [bsrc] in Hs; try discriminate.
    - destruct e as [| | | |o l r| | | | | |]; try discriminate. destruct l as [| |x| | | | | | | |]; try discriminate.
      set (s := SExpr (EAssign o (EVar x) r)) in *.
      assert (Hts : exists e', ts = TExpr e').
      { unfold s in He. cbn [elab_stmt ebind] in He. destruct (elab G COn env (EAssign o (EVar x) r)) as [e'| |]; cbn [ebind] in He; try discriminate. inversion He. eexists; reflexivity. }
      destruct Hts as [e' ->].
      pose proof (elab_stmt_env G env s (TExpr e') env' Hs He) as Henv. assert (Hes : env_step env s = env) by reflexivity. rewrite Hes in Henv.
      destruct (elab_stmt_simple_static G env s (TExpr e') env' Hn Hs He) as [Hsim _].
      { destruct e' as [| | | | |l0 r0| | | | |]; cbn [stexprs]; try (intros y Hy; contradiction). intros y Hy f Hf. apply (Hnan y); [cbn; exact Hy|exact Hf]. }
      split; [|exact Henv]. destruct e' as [| | | | |l0 r0| | | | |]; try discriminate. exact Hsim.
    - rewrite elab_block_unfold in He. destruct (elab_body G ([] :: env) b) as [tb| |] eqn:Eb; cbn [ebind] in He; try discriminate. inversion He; subst ts env'; clear He.
      split; [|reflexivity]. cbn [bstmt].
      assert (Hgen : forall l tl e0, forallb (bsrc n) l = true -> elab_body G e0 l = EOk tl -> env_num e0 -> (forall x, In x (flat_map (bexprs n) tl) -> forall f, In f (tflits x) -> PrimFloat.eqb f f = true) -> forallb (bstmt n) tl = true).
      { induction l as [|s0 r0 IHl]; intros tl e0 Hl Hel Hne Hna; [cbn in Hel; inversion Hel; reflexivity|].
        cbn [forallb] in Hl. apply andb_prop in Hl as [Hl1 Hl2]. cbn [elab_body] in Hel.
        destruct (elab_stmt G e0 s0) as [[ts0 e1]| |] eqn:Es0; cbn [ebind] in Hel; try discriminate.
        destruct (elab_body G e1 r0) as [tr| |] eqn:Er0; cbn [ebind] in Hel; try discriminate. inversion Hel; subst tl; clear Hel.
        destruct (IHn s0 ts0 e0 e1 Hl1 Es0 Hne) as [Hb1 ->]; [intros y Hy f Hf; apply (Hna y); [cbn [flat_map]; apply in_or_app; left; exact Hy|exact Hf]|].
        cbn [forallb]. rewrite Hb1. apply (IHl tr e0 Hl2 Er0 Hne). intros y Hy f Hf. apply (Hna y); [cbn [flat_map]; apply in_or_app; right; exact Hy|exact Hf]. }
      apply (Hgen b tb ([] :: env) Hs Eb (env_num_push env Hn)). intros y Hy f Hf. apply (Hnan y); [cbn [bexprs]; exact Hy|exact Hf].
    - apply andb_prop in Hs as [Hs Hbf]. apply andb_prop in Hs as [Hpc Hbt]. rewrite elab_if_unfold in He. cbn zeta in He.
      destruct (elab G COn ([] :: env) c) as [c'| |] eqn:Ec; cbn [ebind] in He; try discriminate.
      destruct (elab_stmt G ([] :: env) t) as [[t' env2]| |] eqn:Et; cbn [ebind] in He; try discriminate.
      pose proof (env_num_push env Hn) as Hn1.
      destruct f as [f0|].
      + destruct (elab_stmt G env2 f0) as [[f' env3]| |] eqn:Ef; cbn [ebind fst] in He; try discriminate. inversion He; subst ts env'; clear He.
        assert (Hpt : tpure c' = true) by (apply (elab_tpure_static G ([] :: env) Hn1 c c' Hpc Ec); intros f Hf; apply (Hnan c'); [cbn; left; reflexivity|exact Hf]).
        destruct (IHn t t' ([] :: env) env2 Hbt Et Hn1) as [Hbt' ->]; [intros y Hy f Hf; apply (Hnan y); [cbn; right; apply in_or_app; left; exact Hy|exact Hf]|].
        destruct (IHn f0 f' ([] :: env) env3 Hbf Ef Hn1) as [Hbf' _]; [intros y Hy f Hf; apply (Hnan y); [cbn; right; apply in_or_app; right; exact Hy|exact Hf]|].
        split; [|reflexivity]. cbn [bstmt]. rewrite Hpt, Hbt', Hbf'. reflexivity.
      + cbn [ebind] in He. inversion He; subst ts env'; clear He.
        assert (Hpt : tpure c' = true) by (apply (elab_tpure_static G ([] :: env) Hn1 c c' Hpc Ec); intros f Hf; apply (Hnan c'); [cbn; left; reflexivity|exact Hf]).
        destruct (IHn t t' ([] :: env) env2 Hbt Et Hn1) as [Hbt' _]; [intros y Hy f Hf; apply (Hnan y); [cbn; right; rewrite app_nil_r; exact Hy|exact Hf]|].
        split; [|reflexivity]. cbn [bstmt]. rewrite Hpt, Hbt'. reflexivity.
  Qed.
End Static3.

Section Src3.
  Variable M : module.
  Variable G : genv.
  Variable structs : list sdef.
  Variable gl args : list string.
  Variable cs : list (nat * irty * cval).
  Notation srcok := (src_ok M G structs gl args cs).

  Lemma Agree_env_num env st locals V A vs : Agree gl args env st locals V A vs -> env_num env.
  Proof. intros H x t Hx. apply (H x t Hx). Qed.
  Lemma bgood_nonan n ts : bgood cs n ts -> bnonan n ts.
  Proof. intros H x Hx f Hf. destruct (H x Hx) as [_ [_ Hfl]]. apply (Hfl f Hf). Qed.

  Lemma src_list m : (forall s, bsrc m s = true -> srcok m s) ->
    forall l tl env fuel st fl st1 locals V A vs,
      forallb (bsrc m) l = true -> elab_body G env l = EOk tl -> (forall x, In x (flat_map (bexprs m) tl) -> tok x = true /\ lit_ok cs x) ->
      exec_list M fuel l st = RefSem.ROk (fl, st1) -> Agree gl args env st locals V A vs ->
      fl = ONormal /\ shape st1 = shape st /\
      exists V' A' vs', bexec_list structs gl args m cs locals tl V A vs = Some (V', A', vs') /\ Agree gl args env st1 locals V' A' vs'.
  Proof.
    intros IHm. induction l as [|s r IH]; intros tl env fuel st fl st1 locals V A vs Hs He Hg Hex Hag.
    - cbn in He. inversion He; subst tl. destruct fuel as [|fu]; [discriminate|]. rewrite exec_list_nil in Hex. inversion Hex; subst.
      split; [reflexivity|]. split; [reflexivity|]. exists V, A, vs. split; [reflexivity|exact Hag].
    - cbn [forallb] in Hs. apply andb_prop in Hs as [Hs1 Hsr]. cbn [elab_body] in He.
      destruct (elab_stmt G env s) as [[ts env']| |] eqn:Es; cbn [ebind] in He; try discriminate.
      destruct (elab_body G env' r) as [tr| |] eqn:Er; cbn [ebind] in He; try discriminate. inversion He; subst tl; clear He.
      assert (Hg1 : bgood cs m ts) by (intros x Hx; apply Hg; cbn [flat_map]; apply in_or_app; left; exact Hx).
      destruct (bsrc_static G m s ts env env' Hs1 Es (Agree_env_num _ _ _ _ _ _ Hag) (bgood_nonan _ _ Hg1)) as [_ ->].
      destruct fuel as [|fu]; [discriminate|]. rewrite exec_list_cons in Hex.
      destruct (exec M fu s st) as [[fl1 st2]| | |] eqn:Ex; cbn [rbind] in Hex; try discriminate.
      destruct (IHm s Hs1 ts env env fu st fl1 st2 locals V A vs Es Hg1 Ex Hag) as (-> & Hsh1 & V1 & A1 & vs1 & Hx1 & Hag1).
      destruct (IH tr env fu st2 fl st1 locals V1 A1 vs1 Hsr Er) as (Hfl & Hsh2 & V' & A' & vs' & Hx2 & Hag2); auto.
      { intros x Hx. apply Hg. cbn [flat_map]. apply in_or_app. right. exact Hx. }
      split; [exact Hfl|]. split; [congruence|].
      exists V', A', vs'. cbn [bexec_list]. rewrite Hx1. split; [exact Hx2|exact Hag2].
  Qed.

  Theorem src_all : forall n s, bsrc n s = true -> srcok n s.
  Proof.
    induction n as [|n IHn]; intros s Hs; [discriminate|].
    destruct s as [| e | b | | c t f | | | | |]; cbn [bsrc] in Hs; try discriminate.
    - destruct e as [| | | |o l r| | | | | |]; try discriminate. destruct l as [| |x| | | | | | | |]; try discriminate. apply src_assign. exact Hs.
    - (* block *)
      intros ts env env' fuel st fl st1 locals V A vs He Hg Hex Hag. rewrite elab_block_unfold in He.
      destruct (elab_body G ([] :: env) b) as [tb| |] eqn:Eb; cbn [ebind] in He; try discriminate. inversion He; subst ts env'; clear He.
      destruct fuel as [|fu]; [discriminate|]. rewrite exec_block_unfold in Hex.
      destruct (exec_list M fu b (push_frame st)) as [[fl1 st2]| | |] eqn:Ex; cbn [rbind] in Hex; try discriminate. inversion Hex; subst fl st1; clear Hex.
      destruct (src_list n IHn b tb ([] :: env) fu (push_frame st) fl1 st2 locals V A vs Hs Eb Hg Ex (Agree_push gl args env st locals V A vs Hag)) as (-> & Hsh & V' & A' & vs' & Hx & Hag2).
      rewrite shape_push in Hsh.
      split; [reflexivity|]. split; [apply (shape_pop _ _ Hsh)|].
      exists V', A', vs'. split; [rewrite bexec_block; exact Hx|apply (Agree_pop gl args env st2 (shape st) locals V' A' vs' Hsh Hag2)].
    - (* conditional *)
      apply andb_prop in Hs as [Hs Hbf]. apply andb_prop in Hs as [Hpc Hbt].
      intros ts env env' fuel st fl st1 locals V A vs He Hg Hex Hag.
      pose proof (Agree_push gl args env st locals V A vs Hag) as Hagp. pose proof (Agree_env_num _ _ _ _ _ _ Hagp) as Hn1.
      rewrite elab_if_unfold in He. cbn zeta in He.
      destruct (elab G COn ([] :: env) c) as [c'| |] eqn:Ec; cbn [ebind] in He; try discriminate.
      destruct (elab_stmt G ([] :: env) t) as [[t' env2]| |] eqn:Et; cbn [ebind] in He; try discriminate.
      destruct fuel as [|fu]; [discriminate|]. rewrite exec_if_unfold in Hex. cbn zeta in Hex.
      destruct (eval M fu c (push_frame st)) as [[v st0]| | |] eqn:Ev; cbn [rbind] in Hex; try discriminate.
      assert (Hgc : tok c' = true /\ lit_ok cs c').
      { destruct f as [f0|]; [destruct (elab_stmt G env2 f0) as [[q1 q2]| |]; cbn [ebind] in He; try discriminate|]; inversion He; subst ts; apply Hg; cbn; left; reflexivity. }
      destruct (lit_teval structs gl args cs c' locals (mkfr V A) vs (proj2 Hgc)) as [Hli Hlf].
      destruct (elab_pure_correct M G structs gl args cs locals (mkfr V A) vs ([] :: env) (push_frame st) Hagp c c' Hpc Ec (proj1 Hgc) Hli Hlf) as (Hpt & Hsemc).
      destruct (Hsemc _ _ _ Ev) as (-> & w & -> & _ & Hvc). cbn [scalar rbind] in Hex.
      destruct f as [f0|].
      + destruct (elab_stmt G env2 f0) as [[f' env3]| |] eqn:Ef; cbn [ebind fst] in He; try discriminate. inversion He; subst ts env'; clear He.
        assert (Hgt : bgood cs n t') by (intros x Hx; apply Hg; cbn; right; apply in_or_app; left; exact Hx).
        assert (Hgf : bgood cs n f') by (intros x Hx; apply Hg; cbn; right; apply in_or_app; right; exact Hx).
        destruct (bsrc_static G n t t' ([] :: env) env2 Hbt Et Hn1 (bgood_nonan _ _ Hgt)) as [_ ->].
        destruct (truth w) eqn:Etr.
        * destruct (exec M fu t (push_frame st)) as [[fl2 st2]| | |] eqn:Ext; cbn [rbind] in Hex; try discriminate. inversion Hex; subst fl st1; clear Hex.
          destruct (IHn t Hbt t' ([] :: env) ([] :: env) fu (push_frame st) fl2 st2 locals V A vs Et Hgt Ext Hagp) as (-> & Hsh & V' & A' & vs' & Hx & Hag2).
          rewrite shape_push in Hsh. split; [reflexivity|]. split; [apply (shape_pop _ _ Hsh)|].
          exists V', A', vs'. split; [|apply (Agree_pop gl args env st2 (shape st) locals V' A' vs' Hsh Hag2)].
          cbn [bexec]. rewrite Hvc, truthy_v_of, Etr. exact Hx.
        * destruct (exec M fu f0 (push_frame st)) as [[fl2 st2]| | |] eqn:Exf; cbn [rbind] in Hex; try discriminate. inversion Hex; subst fl st1; clear Hex.
          destruct (IHn f0 Hbf f' ([] :: env) env3 fu (push_frame st) fl2 st2 locals V A vs Ef Hgf Exf Hagp) as (-> & Hsh & V' & A' & vs' & Hx & Hag2).
          rewrite shape_push in Hsh. split; [reflexivity|]. split; [apply (shape_pop _ _ Hsh)|].
          exists V', A', vs'. split; [|apply (Agree_pop gl args env st2 (shape st) locals V' A' vs' Hsh Hag2)].
          cbn [bexec]. rewrite Hvc, truthy_v_of, Etr. exact Hx.
      + cbn [ebind] in He. inversion He; subst ts env'; clear He.
        assert (Hgt : bgood cs n t') by (intros x Hx; apply Hg; cbn; right; rewrite app_nil_r; exact Hx).
        destruct (truth w) eqn:Etr.
        * destruct (exec M fu t (push_frame st)) as [[fl2 st2]| | |] eqn:Ext; cbn [rbind] in Hex; try discriminate. inversion Hex; subst fl st1; clear Hex.
          destruct (IHn t Hbt t' ([] :: env) env2 fu (push_frame st) fl2 st2 locals V A vs Et Hgt Ext Hagp) as (-> & Hsh & V' & A' & vs' & Hx & Hag2).
          rewrite shape_push in Hsh. split; [reflexivity|]. split; [apply (shape_pop _ _ Hsh)|].
          exists V', A', vs'. split; [|apply (Agree_pop gl args env st2 (shape st) locals V' A' vs' Hsh Hag2)].
          cbn [bexec]. rewrite Hvc, truthy_v_of, Etr. exact Hx.
        * cbn [rbind] in Hex. inversion Hex; subst fl st1; clear Hex.
          split; [reflexivity|]. split; [apply (shape_pop _ (shape st)); apply shape_push|].
          exists V, A, vs. split; [cbn [bexec]; rewrite Hvc, truthy_v_of, Etr; reflexivity|].
          apply (Agree_pop gl args env (push_frame st) (shape st) locals V A vs (shape_push st) Hagp).
  Qed.
End Src3.
