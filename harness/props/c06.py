"""C06 -- The WebAssembly backend agrees with the VM or refuses."""
import os, json
import shapes, wasmcases, nslgen, vmcases, ircoq
from common import parse_coq_values, coq_list

STATIC = ["Spec/Wasm.v", "Proofs/WasmProofs.v", "Model/WasmGen.v", "Proofs/WasmGenProofs.v", "Proofs/WasmSimProofs.v", "Spec/RefSem.v"]

HEADER = wasmcases.HEADER.replace("From NSL Require Import Spec.Wasm.", "From NSL Require Import Base.Types Base.Syntax Model.PyNum Model.PyTree Spec.Wasm Spec.RefSem Harness.RunLib.") + """
Definition fuel : nat := Z.to_nat 5000.
(* reference result of the source program -> a WebAssembly value of the function's result type *)
Definition close32 (a b : float) : bool :=
  let d := PrimFloat.abs (a - b)%float in
  let m := PrimFloat.abs a in let n := PrimFloat.abs b in
  let big := if PrimFloat.ltb m n then n else m in
  PrimFloat.leb d (big * 0x1p-18)%float || (PrimFloat.ltb m 0x1p-100%float && PrimFloat.ltb n 0x1p-100%float) || (PrimFloat.eqb a b).
Definition agree (ret_float : bool) (spec : pv) (kind : Z) (w : wval) : bool :=
  match spec, kind, w with
  | PInt z, 0, WI32 x => if ret_float then false else wrap32 z =? wrap32 x
  | PInt z, 0, WF32 f => match float_of_Z z with Ok g => close32 g f | _ => true end
  | PFloat g, 0, WF32 f => close32 g f
  | PNone, 2, _ => true
  | _, _, _ => false
  end.
(* per call: bit 1 the Coq interpreter of the emitted binary differs from the engine; bit 2 the engine differs from the reference
   result of the source (only where the reference semantics defines one); bit 4 the VM differs from the engine (same condition);
   bit 8 the reference semantics defines no result (outside the i32 range, division by zero, ...) *)
Definition wchk (M : module) (b : bytes) (ret_float : bool) (name : list Z) (c : call) (args : list wval) (kind : Z) (w : wval) (vm : obs) : Z :=
  let interp := match decode b with DOk m _ => same_res (invoke_export m name args) kind w | _ => false end in
  (if interp then 0 else 1) +
  match fst (spec_call fuel M [] c) with
  | ORet v _ => (if agree ret_float v kind w then 0 else 2) + match vm with ORet u _ => if agree ret_float u kind w then 0 else 4 | _ => 4 end
  | _ => 8
  end.
"""


def run(ctx):
    ctx.static_obligations(STATIC)
    repo = ctx.sync_repo(1)[0]
    shapes.write(ctx, repo, ["wasm_generator", "wasm_writer", "compiler", "pass", "visitor"])
    ctx.compile_dyn(["Gen_Shapes", "Props_C06"])
    rng = ctx.rng
    quick = ctx.tier == "quick"
    jobs = wasmcases.build_jobs(rng, quick, 200 if quick else 4000)
    mods = {}
    for k, j in enumerate(jobs):
        j["optimize"] = bool(k % 2)
    res = ctx.run_impl("c06_impl.py", jobs, nworkers=16)
    emitted = [(j, r) for j, r in zip(jobs, res) if r["accept"]]
    node = wasmcases.run_node(ctx, [{"hex": r["hex"], "calls": [{"fn": c["fn"], "args": c["args"], "float_result": c["ret"] == "float"} for c in j["calls"]]} for j, r in emitted])
    blocks, meta = [], []
    dist = {}
    silently = []
    invalid = []
    for idx, ((j, r), n) in enumerate(zip(emitted, node)):
        if not n["valid"]:
            invalid.append((j, r, n)); continue     # an emitted module no engine accepts neither agrees with the VM nor was it refused
        exprs = []
        m = j["module"]
        defs = "Definition M_%d : module := %s.\nDefinition B_%d : bytes := %s.\n" % (idx, nslgen.coq_module(m), idx, wasmcases.coq_bytes(r["hex"]))
        for c, nr, vr in zip(j["calls"], n["results"], r["vm"]):
            if "missing" in nr:
                silently.append((j, r, c)); continue
            kind, w = wasmcases.node_result(nr, c["ret"])
            args = coq_list([wasmcases.coq_wval(t if t != "uint" else "int", v) for t, v in zip(c["types"], c["args"])])
            call = {"fn": c["fn"], "args": {k: (float.fromhex(v["f"]) if isinstance(v, dict) else v) for k, v in c["named"].items()}}
            vm = vmcases.coq_obs(vr, [])
            name = "[" + "; ".join(str(b) for b in c["fn"].encode()) + "]"
            exprs.append("wchk M_%d B_%d %s %s %s %s %d %s %s" % (idx, idx, "true" if c["ret"] == "float" else "false", name, vmcases.coq_call(call), args, kind, w, vm))
            meta.append((j, r, c, nr, vr))
        blocks.append((defs, exprs))
    files, per, flat = [], 25, []
    for i in range(0, len(blocks), per):
        f = os.path.join(ctx.dyn, "cases_C06_%d.v" % (i // per))
        chunk = blocks[i:i + per]
        allx = [e for _, ex in chunk for e in ex]
        open(f, "w").write(HEADER + "".join(d for d, _ in chunk) + "Definition cases : list Z := [\n  " + ";\n  ".join(allx) + "].\nEval vm_compute in cases.\n")
        files.append((f, len(allx)))
    outs = ctx.eval_cases([f for f, _ in files], timeout=900)
    codes = []
    for f, cnt in files:
        ok, out, err = outs[f]
        vals = parse_coq_values(out) if ok else []
        if not ok or not vals or not isinstance(vals[0], list):
            ctx.broken.append("correspondence: %s did not evaluate: %s" % (os.path.basename(f), err[-300:]))
            codes.extend([None] * cnt)
        else:
            codes.extend(vals[0])
    # the generator model must emit exactly the module the compiler emitted (the theorems are about the model)
    gexprs, gdefs = [], []
    for k, (j, r) in enumerate(emitted):
        prog = ircoq.program({"functions": r["ir"]["functions"], "globals": r["ir"]["globals"]})
        gdefs.append("Definition GP_%d : program := %s.\n" % (k, prog))
        gexprs.append("gen_chk GP_%d %s + 1000 * ring_count GP_%d" % (k, wasmcases.coq_bytes(r["hex"]), k))
    GH = wasmcases.HEADER.replace("From NSL Require Import Spec.Wasm.", "From NSL Require Import Model.PyNum Model.IR Spec.Wasm Harness.WasmLib.")
    gfiles = []
    for i in range(0, len(gexprs), 40):
        f = os.path.join(ctx.dyn, "cases_C06g_%d.v" % (i // 40))
        open(f, "w").write(GH + "".join(gdefs[i:i + 40]) + "Definition cases : list Z := [\n  " + ";\n  ".join(gexprs[i:i + 40]) + "].\nEval vm_compute in cases.\n")
        gfiles.append(f)
    gouts = ctx.eval_cases(gfiles, timeout=600)
    gcodes = []
    for f in gfiles:
        ok, out, err = gouts[f]
        vals = parse_coq_values(out) if ok else []
        if not ok or not vals or not isinstance(vals[0], list):
            ctx.broken.append("correspondence: %s did not evaluate: %s" % (os.path.basename(f), err[-300:]))
        else:
            gcodes.extend(vals[0])
    gen_differs = [c for c in gcodes if c % 1000 != 0]
    ring_functions = sum(c // 1000 for c in gcodes)
    if gen_differs:
        ctx.broken.append("correspondence: the generator model (Model.WasmGen) differs from the compiler on %d emitted module(s) (codes %s)" % (len(gen_differs), sorted(set(c % 1000 for c in gen_differs))))
    for j, r in zip(jobs, res):
        k = "%s:%s" % (j["kind"], "emitted" if r["accept"] else ("refused" if r.get("front_end_ok") else "rejected-by-front-end"))
        dist[k] = dist.get(k, 0) + 1
    bad_spec = [m for m, c in zip(meta, codes) if c is not None and not (c & 8) and (c & 6)]
    bad_model = [m for m, c in zip(meta, codes) if c is not None and (c & 1) and not ((c & 6) and not (c & 8))]
    undefined = sum(1 for c in codes if c is not None and c & 8)
    ctx.cov["evaluations"] = len(codes)
    ctx.cov["distinct_nontrivial"] = len({json.dumps([m[0]["src"], m[2]["fn"], m[2]["args"]]) for m, c in zip(meta, codes) if c is not None and not (c & 8)})
    ctx.cov["programs"] = len(jobs)
    ctx.cov["rule"] = ("the module generator of C07 (inside and just outside the backend's subset, targeted constants/operators/signatures); every exported scalar function of every emitted binary is "
                       "called on V8 with 3 argument vectors drawn from boundary values (0, +-1, powers of two, INT_MIN/INT_MAX, values needing rounding to single); the same calls run on the "
                       "real VM, on the Coq interpreter of Spec.Wasm applied to the decoded binary, and through the reference semantics of the source. Compared inside Coq: interpreter vs V8 "
                       "(exact), V8 vs reference result and VM vs V8 where the reference semantics defines a result (ints as 32-bit values, floats within 2^-18 relative). An exported "
                       "function missing from the binary, or a construct dropped silently, shows as a missing export or a wrong value. Non-trivial = calls with a defined reference result.")
    ctx.cov["samples"] = [{"kind": m[0]["kind"], "source": m[0]["src"][:300], "call": m[2]["fn"], "args": m[2]["args"], "v8": m[3], "vm": m[4]} for m in meta[:: max(1, len(meta) // 4)][:4]]
    ctx.extra["input_distribution"] = dict(sorted(dist.items()), calls=len(codes), reference_undefined=undefined, missing_exports=len(silently),
                                           generator_model_compared=len(gcodes), functions_in_ring_fragment=ring_functions)
    ctx.extra["disagreements_checked"] = len(codes)
    if silently:
        j, r, c = silently[0]
        ctx.violation("failing-input", {"what": "an exported function of the source is missing from the emitted module", "source": j["src"], "compiled_before_on_the_same_Compiler_object": j.get("before", []), "function": c["fn"], "hex": r["hex"]})
    kf = ctx.known_findings()
    rest = []
    for x in bad_spec:
        hit = None
        for e in kf:
            if e["classifier"] == "c06_uint_underflow" and x[0]["kind"] == "uint-underflow":
                hit = e
        if hit:
            ctx.report_known(hit)
        else:
            rest.append(x)
    bad_spec = rest
    if invalid and not silently:
        j, r, n = min(invalid, key=lambda x: len(x[0]["src"]))
        ctx.violation("failing-input", {"what": "the compiler emitted a module that a conforming engine rejects: it neither agrees with the VM nor was it refused", "case_kind": j["kind"],
                                        "source": j["src"], "compiled_before_on_the_same_Compiler_object": j.get("before", []), "hex": r["hex"], "v8": n.get("error"), "count": len(invalid)})
    elif silently:
        pass
    elif bad_spec:
        j, r, c, nr, vr = min(bad_spec, key=lambda x: len(x[0]["src"]))
        ctx.violation("failing-input", {"what": "the emitted WebAssembly function does not return what the source program computes", "case_kind": j["kind"], "source": j["src"], "compiled_before_on_the_same_Compiler_object": j.get("before", []), "function": c["fn"],
                                        "args": c["args"], "v8": nr, "vm": vr, "hex": r["hex"], "count": len(bad_spec)})
    elif bad_model:
        j, r, c, nr, vr = bad_model[0]
        ctx.broken.append("correspondence: the Coq interpreter of Spec.Wasm and V8 disagree on %d call(s), e.g. %s %s(%s) -> %s" % (len(bad_model), j["src"][:200], c["fn"], c["args"], nr))
