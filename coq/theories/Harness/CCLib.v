(** Plan, boolean hypothesis test and whole-pipeline theorem for the optimiser (C02): OptimizeConstantCasts followed by
    OptimizeLoadAfterStore.  [plan] recomputes which casts of constants fold to which constant; [cc_hyps_b] decides the
    hypotheses of [const_casts_preserve_outcomes]; the check evaluates both on the real unoptimised IR of every function and
    compares the planned function with what the optimiser model produces. *)
From Coq Require Import String ZArith List Bool PrimFloat Arith.
From NSL Require Import Model.PyNum Model.IR Model.VM Model.WfIR Model.Lower Model.Opt Model.PyTree Model.IREq
                        Proofs.ForwardProofs Proofs.ForwardFlowProofs Proofs.ForwardFlowFailProofs Proofs.ConstCastFlowProofs Harness.FwdLib Harness.FwdFlowLib.
Import ListNotations.

Fixpoint plan_code (C : list (nat * irty * cval)) (nxt : nat) (code : list instr) (T : list (nat * nat)) : option (list (nat * irty * cval) * nat * list (nat * nat)) :=
  match code with
  | [] => Some (C, nxt, T)
  | i :: r =>
      match i_body i with
      | ICast src =>
          match find (fun c => Nat.eqb (cref c) src) C with
          | Some c =>
              match fold_cast (i_ty i) (snd c) with
              | OOk v =>
                  match find (fun c' => irty_eqb_simple (snd (fst c')) (i_ty i) && cval_pyeq (snd c') v) C with
                  | Some c' => plan_code C nxt r (T ++ [(i_ref i, cref c')])
                  | None => plan_code (C ++ [(nxt, i_ty i, v)]) (S nxt) r (T ++ [(i_ref i, nxt)])
                  end
              | _ => None
              end
          | None => plan_code C nxt r T
          end
      | _ => plan_code C nxt r T
      end
  end.
Fixpoint plan_blocks (C : list (nat * irty * cval)) (nxt : nat) (bs : list block) (T : list (nat * nat)) : option (list (nat * irty * cval) * list (nat * nat)) :=
  match bs with
  | [] => Some (C, T)
  | b :: r => match plan_code C nxt (b_code b) T with Some (C1, n1, T1) => plan_blocks C1 n1 r T1 | None => None end
  end.
(** the table of folded casts and the NEW constants (the old ones are kept as they are) *)
Definition plan (F : ifunc) : option (list (nat * nat) * list (nat * irty * cval)) :=
  match plan_blocks (fn_consts F) (next_ref F) (fn_blocks F) [] with
  | Some (C', T) => Some (T, skipn (length (fn_consts F)) C')
  | None => None
  end.

Definition all_instrs (F : ifunc) : list (block * instr) := flat_map (fun b => map (fun i => (b, i)) (b_code b)) (fn_blocks F).

Definition cast_ok_b (T : list (nat * nat)) (C' : list (nat * irty * cval)) (i : instr) : bool :=
  match ccrm T i with
  | None => true
  | Some cr =>
      match i_body i with
      | ICast src =>
          match find (fun c => Nat.eqb (cref c) src) C', find (fun c => Nat.eqb (cref c) cr) C' with
          | Some c, Some c' => match fold_cast (i_ty i) (snd c) with OOk v => irty_eqb_simple (snd (fst c')) (i_ty i) && cval_pyeq (snd c') v | _ => false end
          | _, _ => false
          end
      | _ => false
      end
  end.

Definition cc_hyps_b (F : ifunc) (T : list (nat * nat)) (N : list (nat * irty * cval)) : bool :=
  let C' := fn_consts F ++ N in
  forallb (fun bi => forallb (fun o => negb (memn o (crefs N))) (operands (i_body (snd bi)))) (all_instrs F) &&
  nodupb (crefs C') && nodupb (instr_refs F) &&
  forallb (fun b => operands_earlier_b (b_code b)) (fn_blocks F) && local_ops_b F &&
  forallb (fun c => negb (memn (cref c) (instr_refs F))) C' &&
  forallb (fun bi => cast_ok_b T C' (snd bi)) (all_instrs F).

(** the values among which Python equality must be exact: the constants and what the casts fold to *)
Definition fold_vals (F : ifunc) (C' : list (nat * irty * cval)) : list (irty * cval) :=
  map (fun c => (snd (fst c), snd c)) C' ++
  flat_map (fun bi => match i_body (snd bi) with
                      | ICast src => match find (fun c => Nat.eqb (cref c) src) C' with
                                     | Some c => match fold_cast (i_ty (snd bi)) (snd c) with OOk v => [(i_ty (snd bi), v)] | _ => [] end
                                     | None => [] end
                      | _ => [] end) (all_instrs F).
(** constants of one type that Python calls equal are the same value (no +0.0 beside -0.0, no int beside a float of the same type) *)
Definition vals_exact (L : list (irty * cval)) : Prop :=
  forall a b, In a L -> In b L -> irty_eqb_simple (fst a) (fst b) = true -> cval_pyeq (snd a) (snd b) = true -> snd a = snd b.
Definition vals_exact_b (L : list (irty * cval)) : bool :=
  forallb (fun a => forallb (fun b => implb (irty_eqb_simple (fst a) (fst b) && cval_pyeq (snd a) (snd b)) (cval_same (snd a) (snd b))) L) L.

Lemma all_instrs_in F b i : In b (fn_blocks F) -> In i (b_code b) -> In (b, i) (all_instrs F).
Proof. intros Hb Hi. unfold all_instrs. apply in_flat_map. exists b. split; [exact Hb|]. apply in_map. exact Hi. Qed.

Lemma find_cref_in (C : list (nat * irty * cval)) r c : find (fun c => Nat.eqb (cref c) r) C = Some c -> In c C /\ cref c = r.
Proof. intros H. apply find_some in H as [H1 H2]. apply Nat.eqb_eq in H2. auto. Qed.

Lemma cc_hyps_b_sound F T N : cc_hyps_b F T N = true -> vals_exact (fold_vals F (fn_consts F ++ N)) -> cc_hyps F T (fn_consts F ++ N).
Proof.
  unfold cc_hyps_b. intros H Hex. set (C' := fn_consts F ++ N) in *.
  apply andb_prop in H as [H Hcast]. apply andb_prop in H as [H Hci]. apply andb_prop in H as [H Hloc]. apply andb_prop in H as [H Hops].
  apply andb_prop in H as [H Hnd]. apply andb_prop in H as [Hnop Hcnd].
  rewrite forallb_forall in Hnop, Hops, Hci, Hcast. unfold local_ops_b in Hloc. rewrite forallb_forall in Hloc.
  constructor.
  - exists N. split; [reflexivity|]. intros b i o Hb Hi Ho X. specialize (Hnop (b, i) (all_instrs_in F b i Hb Hi)). cbn [snd] in Hnop.
    rewrite forallb_forall in Hnop. specialize (Hnop o Ho). apply negb_true_iff in Hnop. apply memn_in in X. congruence.
  - apply nodupb_NoDup. exact Hcnd.
  - apply nodupb_NoDup. exact Hnd.
  - intros b Hb. apply operands_earlier_sound. apply Hops. exact Hb.
  - intros b i o Hin Hi Ho Hr. specialize (Hloc b Hin). rewrite forallb_forall in Hloc. specialize (Hloc i Hi). apply andb_prop in Hloc as [H1 _].
    rewrite forallb_forall in H1. specialize (H1 o Ho). apply memn_in in Hr. rewrite Hr in H1. cbn in H1. apply memn_in. exact H1.
  - intros b i t Hin Hi Ht X. specialize (Hloc b Hin). rewrite forallb_forall in Hloc. specialize (Hloc i Hi). apply andb_prop in Hloc as [_ H2].
    rewrite forallb_forall in H2. specialize (H2 t Ht). apply negb_true_iff in H2. apply memn_in in X. congruence.
  - intros c Hc X. specialize (Hci c Hc). apply negb_true_iff in Hci. apply memn_in in X. congruence.
  - intros b i cr Hb Hi Hcr. specialize (Hcast (b, i) (all_instrs_in F b i Hb Hi)). cbn [snd] in Hcast. unfold cast_ok_b in Hcast. rewrite Hcr in Hcast.
    destruct (i_body i) as [| | | | | | | | | | | | |src| |] eqn:Eb; try discriminate.
    destruct (find (fun c => Nat.eqb (cref c) src) C') as [c|] eqn:Ec; [|discriminate].
    destruct (find (fun c => Nat.eqb (cref c) cr) C') as [c'|] eqn:Ec'; [|discriminate].
    destruct (fold_cast (i_ty i) (snd c)) as [v| |] eqn:Ef; try discriminate.
    destruct (find_cref_in _ _ _ Ec) as [Hc Hcs]. destruct (find_cref_in _ _ _ Ec') as [Hc' Hcs'].
    apply andb_prop in Hcast as [Hty Hcast].
    exists src, c, v, c'. repeat split; try assumption.
    f_equal. apply (Hex (snd (fst c'), snd c') (i_ty i, v)); [| |exact Hty|exact Hcast].
    + unfold fold_vals. apply in_or_app. left. apply (in_map (fun c0 => (snd (fst c0), snd c0))). exact Hc'.
    + unfold fold_vals. apply in_or_app. right. apply in_flat_map. exists (b, i). split; [apply all_instrs_in; assumption|]. cbn [snd]. rewrite Eb. fold C'. rewrite Ec, Ef. left. reflexivity.
Qed.

(** ** the whole optimiser on one function *)
Theorem optimiser_preserves_outcomes : forall (P : program) (F : ifunc) T N,
  cc_hyps F T (fn_consts F ++ N) -> flow_hyps (cc_apply T (fn_consts F ++ N) F) ->
  let F'' := opt_load_after_store (cc_apply T (fn_consts F ++ N) F) in
  forall fuel args vs out, run fuel P F 0 (entry F args) vs = out -> final out ->
  exists fuel', run fuel' P F'' 0 (entry F'' args) vs = out.
Proof.
  intros P F T N Hc Hf F'' fuel args vs out Hrun Hfo.
  destruct (const_casts_preserve_outcomes P F T _ Hc fuel args vs out Hrun Hfo) as [fuel1 H1].
  exact (forwarding_preserves_outcomes P _ Hf fuel1 _ vs out H1 Hfo).
Qed.

Theorem optimiser_check_sound : forall (P : program) (F : ifunc) T N,
  cc_hyps_b F T N = true -> vals_exact (fold_vals F (fn_consts F ++ N)) -> flow_hyps_b (cc_apply T (fn_consts F ++ N) F) = true ->
  let F'' := opt_load_after_store (cc_apply T (fn_consts F ++ N) F) in
  forall fuel args vs out, run fuel P F 0 (entry F args) vs = out -> final out ->
  exists fuel', run fuel' P F'' 0 (entry F'' args) vs = out.
Proof.
  intros P F T N H1 H2 H3. apply optimiser_preserves_outcomes; [apply cc_hyps_b_sound; assumption|apply flow_hyps_b_sound; exact H3].
Qed.

(** for the evidence, per program: 1000000 * functions + 10000 * (planned, hypotheses decided true, values exact, and the planned
    optimised function is bit for bit what the optimiser model produces) + 100 * those among them with a folded cast + those with several blocks *)
Definition optfull_ok (F : ifunc) : bool :=
  match plan F, optimise_func F with
  | Some (T, N), OOk F'' =>
      cc_hyps_b F T N && vals_exact_b (fold_vals F (fn_consts F ++ N)) && flow_hyps_b (cc_apply T (fn_consts F ++ N) F) &&
      ifunc_eqb (opt_load_after_store (cc_apply T (fn_consts F ++ N) F)) F''
  | _, _ => false
  end.
Definition optfull_case (P : program) : Z :=
  let ok := filter optfull_ok (p_funcs P) in
  let folded := filter (fun F => match plan F with Some (T, _) => negb (Nat.eqb (length T) 0) | None => false end) ok in
  let multi := filter (fun F => Nat.ltb 1 (length (fn_blocks F))) ok in
  (Z.of_nat (length (p_funcs P)) * 1000000 + Z.of_nat (length ok) * 10000 + Z.of_nat (length folded) * 100 + Z.of_nat (length multi))%Z.
