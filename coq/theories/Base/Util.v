(** Small executable helpers shared by the generated case files. *)
From Coq Require Import ZArith List Bool.
Import ListNotations.
Local Open Scope Z_scope.

Fixpoint zlist_eqb (a b : list Z) : bool :=
  match a, b with
  | [], [] => true
  | x :: a', y :: b' => (x =? y) && zlist_eqb a' b'
  | _, _ => false
  end.

Lemma zlist_eqb_eq a : forall b, zlist_eqb a b = true <-> a = b.
Proof.
  induction a as [|x a IH]; destruct b as [|y b]; cbn; split; intros H; try congruence; try discriminate.
  - apply andb_prop in H as [H1 H2]. apply Z.eqb_eq in H1. apply IH in H2. congruence.
  - inversion H; subst. rewrite Z.eqb_refl. cbn. apply IH. reflexivity.
Qed.

(** result code of a three-way comparison: bit 0 = implementation differs from the model,
    bit 1 = implementation differs from the specification *)
Definition verdict (impl_eq_model impl_eq_spec : bool) : Z :=
  (if impl_eq_model then 0 else 1) + (if impl_eq_spec then 0 else 2).
