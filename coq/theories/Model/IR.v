(** * The linear IR (nsl/LinearIR.py) as data: what Result.IRModule contains after lowering and the IR passes.
    References (instruction results, constants, basic blocks) are natural numbers from one per-function counter. *)
From Coq Require Import String ZArith List Bool PrimFloat.
From NSL Require Import Model.PyNum.
Import ListNotations.

Inductive irty :=
  | ITInt (unsigned : bool)
  | ITFloat
  | ITVec (elem : irty) (n : nat)
  | ITMat (elem : irty) (rows cols : nat)
  | ITStruct (name : string) (fields : list (string * irty))
  | ITArr (elem : irty) (dims : list nat)
  | ITVoid.

Inductive vscope := SGlobal | SArg | SLocal.
(** the variable a LOAD/STORE names: a string, or (after RewriteFunctionArgAccess) an argument index *)
Inductive varname := VName (s : string) | VIndex (i : nat).

Inductive binopc :=
  | BAdd | BSub | BMul | BDiv | BMod | BCmp (c : cmp) | BLgAnd | BLgOr
  | BVAdd | BVSub | BVMul | BVDiv | BVMod | BVCmp (c : cmp) | BVLgAnd | BVLgOr
  | BVMulS | BVDivS | BMatMul
  | BOther (code : Z).               (* an opcode of the binary family with no arm in the VM *)

Inductive idx_kind := KArray | KVector | KMatrix.

Inductive ibody :=
  | ILoad (sc : vscope) (v : varname)
  | IStore (sc : vscope) (v : varname) (src : nat)
  | ILoadIdx (k : idx_kind) (arr idx : nat)                 (* LOAD_ARRAY / VECTOR_GET / MATRIX_GET *)
  | IStoreArray (arr idx src : nat)
  | ISetIdx (k : idx_kind) (arr idx src : nat)              (* VECTOR_SET / MATRIX_SET: copy, then update the copy *)
  | ILoadMember (o : nat) (m : string)
  | IStoreMember (o : nat) (m : string) (src : nat)
  | IShuffle (a b : nat) (indices : list nat)
  | IBin (o : binopc) (a b : nat)
  | IBranch (pred : option nat) (t : option nat) (f : option nat)
  | IRet (v : option nat)
  | ICall (fn : string) (args : list nat)
  | INewVar (name : string)
  | ICast (src : nat)
  | IConstruct (vals : list nat)
  | IUnknown (opcode : Z).

Record instr := { i_ref : nat; i_ty : irty; i_body : ibody }.

Inductive cval := KInt (z : Z) | KFloat (f : float).
Record block := { b_ref : nat; b_code : list instr }.
Record ifunc := {
  fn_name : string;
  fn_args : list (string * irty);
  fn_ret : irty;
  fn_consts : list (nat * irty * cval);
  fn_blocks : list block }.
Record program := { p_funcs : list ifunc; p_globals : list string }.

Definition ty_is_scalar (t : irty) : bool := match t with ITInt _ | ITFloat => true | _ => false end.
Definition ty_is_vector (t : irty) : bool := match t with ITVec _ _ => true | _ => false end.
Definition ty_is_matrix (t : irty) : bool := match t with ITMat _ _ _ => true | _ => false end.
Definition ty_is_primitive (t : irty) : bool := ty_is_scalar t || ty_is_vector t || ty_is_matrix t.

Definition find_func (P : program) (name : string) : option ifunc :=
  find (fun f => String.eqb (fn_name f) name) (p_funcs P).
