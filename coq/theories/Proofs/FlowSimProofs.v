(** * C01, conditionals: the function-level simulation.  A source function whose body is a list of scalar declarations,
    assignments (plain or compound), blocks and conditionals (nested, without declarations inside), followed by [return e],
    returns on the VM — after elaboration and lowering — the value the reference semantics gives. *)
From Coq Require Import String ZArith List Bool PrimFloat Arith Lia.
From NSL Require Import Base.Types Base.Syntax Spec.Overload Model.PyNum Model.IR Model.VM Model.TypesBin Model.Elab Model.Lower Spec.RefSem
                        Proofs.OpsAgree Proofs.OptProofs Proofs.LowerExprProofs Proofs.ElabExprProofs Proofs.ReturnExprProofs Proofs.CallAgreeProofs
                        Proofs.LowerStmtProofs Proofs.ElabStmtProofs Proofs.StraightLineProofs Proofs.HistoryRefineProofs Proofs.LowerWfProofs Proofs.LowerAllocProofs
                        Proofs.FlowLowerProofs Proofs.FlowFuncProofs Proofs.FlowElabProofs Proofs.FlowTableProofs.
Import ListNotations.

Definition stop (n : nat) (s : stmt) : bool := ssimple s || bsrc n s.

Section TopStatic.
  Variable G : genv.

  Lemma bsrc_nonsimple n s ts env env' : ssimple s = false -> bsrc n s = true -> elab_stmt G env s = EOk (ts, env') -> simple ts = false.
  Proof.
    intros Hns Hs He. destruct n as [|n]; [discriminate|]. destruct s as [| e | b | | c t f | | | | |]; cbn [bsrc] in Hs; try discriminate.
    - destruct e as [| | | |o l r| | | | | |]; try discriminate. destruct l; try discriminate. rewrite Hns in Hs. discriminate.
    - rewrite elab_block_unfold in He. destruct (elab_body G ([] :: env) b); cbn [ebind] in He; try discriminate. inversion He. reflexivity.
    - rewrite elab_if_unfold in He. cbv zeta in He. destruct (elab G COn ([] :: env) c); cbn [ebind] in He; try discriminate.
      destruct (elab_stmt G ([] :: env) t) as [[t' env2]| |]; cbn [ebind] in He; try discriminate.
      destruct f as [f0|].
      + destruct (elab_stmt G env2 f0) as [q| |]; cbn [ebind] in He; try discriminate. inversion He. reflexivity.
      + cbn [ebind] in He. inversion He. reflexivity.
  Qed.

  Definition tnonan (n : nat) (ts : tstmt) : Prop := forall x, In x (topexprs n ts) -> forall f, In f (tflits x) -> PrimFloat.eqb f f = true.

  Lemma top_stmt_static n s ts env env' : env_num env -> stop n s = true -> elab_stmt G env s = EOk (ts, env') -> tnonan n ts ->
    top_ok n ts = true /\ env_num env'.
  Proof.
    intros Hn Hs He Hnan. unfold stop in Hs. destruct (ssimple s) eqn:Ess.
    - destruct (elab_stmt_simple_static G env s ts env' Hn Ess He) as [Hsim Hn'].
      { intros x Hx f Hf. apply (Hnan x); [apply in_or_app; left; exact Hx|exact Hf]. }
      split; [unfold top_ok; rewrite Hsim; reflexivity|exact Hn'].
    - cbn [orb] in Hs. destruct (bsrc_static G n s ts env env' Hs He Hn) as [Hb ->].
      { intros x Hx f Hf. apply (Hnan x); [apply in_or_app; right; exact Hx|exact Hf]. }
      split; [unfold top_ok; rewrite Hb; apply orb_true_r|exact Hn].
  Qed.

  Lemma top_body_static n : forall l env e tl te, env_num env -> forallb (stop n) l = true -> spure e = true ->
    elab_body G env (l ++ [SRet (Some e)]) = EOk (tl ++ [TRet (Some te)]) -> length tl = length l ->
    (forall x, In x (flat_map (topexprs n) tl ++ [te]) -> forall f, In f (tflits x) -> PrimFloat.eqb f f = true) ->
    forallb (top_ok n) tl = true /\ tpure te = true.
  Proof.
    induction l as [|s r IH]; intros env e tl te Hn Hs Hp He Hlen Hnan.
    - destruct tl; [|discriminate]. cbn [app] in *. cbn [elab_body elab_stmt elab_opt ebind] in He.
      destruct (elab G COn env e) as [te'| |] eqn:Ee; cbn [ebind elab_body] in He; try discriminate. inversion He; subst te'.
      split; [reflexivity|]. apply (elab_tpure_static G env Hn e te Hp Ee). intros f Hf. apply (Hnan te (or_introl eq_refl) f Hf).
    - destruct tl as [|ts tl]; [discriminate|]. cbn [app] in *. cbn [elab_body] in He.
      destruct (elab_stmt G env s) as [[ts' env']| |] eqn:Es; cbn [ebind] in He; try discriminate.
      destruct (elab_body G env' (r ++ [SRet (Some e)])) as [tb'| |] eqn:Er; cbn [ebind] in He; try discriminate. inversion He; subst ts' tb'; clear He.
      cbn [forallb] in Hs. apply andb_prop in Hs as [Hs1 Hsr].
      destruct (top_stmt_static n s ts env env' Hn Hs1 Es) as [Hsim Hn'].
      { intros x Hx f Hf. apply (Hnan x); [|exact Hf]. cbn [flat_map]. apply in_or_app. left. apply in_or_app. left. exact Hx. }
      destruct (IH env' e tl te Hn' Hsr Hp Er) as [Hsim' Hpt]; auto.
      { intros x Hx f Hf. apply (Hnan x); [|exact Hf]. cbn [flat_map]. rewrite <- app_assoc. apply in_or_app. right. exact Hx. }
      split; [cbn [forallb]; rewrite Hsim, Hsim'; reflexivity|exact Hpt].
  Qed.
End TopStatic.

Section TopSrc.
  Variable M : module.
  Variable G : genv.
  Variable structs : list sdef.
  Variable gl args : list string.
  Variable cs : list (nat * irty * cval).

  Definition tgood (n : nat) (ts : tstmt) : Prop := forall x, In x (topexprs n ts) -> tok x = true /\ lit_ok cs x.

  Lemma tgood_stok n ts : tgood n ts -> stok ts = true.
  Proof.
    intros H. destruct ts as [ty y [e|]| e | | | | | | | |]; try reflexivity; cbn [stok].
    - apply (H e). apply in_or_app. left. left. reflexivity.
    - destruct e; try reflexivity. apply (H e2). apply in_or_app. left. left. reflexivity.
  Qed.

  Theorem top_stmt_preserved n s ts env env' fuel st fl st1 locals V A vs :
    stop n s = true -> elab_stmt G env s = EOk (ts, env') -> tgood n ts -> fresh_decl gl args s ->
    exec M fuel s st = RefSem.ROk (fl, st1) -> Agree gl args env st locals V A vs ->
    fl = ONormal /\ env' = env_step env s /\ (forall y, In y (locals_names st1) -> In y (decl_name s) \/ In y (locals_names st)) /\
    exists locals' V' A' vs', topexec structs gl args n cs locals ts V A vs = Some (locals', V', A', vs') /\ Agree gl args env' st1 locals' V' A' vs'.
  Proof.
    intros Hs He Hg Hfr Hex Hag. unfold stop in Hs. destruct (ssimple s) eqn:Ess.
    - destruct (simple_stmt_preserved M G structs gl args cs s ts env env' fuel st fl st1 locals V A vs Ess He (tgood_stok n ts Hg)) as (Hfl & Hsim & locals' & V' & A' & vs' & Ht & Hag'); auto.
      { intros te Hte. apply (Hg te). apply in_or_app. left. exact Hte. }
      split; [exact Hfl|]. split; [apply (elab_stmt_env G env s ts env' Ess He)|]. split; [apply (simple_exec_names M s fuel st fl st1 Ess Hex)|]. exists locals', V', A', vs'. unfold topexec. rewrite Hsim. split; assumption.
    - cbn [orb] in Hs. pose proof (bsrc_nonsimple G n s ts env env' Ess Hs He) as Hns.
      assert (Hbg : bgood cs n ts) by (intros x Hx; apply Hg; apply in_or_app; right; exact Hx).
      destruct (bsrc_static G n s ts env env' Hs He (Agree_env_num gl args _ _ _ _ _ _ Hag) (bgood_nonan cs _ _ Hbg)) as [_ ->].
      destruct (src_all M G structs gl args cs n s Hs ts env env fuel st fl st1 locals V A vs He Hbg Hex Hag) as (Hfl & Hsh & V' & A' & vs' & Hb & Hag').
      split; [exact Hfl|]. split; [destruct n as [|n']; [discriminate|]; destruct s as [| e0 | | | | | | | |]; try discriminate; try reflexivity|].
      split; [intros y Hy; right; unfold locals_names in *; rewrite !flat_map_concat_map in *; unfold shape in Hsh; rewrite <- Hsh; exact Hy|].
      exists locals, V', A', vs'. unfold topexec. rewrite Hns, Hb. split; [reflexivity|exact Hag'].
  Qed.

  Theorem top_body_preserved n : forall l env e tl te fuel st fl st1 locals V A vs,
    forallb (stop n) l = true -> spure e = true ->
    elab_body G env (l ++ [SRet (Some e)]) = EOk (tl ++ [TRet (Some te)]) -> length tl = length l ->
    Forall (tgood n) tl -> tok te = true -> lit_ok cs te ->
    Forall (fresh_decl gl args) l ->
    exec_list M fuel (l ++ [SRet (Some e)]) st = RefSem.ROk (fl, st1) -> Agree gl args env st locals V A vs ->
    exists locals' V' A' vs' v,
      topexec_list structs gl args n cs locals tl V A vs = Some (locals', V', A', vs') /\
      teval structs gl args cs locals' (mkfr V' A') vs' te = Ok (v_of v) /\ fl = OReturn (SV v) /\
      Agree gl args (env_after env l) st1 locals' V' A' vs' /\
      (forall y, In y (locals_names st1) -> In y (flat_map decl_name l) \/ In y (locals_names st)).
  Proof.
    induction l as [|s r IH]; intros env e tl te fuel st fl st1 locals V A vs Hs Hp He Hlen Hg Hkt Hlt Hfr Hex Hag.
    - destruct tl; [|discriminate]. cbn [app] in *. cbn [elab_body elab_stmt elab_opt ebind] in He.
      destruct (elab G COn env e) as [te'| |] eqn:Ee; cbn [ebind elab_body] in He; try discriminate. inversion He; subst te'; clear He.
      apply exec_list_return in Hex as (fu & s0 & Hev & ->).
      destruct (lit_teval structs gl args cs te locals (mkfr V A) vs Hlt) as [Hli Hlf].
      destruct (elab_pure_correct M G structs gl args cs locals (mkfr V A) vs env st Hag e te Hp Ee Hkt Hli Hlf) as (Hpt & Hsem).
      destruct (Hsem _ _ _ Hev) as (-> & v & -> & _ & Hv).
      exists locals, V, A, vs, v. cbn [topexec_list]. split; [reflexivity|]. split; [exact Hv|]. split; [reflexivity|]. split; [exact Hag|].
      intros y Hy. right. apply (eval_pure_state M e fu _ _ _ Hp) in Hev. subst. exact Hy.
    - destruct tl as [|ts tl]; [discriminate|]. cbn [app] in *. cbn [elab_body] in He.
      destruct (elab_stmt G env s) as [[ts' env']| |] eqn:Es; cbn [ebind] in He; try discriminate.
      destruct (elab_body G env' (r ++ [SRet (Some e)])) as [tb'| |] eqn:Er; cbn [ebind] in He; try discriminate. inversion He; subst ts' tb'; clear He.
      cbn [forallb] in Hs. apply andb_prop in Hs as [Hs1 Hsr]. inversion Hg as [|? ? Hg1 Hgr]; subst. inversion Hfr as [|? ? Hf1 Hfr']; subst.
      destruct fuel as [|fu]; [discriminate|]. rewrite exec_list_cons in Hex.
      destruct (exec M fu s st) as [[fl1 st2]| | |] eqn:Ex; cbn [rbind] in Hex; try discriminate.
      destruct (top_stmt_preserved n s ts env env' fu st fl1 st2 locals V A vs Hs1 Es Hg1 Hf1 Ex Hag) as (-> & Henv' & Hnm1 & locals1 & V1 & A1 & vs1 & Ht1 & Hag1).
      destruct (IH env' e tl te fu st2 fl st1 locals1 V1 A1 vs1 Hsr Hp Er) as (locals' & V' & A' & vs' & v & Ht2 & Hv & Hfl & Henv & Hnm); auto.
      rewrite Henv' in Henv.
      exists locals', V', A', vs', v. cbn [topexec_list]. rewrite Ht1. split; [exact Ht2|]. split; [exact Hv|]. split; [exact Hfl|]. split; [exact Henv|].
      intros y Hy. cbn [flat_map]. destruct (Hnm y Hy) as [Hd|Hn]; [left; apply in_or_app; right; exact Hd|].
      destruct (Hnm1 y Hn) as [Hd|Hn']; [left; apply in_or_app; left; exact Hd|right; exact Hn'].
  Qed.
End TopSrc.

(** ** the function-level statement *)
Theorem flow_function_simulation :
  forall (M : module) (fn : func) (n : nat) (l : list stmt) (e : expr) (tf : tfunc) (F : ifunc),
    f_body fn = l ++ [SRet (Some e)] -> forallb (stop n) l = true -> spure e = true ->
    elab_func (genv_of M) (genvl M) fn = EOk tf -> lower_func (m_structs M) (glnames M) tf = LOk F ->
    forall tl te, tf_body tf = tl ++ [TRet (Some te)] -> length tl = length l ->
    forallb tok (flat_map (topexprs n) tl ++ [te]) = true ->
    lits_exact (flat_map tflits (flat_map (topexprs n) tl ++ [te])) -> (forall q, In q (flat_map tflits (flat_map (topexprs n) tl ++ [te])) -> PrimFloat.eqb q q = true) ->
    Forall (fresh_decl (glnames M) (argnames fn)) l ->
    forall (P : program) (ws : list rval) (g : RefSem.frame) (vs : vmstate),
      Forall2 (fun p w => has_ty w (fst p)) (f_args fn) ws ->
      (forall x, In x (map snd (f_args fn)) -> ~ In x (glnames M)) ->
      (forall x p, find (fun q => String.eqb (fst q) x) (genvl M) = Some p ->
         num_ty (snd p) /\ exists w, find (fun q => String.eqb (fst q) x) g = Some (fst p, SV w) /\ has_ty w (snd p) /\ slookup x (globals vs) = Some (v_of w)) ->
      forall fuel fl st', exec_list M fuel (f_body fn) (call_state fn ws g) = RefSem.ROk (fl, st') ->
        exists v vs', fl = OReturn (SV v) /\
          (exists N, forall fuel', N <= fuel' -> run fuel' P F 0 (call_frame ws (init_regs F)) vs = Done (v_of v) vs') /\
          (exists locals' V' A', Agree (glnames M) (argnames fn) (env_after (fenv M fn) l) st' locals' V' A' vs') /\
          (forall y, In y (locals_names st') -> In y (flat_map decl_name l) \/ In y (locals_names (call_state fn ws g))).
Proof.
  intros M fn n l e tf F Hbody Hs Hp Helab Hlower tl te Htb Hlen Hk Hlit Hnan Hfr P ws g vs Hargs Hdist Hglob fuel fl st' Hex.
  unfold elab_func in Helab. rewrite Hbody in Helab. fold (fenv M fn) in Helab.
  destruct (elab_body (genv_of M) (fenv M fn) (l ++ [SRet (Some e)])) as [tb| |] eqn:Eb; cbn [ebind] in Helab; try discriminate.
  inversion Helab; subst tf; clear Helab. cbn [tf_body tf_args] in *. subst tb.
  pose proof (call_agreement M fn ws g vs [] Hargs Hdist Hglob) as Hag0.
  assert (Hn0 : env_num (fenv M fn)) by (intros x t Hx; apply (Hag0 x t Hx)).
  destruct (top_body_static (genv_of M) n l (fenv M fn) e tl te Hn0 Hs Hp Eb Hlen) as [Hsim Hpt].
  { intros x Hx f Hf. apply Hnan. apply in_flat_map. exists x. split; assumption. }
  set (tf := {| tf_name := if f_export fn then f_name fn else mangle (f_name fn) (f_ret fn) (map fst (f_args fn)); tf_args := f_args fn; tf_ret := f_ret fn; tf_body := tl ++ [TRet (Some te)] |}) in *.
  pose proof (flow_function_lits_ok (m_structs M) (glnames M) tf n tl te F eq_refl Hsim Hpt Hlower Hlit Hnan) as Hlits.
  assert (Hkall : forall x, In x (flat_map (topexprs n) tl ++ [te]) -> tok x = true) by (apply forallb_forall; exact Hk).
  rewrite Hbody in Hex.
  destruct (top_body_preserved M (genv_of M) (m_structs M) (glnames M) (argnames fn) (fn_consts F) n l (fenv M fn) e tl te fuel (call_state fn ws g) fl st' [] [] (map v_of ws) vs
              Hs Hp Eb Hlen) as (locals' & V' & A' & vs' & v & Ht & Hv & Hfl & Hag1 & Hnm); auto.
  { apply Forall_forall. intros ts Hts x Hx. assert (Hin : In x (flat_map (topexprs n) tl ++ [te])) by (apply in_or_app; left; apply in_flat_map; exists ts; split; assumption).
    split; [apply Hkall; exact Hin|apply Hlits; exact Hin]. }
  { apply Hkall. apply in_or_app. right. left. reflexivity. }
  { apply Hlits. apply in_or_app. right. left. reflexivity. }
  exists v, vs'. split; [exact Hfl|]. split.
  - exact (flow_function_correct (m_structs M) (glnames M) tf n tl te F eq_refl Hsim Hpt Hlower P (map v_of ws) vs locals' V' A' vs' (v_of v) Ht Hv).
  - split; [exists locals', V', A'; exact Hag1|exact Hnm].
Qed.
