(** * C11 -- break and continue are accepted exactly inside loops.  Statements only. *)
From Coq Require Import String ZArith List Bool Arith.
From NSL Require Import Base.Types Base.Syntax Spec.Flow Model.Flow Proofs.FlowProofs.
From NSLDyn Require Gen_Shapes.
Import ListNotations.

(** For every statement tree (any nesting of blocks, if/else and the three loop forms): the depth-counter check
    accepts it exactly when no break/continue is reachable from its top without crossing a loop. *)
Theorem C11_flow_check_exact : forall s, flow_ok 0 s = true <-> ~ misplaced s.
Proof. exact flow_check_exact. Qed.

Theorem C11_flow_check_exact_module : forall m, flow_ok_module m = true <-> ~ misplaced_in_module m.
Proof. exact flow_check_exact_module. Qed.

(** the validator in the source has the shape the model was written against (translator fingerprint) *)
Theorem C11_validator_shape : Gen_Shapes.shape_flow_checked = true.
Proof. reflexivity. Qed.

(** non-vacuity *)
Example C11_examples :
  flow_ok 0 (SFor None None None (SBlock [SIf (EInt 1) SBreak (Some (SBlock [SContinue]))])) = true /\
  flow_ok 0 (SBlock [SWhile (EInt 1) None; SIf (EInt 1) (SBlock [SBreak]) None]) = false /\
  misplaced (SBlock [SWhile (EInt 1) None; SIf (EInt 1) (SBlock [SBreak]) None]).
Proof.
  repeat split; try reflexivity.
  eapply MBlock; [right; left; reflexivity|]. apply MIfT. eapply MBlock; [left; reflexivity|]. constructor.
Qed.

Eval compute in "ASSUMPTIONS C11_flow_check_exact"%string. Print Assumptions C11_flow_check_exact.
Eval compute in "ASSUMPTIONS C11_flow_check_exact_module"%string. Print Assumptions C11_flow_check_exact_module.
Eval compute in "END"%string.
