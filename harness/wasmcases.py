"""Shared by C06 and C07: generate programs around the WebAssembly subset, compile them with the real compiler, run the
binaries on V8 (node) and print Coq cases for the decoder / validator / interpreter of Spec.Wasm."""
import os, json, subprocess, struct
import nslgen, genwasm
from nslgen import *
from common import coq_list, parse_coq_values

HEADER = """From Coq Require Import String ZArith List Bool PrimFloat.
From NSL Require Import Spec.Wasm.
Import ListNotations.
Open Scope Z_scope.
Definition same_val (a b : wval) : bool :=
  match a, b with
  | WI32 x, WI32 y => wrap32 x =? wrap32 y
  | WF32 x, WF32 y => (PrimFloat.eqb x y) || (negb (PrimFloat.eqb x x) && negb (PrimFloat.eqb y y))
  | _, _ => false end.
(* engine result: 0 value / 1 trap / 2 no value ; Coq interpreter against it *)
Definition same_res (x : xres) (kind : Z) (v : wval) : bool :=
  match x, kind with
  | XVal [w], 0 => same_val w v
  | XVal [], 2 => true
  | XTrap, 1 => true
  | _, _ => false end.
Definition run_chk (b : bytes) (calls : list (list Z * list wval * Z * wval)) : list bool :=
  match decode b with
  | DOk m _ => map (fun c => match c with (name, args, kind, v) => same_res (invoke_export m name args) kind v end) calls
  | _ => map (fun _ => false) calls
  end.
"""


def special_modules(rng):
    """(kind, module) the C07 statement names: many functions, mixed locals, constants of every size, aggregates in signatures,
    missing return, void functions, unsigned operations"""
    out = []
    f = lambda name, params, ret, body: Func(name, [Arg(t, n) for n, t in params], ret, Block(body), export=True)
    consts = [0, 1, -1, 63, 64, -64, -65, 127, 128, 8191, 8192, -8192, -8193, 1048575, 1048576, 134217727, 134217728, -134217728, -134217729, 2147483647, -2147483647, -2147483648]
    for c in consts:
        out.append(("const", Module([f("k", [("a", "int")], "int", [Ret(B("+", V("a"), I(c)))])])))
    for c in [2147483648, 4294967295, 4294967296, 9999999999, -2147483649]:
        out.append(("const-out-of-range", Module([f("k", [("a", "int")], "int", [Ret(B("+", V("a"), I(c)))])])))
    for t in ["0.0", "1.0", "0.1", "16777217.0", "1.0e38", "1.0e-45", "3.4028235e38", "1.0e39", "123456.789"]:
        out.append(("fconst", Module([f("k", [("a", "float")], "float", [Ret(B("*", V("a"), F(t)))])])))
    # many functions, each with its own signature and locals of alternating types
    for n in (1, 2, 5, 9, 17):
        fs = []
        for i in range(n):
            ps = [("p%d" % j, ["int", "float", "uint"][(i + j) % 3]) for j in range(i % 5)]
            ret = ["int", "float"][i % 2]
            same = [x for x, t in ps if t == ret]
            e = V(same[0]) if same else (I(i) if ret == "int" else F("%d.5" % i))
            for j in range(i % 4):
                e = B(["+", "*", "-"][j % 3], e, (I(j + 1) if ret == "int" else F("%d.25" % j)))
            fs.append(f("fn%d" % i, ps, ret, [Ret(e)]))
        out.append(("many-functions", Module(fs)))
    # functions whose parameter and result lists differ but concatenate to the same sequence of types
    for t in ("int", "float"):
        lit = I(1) if t == "int" else F("1.5")
        out.append(("signature-concatenation", Module([f("g1", [("a", t)], t, [Ret(B("+", V("a"), lit))]), f("g2", [("a", t), ("b", t)], "void", [Ret(None)]), f("g3", [], t, [Ret(lit)]),
                                                       f("g4", [("a", t)], "void", [Ret(None)])])))
        out.append(("signature-concatenation", Module([f("g2", [("a", t), ("b", t)], "void", [Ret(None)]), f("g1", [("a", t)], t, [Ret(B("+", V("a"), lit))])])))
    out.append(("signature-concatenation", Module([f("h1", [("a", "int"), ("b", "float")], "int", [Ret(V("a"))]), f("h2", [("a", "int")], "float", [Ret(F("2.0"))]),
                                                   f("h3", [("a", "int"), ("b", "float"), ("c", "int")], "void", [Ret(None)])])))
    # aggregates in the signature of a function whose body is inside the subset
    for t in ["float3", "float4x4", "int2"]:
        out.append(("aggregate-parameter", Module([f("k", [("v", t), ("a", "int")], "int", [Ret(B("+", V("a"), I(1)))])])))
    out.append(("aggregate-parameter", Module([Func("k", [{"t": "float", "n": "arr", "dims": [4]}, Arg("int", "a")], "int", Block([Ret(B("+", V("a"), I(1)))]), export=True)])))
    out.append(("aggregate-parameter", Module([Struct("S", [{"t": "int", "n": "m"}]), f("k", [("s", "S"), ("a", "int")], "int", [Ret(B("+", V("a"), I(1)))])])))
    # control reaching the end without a value; void functions; empty bodies
    out.append(("no-return", Module([f("k", [("a", "int")], "int", [])])))
    out.append(("no-return", Module([f("k", [("a", "int")], "int", [ES(B("+", V("a"), I(1)))])])))
    out.append(("void", Module([f("k", [("a", "int")], "void", [Ret(None)])])))
    out.append(("void", Module([f("k", [("a", "int")], "void", [])])))
    out.append(("void", Module([f("k", [], "void", [ES(B("+", I(1), I(2)))])])))
    out.append(("two-returns", Module([f("k", [("a", "int")], "int", [Ret(V("a")), Ret(B("+", V("a"), I(1)))])])))
    # wrong result type on the stack
    out.append(("result-type", Module([f("k", [("a", "float")], "int", [Ret(V("a"))])])))
    out.append(("result-type", Module([f("k", [("a", "int")], "float", [Ret(B("+", V("a"), I(1)))])])))
    out.append(("result-type", Module([f("k", [("a", "float"), ("b", "float")], "float", [Ret(B("<", V("a"), V("b")))])])))
    # unsigned and comparison operators
    for o in ["+", "-", "*", "/", "==", "<", ">"]:
        for t in ["int", "uint", "float"]:
            out.append(("operator", Module([f("k", [("a", t), ("b", t)], t if o in "+-*/" else "int", [Ret(B(o, V("a"), V("b")))])])))
    # unsigned subtraction below zero followed by a division (known finding KF-03)
    out.append(("uint-underflow", Module([f("w0", [("p2", "uint")], "uint", [Ret(B("/", V("p2"), B("-", B("-", V("p2"), V("p2")), V("p2"))))])])))
    # functions that are not exported (they are written under their mangled name): overload sets, an internal overload of an exported function,
    # an internal function named like an exported one of another signature
    nf = lambda name, params, ret, body: Func(name, [Arg(t, n) for n, t in params], ret, Block(body), export=False)
    out.append(("internal-functions", Module([nf("g", [("a", "int")], "int", [Ret(B("+", V("a"), I(1)))]), nf("g", [("a", "float")], "float", [Ret(B("*", V("a"), F("2.0")))]),
                                              f("k", [("a", "int")], "int", [Ret(B("-", V("a"), I(3)))])])))
    out.append(("internal-functions", Module([f("k", [("a", "int")], "int", [Ret(B("-", V("a"), I(3)))]), nf("k", [("a", "float")], "float", [Ret(B("*", V("a"), F("0.5")))])])))
    out.append(("internal-functions", Module([nf("h", [("a", "int"), ("b", "int")], "int", [Ret(B("*", V("a"), V("b")))]), nf("h", [("a", "int")], "int", [Ret(V("a"))]),
                                              nf("h", [], "float", [Ret(F("1.5"))]), f("m", [], "int", [Ret(I(7))])])))
    out.append(("internal-functions", Module([nf("only", [("a", "uint")], "uint", [Ret(B("+", V("a"), V("a")))])])))
    # stores to parameters and locals before the return (the backend translates loads of arguments only: anything else must be refused, not mistranslated)
    out.append(("store-to-argument", Module([f("k", [("a", "int"), ("b", "int")], "int", [ES(A(V("a"), B("+", V("b"), I(1)))), Ret(B("*", V("a"), I(2)))])])))
    out.append(("store-to-argument", Module([f("k", [("a", "int"), ("b", "int")], "int", [ES(A(V("a"), I(3), "+=")), Ret(B("+", V("a"), V("b")))])])))
    out.append(("store-to-argument", Module([f("k", [("a", "float"), ("b", "float")], "float", [ES(A(V("b"), B("*", V("a"), F("0.5")))), Ret(B("+", V("a"), V("b")))])])))
    out.append(("store-to-argument", Module([f("k", [("a", "int")], "int", [ES(Pre("++", "a")), Ret(V("a"))])])))
    out.append(("store-to-argument", Module([f("k", [("a", "int"), ("b", "int")], "int", [Decl("int", "t", B("+", V("a"), V("b"))), ES(A(V("t"), B("*", V("t"), I(2)))), Ret(V("t"))])])))
    # names
    out.append(("names", Module([f("a_rather_long_function_name_to_make_the_export_section_longer_than_127_bytes_" + "x" * 60, [("a", "int")], "int", [Ret(V("a"))]), f("b", [], "int", [Ret(I(1))])])))
    return out


def build_jobs(rng, quick, nrandom):
    g = genwasm.WGen(rng)
    mods = [("random-inside" if k % 5 != 4 else "random-outside", g.module(outside=(k % 5 == 4))) for k in range(nrandom)]
    mods += special_modules(rng)
    jobs = []
    for kind, m in mods:
        text, _ = nslgen.render(m, "canonical", rng)
        calls = []
        for fn in [x for x in m["items"] if x["k"] == "func"]:
            if any(a.get("dims") or a["t"] not in ("int", "uint", "float") for a in fn["args"]) or not fn.get("export"):
                continue
            for _ in range(3):
                named = g.args(fn)
                calls.append({"fn": fn["n"], "named": {k: ({"f": float(v).hex()} if isinstance(v, float) else v) for k, v in named.items()},
                              "args": [named[a["n"]] for a in fn["args"]], "types": [a["t"] for a in fn["args"]], "ret": fn["ret"]})
        jobs.append({"kind": kind, "src": text, "calls": calls, "module": m})
    # one Compiler object used for several sources: the module emitted for the last one is held to the same standard (valid, agreeing with the VM, equal to the
    # generator model's output) whatever the object compiled before -- refused programs, supported ones, helpers whose mangled names coincide
    befores = ["export function q1(float a, int b) -> float { return a * b; }",
               "export function q2(int a) -> int { int t = a; t = t + 1; return t; }",
               "export function q3(int a, int b) -> int { return a + b; }",
               "function sq(int x) -> int { return x * x; }\nexport function q4(int a) -> int { return sq(a) + 1; }",
               "export function q5(int a) -> float { return a; }",
               "export function q6(float a) -> float { return a + 0.5; }\nexport function q7(int a) -> int { return a * 3; }"]
    reuse = []
    for k, j in enumerate(jobs):
        if k % 8 == 3:
            reuse.append(dict(j, kind="one-compiler-object:" + j["kind"], before=rng.sample(befores, rng.choice([1, 2, 3]))))
    from nslgen import Module, Func, Arg, Block, Ret, B, V, Call
    cube_m = Module([Func("sq", [Arg("int", "x")], "int", Block([Ret(B("*", B("*", V("x"), V("x")), V("x")))])),
                     Func("cube", [Arg("int", "a")], "int", Block([Ret(Call("sq", [V("a")]))]), export=True)])
    cube, _ = nslgen.render(cube_m, "canonical", rng)
    reuse.append({"kind": "one-compiler-object:helper-name-reused", "src": cube, "before": [befores[3]], "module": cube_m,
                  "calls": [{"fn": "cube", "named": {"a": v}, "args": [v], "types": ["int"], "ret": "int"} for v in (3, -2, 10)]})
    return jobs + reuse


def run_node(ctx, items):
    """items: list of {hex, calls:[{fn,args,float_result}]} -> node results"""
    jf = os.path.join(ctx.scratch, "node_jobs.json"); of = jf + ".out"
    json.dump(items, open(jf, "w"))
    p = subprocess.run(["node", os.path.join(os.path.dirname(os.path.abspath(__file__)), "impl", "wasm_node.js"), jf, of], capture_output=True, text=True, timeout=600)
    if p.returncode != 0:
        raise RuntimeError("node failed: " + p.stderr[-500:])
    return json.load(open(of))


def coq_bytes(hexs):
    b = bytes.fromhex(hexs)
    return "[" + "; ".join(str(x) for x in b) + "]"


def coq_wval(t, v):
    if t == "float":
        return "(WF32 (%s)%%float)" % float(v).hex()
    return "(WI32 (%d))" % v


def node_result(r, ret):
    """engine result -> (kind, wval text)"""
    if "trap" in r:
        return 1, "(WI32 0)"
    if "none" in r:
        return 2, "(WI32 0)"
    if "i" in r and ret != "float":
        return 0, "(WI32 (%d))" % r["i"]
    x = struct.unpack(">d", bytes.fromhex(r["f"]))[0] if "f" in r else float(r["i"])
    if x != x:
        return 0, "(WF32 nan)"
    if x in (float("inf"), float("-inf")):
        return 0, "(WF32 %s)" % ("infinity" if x > 0 else "neg_infinity")
    return 0, "(WF32 (%s)%%float)" % x.hex()
