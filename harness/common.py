"""Shared machinery of the /verif checks (see DESIGN.md section 4).

A check is a Python module harness/props/cXX.py exposing run(ctx).  This file
provides the Run context: scratch copies of /repo, translators, Coq compilation
of the per-run (dynamic) files, evaluation of generated cases inside Coq,
known-finding handling, VIOLATION reporting and the evidence file.
"""
import os, sys, json, time, shutil, subprocess, tempfile, re, random, fcntl, glob, hashlib
from concurrent.futures import ThreadPoolExecutor

VERIF = os.path.dirname(os.path.dirname(os.path.abspath(__file__)))
REPO = os.environ.get("NSL_REPO", "/repo")
PY = "/venv/bin/python"
COQ_ROOT = os.path.join(VERIF, "coq")
COQ_STATIC = os.path.join(COQ_ROOT, "theories")
COQ_DYN = os.path.join(COQ_ROOT, "dyn")
NCPU = max(2, min(16, os.cpu_count() or 2))

STMT_RE = re.compile(r"^\s*(Theorem|Lemma|Example|Corollary|Fact|Remark)\s+([A-Za-z_][A-Za-z0-9_']*)", re.M)


class TranslatorAbort(Exception):
    """A fail-closed translator did not recognise the shape of the source."""


def _scratch_base():
    for base in ("/dev/shm", os.environ.get("TMPDIR", ""), "/var/tmp", "/tmp"):
        if base and os.path.isdir(base) and os.access(base, os.W_OK):
            return base
    return tempfile.gettempdir()


class Run:
    def __init__(self, prop, tier, seed, level="proof"):
        self.prop = prop
        self.tier = tier
        self.seed = seed
        self.level = level
        self.t0 = time.time()
        self.rng = random.Random(seed)
        self.scratch = tempfile.mkdtemp(prefix="nslverif.%s." % prop, dir=_scratch_base())
        self.dyn = os.path.join(self.scratch, "dyn")
        os.makedirs(self.dyn)
        self.copies = []
        self.obligations = []      # dicts: name, where, ok
        self.broken = []           # names of broken ties (theorems / translators / correspondences)
        self.violations = []       # replay paths
        self.known_hits = []
        self.assumptions_seen = {} # theorem -> text from Print Assumptions
        self.cov = {"evaluations": 0, "distinct_nontrivial": 0, "rule": "", "samples": []}
        self.extra = {}
        self.notes = []
        self.replay_n = 0
        self.search_done = False

    # ---------------------------------------------------------------- repo copies
    def sync_repo(self, n=1):
        """rsync the working tree of /repo into n private scratch copies (PLY rewrites
        parsetab.py next to the package, so the real tree is never imported)."""
        while len(self.copies) < n:
            d = os.path.join(self.scratch, "repo%d" % len(self.copies))
            subprocess.run(["rsync", "-a", "--exclude", ".git", "--exclude", "__pycache__",
                            "--exclude", "parsetab.py", "--exclude", "parser.out",
                            REPO + "/", d + "/"], check=True)
            self.copies.append(d)
        return self.copies[:n]

    def impl_env(self, copy, hashseed="0"):
        env = dict(os.environ)
        env["PYTHONPATH"] = copy + os.pathsep + os.path.join(VERIF, "harness")
        env["PYTHONHASHSEED"] = str(hashseed)
        env["PYTHONDONTWRITEBYTECODE"] = "1"
        env["NSL_VERIF"] = "1"
        return env

    def run_impl(self, script, jobs, nworkers=None, timeout=600, hashseed="0"):
        """Run harness/impl/<script> over the job list, split over private copies.
        The script reads a JSON list of jobs from argv[1] and writes a JSON list of results
        (same length, same order) to argv[2]."""
        if not jobs:
            return []
        nworkers = nworkers or min(NCPU, max(1, len(jobs) // 20 + 1))
        copies = self.sync_repo(nworkers)
        chunks = [jobs[i::nworkers] for i in range(nworkers)]
        results = [None] * len(jobs)

        def work(k):
            if not chunks[k]:
                return
            jf = os.path.join(self.scratch, "jobs_%s_%d.json" % (os.path.basename(script), k))
            rf = jf + ".out"
            json.dump(chunks[k], open(jf, "w"))
            p = subprocess.run([PY, os.path.join(VERIF, "harness", "impl", script), jf, rf],
                               cwd=copies[k], env=self.impl_env(copies[k], hashseed),
                               capture_output=True, text=True, timeout=timeout)
            if p.returncode != 0 or not os.path.exists(rf):
                raise RuntimeError("impl runner %s failed: %s\n%s" % (script, p.stdout[-2000:], p.stderr[-4000:]))
            out = json.load(open(rf))
            assert len(out) == len(chunks[k])
            for j, r in enumerate(out):
                results[k + j * nworkers] = r

        with ThreadPoolExecutor(nworkers) as ex:
            list(ex.map(work, range(nworkers)))
        return results

    # ---------------------------------------------------------------- Coq
    def ensure_static(self, timeout=3000):
        """(Re)build the hand-written development; a no-op when up to date."""
        lock = open(os.path.join(COQ_ROOT, ".build.lock"), "w")
        fcntl.flock(lock, fcntl.LOCK_EX)
        try:
            files = sorted(os.path.relpath(os.path.join(d, f), COQ_ROOT) for d, _, fs in os.walk(COQ_STATIC) for f in fs if f.endswith(".v"))
            subprocess.run(["coq_makefile", "-f", "_CoqProject", "-o", "Makefile"] + files, cwd=COQ_ROOT, check=True,
                           capture_output=True)
            p = subprocess.run(["timeout", str(timeout), "make", "-j%d" % NCPU], cwd=COQ_ROOT,
                               capture_output=True, text=True)
            if p.returncode != 0:
                sys.stdout.write(p.stdout[-3000:] + p.stderr[-6000:])
                raise RuntimeError("static Coq development does not build")
        finally:
            fcntl.flock(lock, fcntl.LOCK_UN)

    def coq_args(self):
        return ["-Q", COQ_STATIC, "NSL", "-Q", self.dyn, "NSLDyn"]

    def coqc(self, path, timeout=300):
        p = subprocess.run(["timeout", str(timeout), "coqc"] + self.coq_args() + [path],
                           cwd=self.dyn, capture_output=True, text=True)
        return p.returncode == 0, p.stdout, p.stderr

    def static_obligations(self, relfiles):
        """Register the named statements of static files as obligations (discharged iff the .vo exists
        and is newer than the source, i.e. `make` accepted them)."""
        for rel in relfiles:
            v = os.path.join(COQ_STATIC, rel)
            vo = v[:-2] + ".vo"
            ok = os.path.exists(vo) and os.path.getmtime(vo) >= os.path.getmtime(v)
            for m in STMT_RE.finditer(open(v).read()):
                self.obligations.append({"name": "NSL.%s.%s" % (rel[:-2].replace("/", "."), m.group(2)), "ok": ok})

    def compile_dyn(self, names, timeout=300):
        """Copy coq/dyn/<name>.v into the scratch dyn dir (unless generated there already) and compile in
        order.  Every named statement is an obligation; on a failure the statement enclosing the error
        and all later ones of that file (and of later files) are undischarged."""
        all_ok = True
        failed_before = False
        for name in names:
            dst = os.path.join(self.dyn, name + ".v")
            if not os.path.exists(dst):
                src = os.path.join(COQ_DYN, name + ".v")
                shutil.copy(src, dst)
            text = open(dst).read()
            stmts = [(m.start(), m.group(2)) for m in STMT_RE.finditer(text)]
            if failed_before:
                for _, n in stmts:
                    self.obligations.append({"name": "NSLDyn.%s.%s" % (name, n), "ok": False, "why": "dependency failed"})
                self.broken.append("NSLDyn.%s (not compiled: a dependency failed)" % name)
                continue
            ok, out, err = self.coqc(dst, timeout)
            self._collect_assumptions(out)
            if ok:
                for _, n in stmts:
                    self.obligations.append({"name": "NSLDyn.%s.%s" % (name, n), "ok": True})
            else:
                all_ok = False
                failed_before = True
                m = re.search(r'line (\d+), characters', err)
                errline = int(m.group(1)) if m else 0
                # offset of that line
                off = sum(len(l) + 1 for l in text.split("\n")[:max(0, errline - 1)])
                culprit = None
                for pos, n in stmts:
                    if pos <= off:
                        culprit = n
                passed = True
                for pos, n in stmts:
                    if n == culprit:
                        passed = False
                    self.obligations.append({"name": "NSLDyn.%s.%s" % (name, n), "ok": passed})
                self.broken.append("NSLDyn.%s.%s: %s" % (name, culprit or "<file>", " ".join(err.strip().split())[-400:]))
        return all_ok

    def _collect_assumptions(self, out):
        # output of `Print Assumptions thm.` blocks; we tag them in the source with
        #   Print Assumptions X.  preceded by  Eval ... "ASSUMPTIONS X"
        cur = None
        for line in out.split("\n"):
            m = re.match(r'\s*=\s*"ASSUMPTIONS ([^"]+)"', line)
            if m:
                cur = m.group(1); self.assumptions_seen[cur] = []
                continue
            if cur is not None:
                if line.startswith("     : string") or not line.strip():
                    continue
                if re.match(r'\s*=\s*"', line):
                    cur = None; continue
                self.assumptions_seen[cur].append(line.strip())

    def eval_cases(self, files, timeout=600):
        """Compile case files in parallel; returns {file: (ok, stdout, stderr)}."""
        res = {}

        def one(f):
            return f, self.coqc(f, timeout)
        with ThreadPoolExecutor(NCPU) as ex:
            for f, r in ex.map(one, files):
                res[f] = r
        return res

    # ---------------------------------------------------------------- findings
    def known_findings(self):
        kf = json.load(open(os.path.join(VERIF, "known_findings.json")))
        return [e for e in kf.get("open", []) if self.prop in e.get("properties", [])]

    def report_known(self, entry, detail=""):
        line = "KNOWN-FINDING: property=%s %s %s" % (self.prop, entry["id"], entry["what"])
        if line not in self.known_hits:
            self.known_hits.append(line)
            print(line + ((" [" + detail + "]") if detail else ""), flush=True)

    def violation(self, kind, payload):
        """kind: 'failing-input' or 'no-failing-input-found'."""
        self.replay_n += 1
        d = os.path.join(VERIF, "replay")
        os.makedirs(d, exist_ok=True)
        path = os.path.join(d, "%s-%d.json" % (self.prop, self.replay_n))
        rec = {"property": self.prop, "kind": kind, "seed": self.seed, "tier": self.tier,
               "broken": list(self.broken),
               "rerun": "./check %s --tier %s  (VERIF_SEED=%d)" % (self.prop, self.tier, self.seed)}
        rec.update(payload)
        json.dump(rec, open(path, "w"), indent=1, default=str)
        self.violations.append(path)
        tail = " no-failing-input-found" if kind == "no-failing-input-found" else ""
        print("VIOLATION property=%s replay=%s%s" % (self.prop, path, tail), flush=True)

    # ---------------------------------------------------------------- finish
    def finish(self):
        n_obl = len(self.obligations)
        n_ok = sum(1 for o in self.obligations if o["ok"])
        if (self.broken or n_ok < n_obl) and not self.violations:
            # a tie is broken and no concrete failing input was reported by the check module
            self.violation("no-failing-input-found",
                           {"undischarged": [o["name"] for o in self.obligations if not o["ok"]],
                            "note": "a proof obligation, translator or correspondence no longer checks; "
                                    "the search over implementation vs. specification found no failing input"})
        tb = ["Coq 8.16.1 kernel + vm_compute (no native_compute)",
              "translators and correspondence harness under /verif/harness (fail-closed Python)",
              "CPython 3.12 semantics of the constructs named in DESIGN.md section 9"]
        axioms = sorted({a for v in self.assumptions_seen.values() for a in v if a and "Closed under the global context" not in a})
        tb.append("Print Assumptions: " + ("Closed under the global context for every property theorem" if not axioms
                                           else "axioms/primitives reported: " + "; ".join(axioms)))
        cov = dict(self.cov)
        cov["samples"] = cov["samples"][:12] or ["<none>"]
        cov.update({"obligations": n_obl, "discharged": n_ok,
                    "checker_cmd": "coqc -Q coq/theories NSL -Q <scratch>/dyn NSLDyn <file>.v  (full .vo build via coq_makefile/make for coq/theories)",
                    "trusted_base": tb,
                    "obligation_names": [o["name"] for o in self.obligations],
                    "undischarged": [o["name"] for o in self.obligations if not o["ok"]],
                    "print_assumptions": {k: v for k, v in self.assumptions_seen.items()},
                    "broken_ties": self.broken, "known_findings_reported": self.known_hits})
        cov.update(self.extra)
        ev = {"property_id": self.prop, "tier": self.tier, "seed": self.seed, "level": self.level,
              "coverage": cov, "assumptions": self.notes, "wall_s": round(time.time() - self.t0, 2),
              "violations": len(self.violations)}
        os.makedirs(os.path.join(VERIF, "evidence"), exist_ok=True)
        json.dump(ev, open(os.path.join(VERIF, "evidence", "%s.json" % self.prop), "w"), indent=1, default=str)
        if not os.environ.get("VERIF_KEEP"):
            shutil.rmtree(self.scratch, ignore_errors=True)
        else:
            print("scratch kept:", self.scratch)
        print("%s %s: obligations %d/%d, cases %d, violations %d, %.1fs" % (
            self.prop, self.tier, n_ok, n_obl, cov.get("evaluations", 0), len(self.violations), time.time() - self.t0))
        return 1 if self.violations else 0


# -------------------------------------------------------------------- Coq printing helpers
def coq_z(n):
    return "(%d)%%Z" % n if n < 0 else "%d%%Z" % n


def coq_list(items):
    return "[" + "; ".join(items) + "]"


def coq_string(s):
    assert all(32 <= ord(c) < 127 for c in s), s
    return '"' + s.replace('"', '""') + '"'


def coq_bool(b):
    return "true" if b else "false"


def parse_coq_lines(out, tag):
    """Return the payloads of lines   = "<tag> ...."   printed by Eval/Compute of strings."""
    res = []
    for m in re.finditer(r'"%s ([^"]*)"' % re.escape(tag), out):
        res.append(m.group(1))
    return res


def parse_coq_values(out):
    """Parse every `= <value> : <type>` block printed by Eval into Python data
    (lists, bools, integers, strings, pairs, option as None/('Some', x))."""
    import ast as _ast
    vals = []
    # blocks start with '     = ' at line start and end at the line starting with '     : '
    for m in re.finditer(r'^\s*= (.*?)^\s*: [^\n]*(?:\n\s{7,}[^\n]*)*', out, re.S | re.M):
        txt = " ".join(m.group(1).split())
        txt = txt.replace("%Z", "").replace("%nat", "").replace("%string", "").replace("%float", "")
        txt = txt.replace(";", ",")
        txt = re.sub(r'\btrue\b', "True", txt)
        txt = re.sub(r'\bfalse\b', "False", txt)
        txt = re.sub(r'\bNone\b', "None", txt)
        txt = re.sub(r'\bSome\b', "", txt)
        txt = txt.replace('""', '\\"')
        try:
            vals.append(_ast.literal_eval(txt))
        except Exception:
            vals.append(("UNPARSED", txt))
    return vals
