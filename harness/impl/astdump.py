"""Dump the AST built by the real parser as NSL-JSON (same shape as harness/nslgen.py produces), with the
location of every node: "loc": [begin, end] or None, "locs": str(location)."""
from nsl import ast, op, types


def _loc(n):
    l = n.GetLocation()
    if l.IsUnknown:
        return None, str(l)
    return [l.GetBegin(), l.GetEnd()], str(l)


def _with(n, d):
    d["loc"], d["locs"] = _loc(n)
    return d


def type_name(t):
    """(base name, dims) of a declared type"""
    if isinstance(t, types.ArrayType):
        b, d = type_name(t.GetComponentType())
        return b, list(t.GetSize()) + d
    if isinstance(t, types.UnresolvedType):
        return t.GetName(), []
    if isinstance(t, types.Void):
        return "void", []
    if isinstance(t, types.MatrixType):
        return "%s%dx%d" % (t.GetComponentType().GetName(), t.GetRowCount(), t.GetColumnCount()), []
    return t.GetName(), []


ASSIGN_OPS = {op.Operation.ASSIGN: "=", op.Operation.ASSIGN_ADD_EQUAL: "+=", op.Operation.ASSIGN_SUB_EQUAL: "-=",
              op.Operation.ASSIGN_MUL_EQUAL: "*=", op.Operation.ASSIGN_DIV_EQUAL: "/="}


def expr(e):
    if isinstance(e, ast.LiteralExpression):
        if isinstance(e.GetType(), types.Float):
            return _with(e, {"k": "float", "v": e.GetValue().hex()})
        return _with(e, {"k": "int", "v": e.GetValue()})
    if isinstance(e, ast.PrimaryExpression):
        return _with(e, {"k": "id", "n": e.GetName()})
    if isinstance(e, ast.AssignmentExpression):
        return _with(e, {"k": "assign", "op": ASSIGN_OPS[e.GetOperation()], "l": expr(e.GetLeft()), "r": expr(e.GetRight())})
    if isinstance(e, ast.BinaryExpression):
        return _with(e, {"k": "bin", "op": op.OpToStr(e.GetOperation()), "l": expr(e.GetLeft()), "r": expr(e.GetRight())})
    if isinstance(e, ast.AffixExpression):
        o = "++" if e.GetOperation() == op.Operation.ADD else "--"
        inner = expr(e.GetExpression())
        d = {"k": "pre" if e.IsPrefix() else "post", "op": o, "n": inner.get("n"), "inner": inner}
        return _with(e, d)
    if isinstance(e, ast.CallExpression):
        return _with(e, {"k": "call", "f": e.GetFunction().GetName(), "args": [expr(a) for a in e.GetArguments()]})
    if isinstance(e, ast.ConstructPrimitiveExpression):
        return _with(e, {"k": "ctor", "t": type_name(e.GetType())[0], "args": [expr(a) for a in e.GetArguments()]})
    if isinstance(e, ast.ArrayExpression):
        return _with(e, {"k": "idx", "p": expr(e.GetParent()), "i": expr(e.GetExpression())})
    if isinstance(e, ast.MemberAccessExpression):
        return _with(e, {"k": "mem", "p": expr(e.GetParent()), "m": e.GetMember().GetName(), "member": expr(e.GetMember())})
    if isinstance(e, ast.CastExpression):
        return _with(e, {"k": "cast", "t": type_name(e.GetType())[0], "e": expr(e.GetArgument())})
    if isinstance(e, ast.EmptyExpression):
        return None
    raise ValueError("unknown expression node %s" % type(e).__name__)


def decl(d):
    b, dims = type_name(d.GetType())
    return _with(d, {"k": "decl", "t": b, "dims": dims, "n": d.GetName(),
                     "init": expr(d.GetInitializerExpression()) if d.HasInitializerExpression() else None})


def stmt(s):
    if isinstance(s, ast.DeclarationStatement):
        ds = s.GetDeclarations()
        assert len(ds) == 1
        r = decl(ds[0])
        r["stmt_loc"], r["stmt_locs"] = _loc(s)
        return r
    if isinstance(s, ast.ExpressionStatement):
        return _with(s, {"k": "expr", "e": expr(s.GetExpression())})
    if isinstance(s, ast.CompoundStatement):
        return _with(s, {"k": "block", "b": [stmt(x) for x in s.GetStatements()]})
    if isinstance(s, ast.ReturnStatement):
        return _with(s, {"k": "ret", "e": expr(s.GetExpression()) if s.GetExpression() is not None else None})
    if isinstance(s, ast.IfStatement):
        return _with(s, {"k": "if", "c": expr(s.GetCondition()), "t": stmt(s.GetTruePath()),
                         "f": stmt(s.GetElsePath()) if s.HasElsePath() else None})
    if isinstance(s, ast.ForStatement):
        init = s.GetInitialization()
        return _with(s, {"k": "for", "init": decl(init) if init is not None else None, "c": expr(s.GetCondition()),
                         "n": expr(s.GetNext()), "b": stmt(s.GetBody())})
    if isinstance(s, ast.WhileStatement):
        b = s.GetBody()
        return _with(s, {"k": "while", "c": expr(s.GetCondition()), "b": None if isinstance(b, ast.EmptyStatement) else stmt(b)})
    if isinstance(s, ast.DoStatement):
        return _with(s, {"k": "do", "b": stmt(s.GetBody()), "c": expr(s.GetCondition())})
    if isinstance(s, ast.BreakStatement):
        return _with(s, {"k": "break"})
    if isinstance(s, ast.ContinueStatement):
        return _with(s, {"k": "continue"})
    raise ValueError("unknown statement node %s" % type(s).__name__)


def module(m):
    """Items in the order types, globals, functions (the AST does not keep the interleaving)."""
    items = []
    for t in m.GetTypes():
        fields = []
        for f in t.GetFields():
            b, dims = type_name(f.GetType())
            fields.append(_with(f, {"t": b, "dims": dims, "n": f.GetName()}))
        items.append(_with(t, {"k": "struct", "n": t.GetName(), "fields": fields}))
    for g in m.GetDeclarations():
        for d in g.GetDeclarations():
            b, dims = type_name(d.GetType())
            items.append(_with(d, {"k": "global", "t": b, "dims": dims, "n": d.GetName(), "stmt_loc": _loc(g)[0]}))
    for f in m.GetFunctions():
        args = []
        for a in f.GetArguments():
            b, dims = type_name(a.GetType())
            args.append(_with(a, {"t": b, "dims": dims, "n": a.GetName()}))
        rb, rdims = type_name(f.GetType().GetReturnType())
        items.append(_with(f, {"k": "func", "n": f.GetName(), "export": bool(f.isExported), "args": args, "ret": rb, "retdims": rdims,
                               "body": stmt(f.GetBody()) if f.GetBody() is not None else None}))
    imports = []
    for i in m.GetImports():
        imports.append(i if isinstance(i, str) else "<non-string %s>" % type(i).__name__)
    return _with(m, {"items": items, "imports": sorted(imports)})
