"""T7a: regenerate the packing functions of nsl/WebAssembly.py as Gallina (Gen_WasmPack.v).

PackInteger, PackSignedInteger, PackString/WriteString, the immediate-writer dispatch of
Instruction.WriteTo and the `opcodes` table.  Each function must have exactly the statement shape
recognised below (fail-closed); expressions inside are translated, not fingerprinted, so an edited
mask, shift, comparison or bound shows up in the generated definition."""
import ast, sys
from common import TranslatorAbort
from translate.pyx import Ex, abort, find_def, strip_doc, is_call, read_source, dict_literal, zlit


def _lets(stmts, ex, var_env):
    """Translate a straight-line list of Assign / AugAssign / If-without-else statements over
    integer variables into a list of (var, coq_expr) bindings (shadowing lets)."""
    out = []
    for s in stmts:
        if isinstance(s, ast.Assign) and len(s.targets) == 1 and isinstance(s.targets[0], ast.Name):
            v = s.targets[0].id
            out.append((v, ex.z(s.value)))
            var_env[v] = v
        elif isinstance(s, ast.AugAssign) and isinstance(s.target, ast.Name):
            v = s.target.id
            if v not in var_env:
                abort("augmented assignment to unknown variable", s)
            out.append((v, ex.z(ast.BinOp(left=ast.Name(id=v, ctx=ast.Load()), op=s.op, right=s.value))))
        elif isinstance(s, ast.If) and not s.orelse:
            inner = _lets(s.body, ex, var_env)
            cond = ex.b(s.test)
            for v, e in inner:
                out.append((v, "(if %s then %s else %s)" % (cond, e, v)))
        else:
            abort("unsupported statement in loop body: %s" % type(s).__name__, s)
    return out


def _render_lets(bindings, indent="      "):
    return "".join("%slet %s := %s in\n" % (indent, v, e) for v, e in bindings)


def gen_pack_integer(tree):
    f = find_def(tree, "PackInteger")
    if [a.arg for a in f.args.args] != ["v"]:
        abort("PackInteger signature", f)
    body = strip_doc(f.body)
    if len(body) != 5:
        abort("PackInteger: expected 5 statements, got %d" % len(body), f)
    s_if, s_bc, s_out, s_for, s_ret = body
    env = {"v": "v"}
    ex = Ex(env)
    # if v == 0: return bytes([0])
    if not (isinstance(s_if, ast.If) and not s_if.orelse and len(s_if.body) == 1 and isinstance(s_if.body[0], ast.Return)
            and is_call(s_if.body[0].value, "bytes", 1) and isinstance(s_if.body[0].value.args[0], ast.List)):
        abort("PackInteger: zero-case shape", s_if)
    zero_test = ex.b(s_if.test)
    zero_bytes = "[" + "; ".join(ex.z(e) for e in s_if.body[0].value.args[0].elts) + "]"
    # blockCount = math.ceil(v.bit_length() / K)
    if not (isinstance(s_bc, ast.Assign) and isinstance(s_bc.targets[0], ast.Name) and is_call(s_bc.value, "math.ceil", 1)):
        abort("PackInteger: blockCount shape", s_bc)
    bc = s_bc.targets[0].id
    q = s_bc.value.args[0]
    if not (isinstance(q, ast.BinOp) and isinstance(q.op, ast.Div) and is_call(q.left, "v.bit_length", 0)
            and isinstance(q.right, ast.Constant) and isinstance(q.right.value, int) and q.right.value > 0):
        abort("PackInteger: ceil(bit_length/K) shape", s_bc)
    k = q.right.value
    # output = []
    if not (isinstance(s_out, ast.Assign) and isinstance(s_out.targets[0], ast.Name) and isinstance(s_out.value, ast.List) and not s_out.value.elts):
        abort("PackInteger: output list", s_out)
    outv = s_out.targets[0].id
    # for i in range(blockCount): ...; output.append(b)
    if not (isinstance(s_for, ast.For) and isinstance(s_for.target, ast.Name) and not s_for.orelse
            and is_call(s_for.iter, "range", 1) and isinstance(s_for.iter.args[0], ast.Name) and s_for.iter.args[0].id == bc):
        abort("PackInteger: for-range shape", s_for)
    iv = s_for.target.id
    last = s_for.body[-1]
    if not (isinstance(last, ast.Expr) and is_call(last.value, outv + ".append", 1)):
        abort("PackInteger: loop must end with output.append(..)", last)
    env2 = {"v": "v", iv: iv, bc: bc}
    ex2 = Ex(env2)
    lets = _lets(s_for.body[:-1], ex2, env2)
    appended = ex2.z(last.value.args[0])
    if not (isinstance(s_ret, ast.Return) and is_call(s_ret.value, "bytes", 1) and isinstance(s_ret.value.args[0], ast.Name)
            and s_ret.value.args[0].id == outv):
        abort("PackInteger: return bytes(output)", s_ret)
    if (iv, bc) != ("i", "blockCount"):
        abort("PackInteger: variable names changed (i, blockCount expected)", s_for)
    return """Fixpoint pack_loop (n : nat) (i blockCount v : Z) : list Z :=
  match n with
  | O => []
  | S n' =>
%s      %s :: pack_loop n' (i + 1) blockCount v
  end.

Definition pack_integer (v : Z) : list Z :=
  if %s then %s
  else let blockCount := (bit_length v + (%d - 1)) / %d in
       pack_loop (Z.to_nat blockCount) 0 blockCount v.
""" % (_render_lets(lets), appended, zero_test, zero_bytes, k, k)


def gen_pack_signed(tree):
    f = find_def(tree, "PackSignedInteger")
    if [a.arg for a in f.args.args] != ["v"]:
        abort("PackSignedInteger signature", f)
    body = strip_doc(f.body)
    if len(body) != 3:
        abort("PackSignedInteger: expected 3 statements", f)
    s_out, s_while, s_ret = body
    if not (isinstance(s_out, ast.Assign) and isinstance(s_out.value, ast.List) and not s_out.value.elts):
        abort("PackSignedInteger: output list", s_out)
    outv = s_out.targets[0].id
    if not (isinstance(s_while, ast.While) and isinstance(s_while.test, ast.Constant) and s_while.test.value is True and not s_while.orelse):
        abort("PackSignedInteger: `while True` shape", s_while)
    wb = s_while.body
    # lets..., if cond: output.append(x); break, output.append(y)
    idx = [i for i, s in enumerate(wb) if isinstance(s, ast.If) and s.body and isinstance(s.body[-1], ast.Break)]
    if len(idx) != 1 or idx[0] != len(wb) - 2:
        abort("PackSignedInteger: exit test must be the second-to-last statement", s_while)
    s_exit, s_app = wb[-2], wb[-1]
    env = {"v": "v"}
    ex = Ex(env)
    lets = _lets(wb[:-2], ex, env)
    if not (not s_exit.orelse and len(s_exit.body) == 2 and isinstance(s_exit.body[0], ast.Expr)
            and is_call(s_exit.body[0].value, outv + ".append", 1)):
        abort("PackSignedInteger: exit branch shape", s_exit)
    cond = ex.b(s_exit.test)
    final = ex.z(s_exit.body[0].value.args[0])
    if not (isinstance(s_app, ast.Expr) and is_call(s_app.value, outv + ".append", 1)):
        abort("PackSignedInteger: continuation append", s_app)
    cont = ex.z(s_app.value.args[0])
    if not (isinstance(s_ret, ast.Return) and is_call(s_ret.value, "bytes", 1)):
        abort("PackSignedInteger: return", s_ret)
    return """Fixpoint pack_signed_loop (fuel : nat) (v : Z) : list Z :=
  match fuel with
  | O => []
  | S f =>
%s      if %s
      then [%s]
      else %s :: pack_signed_loop f v
  end.

Definition pack_signed_fuel (v : Z) : nat := Z.to_nat (Z.log2 (Z.abs v) / 7 + 2).
Definition pack_signed (v : Z) : list Z := pack_signed_loop (pack_signed_fuel v) v.
""" % (_render_lets(lets), cond, final, cont)


def gen_opcodes(tree):
    d = dict_literal(tree, "opcodes")
    tbl = {}
    for k, v in zip(d.keys, d.values):
        if not (isinstance(k, ast.Constant) and isinstance(k.value, str) and isinstance(v, ast.Constant) and isinstance(v.value, int)):
            abort("opcodes: non-literal entry", d)
        if k.value in tbl:
            abort("opcodes: duplicate key %s" % k.value, d)
        tbl[k.value] = v.value
    return tbl


def gen_imm_writer(tree, opcodes):
    """Instruction.WriteTo: WriteByte(output, self.__opcode); if self.__args: for arg in self.__args: <dispatch>"""
    f = find_def(tree, "WriteTo", "Instruction")
    body = strip_doc(f.body)
    if len(body) != 2:
        abort("Instruction.WriteTo: expected 2 statements", f)
    s0, s1 = body
    if not (isinstance(s0, ast.Expr) and is_call(s0.value, "WriteByte", 2) and ast.unparse(s0.value.args[1]) == "self.__opcode"):
        abort("Instruction.WriteTo: opcode byte", s0)
    if not (isinstance(s1, ast.If) and ast.unparse(s1.test) == "self.__args" and not s1.orelse and len(s1.body) == 1
            and isinstance(s1.body[0], ast.For) and ast.unparse(s1.body[0].iter) == "self.__args"):
        abort("Instruction.WriteTo: argument loop", s1)
    loop = s1.body[0]
    argv = loop.target.id
    kinds = {"WriteFloat": "ImmF32", "WriteSignedInteger": "ImmSigned", "WriteInteger": "ImmUnsigned"}
    ex = Ex({"self.__opcode": "opcode"}, consts={"opcodes": opcodes})

    def dispatch(stmts):
        if len(stmts) != 1:
            abort("Instruction.WriteTo: dispatch shape", loop)
        s = stmts[0]
        if isinstance(s, ast.If):
            if not s.orelse:
                abort("Instruction.WriteTo: dispatch without else", s)
            return "(if %s then %s else %s)" % (ex.b(s.test), dispatch(s.body), dispatch(s.orelse))
        if isinstance(s, ast.Expr) and isinstance(s.value, ast.Call) and isinstance(s.value.func, ast.Name) \
                and s.value.func.id in kinds and len(s.value.args) == 2 and ast.unparse(s.value.args[1]) == argv:
            return kinds[s.value.func.id]
        abort("Instruction.WriteTo: unknown immediate writer", s)
    return "Definition imm_writer (opcode : Z) : imm_kind :=\n  %s.\n" % dispatch(loop.body)


def check_simple_writers(tree):
    """WriteInteger/WriteSignedInteger/WriteString/PackString/WriteByte/PackByte must be the expected one-liners."""
    expect = {
        "WriteInteger": "output.write(PackInteger(i))",
        "WriteSignedInteger": "output.write(PackSignedInteger(i))",
        "PackString": "return v.encode('utf-8')",
        "PackByte": "return struct.pack('B', b)",
        "WriteByte": "output.write(PackByte(b))",
        "PackFloat": "return struct.pack('<f', v)",
        "WriteFloat": "output.write(PackFloat(v))",
    }
    for name, text in expect.items():
        f = find_def(tree, name)
        body = strip_doc(f.body)
        if len(body) != 1 or ast.unparse(body[0]) != text:
            abort("%s is not the expected one-liner `%s`" % (name, text), f)
    f = find_def(tree, "WriteString")
    got = [ast.unparse(s) for s in strip_doc(f.body)]
    if got != ["b = PackString(s)", "WriteInteger(output, len(b))", "output.write(b)"]:
        abort("WriteString shape changed: %r" % got, f)


def generate(repo):
    tree, _ = read_source(repo, "nsl/WebAssembly.py")
    check_simple_writers(tree)
    opcodes = gen_opcodes(tree)
    parts = ["""(* GENERATED by harness/translate/t_wasmpack.py from nsl/WebAssembly.py -- do not edit *)
From Coq Require Import String ZArith List Bool.
Import ListNotations.
Open Scope Z_scope.

Definition bit_length (v : Z) : Z := if v =? 0 then 0 else Z.log2 (Z.abs v) + 1.
Inductive imm_kind := ImmF32 | ImmSigned | ImmUnsigned.
"""]
    parts.append(gen_pack_integer(tree))
    parts.append(gen_pack_signed(tree))
    parts.append(gen_imm_writer(tree, opcodes))
    parts.append("Definition opcodes : list (string * Z) :=\n  [" + ";\n   ".join(
        '("%s"%%string, %s)' % (k, zlit(v)) for k, v in opcodes.items()) + "].\n")
    parts.append("""(* WriteString = WriteInteger (len bytes) ; bytes   -- shape checked by the translator *)
Definition write_bytes_vec (bs : list Z) : list Z := pack_integer (Z.of_nat (length bs)) ++ bs.
""")
    return "\n".join(parts)


if __name__ == "__main__":
    sys.stdout.write(generate(sys.argv[1]))
