"""Implementation side of the C20 correspondence."""
import sys, json, io, contextlib, os
sys.path.insert(0, os.path.dirname(os.path.abspath(__file__)))
from nsl import ast, parser, Errors
from nsl.passes import UpdateLocations, ValidateVariableNames
import astdump

_parser = None
def get_parser():
    global _parser
    if _parser is None:
        with contextlib.redirect_stdout(io.StringIO()), contextlib.redirect_stderr(io.StringIO()):
            _parser = parser.NslParser()
    return _parser

def run(job):
    k = job["k"]
    try:
        if k == "text":
            sm = ast.SourceMapping(job["text"])
            res = {"lines": [sm.GetLineFromOffset(o) for o in job["offsets"]]}
            starts = []
            for l in job["lines_q"]:
                try:
                    starts.append(sm.GetLineStartOffset(l))
                except IndexError:
                    starts.append(None)
            res["starts"] = starts
            res["strs"] = [str(ast.Location((b, e), sm)) for b, e in job["spans"]]
            res["merges"] = []
            for group in job["merges"]:
                m = ast.Location.Merge(*[ast.Location((b, e), sm) for b, e in group])
                res["merges"].append([m.GetBegin(), m.GetEnd()])
            return res
        if k == "prog":
            out = io.StringIO()
            with contextlib.redirect_stdout(out):
                tree = get_parser().Parse(job["text"])
                raw = astdump.module(tree)
                p = UpdateLocations.GetPass()
                ok = p.Process(tree, output=io.StringIO())
                upd = astdump.module(tree)
                # diagnostics of the redeclaration check (DefaultVisitor.v_Default resets the handler to a
                # NullErrorHandler, so the text is only observable by capturing NullErrorHandler.Log)
                msgs = []
                orig = Errors.NullErrorHandler.Log
                Errors.NullErrorHandler.Log = lambda self, *a: msgs.append(a[0] if a else "")
                try:
                    vp = ValidateVariableNames.GetPass()
                    valid = vp.Process(tree, output=io.StringIO())
                finally:
                    Errors.NullErrorHandler.Log = orig
            return {"raw": raw, "upd": upd, "msgs": msgs, "valid": bool(valid), "illegal": out.getvalue().count("Illegal character")}
    except BaseException as e:
        return {"error": type(e).__name__ + ": " + str(e)[:200]}
    return {"error": "unknown job"}

jobs = json.load(open(sys.argv[1]))
json.dump([run(j) for j in jobs], open(sys.argv[2], "w"))
