(** * Specification for C12: which names are visible where.
    One flat set of visible names is threaded through the statement tree: a declaration extends it for what
    follows in the same scope; every block, loop (header and body) and each branch of an if opens a
    scope whose additions are dropped at its end.  Globals and parameters are visible in the whole body.
    Two conditions: no declaration of a visible name ([decl_*]) and no use of an invisible one ([use_*]). *)
From Coq Require Import String ZArith List Bool.
From NSL Require Import Base.Types Base.Syntax.
Import ListNotations.

Definition mem (x : string) (l : list string) : bool := existsb (String.eqb x) l.

Fixpoint expr_names (e : expr) : list string :=
  match e with
  | EInt _ | EFloat _ => []
  | EVar x | EPre _ x | EPost _ x => [x]
  | EBin _ l r | EAssign _ l r | EIdx l r => expr_names l ++ expr_names r
  | ECall _ args | ECtor _ args => flat_map expr_names args
  | EMem p _ => expr_names p
  end.

Definition bound (vis : list string) (e : option expr) : bool :=
  match e with None => true | Some e' => forallb (fun x => mem x vis) (expr_names e') end.

(** thread the visible set through a statement list *)
Definition thread {A} (f : list string -> A -> bool * list string) : list string -> list A -> bool :=
  fix go (vis : list string) (l : list A) : bool :=
    match l with
    | [] => true
    | x :: r => let (ok, vis') := f vis x in ok && go vis' r
    end.

(** ** declarations: (ok, visible set for what follows in the same scope) *)
Fixpoint decl_stmt (vis : list string) (s : stmt) : bool * list string :=
  match s with
  | SDecl _ x _ => if mem x vis then (false, vis) else (true, x :: vis)
  | SBlock b => (thread decl_stmt vis b, vis)
  | SIf _ t f =>
      match decl_stmt vis t with
      | (true, _) => match f with Some f' => (fst (decl_stmt vis f'), vis) | None => (true, vis) end
      | (false, _) => (false, vis)
      end
  | SFor init _ _ b =>
      match init with
      | Some (_, x, _) => if mem x vis then (false, vis) else (fst (decl_stmt (x :: vis) b), vis)
      | None => (fst (decl_stmt vis b), vis)
      end
  | SWhile _ b => match b with Some b' => (fst (decl_stmt vis b'), vis) | None => (true, vis) end
  | SDo b _ => (thread decl_stmt vis b, vis)
  | _ => (true, vis)
  end.
Definition decl_list := thread decl_stmt.

Fixpoint add_all (names vis : list string) : bool * list string :=
  match names with
  | [] => (true, vis)
  | x :: r => if mem x vis then (false, vis) else add_all r (x :: vis)
  end.

Definition decl_func (globals : list string) (f : func) : bool :=
  match add_all (map snd (f_args f)) globals with
  | (true, vis) => decl_list vis (f_body f)
  | (false, _) => false
  end.

Definition decl_module (m : module) : bool :=
  match add_all (map snd (m_globals m)) [] with
  | (true, globals) => forallb (decl_func globals) (m_funcs m)
  | (false, _) => false
  end.

(** ** uses: every name an expression mentions is visible where the expression stands; a declared name is
    visible in its own initialiser and from then on *)
Fixpoint use_stmt (vis : list string) (s : stmt) : bool * list string :=
  match s with
  | SDecl _ x init => (bound (x :: vis) init, x :: vis)
  | SExpr e => (bound vis (Some e), vis)
  | SRet e => (bound vis e, vis)
  | SBlock b => (thread use_stmt vis b, vis)
  | SIf c t f =>
      (bound vis (Some c) && fst (use_stmt vis t) && match f with Some f' => fst (use_stmt vis f') | None => true end, vis)
  | SFor init c n b =>
      let '(ok0, vis0) := match init with Some (_, x, i) => (bound (x :: vis) i, x :: vis) | None => (true, vis) end in
      (ok0 && bound vis0 c && bound vis0 n && fst (use_stmt vis0 b), vis)
  | SWhile c b => (bound vis (Some c) && match b with Some b' => fst (use_stmt vis b') | None => true end, vis)
  | SDo b c => (thread use_stmt vis b && bound vis (Some c), vis)
  | SBreak | SContinue => (true, vis)
  end.
Definition use_list := thread use_stmt.

Definition use_func (globals : list string) (f : func) : bool :=
  use_list (map snd (f_args f) ++ globals) (f_body f).

Definition use_module (m : module) : bool := forallb (use_func (map snd (m_globals m))) (m_funcs m).

Definition scope_accepts (m : module) : bool := decl_module m && use_module m.
