(** * C02 -- Optimisation never changes observable behaviour. *)
From Coq Require Import String ZArith List Bool Arith.
From NSL Require Import Model.PyNum Model.IR Model.VM Model.WfIR Model.Opt Proofs.WfIRProofs Proofs.OptProofs.
From NSLDyn Require Gen_Shapes.
Import ListNotations.

(** The full statement: for every well-formed IR function the optimised function is observationally equivalent
    on the VM (same result value, same globals, same kind of failure), for every input and execution length. *)
Definition outcome_equiv (a b : outcome) : Prop :=
  match a, b with
  | Done v st, Done v' st' => v = v' /\ globals st = globals st'
  | Fail e, Fail e' => e = e'
  | UnmodelledO, _ | _, UnmodelledO => True
  | _, _ => False
  end.
Definition C02_full_statement : Prop :=
  forall P P' fn named st n out, wf_program_b P = true -> optimise P = OOk P' ->
    invoke n P fn named st = out -> out <> OutOfFuel ->
    exists m, outcome_equiv (invoke m P' fn named st) out.

(** PARTIAL (machine-checked so far): the optimised module the real compiler produces is checked well-formed by
    [wf_program_b] on every run, and a well-formed module never reads an undefined value (the failure mode the
    property singles out: "never fails, returns nothing or reads an undefined value"), whatever the input. *)
Theorem C02_optimised_wellformed_never_undefined_partial : forall fuel P fn named st,
    wf_program_b P = true -> find_func P fn <> None -> ~ bad (invoke fuel P fn named st).
Proof. exact wf_invoke_sound. Qed.

(** forwarding chains resolve to a value that is not itself removed *)
Example C02_chain_example :
  las_scan None [ {| i_ref := 1; i_ty := ITInt false; i_body := ILoad SArg (VIndex 0) |};
                  {| i_ref := 2; i_ty := ITInt false; i_body := IStore SLocal (VName "x") 1 |};
                  {| i_ref := 3; i_ty := ITInt false; i_body := ILoad SLocal (VName "x") |};
                  {| i_ref := 4; i_ty := ITInt false; i_body := IStore SLocal (VName "y") 3 |};
                  {| i_ref := 5; i_ty := ITInt false; i_body := ILoad SLocal (VName "y") |};
                  {| i_ref := 6; i_ty := ITInt false; i_body := IRet (Some 5) |} ] [] = [(3, 1); (5, 1)].
Proof. reflexivity. Qed.

(** Two value-level facts behind the equivalence, for every program:
    folding the cast of a constant yields exactly the value the VM's CAST computes from that constant (and folding
    refuses only where the VM's CAST fails); a load that directly follows a store to the same variable -- local,
    argument or global -- delivers the stored value, so rewiring its users to the stored value preserves what they read. *)
Theorem C02_constant_folding_is_vm_cast : forall t c v, fold_cast t c = OOk v -> cast_scalar t (const_val c) = Ok (const_val v).
Proof. exact fold_cast_is_vm_cast. Qed.
Theorem C02_folding_refuses_only_where_vm_fails : forall t c, fold_cast t c = ORaise -> forall v, cast_scalar t (const_val c) <> Ok v.
Proof. exact fold_cast_raises_only_where_vm_fails. Qed.
Theorem C02_load_after_store_delivers_stored : forall F pc fr st sc v src w iS iL pc1 fr1 st1,
  i_body iS = IStore sc v src -> i_body iL = ILoad sc v -> rget fr src = Ok w ->
  step F pc fr st iS = StNext pc1 fr1 st1 ->
  exists fr2, step F pc1 fr1 st1 iL = StNext (S pc1) fr2 st1 /\ rget fr2 (i_ref iL) = Ok w.
Proof. exact load_after_store_delivers_stored. Qed.

Eval compute in "ASSUMPTIONS C02_optimised_wellformed_never_undefined_partial"%string. Print Assumptions C02_optimised_wellformed_never_undefined_partial.
Eval compute in "END"%string.
