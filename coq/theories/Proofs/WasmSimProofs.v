(** * C06: for functions in the integer ring fragment (argument loads, + - * on ints, return), the code the generator
    model emits computes, on a conforming engine, the VM's result reduced to 32 bits -- for every function of any
    length in the fragment and every integer argument vector. *)
From Coq Require Import String ZArith List Bool Arith Lia PrimFloat.
From NSL Require Import Model.PyNum Model.IR Model.VM Spec.Wasm Model.WasmGen Proofs.WasmProofs Proofs.WasmGenProofs Proofs.WfIRProofs.
Import ListNotations.
Local Open Scope Z_scope.

Definition is_ring (o : binopc) : bool := match o with BAdd | BSub | BMul => true | _ => false end.
Definition is_int_ty (t : option irty) : bool := match t with Some (ITInt _) => true | _ => false end.

Definition ring_instr (F : ifunc) (i : IR.instr) : bool :=
  match i_body i with
  | ILoad SArg (VIndex n) => (match const_of F (i_ref i) with None => true | Some _ => false end)
  | IBin o a b => is_ring o && is_int_ty (operand_type F a) && is_int_ty (operand_type F b) &&
                  (match i_ty i with ITInt _ => true | _ => false end) &&
                  (match const_of F (i_ref i) with None => true | Some _ => false end)
  | IRet (Some v) => is_int_ty (operand_type F v)
  | _ => false
  end.

(** ** set_nth / nth_error *)
Lemma nth_set_nth_same {A} (l : list A) n x : (n < length l)%nat -> nth_error (set_nth l n x) n = Some x.
Proof. revert n; induction l; intros [|n] H; cbn in *; try lia; auto. apply IHl. lia. Qed.
Lemma nth_set_nth_other {A} (l : list A) n m x : n <> m -> nth_error (set_nth l m x) n = nth_error l n.
Proof. revert n m; induction l; intros [|n] [|m] H; cbn; auto; try congruence. Qed.
Lemma length_set_nth {A} (l : list A) n x : length (set_nth l n x) = length l.
Proof. revert n; induction l; intros [|n]; cbn; auto. Qed.

(** ** index_of is injective on its domain *)
Lemma index_of_lt : forall refs r k, index_of r refs = Some k -> (k < length refs)%nat.
Proof.
  induction refs as [|[x t] rest IH]; intros r k H; cbn in H; [discriminate|].
  destruct (Nat.eqb x r); [inversion H; cbn; lia|]. destruct (index_of r rest) eqn:E; cbn in H; [|discriminate].
  inversion H; subst. cbn. apply IH in E. lia.
Qed.
Lemma index_of_inj : forall refs r1 r2 k, index_of r1 refs = Some k -> index_of r2 refs = Some k -> r1 = r2.
Proof.
  induction refs as [|[x t] rest IH]; intros r1 r2 k H1 H2; cbn in *; [discriminate|].
  destruct (Nat.eqb_spec x r1), (Nat.eqb_spec x r2); subst; try congruence.
  - destruct (index_of r2 rest); cbn in H2; [|discriminate]. inversion H1; inversion H2; subst. discriminate.
  - destruct (index_of r1 rest); cbn in H1; [|discriminate]. inversion H1; inversion H2; subst. discriminate.
  - destruct (index_of r1 rest) eqn:E1, (index_of r2 rest) eqn:E2; cbn in *; try discriminate.
    inversion H1; inversion H2; subst. assert (n1 = n2) by lia. subst. eapply IH; eauto.
Qed.

Section Sim.
  Variable F : ifunc.
  Variable ls : list valtype.
  Hypothesis Hls : all_some (map (fun p => vt_of (snd p)) (refs F)) = Some ls.

  (** the wasm locals mirror the VM frame, modulo 2^32 *)
  Record inv (fr : frame) (L : list wval) : Prop := {
    inv_args : forall n w, nth_error (fargs fr) n = Some w -> exists z, w = VInt z /\ nth_error L n = Some (WI32 (wrap32 z));
    inv_argc : length (fargs fr) = argc F;
    inv_len : (argc F + length (refs F) <= length L)%nat;
    inv_regs : forall r l w, loc F r = Some l -> const_of F r = None -> rlookup r (regs fr) = Some w ->
                             exists z, w = VInt z /\ nth_error L l = Some (WI32 (wrap32 z));
    inv_consts : forall r t c, const_of F r = Some (t, c) -> rlookup r (regs fr) = Some (const_val c) }.

  (** pushing an int operand: the value the VM reads for it, wrapped *)
  Lemma push_int fr L v pv : inv fr L -> push_value F v = Some pv -> is_int_ty (operand_type F v) = true ->
    forall w, rget fr v = Ok w ->
    exists z, w = VInt z /\ forall rest stack nres, exec (pv :: rest) L stack nres = exec rest L (WI32 (wrap32 z) :: stack) nres.
  Proof.
    intros I Hp Ht w Hw. unfold push_value, operand_type in *. destruct (const_of F v) as [[t c]|] eqn:Ec.
    - destruct t as [u| | | | | |]; try discriminate. destruct c as [z|f]; [|discriminate].
      destruct ((-2147483648 <=? z) && (z <? 4294967296)) eqn:Er; [|discriminate]. inversion Hp; subst.
      pose proof (inv_consts _ _ I v _ _ Ec) as Hc. unfold rget in Hw. rewrite Hc in Hw. cbn in Hw. inversion Hw; subst.
      exists z. split; [reflexivity|]. intros rest stack nres. cbn [exec]. f_equal. f_equal. f_equal.
      destruct (2147483648 <=? z); [|reflexivity]. unfold wrap32. replace (z - 4294967296) with (z + (-1) * 4294967296) by lia. apply Z_mod_plus_full.
    - destruct (loc F v) as [l|] eqn:El; cbn in Hp; [|discriminate]. inversion Hp; subst.
      unfold rget in Hw. destruct (rlookup v (regs fr)) as [w'|] eqn:Er; [|discriminate]. inversion Hw; subst.
      destruct (inv_regs _ _ I v l w El Ec Er) as (z & -> & Hn). exists z. split; [reflexivity|].
      intros rest stack nres. cbn [exec]. rewrite Hn. reflexivity.
  Qed.

  Lemma loc_ge r l : loc F r = Some l -> (argc F <= l < argc F + length (refs F))%nat.
  Proof. unfold loc. destruct (index_of r (refs F)) eqn:E; cbn; [|discriminate]. intros H; inversion H; subst. apply index_of_lt in E. lia. Qed.
  Lemma loc_inj r1 r2 l : loc F r1 = Some l -> loc F r2 = Some l -> r1 = r2.
  Proof.
    unfold loc. destruct (index_of r1 (refs F)) eqn:E1, (index_of r2 (refs F)) eqn:E2; cbn; try discriminate.
    intros H1 H2; inversion H1; inversion H2; subst. assert (n = n0) by lia. subst. eapply index_of_inj; eauto.
  Qed.

  (** storing a result: register and local stay in step *)
  Lemma inv_store fr L r l z : inv fr L -> loc F r = Some l -> const_of F r = None ->
    inv (rset fr r (VInt z)) (set_nth L l (WI32 (wrap32 z))).
  Proof.
    intros I Hl Hc. pose proof (loc_ge _ _ Hl) as Hge. split.
    - intros n w Hn. cbn in Hn. destruct (inv_args _ _ I n w Hn) as (x & -> & Hx). exists x. split; [reflexivity|].
      rewrite nth_set_nth_other; [exact Hx|]. assert (n < length (fargs fr))%nat by (apply nth_error_Some; congruence). rewrite (inv_argc _ _ I) in H. lia.
    - cbn. apply (inv_argc _ _ I).
    - rewrite length_set_nth. apply (inv_len _ _ I).
    - intros r' l' w Hl' Hc' Hw. cbn in Hw. destruct (Nat.eq_dec r' r) as [->|Hne].
      + rewrite rlookup_update_same in Hw. inversion Hw; subst. exists z. split; [reflexivity|]. rewrite Hl in Hl'. inversion Hl'; subst.
        apply nth_set_nth_same. pose proof (inv_len _ _ I). lia.
      + rewrite rlookup_update_other in Hw by exact Hne. destruct (inv_regs _ _ I r' l' w Hl' Hc' Hw) as (x & -> & Hx). exists x. split; [reflexivity|].
        rewrite nth_set_nth_other; [exact Hx|]. intro; subst. apply Hne. eapply loc_inj; eauto.
    - intros r' t c Hc'. cbn. rewrite rlookup_update_other; [apply (inv_consts _ _ I r' t c Hc')|]. intro; subst. congruence.
  Qed.

  Lemma ring_scalar o x y u : is_ring o = true ->
    binary_op o (ITInt u) [] (VInt x) (VInt y) = Ok ([], VInt (match o with BAdd => x + y | BSub => x - y | _ => x * y end)) .
  Proof. destruct o; try discriminate; intros _; reflexivity. Qed.

  Lemma binary_op_heap_irrelevant o u h x y : is_ring o = true ->
    binary_op o (ITInt u) h (VInt x) (VInt y) = Ok (h, VInt (match o with BAdd => x + y | BSub => x - y | _ => x * y end)).
  Proof. destruct o; try discriminate; intros _; reflexivity. Qed.

  Lemma ring_wasm o t op : is_ring o = true -> binary_opcode o t = Some op -> is_int_ty (Some t) = true ->
    forall a b rest L stack nres,
      exec (op :: rest) L (WI32 (wrap32 b) :: WI32 (wrap32 a) :: stack) nres =
      exec rest L (WI32 (wrap32 (match o with BAdd => a + b | BSub => a - b | _ => a * b end)) :: stack) nres.
  Proof.
    intros Hr Hop Ht a b rest L stack nres. destruct t as [u| | | | | |]; try discriminate.
    destruct o; try discriminate; cbn in Hop; inversion Hop; subst; cbn [exec]; unfold i32_bin; cbn.
    - rewrite <- wrap32_add. reflexivity.
    - rewrite <- wrap32_sub. reflexivity.
    - rewrite <- wrap32_mul. reflexivity.
  Qed.

  Lemma skipn_cons_nth {A} : forall pc (l : list A) x r, skipn pc l = x :: r -> nth_error l pc = Some x /\ skipn (S pc) l = r.
  Proof.
    induction pc as [|pc IH]; intros l x r H; destruct l as [|y l]; cbn in *; try discriminate.
    - inversion H; subst. split; reflexivity.
    - apply IH in H. exact H.
  Qed.

  (** the simulation, from any point of the code that still has a return ahead *)
  Lemma sim : forall suffix groups, gen_code F suffix = Some groups -> forallb (ring_instr F) suffix = true -> existsb is_ret suffix = true ->
    forall fuel P pc fr st L v st', skipn pc (code F) = suffix -> inv fr L ->
      run fuel P F pc fr st = Done v st' ->
      exists r, v = VInt r /\ exec (concat groups) L [] 1 = XVal [WI32 (wrap32 r)].
  Proof.
    induction suffix as [|i rest IH]; intros groups Hg Hring Hret fuel P pc fr st L v st' Hsk I Hrun; [discriminate|].
    destruct fuel as [|fu]; cbn [run] in Hrun; [discriminate|].
    destruct (skipn_cons_nth _ _ _ _ Hsk) as [Hn Hsk']. unfold code in Hn. rewrite Hn in Hrun.
    cbn [gen_code] in Hg. destruct (gen_instr F i) as [g|] eqn:Eg; [|discriminate]. destruct (gen_code F rest) as [gs|] eqn:Egs; [|discriminate].
    inversion Hg; subst groups. clear Hg. cbn [forallb] in Hring. apply andb_prop in Hring as [Hi Hrest].
    unfold ring_instr in Hi. unfold gen_instr in Eg. unfold step in Hrun.
    destruct (i_body i) as [sc vn| | | | | | | |o a b| |rv| | | | |] eqn:Eb; try discriminate.
    - (* load of an argument *)
      destruct sc, vn as [x|n]; try discriminate.
      destruct (loc F (i_ref i)) as [l|] eqn:El; [|discriminate]. inversion Eg; subst g.
      destruct (const_of F (i_ref i)) eqn:Ec; [discriminate|].
      destruct (nth_error (fargs fr) n) as [w|] eqn:En; [|discriminate].
      destruct (inv_args _ _ I n w En) as (z & -> & HL).
      assert (Hret' : existsb is_ret rest = true).
      { cbn in Hret. unfold is_ret in Hret at 1. rewrite Eb in Hret. exact Hret. }
      destruct (IH gs eq_refl Hrest Hret' fu P (S pc) _ st (set_nth L l (WI32 (wrap32 z))) v st' Hsk' (inv_store fr L (i_ref i) l z I El Ec) Hrun) as (r & Hv & Hx).
      exists r. split; [exact Hv|]. cbn [concat app exec]. rewrite HL. exact Hx.
    - (* a ring operation *)
      apply andb_prop in Hi as [Hi Hc]. apply andb_prop in Hi as [Hi Hty]. apply andb_prop in Hi as [Hi Htb]. apply andb_prop in Hi as [Hro Hta].
      destruct (operand_type F a) as [ta|] eqn:Ea; [|discriminate].
      destruct (push_value F a) as [pa|] eqn:Epa; [|discriminate]. destruct (push_value F b) as [pb|] eqn:Epb; [|discriminate].
      destruct (binary_opcode o ta) as [op|] eqn:Eop; [|discriminate]. destruct (loc F (i_ref i)) as [l|] eqn:El; [|discriminate].
      inversion Eg; subst g. destruct (const_of F (i_ref i)) eqn:Ec; [discriminate|].
      destruct (rget fr a) as [wa| |] eqn:Era; cbn [lift] in Hrun; try discriminate.
      destruct (rget fr b) as [wb| |] eqn:Erb; cbn [lift] in Hrun; try discriminate.
      assert (Hta' : is_int_ty (operand_type F a) = true) by (rewrite Ea; exact Hta).
      destruct (push_int fr L a pa I Epa Hta' wa Era) as (x & -> & Hxa).
      destruct (push_int fr L b pb I Epb Htb wb Erb) as (y & -> & Hxb).
      destruct (i_ty i) as [u| | | | | |] eqn:Ety; try discriminate.
      rewrite (binary_op_heap_irrelevant o u (hp st) x y Hro) in Hrun. cbn [lift] in Hrun.
      assert (Hret' : existsb is_ret rest = true).
      { cbn in Hret. unfold is_ret in Hret at 1. rewrite Eb in Hret. exact Hret. }
      set (z := match o with BAdd => x + y | BSub => x - y | _ => x * y end) in *.
      assert (Hst : with_heap st (hp st) = st) by (destruct st; reflexivity). rewrite Hst in Hrun.
      destruct (IH gs eq_refl Hrest Hret' fu P (S pc) _ st (set_nth L l (WI32 (wrap32 z))) v st' Hsk' (inv_store fr L (i_ref i) l z I El Ec) Hrun) as (r & Hv & Hx).
      exists r. split; [exact Hv|]. cbn [concat app]. rewrite Hxa, Hxb.
      rewrite (ring_wasm o ta op Hro Eop Hta x y). cbn [exec]. exact Hx.
    - (* return *)
      destruct rv as [rv|]; [|discriminate].
      destruct (operand_type F rv) as [t|] eqn:Et; [|discriminate]. destruct (results F) as [rs|]; [|discriminate].
      destruct (vt_of t); [|discriminate]. destruct (match rs with [x] => valtype_eqb x v0 | _ => false end); [|discriminate].
      destruct (push_value F rv) as [pv|] eqn:Ep; [|discriminate]. inversion Eg; subst g.
      destruct (rget fr rv) as [w| |] eqn:Er; cbn [lift] in Hrun; try discriminate. inversion Hrun; subst.
      assert (Ht' : is_int_ty (operand_type F rv) = true) by (rewrite Et; exact Hi).
      destruct (push_int fr L rv pv I Ep Ht' v Er) as (z & -> & Hx). exists z. split; [reflexivity|].
      cbn [concat app]. rewrite Hx. reflexivity.
  Qed.
End Sim.

(** the initial frame: constants in their registers, arguments in place, every local zero *)
Lemma init_regs_lookup F : forall r v, rlookup r (init_regs F) = Some v -> exists t c, In (r, t, c) (fn_consts F).
Proof.
  intros r v. unfold init_regs.
  assert (G : forall (cs : list (nat * irty * cval)) d, rlookup r (fold_left (fun d c => rupdate (fst (fst c)) (const_val (snd c)) d) cs d) = Some v ->
              (exists t c, In (r, t, c) cs) \/ rlookup r d = Some v).
  { induction cs as [|[[x t] c] cs IH]; intros d H; cbn in H; [right; exact H|].
    destruct (IH _ H) as [(t' & c' & Hin)|Hd]; [left; exists t', c'; right; exact Hin|].
    cbn in Hd. destruct (Nat.eq_dec r x) as [->|Hne]; [left; exists t, c; left; reflexivity|].
    rewrite rlookup_update_other in Hd by exact Hne. right. exact Hd. }
  intros H. destruct (G _ _ H) as [Hin|Hd]; [exact Hin|discriminate].
Qed.

Fixpoint nodup_nat (l : list nat) : bool := match l with [] => true | x :: r => negb (existsb (Nat.eqb x) r) && nodup_nat r end.

Lemma init_regs_const F : nodup_nat (map (fun c => fst (fst c)) (fn_consts F)) = true ->
  forall r t c, const_of F r = Some (t, c) -> rlookup r (init_regs F) = Some (const_val c).
Proof.
  unfold const_of, init_regs. intros Hnd r t c.
  assert (G : forall (cs : list (nat * irty * cval)) d, nodup_nat (map (fun c => fst (fst c)) cs) = true ->
              match find (fun c0 => Nat.eqb (fst (fst c0)) r) cs with
              | Some (_, _, c0) => rlookup r (fold_left (fun d c1 => rupdate (fst (fst c1)) (const_val (snd c1)) d) cs d) = Some (const_val c0)
              | None => rlookup r (fold_left (fun d c1 => rupdate (fst (fst c1)) (const_val (snd c1)) d) cs d) = rlookup r d
              end).
  { induction cs as [|[[x t0] c0] cs IH]; intros d Hn; cbn in *; [reflexivity|].
    apply andb_prop in Hn as [Hx Hn]. destruct (Nat.eqb_spec x r) as [->|Hne].
    - specialize (IH (rupdate r (const_val c0) d) Hn).
      assert (Hf : find (fun c1 : nat * irty * cval => Nat.eqb (fst (fst c1)) r) cs = None).
      { apply negb_true_iff in Hx. destruct (find _ cs) as [[[y ty] cy]|] eqn:Ef; [|reflexivity]. apply find_some in Ef as [Hin He]. cbn in He. apply Nat.eqb_eq in He. subst.
        exfalso. assert (existsb (Nat.eqb r) (map (fun c1 : nat * irty * cval => fst (fst c1)) cs) = true).
        { apply existsb_exists. exists r. split; [apply in_map_iff; exists (r, ty, cy); split; [reflexivity|exact Hin]|apply Nat.eqb_refl]. }
        congruence. }
      rewrite Hf in IH. rewrite IH. apply rlookup_update_same.
    - specialize (IH (rupdate x (const_val c0) d) Hn). destruct (find _ cs) as [[[y ty] cy]|]; [exact IH|].
      rewrite IH. apply rlookup_update_other. congruence. }
  intros H. specialize (G (fn_consts F) [] Hnd). destruct (find _ (fn_consts F)) as [[[y ty] cy]|]; [|discriminate]. inversion H; subst. exact G.
Qed.

Definition ring_fn (F : ifunc) : bool :=
  forallb (ring_instr F) (code F) && existsb is_ret (code F) && nodup_nat (map (fun c => fst (fst c)) (fn_consts F)).

(** C06, integer ring fragment: the emitted function computes the VM's result modulo 2^32 *)
Theorem ring_function_agrees : forall F ft ls body zs fuel P st v st',
  gen_function F = Some (ft, ls, body) -> ring_fn F = true -> length zs = argc F ->
  run fuel P F 0 {| regs := init_regs F; vars := []; fargs := map VInt zs |} st = Done v st' ->
  exists r, v = VInt r /\ exec body (map (fun z => WI32 (wrap32 z)) zs ++ map zero_of ls) [] 1 = XVal [WI32 (wrap32 r)].
Proof.
  intros F ft ls body zs fuel P st v st' Hg Hr Hlen Hrun. unfold ring_fn in Hr. apply andb_prop in Hr as [Hr Hnd]. apply andb_prop in Hr as [Hring Hret].
  unfold gen_function in Hg.
  destruct (all_some (map (fun a => vt_of (snd a)) (fn_args F))) as [ps|] eqn:Hps; [|discriminate].
  destruct (results F) as [rs|] eqn:Hrs; [|discriminate].
  destruct (all_some (map (fun p => vt_of (snd p)) (refs F))) as [ls'|] eqn:Hls; [|discriminate].
  destruct (gen_code F (code F)) as [groups|] eqn:Hgc; [|discriminate].
  destruct (match rs with [] => true | _ => ends_with_return F end); [|discriminate]. inversion Hg; subst. clear Hg.
  eapply (sim F (code F) groups Hgc Hring Hret fuel P 0%nat); [reflexivity| |exact Hrun].
  split.
  - intros n w Hn. cbn in Hn. rewrite nth_error_map in Hn. destruct (nth_error zs n) as [z|] eqn:Ez; [|discriminate]. inversion Hn; subst.
    exists z. split; [reflexivity|]. rewrite nth_error_app1 by (rewrite map_length; apply nth_error_Some; congruence). rewrite nth_error_map, Ez. reflexivity.
  - cbn. rewrite map_length. exact Hlen.
  - rewrite app_length, !map_length. rewrite (all_some_length _ _ Hls), map_length. lia.
  - intros r l w Hl Hc Hw. cbn in Hw. destruct (init_regs_lookup F r w Hw) as (t & c & Hin). exfalso.
    unfold const_of in Hc. destruct (find (fun c0 => Nat.eqb (fst (fst c0)) r) (fn_consts F)) as [[[y ty] cy]|] eqn:Ef; [discriminate|].
    eapply find_none in Ef; [|exact Hin]. cbn in Ef. rewrite Nat.eqb_refl in Ef. discriminate.
  - intros r t c Hc. cbn. apply (init_regs_const F Hnd r t c Hc).
Qed.
