(** * C15 for programs of straight-line functions: every history of invocations on the VM model behaves like the
    reference state machine of the source program.  One call: [call_refines] (the straight-line simulation theorem
    plus: what the call leaves in the globals agrees again); histories by induction. *)
From Coq Require Import String ZArith List Bool PrimFloat Arith Lia.
From NSL Require Import Base.Types Base.Syntax Spec.Overload Model.PyNum Model.IR Model.VM Model.TypesBin Model.Elab Model.Lower Spec.RefSem
                        Proofs.OpsAgree Proofs.OptProofs Proofs.LowerExprProofs Proofs.ElabExprProofs Proofs.ReturnExprProofs Proofs.CallAgreeProofs
                        Proofs.LowerStmtProofs Proofs.ElabStmtProofs Proofs.StraightLineProofs.
Import ListNotations.

(** ** names held in the local frames of the reference state *)
Definition locals_names (st : RefSem.state) : list string := flat_map (map fst) (locals st).

Lemma frame_set_keys f x s : forall f', frame_set f x s = Some f' -> map fst f' = map fst f.
Proof.
  induction f as [|[k w] f IH]; intros f' H; cbn in H; [discriminate|]. destruct (String.eqb k x).
  - inversion H; subst. reflexivity.
  - destruct (frame_set f x s) as [f0|] eqn:E; [|discriminate]. inversion H; subst. cbn. rewrite (IH f0 eq_refl). reflexivity.
Qed.
Lemma frames_set_keys fs x s : forall fs', frames_set fs x s = Some fs' -> flat_map (map fst) fs' = flat_map (map fst) fs.
Proof.
  induction fs as [|f fs IH]; intros fs' H; cbn in H; [discriminate|]. destruct (frame_set f x s) as [f'|] eqn:E.
  - inversion H; subst. cbn. rewrite (frame_set_keys _ _ _ _ E). reflexivity.
  - destruct (frames_set fs x s) as [fs0|] eqn:E2; [|discriminate]. inversion H; subst. cbn. rewrite (IH fs0 eq_refl). reflexivity.
Qed.
Lemma var_set_names st x s st' : var_set st x s = RefSem.ROk st' -> locals_names st' = locals_names st.
Proof.
  unfold var_set, locals_names. destruct (frames_set (locals st) x s) as [l'|] eqn:E.
  - intros H. inversion H; subst. cbn. apply (frames_set_keys _ _ _ _ E).
  - destruct (frame_set (globs st) x s); [|discriminate]. intros H. inversion H; subst. reflexivity.
Qed.
Lemma declare_names st x s : forall y, In y (locals_names (declare st x s)) -> y = x \/ In y (locals_names st).
Proof. unfold declare, locals_names. destruct (locals st) as [|f r]; cbn; intros y [H|H]; auto. Qed.

Lemma eval_pure_state M : forall e fuel st s st', spure e = true -> eval M fuel e st = RefSem.ROk (s, st') -> st' = st.
Proof.
  induction e as [z|f|x|o l IHl r IHr| | | | | | | ]; intros fuel st s st' Hp H; try discriminate; destruct fuel as [|fu]; try discriminate.
  - cbn in H. destruct (ri z); cbn in H; try discriminate. inversion H; reflexivity.
  - cbn in H. inversion H; reflexivity.
  - cbn in H. destruct (var_get st x); cbn in H; try discriminate. inversion H; reflexivity.
  - cbn [spure] in Hp. apply andb_prop in Hp as [Hl Hr]. cbn [eval] in H.
    destruct (eval M fu l st) as [[a st1]| | |] eqn:Ea; cbn [rbind] in H; try discriminate. apply IHl in Ea; auto. subst st1.
    destruct (eval M fu r st) as [[b st2]| | |] eqn:Eb; cbn [rbind] in H; try discriminate. apply IHr in Eb; auto. subst st2.
    destruct (eval_binop_sto o a b); cbn [rbind] in H; try discriminate. inversion H; reflexivity.
Qed.

Definition decl_name (s : stmt) : list string := match s with SDecl _ x _ => [x] | _ => [] end.

Lemma simple_exec_names_0 M s : forall fuel st fl st', ssimple0 s = true -> exec M fuel s st = RefSem.ROk (fl, st') ->
  forall y, In y (locals_names st') -> In y (decl_name s) \/ In y (locals_names st).
Proof.
  intros fuel st fl st' Hs H y Hy. destruct fuel as [|fu]; [discriminate|]. destruct s as [t x init|e| | | | | | | |]; try discriminate.
  - rewrite exec_decl_unfold in H. cbn zeta in H. destruct init as [e|].
    + cbn [ssimple0] in Hs. apply andb_prop in Hs as [_ Hp].
      destruct (eval M fu e (declare st x (zero_of (m_structs M) 8 t))) as [[v st2]| | |] eqn:Ev; cbn [rbind] in H; try discriminate.
      apply (eval_pure_state M e fu _ _ _ Hp) in Ev. subst st2.
      destruct (var_set (declare st x (zero_of (m_structs M) 8 t)) x v) as [st3| | |] eqn:Es; cbn [rbind] in H; try discriminate. inversion H; subst.
      rewrite (var_set_names _ _ _ _ Es) in Hy. apply declare_names in Hy as [->|Hy]; [left; left; reflexivity|right; exact Hy].
    + inversion H; subst. apply declare_names in Hy as [->|Hy]; [left; left; reflexivity|right; exact Hy].
  - destruct e as [| | | |o l r| | | | | |]; try discriminate. destruct o; try discriminate. destruct l as [| |x| | | | | | | |]; try discriminate.
    cbn [ssimple0] in Hs. rewrite exec_expr_unfold in H. destruct fu as [|fu']; [discriminate|]. rewrite eval_assign_unfold in H.
    destruct (eval M fu' r st) as [[v st2]| | |] eqn:Ev; cbn [rbind] in H; try discriminate. apply (eval_pure_state M r fu' _ _ _ Hs) in Ev. subst st2.
    destruct (var_get st x) as [cur| | |]; cbn [rbind sto_set] in H; try discriminate.
    destruct (var_set st x v) as [st3| | |] eqn:Es; cbn [rbind] in H; try discriminate. inversion H; subst. cbn [snd] in Hy.
    rewrite (var_set_names _ _ _ _ Es) in Hy. right. exact Hy.
Qed.

Lemma decl_name_desugar s : decl_name (desugar s) = decl_name s.
Proof. destruct s as [| e | | | | | | | |]; try reflexivity. destruct e as [| | | |o l r| | | | | |]; try reflexivity. destruct l; try reflexivity. cbn. destruct (aop_binop o); reflexivity. Qed.
Lemma simple_exec_names M s : forall fuel st fl st', ssimple s = true -> exec M fuel s st = RefSem.ROk (fl, st') ->
  forall y, In y (locals_names st') -> In y (decl_name s) \/ In y (locals_names st).
Proof.
  intros fuel st fl st' Hs H y Hy. apply desugar_exec in H as [fuel' H]. rewrite <- decl_name_desugar.
  exact (simple_exec_names_0 M (desugar s) fuel' st fl st' Hs H y Hy).
Qed.

Lemma simple_body_names M : forall l e fuel st fl st', forallb ssimple l = true -> spure e = true ->
  exec_list M fuel (l ++ [SRet (Some e)]) st = RefSem.ROk (fl, st') ->
  forall y, In y (locals_names st') -> In y (flat_map decl_name l) \/ In y (locals_names st).
Proof.
  induction l as [|s r IH]; intros e fuel st fl st' Hs Hp H y Hy.
  - cbn [app] in H. apply exec_list_return in H as (fu & s0 & Hev & _). apply (eval_pure_state M e fu _ _ _ Hp) in Hev. subst. right. exact Hy.
  - cbn [forallb] in Hs. apply andb_prop in Hs as [Hs1 Hsr]. cbn [app] in H. destruct fuel as [|fu]; [discriminate|]. rewrite exec_list_cons in H.
    destruct (exec M fu s st) as [[fl1 st2]| | |] eqn:Ex; cbn [rbind] in H; try discriminate.
    destruct fl1.
    + destruct (IH e fu st2 fl st' Hsr Hp H y Hy) as [Hd|Hn]; [left; cbn [flat_map]; apply in_or_app; right; exact Hd|].
      destruct (simple_exec_names M s fu st _ st2 Hs1 Ex y Hn) as [Hd|Hn']; [left; cbn [flat_map]; apply in_or_app; left; exact Hd|right; exact Hn'].
    + inversion H; subst. destruct (simple_exec_names M s fu st _ st' Hs1 Ex y Hy) as [Hd|Hn']; [left; cbn [flat_map]; apply in_or_app; left; exact Hd|right; exact Hn'].
    + inversion H; subst. destruct (simple_exec_names M s fu st _ st' Hs1 Ex y Hy) as [Hd|Hn']; [left; cbn [flat_map]; apply in_or_app; left; exact Hd|right; exact Hn'].
    + inversion H; subst. destruct (simple_exec_names M s fu st _ st' Hs1 Ex y Hy) as [Hd|Hn']; [left; cbn [flat_map]; apply in_or_app; left; exact Hd|right; exact Hn'].
Qed.

(** ** agreement on the globals, before and after a call *)
Definition GA (M : module) (g : RefSem.frame) (vs : vmstate) : Prop :=
  forall x p, find (fun q => String.eqb (fst q) x) (genvl M) = Some p ->
    num_ty (snd p) /\ exists w, find (fun q => String.eqb (fst q) x) g = Some (fst p, SV w) /\ has_ty w (snd p) /\ slookup x (globals vs) = Some (v_of w).

Lemma tlookup_env_after : forall l env x, ~ In x (flat_map decl_name l) -> tlookup (env_after env l) x = tlookup env x.
Proof.
  induction l as [|s r IH]; intros env x H; [reflexivity|]. unfold env_after in *. cbn [fold_left]. rewrite IH by (intro X; apply H; cbn [flat_map]; apply in_or_app; right; exact X).
  destruct s; cbn [env_step]; try reflexivity. apply tlookup_tdeclare_other. intro E. apply H. cbn [flat_map decl_name]. left. congruence.
Qed.

Lemma frames_get_none fs x : ~ In x (flat_map (map fst) fs) -> frames_get fs x = None.
Proof.
  induction fs as [|f fs IH]; cbn; intros H; [reflexivity|].
  assert (Hf : find (fun p : string * sto => String.eqb (fst p) x) f = None).
  { destruct (find (fun p : string * sto => String.eqb (fst p) x) f) as [p|] eqn:E; [|reflexivity]. exfalso. apply H. apply in_or_app. left.
    apply find_some in E as [E1 E2]. apply String.eqb_eq in E2. rewrite <- E2. apply in_map. exact E1. }
  rewrite Hf. apply IH. intro X. apply H. apply in_or_app. right. exact X.
Qed.

Lemma GA_after M fn l st' locals' V' A' vs' :
  (forall x, In x (map snd (f_args fn)) -> ~ In x (glnames M)) ->
  (forall y, In y (flat_map decl_name l) -> ~ In y (glnames M)) ->
  (forall y, In y (locals_names st') -> In y (flat_map decl_name l) \/ In y (map snd (f_args fn))) ->
  Agree (glnames M) (argnames fn) (env_after (fenv M fn) l) st' locals' V' A' vs' -> GA M (globs st') vs'.
Proof.
  intros Hdist Hdecl Hnames Hag x p Hx. pose proof (find_genvl_in M x p Hx) as Hxg.
  assert (Hnd : ~ In x (flat_map decl_name l)) by (intro X; apply (Hdecl x X Hxg)).
  assert (Hna : ~ In x (map snd (f_args fn))) by (intro X; apply (Hdist x X Hxg)).
  assert (Htl : tlookup (env_after (fenv M fn) l) x = Some (snd p)).
  { rewrite (tlookup_env_after l _ x Hnd). unfold fenv. cbn [tlookup find].
    assert (Ha : find (fun q => String.eqb (fst q) x) (map (fun a => (snd a, fst a)) (f_args fn)) = None).
    { destruct (find (fun q => String.eqb (fst q) x) (map (fun a => (snd a, fst a)) (f_args fn))) as [q|] eqn:E; [|reflexivity]. exfalso. apply Hna.
      apply find_some in E as [E1 E2]. apply String.eqb_eq in E2. apply in_map_iff in E1 as (a & <- & Ha). cbn in E2. rewrite <- E2. apply in_map. exact Ha. }
    rewrite Ha, Hx. reflexivity. }
  destruct (Hag x (snd p) Htl) as (Hn & w & Hg & Hw & Hv). split; [exact Hn|]. exists w.
  assert (Hloc : frames_get (locals st') x = None).
  { apply frames_get_none. intro X. destruct (Hnames x X) as [X1|X1]; [exact (Hnd X1)|exact (Hna X1)]. }
  unfold var_get in Hg. rewrite Hloc in Hg. cbn [frames_get] in Hg.
  destruct (find (fun q : string * sto => String.eqb (fst q) x) (globs st')) as [[k s0]|] eqn:Ef; [|discriminate]. cbn in Hg. inversion Hg; subst s0.
  assert (k = fst p).
  { apply find_some in Ef as [_ E2]. cbn in E2. apply String.eqb_eq in E2. apply find_some in Hx as [_ E3]. apply String.eqb_eq in E3. congruence. }
  subst k. split; [reflexivity|]. split; [exact Hw|].
  unfold var_val in Hv. rewrite (existsb_true_in x _ Hxg) in Hv. destruct (slookup x (globals vs')); inversion Hv; reflexivity.
Qed.

(** ** argument binding on both sides *)
Lemma find_combine_skip x : forall (pre : list string) (prev : list sto) rest restv,
  ~ In x pre -> length pre = length prev ->
  find (fun q : string * sto => String.eqb (fst q) x) (combine (pre ++ rest) (prev ++ restv)) = find (fun q : string * sto => String.eqb (fst q) x) (combine rest restv).
Proof.
  induction pre as [|y pre IH]; intros prev rest restv Hn Hl; destruct prev as [|v prev]; try discriminate; [reflexivity|]. cbn.
  destruct (String.eqb_spec y x); [exfalso; apply Hn; left; assumption|]. apply IH; [intro; apply Hn; right; assumption|cbn in Hl; lia].
Qed.
Lemma lookup_combine_skip x : forall (pre : list string) (prev : list val) rest restv,
  ~ In x pre -> length pre = length prev ->
  slookup x (combine (pre ++ rest) (prev ++ restv)) = slookup x (combine rest restv).
Proof.
  induction pre as [|y pre IH]; intros prev rest restv Hn Hl; destruct prev as [|v prev]; try discriminate; [reflexivity|]. unfold slookup in *. cbn.
  destruct (String.eqb_spec x y); [exfalso; apply Hn; left; congruence|]. apply IH; [intro; apply Hn; right; assumption|cbn in Hl; lia].
Qed.

Lemma host_coerce_scalar t w : host_coerce t (SV w) = SV w.
Proof. destruct t as [[| |]| | |]; reflexivity. Qed.

Definition ref_bind (args : list (string * sto)) : list (ty * string) -> rres RefSem.frame :=
  fix go (ps : list (ty * string)) : rres RefSem.frame :=
    match ps with
    | [] => RefSem.ROk []
    | (t, x) :: r => match find (fun p => String.eqb (fst p) x) args with
                     | Some p => rdo rest <- go r; RefSem.ROk ((x, host_coerce t (snd p)) :: rest)
                     | None => RStuck end
    end.

Lemma ref_bind_combine : forall (params : list (ty * string)) (ws : list rval) (pre : list string) (prev : list sto),
  NoDup (pre ++ map snd params) -> length pre = length prev -> length ws = length params ->
  ref_bind (combine (pre ++ map snd params) (prev ++ map SV ws)) params = RefSem.ROk (combine (map snd params) (map SV ws)).
Proof.
  induction params as [|[t x] params IH]; intros ws pre prev Hnd Hl Hlw; destruct ws as [|w ws]; try discriminate; [reflexivity|].
  cbn [ref_bind map combine snd].
  assert (Hx : ~ In x pre) by (apply NoDup_remove_2 in Hnd; intro X; apply Hnd; apply in_or_app; left; exact X).
  rewrite (find_combine_skip x pre prev (x :: map snd params) (SV w :: map SV ws) Hx Hl). cbn [combine find fst]. rewrite String.eqb_refl. cbn [snd].
  specialize (IH ws (pre ++ [x]) (prev ++ [SV w])). rewrite <- !app_assoc in IH. cbn [app] in IH. fold (ref_bind (combine (pre ++ x :: map snd params) (prev ++ SV w :: map SV ws))).
  rewrite IH; [cbn [rbind]; rewrite host_coerce_scalar; reflexivity|exact Hnd|rewrite !app_length; cbn; lia|cbn in Hlw; lia].
Qed.

Lemma vm_bind_combine : forall (names : list string) (ws : list rval) (pre : list string) (prev : list val),
  NoDup (pre ++ names) -> length pre = length prev -> length ws = length names ->
  map (fun x => match slookup x (combine (pre ++ names) (prev ++ map v_of ws)) with Some v => v | None => VNone end) names = map v_of ws.
Proof.
  induction names as [|x names IH]; intros ws pre prev Hnd Hl Hlw; destruct ws as [|w ws]; try discriminate; [reflexivity|]. cbn [map].
  assert (Hx : ~ In x pre) by (apply NoDup_remove_2 in Hnd; intro X; apply Hnd; apply in_or_app; left; exact X).
  rewrite (lookup_combine_skip x pre prev (x :: names) (v_of w :: map v_of ws) Hx Hl). unfold slookup at 1. cbn [combine lookup]. rewrite String.eqb_refl. f_equal.
  specialize (IH ws (pre ++ [x]) (prev ++ [v_of w])). rewrite <- !app_assoc in IH. cbn [app] in IH. apply IH; [exact Hnd|rewrite !app_length; cbn; lia|cbn in Hlw; lia].
Qed.

Lemma ref_invoke_unfold M fuel fname args g fn :
  find (fun f => String.eqb (f_name f) fname && f_export f) (m_funcs M) = Some fn ->
  ref_invoke M fuel fname args g =
  (rdo bound <- ref_bind args (f_args fn);
   rdo r <- exec_list M fuel (f_body fn) {| locals := [[]; bound]; globs := g |};
   let '(fl, st) := r in match fl with OReturn v => RefSem.ROk (v, globs st) | ONormal => RefSem.ROk (SNoValue, globs st) | _ => RStuck end).
Proof. intros H. unfold ref_invoke. rewrite H. reflexivity. Qed.

Lemma lower_func_args structs gl f F : lower_func structs gl f = LOk F -> fn_args F = map (fun a => (snd a, adapt structs 8 (fst a))) (tf_args f).
Proof. unfold lower_func. destruct (lower_body _ _ _ _ _); cbn [lbind]; try discriminate. intros H. inversion H. reflexivity. Qed.
Lemma elab_func_args G gs fn tf : elab_func G gs fn = EOk tf -> tf_args tf = f_args fn.
Proof. unfold elab_func. destruct (elab_body _ _ _); cbn [ebind]; try discriminate. intros H. inversion H. reflexivity. Qed.

(** ** one call *)
Theorem call_refines : forall (M : module) (P : program) (fn : func) (l : list stmt) (e : expr) (tf : tfunc) (F : ifunc) tl te,
  f_body fn = l ++ [SRet (Some e)] -> forallb ssimple l = true -> spure e = true ->
  elab_func (genv_of M) (genvl M) fn = EOk tf -> lower_func (m_structs M) (glnames M) tf = LOk F ->
  tf_body tf = tl ++ [TRet (Some te)] -> length tl = length l -> forallb stok tl = true -> tok te = true ->
  lits_exact (flat_map tflits (body_exprs tl ++ [te])) -> (forall q, In q (flat_map tflits (body_exprs tl ++ [te])) -> PrimFloat.eqb q q = true) ->
  Forall (fresh_decl (glnames M) (argnames fn)) l ->
  (forall x, In x (map snd (f_args fn)) -> ~ In x (glnames M)) -> NoDup (map snd (f_args fn)) ->
  find (fun f => String.eqb (f_name f) (f_name fn) && f_export f) (m_funcs M) = Some fn -> find_func P (f_name fn) = Some F ->
  forall (ws : list rval) (g : RefSem.frame) (vs : vmstate),
    Forall2 (fun p w => has_ty w (fst p)) (f_args fn) ws -> GA M g vs ->
    forall fuel s g', ref_invoke M fuel (f_name fn) (combine (map snd (f_args fn)) (map SV ws)) g = RefSem.ROk (s, g') ->
      exists v vs', s = SV v /\ GA M g' vs' /\
        exists n, forall fuel', n <= fuel' -> invoke fuel' P (f_name fn) (combine (map snd (f_args fn)) (map v_of ws)) vs = Done (v_of v) vs'.
Proof.
  intros M P fn l e tf F tl te Hbody Hs Hp Helab Hlower Htb Hlen Hk Hkt Hlit Hnan Hfr Hdist Hnd Hfind HfindP ws g vs Hargs Hga fuel s g' Hinv.
  assert (Hlw : length ws = length (f_args fn)) by (clear -Hargs; induction Hargs; cbn; congruence).
  rewrite (ref_invoke_unfold M fuel _ _ g fn Hfind) in Hinv.
  pose proof (ref_bind_combine (f_args fn) ws [] [] Hnd eq_refl Hlw) as Hb. cbn [app] in Hb. rewrite Hb in Hinv. cbn [rbind] in Hinv.
  change {| locals := [[]; combine (map snd (f_args fn)) (map SV ws)]; globs := g |} with (call_state fn ws g) in Hinv.
  destruct (exec_list M fuel (f_body fn) (call_state fn ws g)) as [[fl st']| | |] eqn:Ex; cbn [rbind] in Hinv; try discriminate.
  destruct (straight_line_function_simulation M fn l e tf F Hbody Hs Hp Helab Hlower tl te Htb Hlen Hk Hkt Hlit Hnan Hfr P ws g vs Hargs Hdist Hga fuel fl st' Ex)
    as (v & vs' & -> & (n & Hrun) & locals' & V' & A' & Hag).
  inversion Hinv; subst s g'; clear Hinv.
  exists v, vs'. split; [reflexivity|]. split.
  - apply (GA_after M fn l st' locals' V' A' vs' Hdist).
    + intros y Hy Hg'. clear -Hfr Hy Hg'. induction l as [|s0 r IH]; [destruct Hy|]. inversion Hfr; subst. cbn [flat_map] in Hy. apply in_app_or in Hy as [Hy|Hy]; [|apply IH; assumption].
      destruct s0; cbn in Hy; try contradiction. destruct Hy as [<-|[]]. cbn in H1. destruct H1 as [H1 _]. rewrite (existsb_true_in _ _ Hg') in H1. discriminate.
    + intros y Hy. rewrite Hbody in Ex. destruct (simple_body_names M l e fuel _ _ _ Hs Hp Ex y Hy) as [Hd|Hn]; [left; exact Hd|right].
      unfold locals_names, call_state in Hn. cbn [locals flat_map map app] in Hn. rewrite app_nil_r in Hn.
      clear -Hn Hlw. revert ws Hlw Hn. induction (f_args fn) as [|[t x] ps IH]; intros [|w ws] Hlw Hn; cbn in *; try contradiction; try discriminate.
      destruct Hn as [<-|Hn]; [left; reflexivity|right; apply (IH ws); [lia|exact Hn]].
    + exact Hag.
  - exists n. intros fuel' Hf. unfold invoke. rewrite HfindP. rewrite (lower_func_args _ _ _ _ Hlower), (elab_func_args _ _ _ _ Helab). rewrite map_map. cbn [fst].
    pose proof (vm_bind_combine (map snd (f_args fn)) ws [] [] Hnd eq_refl) as Hvb. cbn [app] in Hvb. rewrite map_map in Hvb. rewrite Hvb by (rewrite map_length; exact Hlw).
    apply Hrun. exact Hf.
Qed.

(** ** histories *)
Inductive fn_ok (M : module) (P : program) (fn : func) : Prop :=
  fn_ok_intro : forall (l : list stmt) (e : expr) (tf : tfunc) (F : ifunc) (tl : list tstmt) (te : texpr),
    f_body fn = l ++ [SRet (Some e)] -> forallb ssimple l = true -> spure e = true ->
    elab_func (genv_of M) (genvl M) fn = EOk tf -> lower_func (m_structs M) (glnames M) tf = LOk F ->
    tf_body tf = tl ++ [TRet (Some te)] -> length tl = length l -> forallb stok tl = true -> tok te = true ->
    lits_exact (flat_map tflits (body_exprs tl ++ [te])) -> (forall q, In q (flat_map tflits (body_exprs tl ++ [te])) -> PrimFloat.eqb q q = true) ->
    Forall (fresh_decl (glnames M) (argnames fn)) l ->
    (forall x, In x (map snd (f_args fn)) -> ~ In x (glnames M)) -> NoDup (map snd (f_args fn)) ->
    find (fun f => String.eqb (f_name f) (f_name fn) && f_export f) (m_funcs M) = Some fn -> find_func P (f_name fn) = Some F ->
    fn_ok M P fn.

Definition hcall : Type := (func * list rval)%type.

Fixpoint ref_hist (M : module) (fuel : nat) (g : RefSem.frame) (calls : list hcall) : rres (list sto * RefSem.frame) :=
  match calls with
  | [] => RefSem.ROk ([], g)
  | (fn, ws) :: r =>
      rdo p <- ref_invoke M fuel (f_name fn) (combine (map snd (f_args fn)) (map SV ws)) g; let '(s, g1) := p in
      rdo q <- ref_hist M fuel g1 r; RefSem.ROk (s :: fst q, snd q)
  end.
Fixpoint vm_hist (fuel : nat) (P : program) (vs : vmstate) (calls : list hcall) : option (list val * vmstate) :=
  match calls with
  | [] => Some ([], vs)
  | (fn, ws) :: r =>
      match invoke fuel P (f_name fn) (combine (map snd (f_args fn)) (map v_of ws)) vs with
      | Done v vs1 => match vm_hist fuel P vs1 r with Some (vl, vs2) => Some (v :: vl, vs2) | None => None end
      | _ => None
      end
  end.

Theorem history_refines : forall (M : module) (P : program) (calls : list hcall),
  (forall c, In c calls -> fn_ok M P (fst c) /\ Forall2 (fun p w => has_ty w (fst p)) (f_args (fst c)) (snd c)) ->
  forall fuel g vs rs g', GA M g vs -> ref_hist M fuel g calls = RefSem.ROk (rs, g') ->
  exists n, forall fuel', n <= fuel' ->
    exists vl vs', vm_hist fuel' P vs calls = Some (vl, vs') /\ Forall2 (fun s v => exists w, s = SV w /\ v = v_of w) rs vl /\ GA M g' vs'.
Proof.
  intros M P calls. induction calls as [|[fn ws] r IH]; intros Hok fuel g vs rs g' Hga Href.
  - cbn in Href. inversion Href; subst. exists 0. intros fuel' _. exists [], vs. split; [reflexivity|]. split; [apply Forall2_nil|exact Hga].
  - cbn [ref_hist] in Href.
    destruct (ref_invoke M fuel (f_name fn) (combine (map snd (f_args fn)) (map SV ws)) g) as [[s g1]| | |] eqn:Ei; cbn [rbind] in Href; try discriminate.
    destruct (ref_hist M fuel g1 r) as [[rs1 g2]| | |] eqn:Er; cbn [rbind] in Href; try discriminate. inversion Href; subst rs g'; clear Href. cbn [fst snd].
    destruct (Hok (fn, ws) (or_introl eq_refl)) as [Hfn Hty]. cbn [fst snd] in Hfn, Hty.
    destruct Hfn as [l e tf F tl te H1 H2 H3 H4 H5 H6 H7 H8 H9 H10 H11 H12 H13 H14 H15 H16].
    destruct (call_refines M P fn l e tf F tl te H1 H2 H3 H4 H5 H6 H7 H8 H9 H10 H11 H12 H13 H14 H15 H16 ws g vs Hty Hga fuel s g1 Ei) as (v & vs1 & -> & Hga1 & n1 & Hrun1).
    destruct (IH (fun c Hc => Hok c (or_intror Hc)) fuel g1 vs1 rs1 g2 Hga1 Er) as (n2 & Hrun2).
    exists (Nat.max n1 n2). intros fuel' Hf. destruct (Hrun2 fuel' ltac:(lia)) as (vl & vs' & Hh & Hf2 & Hga2).
    exists (v_of v :: vl), vs'. cbn [vm_hist]. rewrite (Hrun1 fuel' ltac:(lia)), Hh. split; [reflexivity|]. split; [|exact Hga2].
    constructor; [exists v; auto|exact Hf2].
Qed.
