"""C19 -- Wasm writer: integers, names and section sizes decode to what was written."""
import os, json
from common import TranslatorAbort, coq_z, coq_list, parse_coq_values
from translate import t_wasmpack

STATIC = ["Spec/Leb128.v", "Model/WasmPack.v", "Proofs/Leb128Proofs.v", "Base/Util.v"]

HEADER = """From Coq Require Import String ZArith List Bool.
From NSL Require Import Base.Util Spec.Leb128 Model.WasmPack.
Import ListNotations.
Open Scope Z_scope.
Definition chk_u (v : Z) (impl : list Z) : Z :=
  verdict (zlist_eqb impl (pack_integer v))
          (match uleb_decode impl with Some (v', []) => v' =? v | _ => false end).
Definition chk_s (v : Z) (impl : list Z) : Z :=
  verdict (zlist_eqb impl (pack_signed v))
          (match sleb_decode impl with Some (v', []) => v' =? v | _ => false end).
Definition chk_str (cs impl : list Z) : Z :=
  verdict (zlist_eqb impl (write_string cs))
          (match decode_name impl with Some (cs', []) => zlist_eqb cs' cs | _ => false end).
(* i32.const: opcode byte then a signed immediate *)
Definition chk_const (v : Z) (impl : list Z) : Z :=
  verdict (zlist_eqb impl (65 :: pack_signed v))
          (match impl with 65 :: r => match sleb_decode r with Some (v', []) => v' =? v | _ => false end | _ => false end).
(* index immediates (local.get etc.): unsigned *)
Definition chk_idx (opc v : Z) (impl : list Z) : Z :=
  verdict (zlist_eqb impl (opc :: pack_integer v))
          (match impl with o :: r => (o =? opc) && match uleb_decode r with Some (v', []) => v' =? v | _ => false end | _ => false end).
(* whole module: every section is framed exactly; export names and function bodies are recovered *)
Definition names_eqb (a b : list (list Z)) : bool :=
  (Nat.eqb (length a) (length b)) && forallb (fun p => zlist_eqb (fst p) (snd p)) (combine a b).
Definition chk_module (names : list (list Z)) (nbodies : Z) (impl : list Z) : Z :=
  verdict true
   (match split_module impl with
    | Some secs =>
        forallb (fun s => match fst s with
                          | 7 => match decode_export_section (snd s) with
                                 | Some ex => names_eqb (map (fun e => fst (fst e)) ex) names && zlist_eqb (write_export_payload ex) (snd s) | None => false end
                          | 10 => match decode_code_section (snd s) with
                                  | Some bodies => (Z.of_nat (length bodies) =? nbodies) && zlist_eqb (write_code_payload bodies) (snd s) | None => false end
                          | _ => true end) secs
        && (if 0 <? nbodies then existsb (fun s => fst s =? 10) secs else true)
        && (match names with [] => true | _ => existsb (fun s => fst s =? 7) secs end)
    | None => false end).
"""


def boundary_values(rng, tier):
    us, ss = set(), set()
    for k in range(0, 65):
        for d in (-2, -1, 0, 1, 2):
            v = (1 << k) + d
            if v >= 0:
                us.add(v)
            ss.add(v); ss.add(-v)
    for g in range(1, 10):
        for d in (-1, 0, 1):
            us.add(max(0, (1 << (7 * g)) + d))
            for sgn in (1, -1):
                ss.add(sgn * ((1 << (7 * g - 1)) + d))
                ss.add(sgn * ((1 << (7 * g)) + d))
    n = 400 if tier == "quick" else 20000
    for _ in range(n):
        b = rng.choice([7, 8, 14, 16, 21, 28, 31, 32, 33, 35, 48, 63, 64])
        us.add(rng.getrandbits(b))
        v = rng.getrandbits(b)
        ss.add(v if rng.random() < 0.5 else -v)
    ss |= {-(1 << 31), (1 << 31) - 1, -(1 << 63), (1 << 63) - 1}
    return sorted(us), sorted(ss)


def rand_name(rng):
    n = rng.choice([0, 1, 2, 5, 20, 127, 128, 129, 300])
    pools = [(0x20, 0x7E), (0x80, 0x7FF), (0x800, 0xD7FF), (0xE000, 0xFFFF), (0x10000, 0x10FFFF)]
    cs = []
    for _ in range(n):
        lo, hi = rng.choice(pools if rng.random() < 0.5 else pools[:1])
        cs.append(rng.randint(lo, hi))
    return "".join(map(chr, cs))


def rand_module(rng):
    nf = rng.choice([0, 1, 2, 3, 10, 130])
    tys = ["i32", "f32"]
    types, funcs, exports, codes = [], [], [], []
    for i in range(nf):
        params = [rng.choice(tys) for _ in range(rng.choice([0, 1, 2, 5]))]
        types.append((params, [rng.choice(tys)] if rng.random() < 0.8 else []))
        funcs.append(i)
        exports.append((i, "f%d_" % i + rand_name(rng)[:rng.choice([0, 3, 140])]))
        instrs = []
        for _ in range(rng.choice([0, 1, 5, 40, 200])):
            r = rng.random()
            if r < 0.4:
                instrs.append((0x41, [rng.choice([0, 1, 63, 64, -64, -65, 127, 128, 8191, 8192, -8193, 2**31 - 1, -2**31, rng.randint(-2**31, 2**31 - 1)])]))
            elif r < 0.7:
                instrs.append((0x20, [rng.choice([0, 1, 127, 128, 300, 16384])]))
            elif r < 0.9:
                instrs.append((0x6A, []))
            else:
                instrs.append((0x21, [rng.choice([0, 5, 127, 128, 20000])]))
        codes.append({"locals": [(rng.choice(tys), rng.choice([1, 2, 127, 128, 1000])) for _ in range(rng.choice([0, 1, 2, 4]))],
                      "instrs": instrs})
    return {"k": "module", "types": types, "funcs": funcs, "exports": exports, "codes": codes, "table": rng.random() < 0.7}


def run(ctx):
    ctx.static_obligations(STATIC)
    repo = ctx.sync_repo(1)[0]
    # ---- regenerate + prove
    try:
        gen = t_wasmpack.generate(repo)
        open(os.path.join(ctx.dyn, "Gen_WasmPack.v"), "w").write(gen)
        ctx.compile_dyn(["Gen_WasmPack", "Agree_WasmPack", "Props_C19"])
    except TranslatorAbort as e:
        ctx.broken.append("translator T7a (nsl/WebAssembly.py packers) aborted: %s" % e)
        ctx.obligations.append({"name": "T7a.translate", "ok": False})
    # ---- correspondence
    us, ss = boundary_values(ctx.rng, ctx.tier)
    jobs, coq = [], []
    for v in us:
        jobs.append({"k": "u", "v": v})
    for v in ss:
        jobs.append({"k": "s", "v": v})
    consts = [v for v in ss if -(1 << 31) <= v < (1 << 31)]
    for v in consts:
        jobs.append({"k": "instr", "opcode": 0x41, "args": [v]})
    idxs = [v for v in us if v < (1 << 32)][:: 3 if ctx.tier == "quick" else 1]
    for v in idxs:
        jobs.append({"k": "instr", "opcode": ctx.rng.choice([0x20, 0x21, 0x10]), "args": [v]})
    names = [rand_name(ctx.rng) for _ in range(60 if ctx.tier == "quick" else 600)]
    for s in names:
        jobs.append({"k": "str", "s": s})
    mods = [rand_module(ctx.rng) for _ in range(25 if ctx.tier == "quick" else 200)]
    jobs.extend(mods)
    res = ctx.run_impl("c19_impl.py", jobs)
    lines, meta = [], []
    for j, r in zip(jobs, res):
        if "error" in r:
            lines.append("3"); meta.append((j, r)); continue
        b = coq_list([str(x) for x in r["bytes"]])
        if j["k"] == "u":
            lines.append("chk_u %s %s" % (coq_z(j["v"]).replace("%Z", ""), b))
        elif j["k"] == "s":
            lines.append("chk_s (%d) %s" % (j["v"], b))
        elif j["k"] == "instr" and j["opcode"] == 0x41:
            lines.append("chk_const (%d) %s" % (j["args"][0], b))
        elif j["k"] == "instr":
            lines.append("chk_idx %d %d %s" % (j["opcode"], j["args"][0], b))
        elif j["k"] == "str":
            lines.append("chk_str %s %s" % (coq_list([str(ord(c)) for c in j["s"]]), b))
        else:
            nm = coq_list([coq_list([str(ord(c)) for c in e[1]]) for e in j["exports"]])
            lines.append("chk_module %s %d %s" % (nm, len(j["codes"]), b))
        meta.append((j, r))
    files, per = [], 400
    for k in range(0, len(lines), per):
        f = os.path.join(ctx.dyn, "cases_C19_%d.v" % (k // per))
        open(f, "w").write(HEADER + "Definition cases : list Z := [\n  " + ";\n  ".join(lines[k:k + per]) + "].\nEval vm_compute in cases.\n")
        files.append(f)
    outs = ctx.eval_cases(files)
    codes = []
    for f in files:
        ok, out, err = outs[f]
        vals = parse_coq_values(out) if ok else []
        if not ok or not vals or not isinstance(vals[0], list):
            ctx.broken.append("correspondence: case file %s did not evaluate: %s" % (os.path.basename(f), err[-300:]))
            codes.extend([None] * min(per, len(lines) - len(codes)))
        else:
            codes.extend(vals[0])
    # ---- compiled modules: every i32.const the COMPILER emits must decode as a signed 32-bit immediate, every size field must be exact
    import wasmcases
    CONSTS = [0, 1, -1, 63, 64, -64, -65, 127, 128, 8191, 8192, -8193, 134217727, 134217728, -134217729, 2147483647, -2147483648,
              2147483648, 2147483649, 3000000000, 4294967295, 4294967168, 2155905152]
    cjobs = [{"kind": "const", "src": "export function k(int a) -> int { return a + %d; }" % c, "calls": [], "optimize": bool(n % 2)} for n, c in enumerate(CONSTS)]
    cjobs += [{"kind": "const", "src": "export function k() -> int { return %d; }" % c, "calls": [], "optimize": False} for c in CONSTS]
    cjobs += [{"kind": "name", "src": "export function %s(int a) -> int { return a; }" % ("n" * k), "calls": [], "optimize": False} for k in (1, 63, 64, 127, 128, 129, 200)]
    cres = ctx.run_impl("c06_impl.py", cjobs, nworkers=8)
    cem = [(j, r) for j, r in zip(cjobs, cres) if r["accept"]]
    cfile = os.path.join(ctx.dyn, "cases_C19_modules.v")
    open(cfile, "w").write(wasmcases.HEADER + "Definition cases : list Z := [\n  " + ";\n  ".join("valid_binary %s" % wasmcases.coq_bytes(r["hex"]) for j, r in cem) + "].\nEval vm_compute in cases.\n")
    okc, outc, errc = ctx.eval_cases([cfile])[cfile]
    cvals = parse_coq_values(outc)[0] if okc and cem else []
    if cem and len(cvals) != len(cem):
        ctx.broken.append("correspondence: compiled-module cases did not evaluate: %s" % errc[-300:])
    bad_modules = [(j, r, c) for (j, r), c in zip(cem, cvals) if c in (1, 2)]
    nontrivial = set()
    bad_model, bad_spec = [], []
    for (j, r), c in zip(meta, codes):
        key = json.dumps(j, sort_keys=True)
        if j["k"] in ("u", "s"):
            if abs(j["v"]) >= 64:
                nontrivial.add(key)
        else:
            nontrivial.add(key)
        if c is None:
            continue
        if c & 1:
            bad_model.append((j, r))
        if c & 2:
            bad_spec.append((j, r))
    ctx.cov["evaluations"] = len(jobs)
    ctx.cov["distinct_nontrivial"] = len(nontrivial)
    ctx.cov["rule"] = ("every value 2^k+d (k<=64,|d|<=2), every 7-bit group / sign-bit boundary +-1, random 7..64-bit values "
                       "through PackInteger (v>=0) and PackSignedInteger; i32.const and index instructions through Instruction.WriteTo; "
                       "random unicode names through WriteString; random modules through Module.WriteTo decoded by the specification's "
                       "section/export/code decoders; modules compiled from sources with constants at every LEB128 / 32-bit boundary and export names of 1-200 bytes, decoded the same way. Non-trivial: multi-byte encodings (|v|>=64), every name, instruction and module; distinct by job.")
    ctx.cov["samples"] = [{"job": j if j["k"] != "module" else {"k": "module", "functions": len(j["funcs"])}, "impl_bytes": (r["bytes"][:24] if "bytes" in r else r)}
                          for (j, r) in (meta[5:8] + meta[len(us) + 40:len(us) + 43] + meta[-2:])]
    ctx.extra["input_distribution"] = {"unsigned_values": len(us), "signed_values": len(ss), "i32_const_instrs": len(consts),
                                       "index_instrs": len(idxs), "names": len(names), "modules": len(mods),
                                       "impl_vs_model_disagreements": len(bad_model), "impl_vs_spec_disagreements": len(bad_spec)}
    ctx.extra["disagreements_checked"] = len(codes)
    ctx.extra["input_distribution"]["compiled_modules_decoded"] = len(cem)
    if bad_modules:
        j, r, c = bad_modules[0]
        ctx.violation("failing-input", {"what": "a module emitted by the compiler does not decode with the standard decoders (an i32.const immediate outside the signed 32-bit range, or a size field that is not exact)",
                                        "source": j["src"], "hex": r["hex"], "decoder_verdict": {1: "malformed", 2: "invalid"}[c], "count": len(bad_modules)})
    elif bad_spec:
        j, r = min(bad_spec, key=lambda p: len(json.dumps(p[0])))
        ctx.violation("failing-input", {"what": "bytes emitted by nsl.WebAssembly are not decoded to the written value by the standard decoder",
                                        "job": j, "observed": r, "count": len(bad_spec),
                                        "replay": "cd <copy of /repo>; run harness/impl/c19_impl.py on this job and decode the bytes"})
    elif bad_model:
        ctx.broken.append("correspondence: implementation bytes differ from NSL.Model.WasmPack on %d case(s), e.g. %s -> %s" % (
            len(bad_model), json.dumps(bad_model[0][0])[:200], str(bad_model[0][1])[:200]))
