(** * C12: the chain of name tables of ValidateVariableNames rejects a declaration exactly when its name is
    visible in the flat specification; names used in expressions are looked up in the same visible set. *)
From Coq Require Import String ZArith List Bool Arith Lia.
From NSL Require Import Base.Types Base.Syntax Base.SyntaxInd Spec.Scope Model.Names.
Import ListNotations.

(** the chain [c] represents the visible set [vis] *)
Definition rep (c : chain) (vis : list string) : Prop := forall x, chain_get c x = mem x vis.

Lemma rep_push c vis : rep c vis -> rep (push c) vis.
Proof. intros H x. unfold push, chain_get. cbn. apply H. Qed.

Lemma mem_cons x y l : mem x (y :: l) = String.eqb x y || mem x l.
Proof. reflexivity. Qed.

Lemma rep_add c vis y : rep c vis -> rep (add_head c y) (y :: vis).
Proof.
  intros H x. rewrite mem_cons, <- H. destruct c as [|t r]; unfold add_head, chain_get; cbn.
  - rewrite !orb_false_r. reflexivity.
  - rewrite orb_assoc. reflexivity.
Qed.

Definition pok (r : pass_res) : bool := match r with POk => true | _ => false end.

Lemma vn_add_spec c vis x : rep c vis ->
    (mem x vis = false -> vn_add c x = (POk, add_head c x)) /\ (mem x vis = true -> pok (fst (vn_add c x)) = false).
Proof. intros H. unfold vn_add. rewrite H. split; intros E; rewrite E; reflexivity. Qed.

(** list threading: model and specification in lock step *)
Lemma thread_lockstep :
  forall (l : list stmt),
    Forall (fun s => forall c vis, rep c vis ->
                  pok (fst (vn_stmt c s)) = fst (decl_stmt vis s) /\
                  (fst (decl_stmt vis s) = true -> rep (snd (vn_stmt c s)) (snd (decl_stmt vis s)))) l ->
    forall c vis, rep c vis -> pok (mthread vn_stmt c l) = thread decl_stmt vis l.
Proof.
  induction l as [|s l IH]; intros HF c vis Hr; cbn; [reflexivity|].
  inversion HF as [|? ? Hs Hl]; subst. destruct (Hs c vis Hr) as [E1 E2].
  destruct (vn_stmt c s) as [r c'] eqn:Ev. destruct (decl_stmt vis s) as [ok vis'] eqn:Ed. cbn [fst snd] in *.
  destruct r; cbn [pok] in E1; subst ok; cbn [andb]; try reflexivity.
  apply IH; [exact Hl|]. apply E2. reflexivity.
Qed.

Theorem vn_stmt_decl : forall s c vis, rep c vis ->
    pok (fst (vn_stmt c s)) = fst (decl_stmt vis s) /\
    (fst (decl_stmt vis s) = true -> rep (snd (vn_stmt c s)) (snd (decl_stmt vis s))).
Proof.
  induction s using stmt_ind2; intros c0 vis Hr; cbn [vn_stmt decl_stmt]; try (cbn; split; auto; fail).
  - (* decl *) destruct (vn_add_spec c0 vis x Hr) as [A B]. destruct (mem x vis) eqn:E.
    + rewrite (B eq_refl). cbn. split; [reflexivity|discriminate].
    + rewrite (A eq_refl). cbn. split; [reflexivity|]. intros _. apply rep_add. exact Hr.
  - (* block *) cbn [fst snd]. split; [|intros _; exact Hr].
    apply thread_lockstep; [exact H|apply rep_push; exact Hr].
  - (* if *) destruct (IHs (push c0) vis (rep_push _ _ Hr)) as [E1 E2].
    destruct (vn_stmt (push c0) s) as [r c2] eqn:Ev. destruct (decl_stmt vis s) as [ok vis1] eqn:Ed. cbn [fst snd] in *.
    destruct r; cbn [pok] in E1; subst ok; try (cbn; split; [reflexivity|discriminate]).
    destruct f as [f'|]; cbn [fst snd]; [|split; [reflexivity|intros _; exact Hr]].
    destruct (H f' eq_refl (push c0) vis (rep_push _ _ Hr)) as [F1 _]. split; [exact F1|intros _; exact Hr].
  - (* for *) destruct i as [[[t x] ini]|]; cbn [fst snd].
    + destruct (vn_add_spec (push c0) vis x (rep_push _ _ Hr)) as [A B]. destruct (mem x vis) eqn:E.
      * specialize (B eq_refl). destruct (vn_add (push c0) x) as [r c2]. cbn [fst] in B.
        destruct r; cbn in B; try discriminate; cbn; split; auto; discriminate.
      * rewrite (A eq_refl). destruct (IHs (add_head (push c0) x) (x :: vis) (rep_add _ _ _ (rep_push _ _ Hr))) as [F1 _].
        cbn [fst snd]. split; [exact F1|intros _; exact Hr].
    + destruct (IHs (push c0) vis (rep_push _ _ Hr)) as [F1 _]. cbn [fst snd]. split; [exact F1|intros _; exact Hr].
  - (* while *) destruct b as [b'|]; cbn [fst snd]; [|split; [reflexivity|intros _; exact Hr]].
    destruct (H b' eq_refl (push c0) vis (rep_push _ _ Hr)) as [F1 _]. split; [exact F1|intros _; exact Hr].
  - (* do *) cbn [fst snd]. split; [|intros _; exact Hr].
    apply thread_lockstep; [exact H|apply rep_push, rep_push; exact Hr].
Qed.

Lemma vn_body_decl : forall l c vis, rep c vis -> pok (vn_body c l) = decl_list vis l.
Proof.
  intros l c vis Hr. unfold vn_body, decl_list. apply thread_lockstep; [|exact Hr].
  apply Forall_forall. intros s _. apply vn_stmt_decl.
Qed.

Lemma vn_add_all_spec : forall names c vis, rep c vis ->
    pok (fst (vn_add_all c names)) = fst (add_all names vis) /\
    (fst (add_all names vis) = true -> rep (snd (vn_add_all c names)) (snd (add_all names vis))).
Proof.
  induction names as [|x r IH]; intros c vis Hr; cbn; [split; auto|].
  destruct (vn_add_spec c vis x Hr) as [A B]. destruct (mem x vis) eqn:E.
  - specialize (B eq_refl). destruct (vn_add c x) as [rr c2]. cbn [fst] in B.
    destruct rr; cbn in B; try discriminate; cbn; split; auto; discriminate.
  - rewrite (A eq_refl). apply IH. apply rep_add. exact Hr.
Qed.

Theorem vn_func_decl : forall f c globals, rep c globals -> pok (vn_func c f) = decl_func globals f.
Proof.
  intros f c globals Hr. unfold vn_func, decl_func.
  destruct (vn_add_all_spec (map snd (f_args f)) (push c) globals (rep_push _ _ Hr)) as [A B].
  destruct (vn_add_all (push c) (map snd (f_args f))) as [r c1]. destruct (add_all (map snd (f_args f)) globals) as [ok vis].
  cbn [fst snd] in *. destruct r; cbn [pok] in A; subst ok; try reflexivity.
  apply vn_body_decl. apply rep_push. apply B. reflexivity.
Qed.

(** A program passes ValidateVariableNames exactly when no declaration (global, parameter, local, loop header)
    names something already visible at its point. *)
Theorem vn_module_decl : forall m, pok (vn_module m) = decl_module m.
Proof.
  intros m. unfold vn_module, decl_module.
  assert (R0 : rep [[]] []) by (intros x; reflexivity).
  destruct (vn_add_all_spec (map snd (m_globals m)) [[]] [] R0) as [A B].
  destruct (vn_add_all [[]] (map snd (m_globals m))) as [r c]. destruct (add_all (map snd (m_globals m)) []) as [ok globals].
  cbn [fst snd] in *. destruct r; cbn [pok] in A; subst ok; try reflexivity.
  specialize (B eq_refl).
  induction (m_funcs m) as [|f fs IH]; cbn; [reflexivity|].
  rewrite <- (vn_func_decl f c globals B). destruct (vn_func c f) eqn:E; cbn [pok andb]; try reflexivity.
  exact IH.
Qed.

(** names used in an expression are looked up in the same visible set *)
Theorem ct_expr_bound : forall c vis e, rep c vis -> pok (ct_expr c e) = bound vis e.
Proof.
  intros c vis [e|] Hr; cbn; [|reflexivity].
  induction (expr_names e) as [|x l IH]; cbn; [reflexivity|].
  rewrite Hr. destruct (mem x vis); cbn; [exact IH|reflexivity].
Qed.

(** a same-scope duplicate (what ComputeTypes trips over) is in particular a visible name *)
Theorem ct_register_implies_visible : forall c vis x, rep c vis ->
    pok (fst (ct_register c x)) = false -> mem x vis = true.
Proof.
  intros c vis x Hr H. destruct c as [|t r]; cbn in H; [discriminate|].
  destruct (mem x t) eqn:E; cbn in H; [|discriminate].
  rewrite <- Hr. unfold chain_get. cbn. rewrite E. reflexivity.
Qed.
