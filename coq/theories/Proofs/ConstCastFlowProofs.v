(** * C02: folding casts of constants preserves whole functions with arbitrary control flow.
    A cast whose operand is a constant is removed and its uses are renamed to a constant holding the folded value.
    For a table [T] (cast reference -> constant reference) and a constant table [C] satisfying the hypotheses below, the
    function whose blocks are rewritten with [T] ends exactly as the original does: same value and state, or same error. *)
From Coq Require Import String ZArith List Bool PrimFloat Arith Lia.
From NSL Require Import Model.PyNum Model.IR Model.VM Model.WfIR Model.Lower Model.Opt Proofs.WfIRProofs Proofs.OptProofs Proofs.ForwardProofs Proofs.ForwardFlowProofs Proofs.ForwardFlowFailProofs.
Import ListNotations.

Definition cref (c : nat * irty * cval) : nat := fst (fst c).
Definition crefs (C : list (nat * irty * cval)) : list nat := map cref C.
Definition consts_ok (C : list (nat * irty * cval)) (fo : frame) : Prop := forall c, In c C -> rlookup (cref c) (regs fo) = Some (const_val (snd c)).

(** every step leaves all registers but the instruction's own unchanged *)
Lemma step_regs F pc fo vs i pc1 fo' vs' : step F pc fo vs i = StNext pc1 fo' vs' -> forall q, q <> i_ref i -> rlookup q (regs fo') = rlookup q (regs fo).
Proof.
  intros H q Hq. unfold step in H. destruct (i_body i) eqn:Eb;
    repeat match type of H with
           | context [lift ?x _] => destruct x; cbn [lift] in H; try discriminate
           | context [let '(_, _) := ?x in _] => destruct x
           | context [match ?x with _ => _ end] => destruct x; try discriminate
           end; inversion H; subst; cbn [rset regs]; try reflexivity; try (apply rlookup_update_other; exact Hq).
Qed.

Section Table.
  Variable T : list (nat * nat).

  Definition ccrm (i : instr) : option nat :=
    match i_body i with ICast _ => option_map snd (find (fun p => Nat.eqb (fst p) (i_ref i)) T) | _ => None end.

  Fixpoint cc_code (code : list instr) (m : list (nat * nat)) : list instr :=
    match code with
    | [] => []
    | i :: r => match ccrm i with Some t => cc_code r (m ++ [(i_ref i, t)]) | None => subst_instr m i :: cc_code r m end
    end.
  Fixpoint cc_map (code : list instr) (m : list (nat * nat)) : list (nat * nat) :=
    match code with
    | [] => m
    | i :: r => match ccrm i with Some t => cc_map r (m ++ [(i_ref i, t)]) | None => cc_map r m end
    end.
  Definition cc_tblock (b : block) : block := {| b_ref := b_ref b; b_code := cc_code (b_code b) [] |}.

  Lemma cc_map_grows : forall code m, exists d, cc_map code m = m ++ d /\ forall k, In k (keys d) -> In k (map i_ref code).
  Proof.
    induction code as [|i r IH]; intros m; cbn [cc_map].
    - exists []. rewrite app_nil_r. split; [reflexivity|intros ? []].
    - destruct (ccrm i) as [t|].
      + destruct (IH (m ++ [(i_ref i, t)])) as (d & Hd & Hk). exists ((i_ref i, t) :: d). rewrite Hd, <- app_assoc. split; [reflexivity|].
        intros k [<-|Hin]; [left; reflexivity|right; apply Hk; exact Hin].
      + destruct (IH m) as (d & Hd & Hk). exists d. split; [exact Hd|]. intros k Hin. right. apply Hk. exact Hin.
  Qed.

  Variable C : list (nat * irty * cval).
  Variable D : list nat.

  Record CSuf (m : list (nat * nat)) (code : list instr) : Prop := {
    cs_nd : NoDup (map i_ref code);
    cs_fresh : fresh_for code m;
    cs_ops : operands_earlier code;
    cs_dead : (forall q, In q D -> In q (map i_ref code) -> In q (keys (cc_map code m))) /\
              (forall i o, In i code -> In o (operands (i_body i)) -> In o D -> In o (keys m) \/ In o (map i_ref code));
    cs_bt : forall i t, In i code -> In t (brtargets (i_body i)) -> ~ In t (keys m) /\ ~ In t (map i_ref code);
    cs_ck : forall c, In c C -> ~ In (cref c) (keys m) /\ ~ In (cref c) D /\ ~ In (cref c) (map i_ref code);
    cs_cast : forall i cr, In i code -> ccrm i = Some cr ->
              exists src c v c', i_body i = ICast src /\ In c C /\ cref c = src /\ fold_cast (i_ty i) (snd c) = OOk v /\
                                 In c' C /\ cref c' = cr /\ const_val (snd c') = const_val v }.

  Lemma csuf_read m i r : CSuf m (i :: r) -> forall o, In o (operands (i_body i)) -> readable m D o.
  Proof.
    intros HS o Ho. destruct (in_dec Nat.eq_dec o D) as [HoD|HoD]; [|right; exact HoD].
    destruct (proj2 (cs_dead _ _ HS) i o (or_introl eq_refl) Ho HoD) as [X|X]; [left; exact X|].
    exfalso. destruct (cs_ops _ _ HS) as [Hopi _]. apply (Hopi o Ho). exact X.
  Qed.

  Lemma csuf_kept m i r : CSuf m (i :: r) -> ccrm i = None -> CSuf m r /\ ~ In (i_ref i) (keys m) /\ ~ In (i_ref i) (targets m).
  Proof.
    intros HS Efw. destruct (cs_fresh _ _ HS i (or_introl eq_refl)) as [Hk Ht]. split; [|split; assumption].
    pose proof (cs_nd _ _ HS) as Hnd. inversion Hnd as [|? ? Hni Hndr]; subst. destruct (cs_ops _ _ HS) as [Hopi Hopr].
    destruct (cs_dead _ _ HS) as [HD HO]. cbn [cc_map] in HD. rewrite Efw in HD.
    constructor.
    - exact Hndr.
    - intros j Hj. apply (cs_fresh _ _ HS). right. exact Hj.
    - exact Hopr.
    - split.
      + intros q HqD Hq. apply HD; [exact HqD|right; exact Hq].
      + intros j o Hj Ho HoD. destruct (HO j o (or_intror Hj) Ho HoD) as [X|[X|X]]; [left; exact X| |right; exact X].
        exfalso. subst o. specialize (HD (i_ref i) HoD (or_introl eq_refl)).
        destruct (cc_map_grows r m) as (d & Hd & Hkd). rewrite Hd in HD. unfold keys in HD. rewrite map_app in HD. apply in_app_or in HD as [X|X]; [exact (Hk X)|].
        apply Hni. apply Hkd. exact X.
    - intros j t Hj Ht'. destruct (cs_bt _ _ HS j t (or_intror Hj) Ht') as [H1 H2]. split; [exact H1|]. intro X. apply H2. right. exact X.
    - intros c Hc. destruct (cs_ck _ _ HS c Hc) as (H1 & H2 & H3). split; [exact H1|]. split; [exact H2|]. intro X. apply H3. right. exact X.
    - intros j cr Hj Hcr. apply (cs_cast _ _ HS j cr (or_intror Hj) Hcr).
  Qed.

  Lemma consts_ok_step F pc fo vs i pc1 fo' vs' : consts_ok C fo -> ~ In (i_ref i) (crefs C) -> step F pc fo vs i = StNext pc1 fo' vs' -> consts_ok C fo'.
  Proof.
    intros H Hn Hs c Hc. rewrite (step_regs _ _ _ _ _ _ _ _ Hs); [apply H; exact Hc|]. intro E. apply Hn. rewrite <- E. apply in_map. exact Hc.
  Qed.
  Lemma consts_ok_rset fo q v : consts_ok C fo -> ~ In q (crefs C) -> consts_ok C (rset fo q v).
  Proof. intros H Hn c Hc. cbn [rset regs]. rewrite rlookup_update_other; [apply H; exact Hc|]. intro E. apply Hn. rewrite <- E. apply in_map. exact Hc. Qed.

  Lemma with_heap_same vs : with_heap vs (hp vs) = vs.
  Proof. destruct vs; reflexivity. Qed.

  (** a folded cast: the original takes one step that cannot fail, the rewritten function stands still *)
  Lemma cc_fwd F m i r cr pc fo fp vs :
    CSuf m (i :: r) -> ccrm i = Some cr -> Inv m D fo fp -> consts_ok C fo ->
    let m' := m ++ [(i_ref i, cr)] in
    exists fo', step F pc fo vs i = StNext (S pc) fo' vs /\ CSuf m' r /\ Inv m' D fo' fp /\ consts_ok C fo'.
  Proof.
    intros HS Efw I HC m'. destruct (cs_fresh _ _ HS i (or_introl eq_refl)) as [Hk Ht].
    pose proof (cs_nd _ _ HS) as Hnd. inversion Hnd as [|? ? Hni Hndr]; subst. destruct (cs_ops _ _ HS) as [Hopi Hopr].
    destruct (cs_dead _ _ HS) as [HD HO]. cbn [cc_map] in HD. rewrite Efw in HD.
    destruct (cs_cast _ _ HS i cr (or_introl eq_refl) Efw) as (src & c & v & c' & Eb & Hc & Hsrc & Hfold & Hc' & Hcr & Hval).
    destruct (cs_ck _ _ HS c' Hc') as (Hcrk & HcrD & Hcrr). rewrite Hcr in Hcrk, HcrD, Hcrr.
    assert (Hcri : cr <> i_ref i) by (intro E; apply Hcrr; left; symmetry; exact E).
    pose proof (fold_cast_is_vm_cast _ _ _ Hfold) as Hcast.
    assert (Hty : (exists u, i_ty i = ITInt u) \/ i_ty i = ITFloat).
    { unfold fold_cast in Hfold. destruct (i_ty i); try discriminate; [left; eexists; reflexivity|right; reflexivity]. }
    assert (Hstep : step F pc fo vs i = StNext (S pc) (rset fo (i_ref i) (const_val v)) vs).
    { unfold step. rewrite Eb. unfold rget. rewrite <- Hsrc, (HC c Hc). cbn [lift].
      destruct Hty as [[u Hty]|Hty]; rewrite Hty in *; cbn [ty_is_primitive ty_is_scalar orb negb];
        (destruct (snd c) as [z0|f0]; cbn [const_val cast_value] in *; rewrite Hcast; cbn [lift bind]; rewrite with_heap_same; reflexivity). }
    exists (rset fo (i_ref i) (const_val v)). split; [exact Hstep|]. split; [|split].
    - constructor.
      + exact Hndr.
      + intros j Hj. destruct (cs_fresh _ _ HS j (or_intror Hj)) as [Hjk Hjt]. unfold m', keys, targets. rewrite !map_app. cbn. split.
        * intro X. apply in_app_or in X as [X|[X|[]]]; [contradiction|]. apply Hni. rewrite X. apply in_map. exact Hj.
        * intro X. apply in_app_or in X as [X|[X|[]]]; [contradiction|]. apply Hcrr. right. rewrite X. apply in_map. exact Hj.
      + exact Hopr.
      + split.
        * intros q HqD Hq. apply HD; [exact HqD|right; exact Hq].
        * intros j o Hj Ho HoD. unfold m'. destruct (HO j o (or_intror Hj) Ho HoD) as [X|[X|X]].
          -- left. unfold keys. rewrite map_app. apply in_or_app. left. exact X.
          -- left. unfold keys. rewrite map_app. apply in_or_app. right. left. exact X.
          -- right. exact X.
      + intros j t Hj Ht'. destruct (cs_bt _ _ HS j t (or_intror Hj) Ht') as [H1 H2]. split.
        * unfold m', keys. rewrite map_app. cbn. intro X. apply in_app_or in X as [X|[X|[]]]; [contradiction|]. apply H2. left. exact X.
        * intro X. apply H2. right. exact X.
      + intros c0 Hc0. destruct (cs_ck _ _ HS c0 Hc0) as (H1 & H2 & H3). split; [|split; [exact H2|intro X; apply H3; right; exact X]].
        unfold m', keys. rewrite map_app. cbn. intro X. apply in_app_or in X as [X|[X|[]]]; [contradiction|]. apply H3. left. exact X.
      + intros j cr0 Hj Hcr0. apply (cs_cast _ _ HS j cr0 (or_intror Hj) Hcr0).
    - unfold m'. constructor; cbn [rset regs vars fargs]; try apply I.
      + intros q Hq HqD. unfold keys in Hq. rewrite map_app in Hq. cbn in Hq.
        assert (q <> i_ref i) by (intro; subst; apply Hq; apply in_or_app; right; left; reflexivity).
        rewrite rlookup_update_other by assumption. apply (inv_same _ _ _ _ I); [|exact HqD]. intro; apply Hq; apply in_or_app; left; assumption.
      + intros q Hq. unfold keys in Hq. rewrite map_app in Hq. apply in_app_or in Hq as [Hq|Hq]; [|cbn in Hq; destruct Hq as [<-|[]]].
        * assert (Hs : subst_ref (m ++ [(i_ref i, cr)]) q = subst_ref m q) by (unfold subst_ref; rewrite (find_app_some' m _ q Hq); reflexivity).
          rewrite Hs. destruct (inv_fwd _ _ _ _ I q Hq) as (H1 & H2 & H3). split; [|split; [|exact H3]].
          -- assert (q <> i_ref i) by (intro; subst; contradiction).
             assert (subst_ref m q <> i_ref i) by (intro E; apply Ht; rewrite <- E; apply subst_ref_in; exact Hq).
             rewrite !rlookup_update_other by assumption. exact H1.
          -- unfold keys. rewrite map_app. intro X. apply in_app_or in X as [X|[X|[]]]; [contradiction|].
             apply Ht. cbn in X. rewrite X. apply subst_ref_in. exact Hq.
        * assert (Hs : subst_ref (m ++ [(i_ref i, cr)]) (i_ref i) = cr) by (unfold subst_ref; rewrite (find_app_none' _ _ _ Hk); cbn; rewrite Nat.eqb_refl; reflexivity).
          rewrite Hs. split; [|split; [|exact HcrD]].
          -- rewrite rlookup_update_same. rewrite rlookup_update_other by exact Hcri. rewrite <- Hcr, (HC c' Hc'), Hval. reflexivity.
          -- unfold keys. rewrite map_app. intro X. apply in_app_or in X as [X|[X|[]]]; [contradiction|]. cbn in X. congruence.
    - apply consts_ok_rset; [exact HC|]. intro X. apply in_map_iff in X as (c0 & E0 & Hc0). destruct (cs_ck _ _ HS c0 Hc0) as (_ & _ & H3). apply H3. left. symmetry. exact E0.
  Qed.
End Table.

Section SimC.
  Variable P : program.
  Variable F F' : ifunc.
  Variable T : list (nat * nat).
  Variable C : list (nat * irty * cval).
  Variable D : list nat.
  Hypothesis HF' : fn_blocks F' = map (cc_tblock T) (fn_blocks F).
  Hypothesis Hall : forall b, In b (fn_blocks F) -> CSuf T C D [] (b_code b).
  Hypothesis HDk : forall b, In b (fn_blocks F) -> forall k, In k (keys (cc_map T (b_code b) [])) -> In k D.

  Definition simc_at (fuel : nat) : Prop :=
    forall pre r post pre' m fo fp vs out,
      flat_code F = pre ++ r ++ flat_map b_code post ->
      flat_code F' = pre' ++ cc_code T r m ++ flat_map b_code (map (cc_tblock T) post) ->
      CSuf T C D m r -> incl post (fn_blocks F) -> (forall k, In k (keys (cc_map T r m)) -> In k D) ->
      Inv m D fo fp -> consts_ok C fo ->
      run fuel P F (length pre) fo vs = out -> final out -> exists fuel', run fuel' P F' (length pre') fp vs = out.

  Lemma ckeys_m_D r m : (forall k, In k (keys (cc_map T r m)) -> In k D) -> forall k, In k (keys m) -> In k D.
  Proof. intros H k Hk. apply H. destruct (cc_map_grows T r m) as (d & -> & _). unfold keys. rewrite map_app. apply in_or_app. left. exact Hk. Qed.

  Lemma cbol_none tb : block_offset_last (fn_blocks F) tb = None -> block_offset_last (fn_blocks F') tb = None.
  Proof. intros H. rewrite HF'. apply bol_none; [intros b; reflexivity|exact H]. Qed.

  Lemma jump_simc fu : simc_at fu -> forall tb off m fo fp vs out,
    block_offset_last (fn_blocks F) tb = Some off -> Inv m D fo fp -> (forall k, In k (keys m) -> In k D) -> consts_ok C fo ->
    run fu P F off fo vs = out -> final out ->
    exists off', block_offset_last (fn_blocks F') tb = Some off' /\ exists fuel', run fuel' P F' off' fp vs = out.
  Proof.
    intros IH tb off m fo fp vs out Hoff I Hk HC Hrun Hfin.
    destruct (bol_split tb _ _ Hoff) as (B1 & b & B2 & Hbs & Hb & -> & Hn).
    exists (length (flat_map b_code (map (cc_tblock T) B1))). split.
    - rewrite HF', Hbs, map_app. cbn [map]. apply bol_app; [exact Hb|]. intros x Hx. apply in_map_iff in Hx as (y & <- & Hy). exact (Hn y Hy).
    - assert (Hin : In b (fn_blocks F)) by (rewrite Hbs; apply in_or_app; right; left; reflexivity).
      apply (IH (flat_map b_code B1) (b_code b) B2 (flat_map b_code (map (cc_tblock T) B1)) [] fo fp vs out); try assumption.
      + unfold flat_code. rewrite Hbs. rewrite flat_map_app. reflexivity.
      + unfold flat_code. rewrite HF', Hbs, map_app. cbn [map]. rewrite flat_map_app. reflexivity.
      + apply Hall. exact Hin.
      + intros x Hx. rewrite Hbs. apply in_or_app. right. right. exact Hx.
      + apply HDk. exact Hin.
      + apply (Inv_reset m); assumption.
  Qed.

  Lemma cbranch_rel pc pc' m fo fp vs i pred t f :
    i_body i = IBranch pred t f -> Inv m D fo fp -> (forall o, In o (operands (IBranch pred t f)) -> readable m D o) ->
    (forall x, In x (brtargets (IBranch pred t f)) -> subst_ref m x = x) ->
    match step F pc fo vs i with
    | StNext off fr1 vs1 => fr1 = fo /\ vs1 = vs /\ exists tb, block_offset_last (fn_blocks F) tb = Some off /\
                            step F' pc' fp vs (subst_instr m i) = match block_offset_last (fn_blocks F') tb with Some off' => StNext off' fp vs | None => StFail (EKey KBlock) end
    | StFail e => step F' pc' fp vs (subst_instr m i) = StFail e
    | StUnmodelled => True
    | _ => False
    end.
  Proof.
    intros Eb I Hread Hbt. unfold step. cbn [subst_instr i_body]. rewrite Eb. cbn [subst_body]. cbn [operands opt_list] in Hread.
    destruct pred as [pr|]; cbn [option_map].
    - rewrite (rget_subst m D fo fp pr I) by (apply Hread; left; reflexivity).
      destruct (rget fo pr) as [pv|e|]; cbn [lift]; [|reflexivity|exact Logic.I].
      destruct t as [tb|]; cbn [option_map]; [|reflexivity]. destruct f as [fb|]; cbn [option_map]; [|reflexivity].
      rewrite (Hbt tb) by (left; reflexivity). rewrite (Hbt fb) by (right; left; reflexivity).
      destruct (truthy (hp vs) pv) as [c|e|]; cbn [lift]; [|reflexivity|exact Logic.I].
      destruct (block_offset_last (fn_blocks F) (if c then tb else fb)) as [off|] eqn:Hoff.
      + split; [reflexivity|]. split; [reflexivity|]. exists (if c then tb else fb). split; [exact Hoff|reflexivity].
      + rewrite (cbol_none _ Hoff). reflexivity.
    - destruct t as [tb|]; cbn [option_map]; [|reflexivity]. rewrite (Hbt tb) by (left; reflexivity).
      destruct (block_offset_last (fn_blocks F) tb) as [off|] eqn:Hoff.
      + split; [reflexivity|]. split; [reflexivity|]. exists tb. split; [exact Hoff|reflexivity].
      + rewrite (cbol_none _ Hoff). reflexivity.
  Qed.

  Lemma simc_step fuel : (forall fu, fu < fuel -> simc_at fu) ->
    forall pre i r post pre' m fo fp vs out,
      flat_code F = pre ++ (i :: r) ++ flat_map b_code post ->
      flat_code F' = pre' ++ cc_code T (i :: r) m ++ flat_map b_code (map (cc_tblock T) post) ->
      CSuf T C D m (i :: r) -> incl post (fn_blocks F) -> (forall k, In k (keys (cc_map T (i :: r) m)) -> In k D) ->
      Inv m D fo fp -> consts_ok C fo ->
      run fuel P F (length pre) fo vs = out -> final out -> exists fuel', run fuel' P F' (length pre') fp vs = out.
  Proof.
    intros IH pre i r post pre' m fo fp vs out Hc Hc' HS Hpost Hfin I HC Hrun Hfo.
    destruct fuel as [|fu]; [subst out; destruct Hfo|]. cbn [run] in Hrun.
    assert (En : nth_error (flat_code F) (length pre) = Some i) by (rewrite Hc; apply nth_error_mid').
    rewrite En in Hrun.
    assert (Hc1 : flat_code F = (pre ++ [i]) ++ r ++ flat_map b_code post) by (rewrite Hc, <- app_assoc; reflexivity).
    assert (Hl1 : length (pre ++ [i]) = S (length pre)) by (rewrite app_length; cbn; lia).
    assert (Hnc : ~ In (i_ref i) (crefs C)).
    { intro X. apply in_map_iff in X as (c0 & E0 & Hc0). destruct (cs_ck _ _ _ _ _ HS c0 Hc0) as (_ & _ & H3). apply H3. left. symmetry. exact E0. }
    cbn [cc_code cc_map] in Hc', Hfin.
    destruct (ccrm T i) as [cr|] eqn:Efw.
    - (* a folded cast *)
      destruct (cc_fwd T C D F m i r cr (length pre) fo fp vs HS Efw I HC) as (fo' & Es & HS' & I' & HC').
      rewrite Es in Hrun. rewrite <- Hl1 in Hrun.
      apply (IH fu (Nat.lt_succ_diag_r fu) (pre ++ [i]) r post pre' _ fo' fp vs out Hc1 Hc' HS' Hpost Hfin I' HC' Hrun Hfo).
    - (* an instruction that stays *)
      destruct (csuf_kept T C D m i r HS Efw) as (HS' & Hk & Ht). pose proof (csuf_read T C D m i r HS) as Hread.
      assert (En' : nth_error (flat_code F') (length pre') = Some (subst_instr m i)) by (rewrite Hc'; apply nth_error_mid').
      assert (Hc1' : flat_code F' = (pre' ++ [subst_instr m i]) ++ cc_code T r m ++ flat_map b_code (map (cc_tblock T) post)) by (rewrite Hc', <- app_assoc; reflexivity).
      assert (Hl1' : length (pre' ++ [subst_instr m i]) = S (length pre')) by (rewrite app_length; cbn; lia).
      assert (Hkm : forall k, In k (keys m) -> In k D) by (apply (ckeys_m_D r m Hfin)).
      destruct (plain i) eqn:Hpl.
      + pose proof (plain_step_cases F (length pre) fo vs i Hpl) as Hcase.
        assert (Hnb : is_branch i = false) by (unfold plain in Hpl; unfold is_branch; destruct (i_body i); try reflexivity; discriminate).
        destruct (step F (length pre) fo vs i) as [pc1 fo' vs'|v st|fn a d|e|] eqn:Es; try contradiction.
        * subst pc1. destruct (step_subst F F' (length pre) (length pre') m D fo fp vs i fo' vs' I Hnb Hk Ht Hread Es) as (fp' & Es' & I').
          rewrite <- Hl1 in Hrun.
          destruct (IH fu (Nat.lt_succ_diag_r fu) (pre ++ [i]) r post (pre' ++ [subst_instr m i]) m fo' fp' vs' out Hc1 Hc1' HS' Hpost Hfin I'
                      (consts_ok_step C F (length pre) fo vs i (S (length pre)) fo' vs' HC Hnc Es) Hrun Hfo) as [fuel' Hr'].
          exists (S fuel'). cbn [run]. rewrite En', Es', <- Hl1'. exact Hr'.
        * exists 1. cbn [run]. rewrite En', (step_subst_fail F F' (length pre) (length pre') m D fo fp vs i e I Hnb Hread Es). exact Hrun.
        * subst out. destruct Hfo.
      + unfold plain in Hpl. destruct (i_body i) as [| | | | | | | | |pred t f|rv|fn args| | | |] eqn:Eb; try discriminate.
        * (* branch *)
          assert (Hbt : forall x, In x (brtargets (IBranch pred t f)) -> subst_ref m x = x).
          { intros x Hx. apply subst_ref_notin. rewrite <- Eb in Hx. apply (cs_bt _ _ _ _ _ HS i x (or_introl eq_refl) Hx). }
          pose proof (cbranch_rel (length pre) (length pre') m fo fp vs i pred t f Eb I Hread Hbt) as Hrel.
          destruct (step F (length pre) fo vs i) as [off fr1 vs1|v st|fn a d|e|] eqn:Es; try contradiction.
          -- destruct Hrel as (-> & -> & tb & Hoff & Es').
             destruct (jump_simc fu (IH fu (Nat.lt_succ_diag_r fu)) tb off m fo fp vs out Hoff I Hkm HC Hrun Hfo) as (off' & Ho' & fuel' & Hr').
             exists (S fuel'). cbn [run]. rewrite En', Es', Ho'. exact Hr'.
          -- exists 1. cbn [run]. rewrite En', Hrel. exact Hrun.
          -- subst out. destruct Hfo.
        * (* return *)
          unfold step in Hrun. rewrite Eb in Hrun. exists 1. cbn [run]. rewrite En'. unfold step. cbn [subst_instr i_body]. rewrite Eb. cbn [subst_body].
          destruct rv as [r0|]; cbn [option_map].
          -- rewrite (rget_subst m D fo fp r0 I) by (apply Hread; rewrite ?Eb; left; reflexivity). destruct (rget fo r0); cbn [lift] in *; exact Hrun.
          -- exact Hrun.
        * (* call *)
          unfold step in Hrun. rewrite Eb in Hrun.
          assert (Ea' : map_res (fun rv => match rv with VInt r0 => rget fp (Z.to_nat r0) | _ => Unmodelled end) (map (fun r0 => VInt (Z.of_nat r0)) (map (subst_ref m) args)) =
                        map_res (fun rv => match rv with VInt r0 => rget fo (Z.to_nat r0) | _ => Unmodelled end) (map (fun r0 => VInt (Z.of_nat r0)) args)).
          { apply (map_res_subst m D fo fp I args). intros r0 Hr0. apply Hread. rewrite ?Eb. exact Hr0. }
          destruct (map_res (fun rv => match rv with VInt r0 => rget fo (Z.to_nat r0) | _ => Unmodelled end) (map (fun r0 => VInt (Z.of_nat r0)) args)) as [avs|e|] eqn:Ea; cbn [lift] in Hrun.
          2: { exists 1. cbn [run]. rewrite En'. unfold step. cbn [subst_instr i_body i_ref]. rewrite Eb. cbn [subst_body]. rewrite Ea'. cbn [lift]. exact Hrun. }
          2: { subst out. destruct Hfo. }
          destruct (find_func P fn) as [G|] eqn:EG.
          2: { exists 1. cbn [run]. rewrite En'. unfold step. cbn [subst_instr i_body i_ref]. rewrite Eb. cbn [subst_body]. rewrite Ea'. cbn [lift]. rewrite EG. exact Hrun. }
          destruct (run fu P G 0 {| regs := init_regs G; vars := []; fargs := avs |} vs) as [v st'|e| |] eqn:Ecall.
          -- rewrite <- Hl1 in Hrun.
             assert (I' : Inv m D (rset fo (i_ref i) v) (rset fp (i_ref i) v)) by (apply Inv_rset; assumption).
             destruct (IH fu (Nat.lt_succ_diag_r fu) (pre ++ [i]) r post (pre' ++ [subst_instr m i]) m _ _ st' out Hc1 Hc1' HS' Hpost Hfin I' (consts_ok_rset C fo (i_ref i) v HC Hnc) Hrun Hfo) as [fuel' Hr'].
             exists (S (Nat.max fu fuel')). cbn [run]. rewrite En'. unfold step. cbn [subst_instr i_body i_ref]. rewrite Eb. cbn [subst_body]. rewrite Ea'. cbn [lift]. rewrite EG.
             rewrite (run_mono_final P _ _ _ _ _ _ Ecall Logic.I (Nat.max fu fuel') (Nat.le_max_l _ _)). rewrite <- Hl1'.
             apply (run_mono_final P _ _ _ _ _ _ Hr' Hfo (Nat.max fu fuel') (Nat.le_max_r _ _)).
          -- exists (S fu). cbn [run]. rewrite En'. unfold step. cbn [subst_instr i_body i_ref]. rewrite Eb. cbn [subst_body]. rewrite Ea'. cbn [lift]. rewrite EG, Ecall. exact Hrun.
          -- subst out. destruct Hfo.
          -- subst out. destruct Hfo.
  Qed.

  Theorem simc_all : forall fuel, simc_at fuel.
  Proof.
    induction fuel as [fuel IH] using lt_wf_ind.
    intros pre r post pre' m fo fp vs out Hc Hc' HS Hpost Hfin I HC Hrun Hfo.
    destruct r as [|i r]; [|apply (simc_step fuel IH pre i r post pre' m fo fp vs out); assumption].
    cbn [cc_code app] in Hc, Hc'. clear HS.
    assert (Hkm : forall k, In k (keys m) -> In k D) by exact Hfin. clear Hfin.
    revert m I Hkm. induction post as [|b post IHp]; intros m I Hkm.
    - cbn [flat_map map] in Hc, Hc'. destruct fuel as [|fu]; [subst out; destruct Hfo|]. cbn [run] in Hrun.
      assert (En : nth_error (flat_code F) (length pre) = None) by (rewrite Hc; apply nth_error_end). rewrite En in Hrun.
      exists 1. cbn [run]. assert (En' : nth_error (flat_code F') (length pre') = None) by (rewrite Hc'; apply nth_error_end). rewrite En'. exact Hrun.
    - cbn [flat_map map] in Hc, Hc'. assert (Hin : In b (fn_blocks F)) by (apply Hpost; left; reflexivity).
      change (b_code (cc_tblock T b)) with (cc_code T (b_code b) []) in Hc'.
      assert (Hpost' : incl post (fn_blocks F)) by (intros x Hx; apply Hpost; right; exact Hx).
      destruct (b_code b) as [|i r] eqn:Ecode.
      + cbn [cc_code app] in Hc, Hc'. apply (IHp Hc Hc' Hpost' m I Hkm).
      + apply (simc_step fuel IH pre i r post pre' [] fo fp vs out Hc Hc'); try assumption.
        * rewrite <- Ecode. apply Hall. exact Hin.
        * rewrite <- Ecode. apply HDk. exact Hin.
        * apply (Inv_reset m); assumption.
  Qed.
End SimC.

(** ** whole functions *)
Lemma regs_fold_other cs : forall d q, ~ In q (crefs cs) ->
  rlookup q (fold_left (fun d c => rupdate (fst (fst c)) (const_val (snd c)) d) cs d) = rlookup q d.
Proof.
  induction cs as [|c cs IH]; intros d q Hq; cbn; [reflexivity|]. rewrite IH by (intro X; apply Hq; right; exact X).
  apply rlookup_update_other. intro E. apply Hq. left. unfold cref. congruence.
Qed.
Lemma regs_fold_in cs : NoDup (crefs cs) -> forall d c, In c cs ->
  rlookup (cref c) (fold_left (fun d c => rupdate (fst (fst c)) (const_val (snd c)) d) cs d) = Some (const_val (snd c)).
Proof.
  induction cs as [|c0 cs IH]; intros Hn d c Hc; [destruct Hc|]. inversion Hn; subst. cbn. destruct Hc as [<-|Hc].
  - rewrite regs_fold_other by assumption. apply rlookup_update_same.
  - apply IH; assumption.
Qed.

Lemma subst_instr_nil i : subst_instr [] i = i.
Proof. unfold subst_instr. rewrite (subst_body_id [] (i_body i)) by (intros o _ []). destruct i; reflexivity. Qed.
Lemma ccrm_nil i : ccrm [] i = None.
Proof. unfold ccrm. destruct (i_body i); reflexivity. Qed.
Lemma cc_code_nil code : cc_code [] code [] = code.
Proof. induction code as [|i r IH]; cbn [cc_code]; [reflexivity|]. rewrite ccrm_nil, subst_instr_nil, IH. reflexivity. Qed.
Lemma cc_map_nil code m : cc_map [] code m = m.
Proof. revert m. induction code as [|i r IH]; intros m; cbn [cc_map]; [reflexivity|]. rewrite ccrm_nil. apply IH. Qed.
Lemma cc_tblock_nil bs : map (cc_tblock []) bs = bs.
Proof. induction bs as [|b bs IH]; cbn; [reflexivity|]. rewrite IH. unfold cc_tblock. rewrite cc_code_nil. destruct b; reflexivity. Qed.

Lemma CSuf_nil T C D : (forall c, In c C -> ~ In (cref c) D) -> CSuf T C D [] [].
Proof.
  intros H. constructor.
  - constructor.
  - intros i [].
  - exact Logic.I.
  - split; [intros q _ []|intros i o []].
  - intros i t [].
  - intros c Hc. split; [intros []|]. split; [apply H; exact Hc|intros []].
  - intros i cr [].
Qed.

Definition entry (F : ifunc) (args : list val) : frame := {| regs := init_regs F; vars := []; fargs := args |}.
Definition cc_apply (T : list (nat * nat)) (C' : list (nat * irty * cval)) (F : ifunc) : ifunc :=
  {| fn_name := fn_name F; fn_args := fn_args F; fn_ret := fn_ret F; fn_consts := C'; fn_blocks := map (cc_tblock T) (fn_blocks F) |}.

Record cc_hyps (F : ifunc) (T : list (nat * nat)) (C' : list (nat * irty * cval)) : Prop := {
  ch_ext : exists N, C' = fn_consts F ++ N /\ forall b i o, In b (fn_blocks F) -> In i (b_code b) -> In o (operands (i_body i)) -> ~ In o (crefs N);
  ch_cnd : NoDup (crefs C');
  ch_nd : NoDup (instr_refs F);
  ch_ops : forall b, In b (fn_blocks F) -> operands_earlier (b_code b);
  ch_local : forall b i o, In b (fn_blocks F) -> In i (b_code b) -> In o (operands (i_body i)) -> In o (instr_refs F) -> In o (brefs b);
  ch_bt : forall b i t, In b (fn_blocks F) -> In i (b_code b) -> In t (brtargets (i_body i)) -> ~ In t (instr_refs F);
  ch_ci : forall c, In c C' -> ~ In (cref c) (instr_refs F);
  ch_cast : forall b i cr, In b (fn_blocks F) -> In i (b_code b) -> ccrm T i = Some cr ->
            exists src c v c', i_body i = ICast src /\ In c C' /\ cref c = src /\ fold_cast (i_ty i) (snd c) = OOk v /\
                               In c' C' /\ cref c' = cr /\ const_val (snd c') = const_val v }.

Definition CDset (T : list (nat * nat)) (F : ifunc) : list nat := flat_map (fun b => keys (cc_map T (b_code b) [])) (fn_blocks F).

Lemma CDset_refs T F q : In q (CDset T F) -> exists b, In b (fn_blocks F) /\ In q (keys (cc_map T (b_code b) [])) /\ In q (brefs b).
Proof.
  intros H. apply in_flat_map in H as (b & Hb & Hq). exists b. split; [exact Hb|]. split; [exact Hq|].
  destruct (cc_map_grows T (b_code b) []) as (d & Hd & Hk). rewrite Hd in Hq. apply Hk. exact Hq.
Qed.

Theorem const_casts_preserve_outcomes : forall (P : program) (F : ifunc) T C', cc_hyps F T C' ->
  forall fuel args vs out, run fuel P F 0 (entry F args) vs = out -> final out ->
  exists fuel', run fuel' P (cc_apply T C' F) 0 (entry (cc_apply T C' F) args) vs = out.
Proof.
  intros P F T C' H fuel args vs out Hrun Hfo. destruct (ch_ext _ _ _ H) as (N & HC' & Hnop).
  pose proof (ch_nd _ _ _ H) as Hnd. rewrite instr_refs_brefs in Hnd.
  set (Fp := {| fn_name := fn_name F; fn_args := fn_args F; fn_ret := fn_ret F; fn_consts := C'; fn_blocks := fn_blocks F |}).
  assert (Hcnd0 : NoDup (crefs (fn_consts F))) by (pose proof (ch_cnd _ _ _ H) as X; rewrite HC' in X; unfold crefs in X; rewrite map_app in X; apply (NoDup_app_l _ _ X)).
  (* phase A: the same code with the longer constant table *)
  assert (HA : exists fuel1, run fuel1 P Fp 0 (entry Fp args) vs = out).
  { apply (simc_all P F Fp [] (fn_consts F) (crefs N)) with (fuel := fuel) (pre := []) (r := []) (post := fn_blocks F) (pre' := []) (m := []) (fo := entry F args); try assumption.
    - unfold Fp. cbn [fn_blocks]. rewrite cc_tblock_nil. reflexivity.
    - intros b Hb. constructor.
      + apply (NoDup_flat_in brefs _ b Hnd Hb).
      + intros i _. split; intros [].
      + apply (ch_ops _ _ _ H b Hb).
      + split.
        * intros q HqD Hq. exfalso. apply in_map_iff in HqD as (c & <- & Hc). apply (ch_ci _ _ _ H c); [rewrite HC'; apply in_or_app; right; exact Hc|].
          rewrite instr_refs_brefs. apply (flat_in brefs _ b _ Hb Hq).
        * intros i o Hi Ho HoD. exfalso. apply (Hnop b i o Hb Hi Ho HoD).
      + intros i t Hi Ht. split; [intros []|]. intro X. apply (ch_bt _ _ _ H b i t Hb Hi Ht). rewrite instr_refs_brefs. apply (flat_in brefs _ b t Hb X).
      + intros c Hc. split; [intros []|]. split.
        * pose proof (ch_cnd _ _ _ H) as X. rewrite HC' in X. unfold crefs in X. rewrite map_app in X. intro Y. apply (NoDup_app_disj _ _ (cref c) X); [apply in_map; exact Hc|exact Y].
        * intro X. apply (ch_ci _ _ _ H c); [rewrite HC'; apply in_or_app; left; exact Hc|]. rewrite instr_refs_brefs. apply (flat_in brefs _ b _ Hb X).
      + intros i cr _ Hcr. rewrite ccrm_nil in Hcr. discriminate.
    - intros b _ k Hk. rewrite cc_map_nil in Hk. destruct Hk.
    - reflexivity.
    - unfold flat_code, Fp. cbn [fn_blocks app cc_code]. rewrite cc_tblock_nil. reflexivity.
    - apply CSuf_nil. intros c Hc. pose proof (ch_cnd _ _ _ H) as X. rewrite HC' in X. unfold crefs in X. rewrite map_app in X.
      intro Y. apply (NoDup_app_disj _ _ (cref c) X); [apply in_map; assumption|exact Y].
    - intros x Hx. exact Hx.
    - intros k Hk. rewrite cc_map_nil in Hk. destruct Hk.
    - constructor; cbn [entry regs vars fargs]; try reflexivity.
      + intros r _ HrD. unfold init_regs, Fp. cbn [fn_consts]. rewrite HC', fold_left_app. apply regs_fold_other. exact HrD.
      + intros r [].
    - intros c Hc. cbn [entry regs]. unfold init_regs. apply regs_fold_in; assumption. }
  destruct HA as [fuel1 HA].
  (* phase B: folding the casts *)
  apply (simc_all P Fp (cc_apply T C' F) T C' (CDset T F)) with (fuel := fuel1) (pre := []) (r := []) (post := fn_blocks F) (pre' := []) (m := []) (fo := entry Fp args); try assumption.
  - reflexivity.
  - intros b Hb. change (fn_blocks Fp) with (fn_blocks F) in Hb. constructor.
    + apply (NoDup_flat_in brefs _ b Hnd Hb).
    + intros i _. split; intros [].
    + apply (ch_ops _ _ _ H b Hb).
    + split.
      * intros q HqD Hq. destruct (CDset_refs T F q HqD) as (b' & Hb' & Hk & Hr). rewrite (flat_unique brefs _ b b' q Hnd Hb Hb' Hq Hr). exact Hk.
      * intros i o Hi Ho HoD. right. destruct (CDset_refs T F o HoD) as (b' & Hb' & _ & Hr).
        apply (ch_local _ _ _ H b i o Hb Hi Ho). rewrite instr_refs_brefs. apply (flat_in brefs _ b' o Hb' Hr).
    + intros i t Hi Ht. split; [intros []|]. intro X. apply (ch_bt _ _ _ H b i t Hb Hi Ht). rewrite instr_refs_brefs. apply (flat_in brefs _ b t Hb X).
    + intros c Hc. split; [intros []|]. split.
      * intro X. destruct (CDset_refs T F _ X) as (b' & Hb' & _ & Hr). apply (ch_ci _ _ _ H c Hc). rewrite instr_refs_brefs. apply (flat_in brefs _ b' _ Hb' Hr).
      * intro X. apply (ch_ci _ _ _ H c Hc). rewrite instr_refs_brefs. apply (flat_in brefs _ b _ Hb X).
    + intros i cr Hi Hcr. apply (ch_cast _ _ _ H b i cr Hb Hi Hcr).
  - intros b Hb k Hk. change (fn_blocks Fp) with (fn_blocks F) in Hb. apply (flat_in (fun b0 => keys (cc_map T (b_code b0) [])) (fn_blocks F) b k Hb Hk).
  - reflexivity.
  - reflexivity.
  - apply CSuf_nil. intros c Hc X. destruct (CDset_refs T F _ X) as (b' & Hb' & _ & Hr). apply (ch_ci _ _ _ H c Hc). rewrite instr_refs_brefs. apply (flat_in brefs _ b' _ Hb' Hr).
  - intros x Hx. exact Hx.
  - intros k [].
  - constructor; [reflexivity|reflexivity|reflexivity|intros r []].
  - intros c Hc. cbn [entry regs]. unfold init_regs, Fp. cbn [fn_consts]. apply regs_fold_in; [apply (ch_cnd _ _ _ H)|exact Hc].
Qed.
