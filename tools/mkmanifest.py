#!/usr/bin/env python3
"""Regenerates /verif/MANIFEST.json from the table below (kept in one place so it stays valid)."""
import json
PROPS = [json.loads(l) for l in open('/verif/properties.jsonl')]
TB = "Trusted: Coq 8.16.1 kernel + vm_compute (no native_compute, no axioms: Print Assumptions reports 'Closed under the global context'); the fail-closed translators under harness/translate; the correspondence harness (generators, impl runners, Coq printers); CPython semantics of the modelled constructs. "
CHECKS = {
 "C19": ("DESIGN.md section 5 C19",
   "Theorems for every integer: unsigned LEB128 round trip of PackInteger (all v>=0), signed round trip of PackSignedInteger (all v), signed packer used exactly for i32.const, length-prefixed byte vectors and UTF-8 names recovered, section framing exact. The packers in the theorems are regenerated from nsl/WebAssembly.py on every run (agreement lemmas with the hand model); real bytes of PackInteger/PackSignedInteger/WriteString/Instruction/Module.WriteTo are decoded inside Coq by the specification's decoders on boundary and random values.",
   TB + "Translator T7a regenerates PackInteger/PackSignedInteger/immediate dispatch; str.encode('utf-8') is compared with the standard's encoder on sampled names only."),
 "C20": ("DESIGN.md section 5 C20",
   "Theorems for every text and offset: offset->line mapping equals the number of LF before the offset; the line-start table holds exactly the line beginnings; the printed l:c-c' / l:c-l':c' of any span, read as 1-based half-open, designates exactly that span; Merge and the UpdateLocations post-order hull cover all parts (tight). The arithmetic is regenerated from nsl/ast/__init__.py and nsl/parser.py on every run (T9, agreement lemmas); SourceMapping/Location/parser/UpdateLocations/redeclaration diagnostics are run on random texts (LF, CR, FF, VT, NEL, U+2028...) and programs in five layouts and compared inside Coq with model and specification.",
   TB + "bisect.bisect_right is modelled as 'number of leading elements <= x' (equal on ascending lists); the text/AST pairing of program cases is done by the harness."),
 "C09": ("DESIGN.md section 5 C09",
   "Theorem over the full internal type universe with NO size bound (every operator, component type, positive vector size and matrix shape): the typing function of the model accepts exactly the combinations the language defines, with the defined result type and operand conversions (matrix-matrix comparison unconstrained). op.IsComparison and _GetCommonScalarType inside the theorem are regenerated from nsl/op.py / nsl/types.py on every run. Tie: EXHAUSTIVE correspondence - all 13 x 63 x 63 = 51597 triples through nsl.types.ResolveBinaryExpressionType compared inside Coq with model and specification; all 2548 spellable triples end to end (accept/reject, static result type in the IR, overload chosen by g(a OP b)).",
   TB + "ResolveBinaryExpressionType is hand-modelled (Model/TypesBin.v) and tied by the exhaustive comparison, not regenerated; the end-to-end expectations are computed by the specification inside Coq; one open known finding (KF-01, scalar * matrix unlowered)."),
 "C10": ("DESIGN.md section 5 C10",
   "Theorems for overload sets of any size and arity: the model of Scope.FindFunction (stable sort by score, filter, top-two comparison) equals the specified resolution (unique cheapest viable candidate / Ambiguous / NoMatch / Unknown); Found means strictly cheaper than every other viable candidate; the outcome is invariant under any permutation of the declarations. Tie: the shapes of types.Match and Function.Match are checked by translator T6 on every run; Scope.RegisterFunction/FindFunction are driven exhaustively over every ordered set of <=3 one-parameter overloads over 9 types x all argument types and two-parameter sets over 4 types, plus random mixed-arity sets, compared inside Coq; sampled programs with overloads returning distinct constants are run on the VM.",
   TB + "IsCompatible/Match/FindFunction are hand-modelled and tied by exhaustive/random comparison; array-typed and __optional parameters are outside the modelled universe (and outside the property's quantifier); sorted() is modelled as a stable insertion sort."),
}
NA = {"C17": "the mechanism is CPython's pickle applied to an object graph; no executable Gallina model of repository logic exists whose theorem would say more than reflexivity (DESIGN.md section 5 C17 / section 10)"}
def check(pid):
    ref, text, note = CHECKS[pid]
    return {"property_id": pid, "quick_cmd": "./check %s --tier quick" % pid, "thorough_cmd": "./check %s --tier thorough" % pid,
            "evidence_file": "/verif/evidence/%s.json" % pid, "replay_cmd_template": "./check %s --replay {path}" % pid, "engine": "rocq",
            "level_claimed": {"category": "proof", "text": text, "design_ref": ref}, "level_note": note,
            "technique": "machine-checked proof (Rocq/Coq 8.16) over a model regenerated from source / tied by in-Coq differential correspondence"}
m = {"version": 1,
 "setup_cmd": "cd /verif/coq && coq_makefile -f _CoqProject -o Makefile $(find theories -name '*.v' | sort) && make -j16",
 "hooks": {"guard": "NSL_VERIF", "enable": "no source hooks: every observable is reached through public attributes from a scratch copy of /repo (checks set NSL_VERIF=1 in child processes for uniformity; the repository does not read it)",
           "baseline_off_cmd": "cd /repo && /venv/bin/python -m pytest -ra -q -p no:cacheprovider --timeout=900 --continue-on-collection-errors", "source_commits": [], "add_only": True},
 "engines": [{"name": "rocq", "path": "/verif/coq", "serves_properties": sorted(CHECKS), "kind_free_text": "Coq 8.16.1 development: Spec/Model/Proofs compiled by setup_cmd; Gen/Agree/Props/cases regenerated from /repo and compiled on every run by ./check"}],
 "checks": [check(p) for p in sorted(CHECKS)],
 "notes": "One entry point ./check <id> --tier quick|thorough. See DESIGN.md.",
 "not_applicable": [{"property_id": p["id"], "reason": NA.get(p["id"], "check not built yet in this session (DESIGN.md section 12 staging); no claim made")} for p in PROPS if p["id"] not in CHECKS]}
json.dump(m, open('/verif/MANIFEST.json', 'w'), indent=1)
print(sorted(CHECKS))
