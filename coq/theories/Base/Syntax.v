(** * Abstract syntax of NSL programs (what the parser builds), shared by specifications and models. *)
From Coq Require Import String ZArith List Bool PrimFloat.
From NSL Require Import Base.Types.
Import ListNotations.

Inductive aop := AAssign | AAddEq | ASubEq | AMulEq | ADivEq.

Inductive expr :=
  | EInt (z : Z)
  | EFloat (f : float)
  | EVar (x : string)
  | EBin (o : binop) (l r : expr)
  | EAssign (o : aop) (l r : expr)
  | EPre (inc : bool) (x : string)          (* ++x / --x *)
  | EPost (inc : bool) (x : string)         (* x++ / x-- *)
  | ECall (f : string) (args : list expr)
  | EIdx (p i : expr)
  | EMem (p : expr) (m : string)
  | ECtor (t : pty) (args : list expr).

Inductive stmt :=
  | SDecl (t : ty) (x : string) (init : option expr)
  | SExpr (e : expr)
  | SBlock (b : list stmt)
  | SRet (e : option expr)
  | SIf (c : expr) (t : stmt) (f : option stmt)
  | SFor (init : option (ty * string * option expr)) (c n : option expr) (b : stmt)
  | SWhile (c : expr) (b : option stmt)      (* None: `while (c) ;` *)
  | SDo (b : list stmt) (c : expr)            (* the body of do is always a compound statement *)
  | SBreak
  | SContinue.

Record func := { f_name : string; f_export : bool; f_args : list (ty * string); f_ret : ty; f_body : list stmt }.
Record sdef := { s_name : string; s_fields : list (ty * string) }.
Record module := { m_structs : list sdef; m_globals : list (ty * string); m_funcs : list func }.
