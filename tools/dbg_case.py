#!/venv/bin/python
"""usage: tools/dbg_case.py <replay.json or file with {"source":..., "calls":[...]}> [--opt]  -- prints impl / VM model / reference histories"""
import sys, json, os, subprocess, tempfile, shutil
sys.path.insert(0, '/verif/harness')
import vmcases, ircoq, nslgen
spec = json.load(open(sys.argv[1]))
src, calls = spec["source"], spec["calls"]
d = tempfile.mkdtemp(dir="/dev/shm")
subprocess.run(["rsync", "-a", "--exclude", ".git", "/repo/", d + "/repo/"], check=True)
json.dump([vmcases.job(src, calls, optimize="--opt" in sys.argv)], open(d + "/j.json", "w"))
env = dict(os.environ, PYTHONPATH=d + "/repo:/verif/harness", PYTHONHASHSEED="0")
subprocess.run(["/venv/bin/python", "/verif/harness/impl/compile_impl.py", d + "/j.json", d + "/j.out"], cwd=d + "/repo", env=env, check=True)
r = json.load(open(d + "/j.out"))[0]
print("IMPL:", json.dumps({k: v for k, v in r.items() if k != "ir"})[:2000])
if r.get("accept") and "ir" in r:
    prog = ircoq.program({"functions": r["ir"]["functions"], "globals": r["ir"]["globals"]})
    cs = "[" + "; ".join(vmcases.coq_call(c) for c in calls) + "]"
    open(d + "/dbg.v", "w").write(vmcases.HEADER + "Definition P := %s.\nEval vm_compute in model_history fuel P (vm_init P) %s.\n" % (prog, cs))
    out = subprocess.run(["coqc", "-Q", "/verif/coq/theories", "NSL", d + "/dbg.v"], capture_output=True, text=True)
    print("MODEL:", out.stdout[-3000:], out.stderr[-1500:])
shutil.rmtree(d)
