(** * Reference semantics of the scalar core language (C01): a fuel-indexed big-step evaluator over the
    *source* AST.  C-like: the tree is evaluated as written (grouping is the parser's job, C08), operands left
    to right, int-to-float promotion in mixed arithmetic, integer division truncating toward zero, comparisons
    and logical operators yielding 0/1, zero-initialised locals re-initialised each time their declaration
    executes, break leaving and continue re-testing the innermost loop (a for-loop's increment still runs),
    lexically scoped environments, calls by value into fresh frames.
    Outside the stated domain (an intermediate integer outside the signed 32-bit range, division by zero, an
    index out of range, % on a negative operand, a conversion the property does not define) the result is
    [ROut]: nothing is claimed there. *)
From Coq Require Import String Ascii ZArith List Bool PrimFloat.
From NSL Require Import Base.Types Base.Syntax Model.PyNum Spec.Overload.
Import ListNotations.
Local Open Scope Z_scope.

Inductive rval := RInt (z : Z) | RFloat (f : float).
(** storage: scalars, arrays (any dimension), structs, vectors and matrices (values, not containers of storage) *)
Inductive sto := SV (v : rval) | SA (l : list sto) | SS (fs : list (string * sto)) | SNoValue
               | SVec (l : list rval) | SMat (rows : list (list rval)).

Inductive rres (A : Type) := ROk (a : A) | ROut | RStuck | RFuel.
Arguments ROk {A}. Arguments ROut {A}. Arguments RStuck {A}. Arguments RFuel {A}.
Definition rbind {A B} (r : rres A) (f : A -> rres B) : rres B :=
  match r with ROk a => f a | ROut => ROut | RStuck => RStuck | RFuel => RFuel end.
Notation "'rdo' x <- r ; k" := (rbind r (fun x => k)) (at level 200, x pattern, r at level 100, k at level 200).

Definition in_i32 (z : Z) : bool := (-2147483648 <=? z) && (z <=? 2147483647).
Definition ri (z : Z) : rres rval := if in_i32 z then ROk (RInt z) else ROut.

Definition to_f (v : rval) : rres float :=
  match v with RFloat f => ROk f | RInt z => match float_of_Z z with Ok f => ROk f | _ => ROut end end.

Definition truth (v : rval) : bool := match v with RInt z => negb (z =? 0) | RFloat f => negb (PrimFloat.eqb f zero) end.
Definition rb (b : bool) : rval := RInt (if b then 1 else 0).

Definition cmp_of (o : binop) : option cmp :=
  match o with OLt => Some CLt | OLe => Some CLe | OGt => Some CGt | OGe => Some CGe | OEq => Some CEq | ONe => Some CNe | _ => None end.

Definition eval_binop (o : binop) (a b : rval) : rres rval :=
  match cmp_of o with
  | Some c =>
      match a, b with
      | RInt x, RInt y => ROk (rb (cmp_Z c x y))
      | _, _ => rdo x <- to_f a; rdo y <- to_f b; ROk (rb (cmp_float c x y))
      end
  | None =>
      match o with
      | OLand => ROk (rb (truth a && truth b))
      | OLor => ROk (rb (truth a || truth b))
      | _ =>
          match a, b with
          | RInt x, RInt y =>
              match o with
              | OAdd => ri (x + y) | OSub => ri (x - y) | OMul => ri (x * y)
              | ODiv => if y =? 0 then ROut else ri (Z.quot x y)
              | OMod => if (y <=? 0) || (x <? 0) then ROut else ri (Z.rem x y)
              | _ => RStuck
              end
          | _, _ =>
              rdo x <- to_f a; rdo y <- to_f b;
              match o with
              | OAdd => ROk (RFloat (x + y)%float) | OSub => ROk (RFloat (x - y)%float) | OMul => ROk (RFloat (x * y)%float)
              | ODiv => if PrimFloat.eqb y zero then ROut else ROk (RFloat (x / y)%float)
              | _ => ROut        (* % on floats: no sign/rounding rule is stated *)
              end
          end
      end
  end.

(** ** vectors and matrices (C04): every operation is component-wise as written *)
Fixpoint map_r {A B} (f : A -> rres B) (l : list A) : rres (list B) :=
  match l with [] => ROk [] | x :: r => rdo y <- f x; rdo ys <- map_r f r; ROk (y :: ys) end.
Fixpoint zip_r {A B C} (f : A -> B -> rres C) (l1 : list A) (l2 : list B) : rres (list C) :=
  match l1, l2 with
  | [], [] => ROk []
  | x :: r1, y :: r2 => rdo z <- f x y; rdo zs <- zip_r f r1 r2; ROk (z :: zs)
  | _, _ => RStuck
  end.
(** sum of products, left to right *)
Fixpoint dot_r (acc : rval) (l1 l2 : list rval) : rres rval :=
  match l1, l2 with
  | [], [] => ROk acc
  | x :: r1, y :: r2 => rdo p <- eval_binop OMul x y; rdo a <- eval_binop OAdd acc p; dot_r a r1 r2
  | _, _ => RStuck
  end.
Definition column (rows : list (list rval)) (j : nat) : rres (list rval) :=
  map_r (fun row => match nth_error row j with Some x => ROk x | None => RStuck end) rows.
Definition mat_vec (m : list (list rval)) (v : list rval) : rres (list rval) := map_r (fun row => dot_r (RInt 0) row v) m.
Definition mat_mat (a b : list (list rval)) : rres (list (list rval)) :=
  let ncols := match b with r :: _ => length r | [] => O end in
  map_r (fun row => map_r (fun j => rdo c <- column b j; dot_r (RInt 0) row c) (seq 0 ncols)) a.
Definition is_muldiv (o : binop) : bool := match o with OMul | ODiv => true | _ => false end.

Definition eval_binop_sto (o : binop) (a b : sto) : rres sto :=
  match a, b with
  | SV x, SV y => rdo v <- eval_binop o x y; ROk (SV v)
  | SVec l, SV y => if is_muldiv o then rdo vs <- map_r (fun x => eval_binop o x y) l; ROk (SVec vs) else RStuck
  | SMat m, SV y => if is_muldiv o then rdo vs <- map_r (map_r (fun x => eval_binop o x y)) m; ROk (SMat vs) else RStuck
  | SV x, SVec l => match o with OMul => rdo vs <- map_r (fun y => eval_binop o x y) l; ROk (SVec vs) | _ => RStuck end
  | SV x, SMat m => match o with OMul => rdo vs <- map_r (map_r (fun y => eval_binop o x y)) m; ROk (SMat vs) | _ => RStuck end
  | SVec l1, SVec l2 => if is_muldiv o then RStuck else rdo vs <- zip_r (eval_binop o) l1 l2; ROk (SVec vs)
  | SMat m1, SMat m2 =>
      match o with
      | OMul => rdo vs <- mat_mat m1 m2; ROk (SMat vs)
      | OAdd | OSub => rdo vs <- zip_r (zip_r (eval_binop o)) m1 m2; ROk (SMat vs)
      | _ => RStuck
      end
  | SMat m, SVec v => match o with OMul => rdo vs <- mat_vec m v; ROk (SVec vs) | _ => RStuck end
  | _, _ => RStuck
  end.

(** swizzle letters: position in xyzw / rgba *)
Definition letter_pos (c : Ascii.ascii) : option nat :=
  if Ascii.eqb c "x" || Ascii.eqb c "r" then Some 0%nat else if Ascii.eqb c "y" || Ascii.eqb c "g" then Some 1%nat
  else if Ascii.eqb c "z" || Ascii.eqb c "b" then Some 2%nat else if Ascii.eqb c "w" || Ascii.eqb c "a" then Some 3%nat else None.
Fixpoint mask_indices (m : string) : option (list nat) :=
  match m with
  | EmptyString => Some []
  | String c r => match letter_pos c, mask_indices r with Some i, Some l => Some (i :: l) | _, _ => None end
  end.
Definition pick (l : list rval) (idxs : list nat) : rres sto :=
  rdo vs <- map_r (fun i => match nth_error l i with Some x => ROk x | None => RStuck end) idxs;
  match vs with [x] => ROk (SV x) | _ => ROk (SVec vs) end.
Fixpoint nodup_nat (l : list nat) : bool :=
  match l with [] => true | x :: r => negb (existsb (Nat.eqb x) r) && nodup_nat r end.
Fixpoint list_upd {A} (l : list A) (n : nat) (x : A) : list A :=
  match l, n with [], _ => [] | _ :: r, O => x :: r | y :: r, S n' => y :: list_upd r n' x end.
(** write vs[k] to component idxs[k] *)
Fixpoint scatter (l : list rval) (idxs : list nat) (vs : list rval) : rres (list rval) :=
  match idxs, vs with
  | [], [] => ROk l
  | i :: ir, v :: vr => if Nat.ltb i (length l) then scatter (list_upd l i v) ir vr else RStuck
  | _, _ => RStuck
  end.

(** ** storage *)
Definition zero_rval (c : comp) : rval := match c with CFloat => RFloat zero | _ => RInt 0 end.
Fixpoint zero_of (structs : list sdef) (fuel : nat) (t : ty) : sto :=
  match fuel with
  | O => SNoValue
  | S fu =>
      match t with
      | TPrim (PScalar CFloat) => SV (RFloat zero)
      | TPrim (PScalar _) => SV (RInt 0)
      | TPrim (PVec c n) => SVec (repeat (zero_rval c) n)
      | TPrim (PMat c r k) => SMat (repeat (repeat (zero_rval c) k) r)
      | TVoid => SNoValue
      | TStruct n =>
          match find (fun d => String.eqb (s_name d) n) structs with
          | Some d => SS (map (fun ft => (snd ft, zero_of structs fu (fst ft))) (s_fields d))
          | None => SNoValue end
      | TArr elem dims =>
          (fix dim (ds : list nat) : sto := match ds with [] => zero_of structs fu elem | d :: r => SA (repeat (dim r) d) end) dims
      end
  end.

Inductive sel := SelIdx (i : nat) | SelField (f : string).

Fixpoint sto_get (s : sto) (path : list sel) : rres sto :=
  match path with
  | [] => ROk s
  | SelIdx i :: r =>
      match s with
      | SA l => match nth_error l i with Some x => sto_get x r | None => ROut end
      | SVec l => match nth_error l i with Some x => sto_get (SV x) r | None => ROut end
      | SMat m => match nth_error m i with Some row => sto_get (SVec row) r | None => ROut end
      | _ => RStuck end
  | SelField f :: r =>
      match s with
      | SS fs => match find (fun p => String.eqb (fst p) f) fs with Some p => sto_get (snd p) r | None => RStuck end
      | SVec l => match mask_indices f with Some idxs => rdo v <- pick l idxs; sto_get v r | None => RStuck end
      | SV x => match mask_indices f with Some idxs => rdo v <- pick [x] idxs; sto_get v r | None => RStuck end
      | _ => RStuck end
  end.

Fixpoint sto_set (s : sto) (path : list sel) (v : sto) : rres sto :=
  match path with
  | [] => ROk v
  | SelIdx i :: r => match s with
                     | SA l => match nth_error l i with
                               | Some x => rdo x' <- sto_set x r v; ROk (SA (list_upd l i x'))
                               | None => ROut end
                     | SVec l => match nth_error l i, r, v with
                                 | Some _, [], SV y => ROk (SVec (list_upd l i y))
                                 | None, _, _ => ROut
                                 | _, _, _ => RStuck end
                     | SMat m => match nth_error m i with
                                 | Some row => rdo row' <- sto_set (SVec row) r v;
                                               match row' with SVec rr => if Nat.eqb (length rr) (length row) then ROk (SMat (list_upd m i rr)) else RStuck | _ => RStuck end
                                 | None => ROut end
                     | _ => RStuck end
  | SelField f :: r => match s with
                       | SS fs =>
                           rdo fs' <- (fix go (fs : list (string * sto)) : rres (list (string * sto)) :=
                                         match fs with
                                         | [] => RStuck
                                         | (k, x) :: rest => if String.eqb k f then rdo x' <- sto_set x r v; ROk ((k, x') :: rest)
                                                             else rdo rest' <- go rest; ROk ((k, x) :: rest')
                                         end) fs;
                           ROk (SS fs')
                       | SVec l =>
                           (* a swizzle write: exactly the named components change; masks that repeat a component are not defined *)
                           match mask_indices f, r with
                           | Some idxs, [] =>
                               if negb (nodup_nat idxs) then ROut else
                               match v, idxs with
                               | SV y, [i] => rdo l' <- scatter l [i] [y]; ROk (SVec l')
                               | SVec vs, _ :: _ :: _ => rdo l' <- scatter l idxs vs; ROk (SVec l')
                               | _, _ => RStuck
                               end
                           | _, _ => RStuck end
                       | _ => RStuck end
  end.

(** environments: a stack of frames (innermost first) of local variables, plus the globals *)
Definition frame := list (string * sto).
Record state := { locals : list frame; globs : frame }.

Fixpoint frames_get (fs : list frame) (x : string) : option sto :=
  match fs with
  | [] => None
  | f :: r => match find (fun p => String.eqb (fst p) x) f with Some p => Some (snd p) | None => frames_get r x end
  end.
Fixpoint frame_set (f : frame) (x : string) (v : sto) : option frame :=
  match f with
  | [] => None
  | (k, w) :: r => if String.eqb k x then Some ((k, v) :: r) else option_map (cons (k, w)) (frame_set r x v)
  end.
Fixpoint frames_set (fs : list frame) (x : string) (v : sto) : option (list frame) :=
  match fs with
  | [] => None
  | f :: r => match frame_set f x v with Some f' => Some (f' :: r) | None => option_map (cons f) (frames_set r x v) end
  end.

Definition var_get (st : state) (x : string) : rres sto :=
  match frames_get (locals st) x with
  | Some s => ROk s
  | None => match frames_get [globs st] x with Some s => ROk s | None => RStuck end
  end.
Definition var_set (st : state) (x : string) (v : sto) : rres state :=
  match frames_set (locals st) x v with
  | Some l' => ROk {| locals := l'; globs := globs st |}
  | None => match frame_set (globs st) x v with Some g' => ROk {| locals := locals st; globs := g' |} | None => RStuck end
  end.
Definition declare (st : state) (x : string) (v : sto) : state :=
  match locals st with
  | f :: r => {| locals := ((x, v) :: f) :: r; globs := globs st |}
  | [] => {| locals := [[(x, v)]]; globs := globs st |}
  end.
Definition push_frame (st : state) : state := {| locals := [] :: locals st; globs := globs st |}.
Definition pop_frame (st : state) : state := {| locals := tl (locals st); globs := globs st |}.

Inductive flow := ONormal | OBreak | OContinue | OReturn (v : sto).

Definition scalar (s : sto) : rres rval := match s with SV v => ROk v | _ => RStuck end.

Definition aop_binop (o : aop) : option binop :=
  match o with AAssign => None | AAddEq => Some OAdd | ASubEq => Some OSub | AMulEq => Some OMul | ADivEq => Some ODiv end.

Definition rval_comp (v : rval) : comp := match v with RInt _ => CInt | RFloat _ => CFloat end.
Definition dyn_ty (v : sto) : ty :=
  match v with
  | SV x => TPrim (PScalar (rval_comp x))
  | SVec (x :: r) => TPrim (PVec (rval_comp x) (S (length r)))
  | SMat ((x :: r) :: rows) => TPrim (PMat (rval_comp x) (S (length rows)) (S (length r)))
  | _ => TVoid end.
Definition conv_comp (c : comp) (x : rval) : rres rval :=
  match c, x with
  | CFloat, _ => rdo f <- to_f x; ROk (RFloat f)
  | _, RInt _ => ROk x
  | _, RFloat _ => ROut
  end.

(** conversion of an argument to the parameter type: only int -> float is defined by the property *)
Definition convert_arg (p : ty) (v : sto) : rres sto :=
  match p, v with
  | TPrim (PScalar CFloat), SV (RInt z) => rdo f <- to_f (RInt z); ROk (SV (RFloat f))
  | TPrim (PScalar CFloat), SV (RFloat _) => ROk v
  | TPrim (PScalar CInt), SV (RInt _) => ROk v
  | TPrim (PScalar CInt), SV (RFloat _) => ROut
  | TPrim (PVec c n), SVec l => if Nat.eqb (length l) n then rdo l' <- map_r (conv_comp c) l; ROk (SVec l') else RStuck
  | TPrim (PMat c r k), SMat m => if Nat.eqb (length m) r then rdo m' <- map_r (map_r (conv_comp c)) m; ROk (SMat m') else RStuck
  | _, _ => ROut
  end.

(** values supplied by the host for a parameter or global of vector / matrix type arrive as lists *)
Definition host_coerce (t : ty) (v : sto) : sto :=
  match t, v with
  | TPrim (PVec _ _), SA l => match map_r (fun s => match s with SV x => ROk x | _ => RStuck end) l with ROk xs => SVec xs | _ => v end
  | TPrim (PMat _ _ _), SA rows =>
      match map_r (fun row => match row with
                              | SA l => map_r (fun s => match s with SV x => ROk x | _ => RStuck end) l
                              | _ => RStuck end) rows with ROk m => SMat m | _ => v end
  | _, _ => v
  end.

(** constructors: scalar and vector arguments are flattened in order; a matrix is built from its rows *)
Definition flatten_args (vs : list sto) : rres (list rval) :=
  rdo ls <- map_r (fun s => match s with SV x => ROk [x] | SVec l => ROk l | _ => RStuck end) vs; ROk (concat ls).
Definition construct (t : pty) (vs : list sto) : rres sto :=
  match t with
  | PVec c n => rdo xs <- flatten_args vs; if Nat.eqb (length xs) n then rdo ys <- map_r (conv_comp c) xs; ROk (SVec ys) else RStuck
  | PMat c r k =>
      rdo rows <- map_r (fun s => match s with SVec l => if Nat.eqb (length l) k then map_r (conv_comp c) l else RStuck | _ => RStuck end) vs;
      if Nat.eqb (length rows) r then ROk (SMat rows) else RStuck
  | PScalar _ => RStuck
  end.

Section Eval.
  Variable M : module.

  Definition decls_of : list fdecl := map (fun f => {| fd_name := f_name f; fd_params := map fst (f_args f) |}) (m_funcs M).

  Definition resolve_call (name : string) (args : list sto) : option func :=
    match spec_resolve decls_of name (map dyn_ty args) with
    | Found d => find (fun f => String.eqb (f_name f) (fd_name d) &&
                                forallb (fun p => ty_eqb (fst p) (snd p)) (combine (map fst (f_args f)) (fd_params d)) &&
                                Nat.eqb (length (f_args f)) (length (fd_params d))) (m_funcs M)
    | _ => None
    end.

  Fixpoint eval (fuel : nat) (e : expr) (st : state) : rres (sto * state) :=
    match fuel with
    | O => RFuel
    | S fu =>
        let eval_list := fix eval_list (es : list expr) (st : state) : rres (list sto * state) :=
            match es with
            | [] => ROk ([], st)
            | x :: r => rdo p <- eval fu x st; let '(v, st1) := p in rdo q <- eval_list r st1; let '(vs, st2) := q in ROk (v :: vs, st2)
            end in
        (* resolve an lvalue to (variable, path), evaluating index expressions left to right *)
        let lval := fix lval (e : expr) (st : state) : rres (string * list sel * state) :=
            match e with
            | EVar x => ROk (x, [], st)
            | EIdx p i =>
                rdo r <- lval p st; let '(x, path, st1) := r in
                rdo q <- eval fu i st1; let '(iv, st2) := q in
                rdo s <- scalar iv;
                match s with
                | RInt z => if z <? 0 then ROut else ROk (x, path ++ [SelIdx (Z.to_nat z)], st2)
                | RFloat _ => RStuck end
            | EMem p f => rdo r <- lval p st; let '(x, path, st1) := r in ROk (x, path ++ [SelField f], st1)
            | _ => RStuck
            end in
        match e with
        | EInt z => rdo v <- ri z; ROk (SV v, st)
        | EFloat f => ROk (SV (RFloat f), st)
        | EVar x => rdo s <- var_get st x; ROk (s, st)
        | EBin o l r =>
            rdo p <- eval fu l st; let '(a, st1) := p in
            rdo q <- eval fu r st1; let '(b, st2) := q in
            rdo v <- eval_binop_sto o a b; ROk (v, st2)
        | EAssign o l r =>
            match aop_binop o with
            | Some bo => eval fu (EAssign AAssign l (EBin bo l r)) st          (* x op= y  is  x = x op y *)
            | None =>
                rdo p <- eval fu r st; let '(v, st1) := p in
                rdo q <- lval l st1; let '(x, path, st2) := q in
                rdo cur <- var_get st2 x;
                rdo new <- sto_set cur path v;
                rdo st3 <- var_set st2 x new; ROk (v, st3)
            end
        | EPre inc x | EPost inc x =>
            rdo s <- var_get st x; rdo old <- scalar s;
            rdo new <- eval_binop (if inc then OAdd else OSub) old (RInt 1);
            rdo st1 <- var_set st x (SV new);
            ROk (SV (match e with EPre _ _ => new | _ => old end), st1)
        | EIdx _ _ | EMem _ _ =>
            rdo q <- lval e st; let '(x, path, st1) := q in
            rdo cur <- var_get st1 x; rdo v <- sto_get cur path; ROk (v, st1)
        | ECall f args =>
            rdo p <- eval_list args st; let '(vs, st1) := p in
            match resolve_call f vs with
            | None => RStuck
            | Some fn =>
                rdo bound <- (fix bind_args (ps : list (ty * string)) (vs : list sto) : rres frame :=
                                match ps, vs with
                                | [], [] => ROk []
                                | (t, x) :: ps', v :: vs' => rdo c <- convert_arg t v; rdo rest <- bind_args ps' vs'; ROk ((x, c) :: rest)
                                | _, _ => RStuck
                                end) (f_args fn) vs;
                rdo r <- exec_list fu (f_body fn) {| locals := [[]; bound]; globs := globs st1 |};
                let '(fl, st2) := r in
                let st3 := {| locals := locals st1; globs := globs st2 |} in
                match fl with
                | OReturn v => ROk (v, st3)
                | ONormal => ROk (SNoValue, st3)
                | _ => RStuck
                end
            end
        | ECtor t args => rdo p <- eval_list args st; let '(vs, st1) := p in rdo v <- construct t vs; ROk (v, st1)
        end
    end
  with exec (fuel : nat) (s : stmt) (st : state) : rres (flow * state) :=
    match fuel with
    | O => RFuel
    | S fu =>
        let opt_eval (e : option expr) (st : state) : rres state :=
            match e with None => ROk st | Some e' => rdo p <- eval fu e' st; ROk (snd p) end in
        let cond (e : option expr) (st : state) : rres (bool * state) :=
            match e with
            | None => ROk (true, st)
            | Some e' => rdo p <- eval fu e' st; let '(v, st1) := p in rdo x <- scalar v; ROk (truth x, st1)
            end in
        match s with
        | SDecl t x init =>
            let st1 := declare st x (zero_of (m_structs M) 8 t) in
            match init with
            | None => ROk (ONormal, st1)
            | Some e => rdo p <- eval fu e st1; let '(v, st2) := p in rdo st3 <- var_set st2 x v; ROk (ONormal, st3)
            end
        | SExpr e => rdo p <- eval fu e st; ROk (ONormal, snd p)
        | SBlock b => rdo r <- exec_list fu b (push_frame st); let '(fl, st1) := r in ROk (fl, pop_frame st1)
        | SRet None => ROk (OReturn SNoValue, st)
        | SRet (Some e) => rdo p <- eval fu e st; let '(v, st1) := p in ROk (OReturn v, st1)
        | SIf c t f =>
            let st0 := push_frame st in
            rdo p <- cond (Some c) st0; let '(b, st1) := p in
            rdo r <- (if b then exec fu t st1 else match f with Some f' => exec fu f' st1 | None => ROk (ONormal, st1) end);
            let '(fl, st2) := r in ROk (fl, pop_frame st2)
        | SWhile c body =>
            let st0 := push_frame st in
            rdo p <- cond (Some c) st0; let '(b, st1) := p in
            if negb b then ROk (ONormal, pop_frame st1) else
            rdo r <- match body with Some bd => exec fu bd st1 | None => ROk (ONormal, st1) end;
            let '(fl, st2) := r in
            match fl with
            | OBreak => ROk (ONormal, pop_frame st2)
            | OReturn v => ROk (OReturn v, pop_frame st2)
            | _ => exec fu (SWhile c body) (pop_frame st2)
            end
        | SDo body c =>
            rdo r <- exec_list fu body (push_frame (push_frame st)); let '(fl, st1) := r in
            let st2 := pop_frame st1 in
            match fl with
            | OBreak => ROk (ONormal, pop_frame st2)
            | OReturn v => ROk (OReturn v, pop_frame st2)
            | _ => rdo p <- cond (Some c) st2; let '(b, st3) := p in
                   if b then exec fu (SDo body c) (pop_frame st3) else ROk (ONormal, pop_frame st3)
            end
        | SFor init c n body =>
            let st0 := push_frame st in
            rdo st1 <- match init with
                       | None => ROk st0
                       | Some (t, x, i) => rdo r <- exec fu (SDecl t x i) st0; ROk (snd r)
                       end;
            rdo r <- for_loop fu c n body st1; let '(fl, st2) := r in ROk (fl, pop_frame st2)
        | SBreak => ROk (OBreak, st)
        | SContinue => ROk (OContinue, st)
        end
    end
  with for_loop (fuel : nat) (c n : option expr) (body : stmt) (st : state) : rres (flow * state) :=
    match fuel with
    | O => RFuel
    | S fu =>
        rdo p <- match c with
                 | None => ROk (true, st)
                 | Some e' => rdo p <- eval fu e' st; let '(v, st1) := p in rdo x <- scalar v; ROk (truth x, st1)
                 end;
        let '(b, st1) := p in
        if negb b then ROk (ONormal, st1) else
        rdo r <- exec fu body st1; let '(fl, st2) := r in
        match fl with
        | OBreak => ROk (ONormal, st2)
        | OReturn v => ROk (OReturn v, st2)
        | _ => rdo st3 <- match n with None => ROk st2 | Some e' => rdo q <- eval fu e' st2; ROk (snd q) end;   (* continue still runs the increment *)
               for_loop fu c n body st3
        end
    end
  with exec_list (fuel : nat) (l : list stmt) (st : state) : rres (flow * state) :=
    match fuel with
    | O => RFuel
    | S fu =>
        match l with
        | [] => ROk (ONormal, st)
        | s :: r => rdo p <- exec fu s st; let '(fl, st1) := p in
                    match fl with ONormal => exec_list fu r st1 | _ => ROk (fl, st1) end
        end
    end.

  (** invoking an exported function with host-supplied arguments (by name) and global values *)
  Definition ref_invoke (fuel : nat) (fname : string) (args : list (string * sto)) (g : frame) : rres (sto * frame) :=
    match find (fun f => String.eqb (f_name f) fname && f_export f) (m_funcs M) with
    | None => RStuck
    | Some fn =>
        rdo bound <- (fix go (ps : list (ty * string)) : rres frame :=
                        match ps with
                        | [] => ROk []
                        | (t, x) :: r => match find (fun p => String.eqb (fst p) x) args with
                                         | Some p => rdo rest <- go r; ROk ((x, host_coerce t (snd p)) :: rest)
                                         | None => RStuck end
                        end) (f_args fn);
        rdo r <- exec_list fuel (f_body fn) {| locals := [[]; bound]; globs := g |};
        let '(fl, st) := r in
        match fl with
        | OReturn v => ROk (v, globs st)
        | ONormal => ROk (SNoValue, globs st)
        | _ => RStuck
        end
    end.
End Eval.
