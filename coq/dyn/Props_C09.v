(** * C09 -- Operator typing: accepted operand combinations, result type, conversions.  Statements only. *)
From Coq Require Import String ZArith List Bool Arith.
From NSL Require Import Base.Types Spec.Typing Model.TypesBin Proofs.TypesBinProofs.
From NSLDyn Require Gen_Types Agree_Types.
Import ListNotations.

(** the typing function, with op.IsComparison and _GetCommonScalarType as regenerated from the source on this run *)
Definition resolve_current := resolve_binop_with (fun o => Gen_Types.is_comparison_value (Gen_Types.op_value o)) Gen_Types.common_scalar.

(** Over the full type universe -- every operator, component type, positive vector size and matrix shape
    (not only sizes 1-4) -- the typing function accepts exactly the combinations the language defines, with the
    defined result type and operand conversions; matrix-matrix comparison is unconstrained. *)
Theorem C09_typing_interface : forall o l r, wf_pty l = true -> wf_pty r = true ->
    agrees (resolve_current o l r) (spec_binop o l r).
Proof.
  intros o l r Hl Hr. unfold resolve_current.
  rewrite (resolve_with_ext _ is_comparison _ common_scalar Agree_Types.agree_is_comparison Agree_Types.agree_common_scalar).
  exact (resolve_agrees_spec o l r Hl Hr).
Qed.

(** non-vacuity: a promoted mixed product, a comparison, a rejection *)
Example C09_examples :
  resolve_current OMul (PMat CInt 3 4) (PVec CFloat 4) = ROk (PVec CFloat 3) (PMat CFloat 3 4) (PVec CFloat 4) /\
  resolve_current OGt (PVec CUInt 3) (PVec CInt 3) = ROk (PVec CInt 3) (PVec CInt 3) (PVec CInt 3) /\
  resolve_current OMul (PVec CFloat 3) (PVec CFloat 3) = RFail RCompile /\
  resolve_current OLt (PScalar CFloat) (PVec CFloat 4) = RFail RCompile.
Proof. vm_compute. repeat split; reflexivity. Qed.

Eval compute in "ASSUMPTIONS C09_typing_interface"%string. Print Assumptions C09_typing_interface.
Eval compute in "END"%string.
