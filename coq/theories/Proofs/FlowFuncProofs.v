(** * C01, conditionals: whole functions.  Top-level statements are declarations, assignments, blocks and conditionals
    (no declarations inside blocks and conditionals), followed by [return e]. *)
From Coq Require Import String ZArith List Bool PrimFloat Arith Lia.
From NSL Require Import Base.Types Base.Syntax Model.PyNum Model.IR Model.VM Model.WfIR Model.Elab Model.Lower Model.Opt
                        Proofs.WfIRProofs Proofs.OptProofs Proofs.LowerExprProofs Proofs.ForwardProofs Proofs.LowerStmtProofs Proofs.CallAgreeProofs
                        Proofs.LowerWfProofs Proofs.LowerAllocProofs Proofs.FlowLowerProofs.
Import ListNotations.

Section Top.
  Variable structs : list sdef.
  Variable gl args : list string.

  Definition top_ok (n : nat) (s : tstmt) : bool := simple s || bstmt n s.
  Definition topexec (n : nat) (cs : list (nat * irty * cval)) (locals : list string) (s : tstmt) (V : list (string * val)) (A : list val) (vs : vmstate)
    : option (list string * list (string * val) * list val * vmstate) :=
    if simple s then texec structs gl args cs locals V A vs s
    else match bexec structs gl args n cs locals s V A vs with Some (V', A', vs') => Some (locals, V', A', vs') | None => None end.
  Fixpoint topexec_list (n : nat) (cs : list (nat * irty * cval)) (locals : list string) (l : list tstmt) (V : list (string * val)) (A : list val) (vs : vmstate)
    : option (list string * list (string * val) * list val * vmstate) :=
    match l with
    | [] => Some (locals, V, A, vs)
    | s :: r => match topexec n cs locals s V A vs with Some (locals1, V1, A1, vs1) => topexec_list n cs locals1 r V1 A1 vs1 | None => None end
    end.

  Definition tsem (st st' : lstate) (spec : list (nat * irty * cval) -> list string -> list (string * val) -> list val -> vmstate -> option (list string * list (string * val) * list val * vmstate))
             (new : list linstr) (nb : list (nat * nat)) : Prop :=
    forall F pre post fr vs cs locals' V' A' vs',
      flat_code F = pre ++ map (finish_instr args) new ++ post -> length pre = length (lcode st) ->
      (forall e, In e nb -> block_offset_last (fn_blocks F) (fst e) = Some (snd e)) ->
      (exists more, cs = l_consts st' ++ more) ->
      (forall c, In c cs -> rlookup (cref c) (regs fr) = Some (const_val (snd c))) ->
      (forall c i, In c cs -> In i new -> cref c <> lref i) ->
      spec cs (l_locals st) (vars fr) (fargs fr) vs = Some (locals', V', A', vs') ->
      l_locals st' = locals' /\
      exists fr', jruns F (length pre) fr vs (length pre + length new) fr' vs' /\ vars fr' = V' /\ fargs fr' = A' /\
                  (forall q, (forall i, In i new -> lref i <> q) -> rlookup q (regs fr') = rlookup q (regs fr)).
  Definition tres (st st' : lstate) spec : Prop :=
    fok st' /\ l_next st <= l_next st' /\
    (exists newc, l_consts st' = l_consts st ++ newc /\ forall c, In c newc -> l_next st <= cref c) /\
    exists new nb, lcode st' = lcode st ++ new /\ boffs st' = boffs st ++ nb /\
      (forall i, In i new -> l_next st <= lref i < l_next st') /\
      (forall e, In e nb -> l_next st <= fst e < l_next st' /\ length (lcode st) <= snd e <= length (lcode st')) /\
      tsem st st' spec new nb.

  Lemma tres_simple n s st st' : simple s = true -> fok st -> lower_stmt structs gl args s st = LOk st' ->
    tres st st' (fun cs locals V A vs => topexec n cs locals s V A vs).
  Proof.
    intros Hs A H.
    destruct (lower_simple_correct structs gl args s st st' Hs (fo_linv _ A) H) as (I' & Hn & (newc & Hc & Hg) & is & Hcode & Hr & Hd & Hsem).
    destruct (lsteps_fok _ _ (lower_simple_steps structs gl args s st st' Hs H) A) as [A' (nb & Hbo & Hnb & _ & _)].
    split; [exact A'|]. split; [exact Hn|]. split; [exists newc; auto|].
    exists (map LI is), nb. split; [exact Hcode|]. split; [exact Hbo|].
    split; [intros i Hi; apply in_map_iff in Hi as (j & <- & Hj); cbn; apply Hr; exact Hj|]. split; [exact Hnb|].
    intros F pre post fr vs cs locals' V' A0 vs' Hflat Hlen Hoff Hcs Hregs Hdisj Hex. unfold topexec in Hex. rewrite Hs in Hex.
    destruct (Hsem F (length pre) fr vs cs locals' V' A0 vs') as (Hloc & fr' & Hruns & Hv & Ha & Hf); auto.
    { intros c0 i Hc0 Hi. apply (Hdisj c0 (LI i) Hc0). apply in_map. exact Hi. }
    split; [exact Hloc|]. exists fr'. split; [|split; [exact Hv|split; [exact Ha|]]].
    - replace (length (map LI is)) with (length (map (finish_instr args) (map LI is))) by (rewrite !map_length; reflexivity). apply (sruns_jruns F _ pre post); assumption.
    - intros q Hq. apply Hf. intros i Hi. apply (Hq (LI i)). apply in_map. exact Hi.
  Qed.

  Lemma tres_b n s st st' : simple s = false -> bstmt n s = true -> fok st -> lower_stmt structs gl args s st = LOk st' ->
    tres st st' (fun cs locals V A vs => topexec n cs locals s V A vs).
  Proof.
    intros Hns Hs A H. destruct (bres_all structs gl args n s st st' Hs A H) as (A' & Hl & Hn & Hc & new & nb & Hcode & Hbo & Hr & Hb & Hsem).
    split; [exact A'|]. split; [exact Hn|]. split; [exact Hc|]. exists new, nb. split; [exact Hcode|]. split; [exact Hbo|]. split; [exact Hr|]. split; [exact Hb|].
    intros F pre post fr vs cs locals' V' A0 vs' Hflat Hlen Hoff Hcs Hregs Hdisj Hex. unfold topexec in Hex. rewrite Hns in Hex.
    destruct (bexec structs gl args n cs (l_locals st) s (vars fr) (fargs fr) vs) as [[[V1 A1] vs1]|] eqn:Eb; [|discriminate]. inversion Hex; subst locals' V1 A1 vs1.
    split; [exact Hl|]. apply (Hsem F pre post fr vs cs V' A0 vs'); assumption.
  Qed.

  Lemma tres_top n s st st' : top_ok n s = true -> fok st -> lower_stmt structs gl args s st = LOk st' ->
    tres st st' (fun cs locals V A vs => topexec n cs locals s V A vs).
  Proof.
    intros Hs A H. unfold top_ok in Hs. destruct (simple s) eqn:Es; [apply tres_simple; assumption|]. cbn in Hs. apply tres_b; assumption.
  Qed.

  Lemma tres_list n : forall l st st', forallb (top_ok n) l = true -> fok st -> lower_body structs gl args l st = LOk st' ->
    tres st st' (fun cs locals V A vs => topexec_list n cs locals l V A vs).
  Proof.
    induction l as [|s r IH]; intros st st' Hs A H.
    - cbn in H. inversion H; subst st'. split; [exact A|]. split; [lia|]. split; [exists []; split; [rewrite app_nil_r; reflexivity|intros ? []]|].
      exists [], []. rewrite !app_nil_r. split; [reflexivity|]. split; [reflexivity|]. split; [intros ? []|]. split; [intros ? []|].
      intros F pre post fr vs cs locals' V' A' vs' _ _ _ _ _ _ Hex. cbn in Hex. inversion Hex; subst. split; [reflexivity|]. exists fr. rewrite Nat.add_0_r. split; [constructor|auto].
    - cbn [forallb] in Hs. apply andb_prop in Hs as [Hs1 Hsr]. cbn [lower_body lbind] in H.
      destruct (lower_stmt structs gl args s st) as [st1| |] eqn:E1; cbn [lbind] in H; try discriminate.
      destruct (tres_top n s st st1 Hs1 A E1) as (A1 & Hn1 & (nc1 & Hc1 & Hg1) & new1 & nb1 & Hcode1 & Hbo1 & Hr1 & Hb1 & Hsem1).
      destruct (IH st1 st' Hsr A1 H) as (A2 & Hn2 & (nc2 & Hc2 & Hg2) & new2 & nb2 & Hcode2 & Hbo2 & Hr2 & Hb2 & Hsem2).
      assert (Hlen1 : length (lcode st) <= length (lcode st1)) by (rewrite Hcode1, app_length; lia).
      assert (Hlen2 : length (lcode st1) <= length (lcode st')) by (rewrite Hcode2, app_length; lia).
      split; [exact A2|]. split; [lia|].
      split; [exists (nc1 ++ nc2); split; [rewrite Hc2, Hc1, app_assoc; reflexivity|intros c Hc; apply in_app_or in Hc as [Hc|Hc]; [apply Hg1; exact Hc|specialize (Hg2 c Hc); lia]]|].
      exists (new1 ++ new2), (nb1 ++ nb2). split; [rewrite Hcode2, Hcode1, app_assoc; reflexivity|]. split; [rewrite Hbo2, Hbo1, app_assoc; reflexivity|].
      split; [intros i Hi; apply in_app_or in Hi as [Hi|Hi]; [specialize (Hr1 i Hi); lia|specialize (Hr2 i Hi); lia]|].
      split; [intros e He; apply in_app_or in He as [He|He]; [destruct (Hb1 e He); lia|destruct (Hb2 e He); lia]|].
      intros F pre post fr vs cs locals' V' A' vs' Hflat Hlen Hoff [more Hcs] Hregs Hdisj Hex. cbn [topexec_list] in Hex.
      destruct (topexec n cs (l_locals st) s (vars fr) (fargs fr) vs) as [[[[locals1 V1] A1'] vs1]|] eqn:Ex1; [|discriminate].
      destruct (Hsem1 F pre (map (finish_instr args) new2 ++ post) fr vs cs locals1 V1 A1' vs1) as (Hloc1 & fr1 & Hj1 & Hv1 & Ha1 & Hf1).
      { rewrite Hflat, map_app, <- app_assoc. reflexivity. }
      { exact Hlen. }
      { intros e He. apply Hoff. apply in_or_app. left. exact He. }
      { exists (nc2 ++ more). rewrite Hcs, Hc2, <- app_assoc. reflexivity. }
      { exact Hregs. }
      { intros c i Hc Hi. apply Hdisj; [exact Hc|apply in_or_app; left; exact Hi]. }
      { exact Ex1. }
      destruct (Hsem2 F (pre ++ map (finish_instr args) new1) post fr1 vs1 cs locals' V' A' vs') as (Hloc2 & fr2 & Hj2 & Hv2 & Ha2 & Hf2).
      { rewrite Hflat, map_app, <- !app_assoc. reflexivity. }
      { rewrite app_length, map_length, Hcode1, app_length. lia. }
      { intros e He. apply Hoff. apply in_or_app. right. exact He. }
      { exists more. exact Hcs. }
      { intros c Hc. rewrite Hf1; [apply Hregs; exact Hc|]. intros i Hi E. apply (Hdisj c i Hc); [apply in_or_app; left; exact Hi|congruence]. }
      { intros c i Hc Hi. apply Hdisj; [exact Hc|apply in_or_app; right; exact Hi]. }
      { rewrite Hloc1, Hv1, Ha1. exact Hex. }
      split; [exact Hloc2|]. exists fr2. split; [|split; [exact Hv2|split; [exact Ha2|]]].
      + eapply jruns_trans; [exact Hj1|]. rewrite app_length, map_length in Hj2. rewrite app_length. replace (length pre + (length new1 + length new2)) with (length pre + length new1 + length new2) by lia. exact Hj2.
      + intros q Hq. rewrite Hf2 by (intros i Hi; apply Hq; apply in_or_app; right; exact Hi). apply Hf1. intros i Hi. apply Hq. apply in_or_app. left. exact Hi.
  Qed.
End Top.

Lemma fok0 : fok lstate0.
Proof.
  constructor; cbn.
  - exact linv0.
  - constructor.
  - constructor.
  - intros q [[]|[[]|[]]].
  - intros q [].
  - intros b [].
Qed.

Lemma last_assoc_unique b o : forall l found, NoDup (map fst l) -> In (b, o) l -> last_assoc b l found = Some o.
Proof.
  induction l as [|[k v] r IH]; intros found Hn Hin; [destruct Hin|]. cbn in *. inversion Hn; subst. destruct Hin as [E|Hin].
  - inversion E; subst. rewrite Nat.eqb_refl. apply last_assoc_notin. assumption.
  - apply IH; assumption.
Qed.

Theorem flow_function_correct structs gl (f : tfunc) n l te F :
  tf_body f = l ++ [TRet (Some te)] -> forallb (top_ok n) l = true -> tpure te = true -> lower_func structs gl f = LOk F ->
  forall P argv vs locals' V' A' vs' v,
    topexec_list structs gl (map snd (tf_args f)) n (fn_consts F) [] l [] argv vs = Some (locals', V', A', vs') ->
    teval structs gl (map snd (tf_args f)) (fn_consts F) locals' (mkfr V' A') vs' te = Ok v ->
    exists N, forall fuel, N <= fuel -> run fuel P F 0 {| regs := init_regs F; vars := []; fargs := argv |} vs = Done v vs'.
Proof.
  intros Hbody Hs Hp Hlow P argv vs locals' V' A' vs' v Hte Hv. unfold lower_func in Hlow. rewrite Hbody in Hlow. fold lstate0 in Hlow.
  set (args := map snd (tf_args f)) in *. rewrite lower_body_app in Hlow.
  destruct (lower_body structs gl args l lstate0) as [st1| |] eqn:E1; cbn [lbind] in Hlow; try discriminate.
  cbn [lower_body lower_stmt lower_opt lbind] in Hlow.
  destruct (lower_expr structs gl args te st1) as [[r st2]| |] eqn:El; cbn [lbind fst snd] in Hlow; try discriminate.
  match type of Hlow with context [emit st2 ?t ?bd] => destruct (emit st2 t bd) as [st3 ref] eqn:Ee end. cbn [lbind] in Hlow.
  inversion Hlow; subst F; clear Hlow. cbn [fn_consts end_block l_consts l_blocks] in *.
  destruct (tres_list structs gl args n l lstate0 st1 Hs fok0 E1) as (A1 & _ & (nc1 & Hc1 & Hg1) & new1 & nb1 & Hcode1 & Hbo1 & Hr1 & Hb1 & Hsem1).
  destruct (lower_pure_correct structs gl args te st1 r st2 Hp (fo_linv _ A1) El) as (I2 & Hl2 & Hn2 & Hr & (nc2 & Hc2 & Hg2) & is2 & Hcode2 & Hr2 & Hd2 & Hsem2).
  destruct (lsteps_fok _ _ (lower_pure_steps structs gl args te st1 r st2 Hp El) A1) as [A2 (nb2 & Hbo2 & _)].
  set (mkret := fun r0 : nat => LI {| i_ref := r0; i_ty := match Some te with Some e' => adapt structs 8 (type_of e') | None => ITVoid end; i_body := IRet (Some r) |}).
  assert (Ee' : emit_raw st2 mkret = (st3, ref)) by exact Ee.
  assert (Hmk : forall q, lref (mkret q) = q) by (intros q; reflexivity).
  destruct (fok_emit st2 mkret st3 ref Hmk Ee' A2) as (A3 & (nb3 & Hbo3 & _) & Hcode3 & Hc3 & _). unfold mkret in Hcode3.
  set (reti := {| i_ref := ref; i_ty := match Some te with Some e' => adapt structs 8 (type_of e') | None => ITVoid end; i_body := IRet (Some r) |}) in *.
  set (F := {| fn_name := tf_name f; fn_args := _; fn_ret := _; fn_consts := l_consts st3; fn_blocks := _ |}) in *.
  set (fr0 := {| regs := init_regs F; vars := []; fargs := argv |}) in *.
  assert (Hflat : flat_code F = [] ++ map (finish_instr args) new1 ++ (map (finish_instr args) (map LI is2) ++ [finish_instr args (LI reti)])).
  { unfold flat_code, F. cbn [fn_blocks]. rewrite flat_code_lowered. fold (lcode st3). rewrite Hcode3, Hcode2, Hcode1. cbn [lcode lstate0 l_blocks flat_map app]. rewrite !map_app. rewrite <- !app_assoc. reflexivity. }
  assert (Hregs0 : forall c, In c (l_consts st3) -> rlookup (cref c) (regs fr0) = Some (const_val (snd c))).
  { intros c Hc. unfold fr0, init_regs. cbn [regs fn_consts F]. apply init_regs_lookup; [apply (fo_linv _ A3)|exact Hc]. }
  assert (Hoffs : forall e, In e nb1 -> block_offset_last (fn_blocks F) (fst e) = Some (snd e)).
  { intros [b o] He. cbn [fst snd]. unfold F. cbn [fn_blocks]. change (map (fun b0 => {| b_ref := fst b0; b_code := map (finish_instr args) (snd b0) |}) (l_blocks st3)) with (fin_blocks args (l_blocks st3)).
    rewrite block_offset_last_boffs. fold (boffs st3). apply last_assoc_unique.
    - rewrite brefs_boffs. apply A3.
    - rewrite Hbo3, Hbo2, Hbo1. cbn [boffs lstate0 l_blocks boffs_aux app]. apply in_or_app. left. apply in_or_app. left. exact He. }
  destruct (Hsem1 F [] (map (finish_instr args) (map LI is2) ++ [finish_instr args (LI reti)]) fr0 vs (l_consts st3) locals' V' A' vs') as (Hloc & fr1 & Hj1 & Hv1 & Ha1 & Hf1).
  { exact Hflat. }
  { reflexivity. }
  { exact Hoffs. }
  { exists nc2. rewrite Hc3, Hc2. reflexivity. }
  { exact Hregs0. }
  { intros c i Hc Hi E. rewrite Hc3 in Hc. apply (fo_cc _ A2 (cref c)); [unfold crefs; apply in_map; exact Hc|]. rewrite E. unfold irefs. rewrite Hcode2, Hcode1. cbn [lcode lstate0 l_blocks flat_map app]. rewrite map_app. apply in_or_app. left. apply in_map. exact Hi. }
  { exact Hte. }
  destruct (Hsem2 F (length new1) fr1 vs' (l_consts st3) v) as (fr2 & Hrun2 & Hg & _).
  { exists []. rewrite app_nil_r. exact Hc3. }
  { intros c Hc. rewrite Hf1; [apply Hregs0; exact Hc|]. intros i Hi E. rewrite Hc3 in Hc. apply (fo_cc _ A2 (cref c)); [unfold crefs; apply in_map; exact Hc|].
    unfold irefs. rewrite Hcode2, Hcode1. cbn [lcode lstate0 l_blocks flat_map app]. rewrite map_app. apply in_or_app. left. rewrite <- E. apply in_map. exact Hi. }
  { intros c i Hc Hi. apply Hd2; [rewrite <- Hc3; exact Hc|exact Hi]. }
  { rewrite Hloc. rewrite <- Hv. apply teval_frame; [exact Hv1|exact Ha1]. }
  assert (Hj2 : jruns F (length new1) fr1 vs' (length new1 + length is2) fr2 vs').
  { replace (length new1) with (length (map (finish_instr args) new1)) at 1 2 by apply map_length.
    replace (length is2) with (length (map (finish_instr args) (map LI is2))) by (rewrite !map_length; reflexivity).
    apply (sruns_jruns F _ (map (finish_instr args) new1) [finish_instr args (LI reti)]); [rewrite Hflat; reflexivity|].
    rewrite map_length. apply runs_sruns. exact Hrun2. }
  cbn [length Nat.add] in Hj1.
  destruct (run_jruns P F _ _ _ _ _ _ (jruns_trans _ _ _ _ _ _ _ _ _ _ Hj1 Hj2)) as [k Hk].
  exists (k + 1). intros fuel Hf. replace fuel with (k + (fuel - k)) by lia. rewrite Hk.
  destruct (fuel - k) as [|k'] eqn:Ek; [lia|]. cbn [run].
  assert (Hn : nth_error (flat_code F) (length new1 + length is2) = Some (finish_instr args (LI reti))).
  { rewrite Hflat. cbn [app]. rewrite app_assoc. replace (length new1 + length is2) with (length (map (finish_instr args) new1 ++ map (finish_instr args) (map LI is2))) by (rewrite app_length, !map_length; reflexivity). apply nth_error_mid. }
  rewrite Hn. unfold step. cbn [finish_instr reti i_body]. rewrite Hg. reflexivity.
Qed.
