(** Support for the C06/C07 case files: the generator model against the decoded binary of the real compiler. *)
From Coq Require Import String ZArith List Bool PrimFloat.
From NSL Require Import Base.Util Model.PyNum Model.IR Model.VM Model.PyTree Model.IREq Spec.Wasm Model.WasmGen Proofs.WasmGenProofs Proofs.WasmSimProofs.
Import ListNotations.
Local Open Scope Z_scope.

Definition winstr_eqb (a b : Wasm.instr) : bool :=
  match a, b with
  | Unreachable, Unreachable | Nop, Nop | Drop, Drop | Return, Return | I32Eqz, I32Eqz => true
  | LocalGet x, LocalGet y | LocalSet x, LocalSet y | LocalTee x, LocalTee y => Nat.eqb x y
  | I32Const x, I32Const y => Z.eqb x y
  | F32Const x, F32Const y => float_same x y
  | I32Rel x, I32Rel y | F32Rel x, F32Rel y | I32Bin x, I32Bin y | F32Bin x, F32Bin y => Z.eqb x y
  | _, _ => false
  end.
Definition functype_eqb (a b : functype) : bool :=
  list_eqb valtype_eqb (ft_params a) (ft_params b) && list_eqb valtype_eqb (ft_results a) (ft_results b).
Definition wmodule_eqb (a b : wmodule) : bool :=
  list_eqb functype_eqb (wm_types a) (wm_types b) && list_eqb Nat.eqb (wm_funcs a) (wm_funcs b) &&
  Nat.eqb (wm_tables a) (wm_tables b) && Nat.eqb (wm_mems a) (wm_mems b) &&
  list_eqb (fun x y => list_eqb Z.eqb (fst (fst x)) (fst (fst y)) && Z.eqb (snd (fst x)) (snd (fst y)) && Nat.eqb (snd x) (snd y)) (wm_exports a) (wm_exports b) &&
  list_eqb (fun x y => list_eqb valtype_eqb (fst x) (fst y) && list_eqb winstr_eqb (snd x) (snd y)) (wm_codes a) (wm_codes b).

(** emitted binary against the generator model run on the real IR:
    0 same module (and the IR is typed in the sense of the validity theorem); 16 the model emits another module;
    32 same module but the IR is not typed; 64 the model refuses what the compiler emitted; 128 the binary does not decode *)
Definition gen_chk (P : program) (b : bytes) : Z :=
  match decode b with
  | DOk m _ =>
      match gen_module (p_funcs P) with
      | Some g => if wmodule_eqb g m then (if forallb ir_typed_b (p_funcs P) then 0 else 32) else 16
      | None => 64
      end
  | _ => 128
  end.
(** a refused program: the model must refuse too (0), otherwise 8 *)
Definition refuse_chk (P : program) : Z := match gen_module (p_funcs P) with None => 0 | Some _ => 8 end.

(** how many functions of the program are inside the integer ring fragment of the C06 simulation theorem *)
Definition ring_count (P : program) : Z := Z.of_nat (length (filter ring_fn (p_funcs P))).
