(** * C01 -- Compiled programs compute what the source says (scalar core, VM). *)
From Coq Require Import String ZArith List Bool PrimFloat.
From NSL Require Import Base.Types Base.Syntax Model.PyNum Model.IR Model.VM Model.PyTree Model.Elab Model.Lower Spec.RefSem
     Harness.RunLib Proofs.OpsAgree.
From NSLDyn Require Gen_VM Agree_VM Gen_Shapes.
Import ListNotations.

(** The full statement: for every program of the scalar core that the front end accepts, whenever the reference
    semantics of the source defines the result of invoking an exported function (inside the numeric domain), the
    VM run on the compiled module terminates with a Python-equal result and Python-equal globals. *)
Definition C01_full_statement : Prop :=
  forall (M : module) (P : program) (c : call) (n : nat) (r : pv) (g : list (string * pv)),
    compile M = COk P ->
    fst (spec_call n M [] c) = ORet r g ->
    exists m r' g', fst (model_call m P (vm_init P) c) = ORet r' g' /\ pv_pyeq r r' = true /\ globals_eqb pv_pyeq g g' = true.

(** PARTIAL (what is machine-checked so far):
    (1) every scalar arm of the VM computes the operator the reference semantics prescribes, on every pair of
        operand values for which the reference semantics defines a result -- all 13 operators, ints and floats, mixed
        operands, truncating integer division, 0/1 comparisons and logical operators; the arm table is the one in
        nsl/VM.py on this run and the opcode is the one FromOperation selects (Agree_VM);
    (2) the inserted int->float conversion is the specified promotion.
    The statement-level simulation (lowering of control flow) is tied by the correspondence: the lowering model
    reproduces the real IR exactly, and implementation, VM model and reference semantics agree on every generated
    program. *)
Theorem C01_operators_agree_partial : forall o a b r,
    eval_binop o a b = ROk r ->
    scalar_op (scalar_opc o) (both_int a b) (v_of a) (v_of b) = Ok (v_of r).
Proof. exact scalar_op_agrees. Qed.

Theorem C01_selected_arm_is_source_arm_partial : forall o,
    Agree_VM.slook (Agree_VM.op_name o) Gen_VM.from_operation_scalar = Some (Agree_VM.opcode_name (scalar_opc o)) /\
    Agree_VM.slook (Agree_VM.opcode_name (scalar_opc o)) Gen_VM.vm_binary_arms = Some (Agree_VM.arm_of (scalar_opc o)).
Proof. intros o. split; [apply Agree_VM.agree_from_operation_scalar|destruct o; reflexivity]. Qed.

Theorem C01_promotion_partial : forall z f, to_f (RInt z) = ROk f -> cast_scalar ITFloat (VInt z) = Ok (VFloat f).
Proof. exact cast_to_float_agrees. Qed.

(** non-vacuity: 7 / 2 and -7 / 2 truncate; mixed arithmetic promotes; % on non-negative operands *)
Example C01_examples :
  eval_binop ODiv (RInt 7) (RInt 2) = ROk (RInt 3) /\ eval_binop ODiv (RInt (-7)) (RInt 2) = ROk (RInt (-3)) /\
  eval_binop OAdd (RInt 1) (RFloat 0.5) = ROk (RFloat 1.5) /\ eval_binop OMod (RInt 7) (RInt 3) = ROk (RInt 1) /\
  eval_binop OLe (RFloat 0.5) (RInt 1) = ROk (RInt 1).
Proof. vm_compute. repeat split; reflexivity. Qed.

Eval compute in "ASSUMPTIONS C01_operators_agree_partial"%string. Print Assumptions C01_operators_agree_partial.
Eval compute in "ASSUMPTIONS C01_selected_arm_is_source_arm_partial"%string. Print Assumptions C01_selected_arm_is_source_arm_partial.
Eval compute in "END"%string.
