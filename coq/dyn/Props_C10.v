(** * C10 -- Overload resolution picks the unique best viable candidate.  Statements only. *)
From Coq Require Import String ZArith List Bool Arith Permutation.
From NSL Require Import Base.Types Spec.Overload Model.Overload Proofs.OverloadProofs.
From NSLDyn Require Gen_Types Agree_Types.
Import ListNotations.

(** FindFunction resolves a call to a declared function of that name only if the argument count matches and
    every argument is convertible; among those the one needing the fewest conversions; unknown name, no viable
    candidate and a shared best score are reported as such.  Any number of overloads, any arity. *)
Theorem C10_resolution_correct : forall decls name args,
    find_function decls name args = spec_resolve decls name args.
Proof. exact find_function_correct. Qed.

Theorem C10_found_is_unique_best : forall decls name args d,
    find_function decls name args = Found d ->
    exists c, In (d, c) (viable_costs decls name args) /\
              forall d' c', In (d', c') (viable_costs decls name args) -> c <= c' /\ (c' = c -> (d', c') = (d, c)).
Proof. intros decls name args d H. rewrite find_function_correct in H. eapply found_is_unique_best; eauto. Qed.

(** the outcome does not depend on the order in which the overloads are declared *)
Theorem C10_order_independent : forall decls decls' name args,
    Permutation decls decls' -> find_function decls name args = find_function decls' name args.
Proof. exact find_function_order_independent. Qed.

(** the score combination the model uses is the one in the source on this run (shape checked by translator T6) *)
Theorem C10_score_shape : Gen_Types.match_scores_shape_checked = true.
Proof. reflexivity. Qed.

(** non-vacuity: three overloads; an exact match wins over conversions; a shared best is ambiguous;
    an incompatible argument is not cancelled by a converting one *)
Example C10_examples :
  let I := TPrim (PScalar CInt) in let F := TPrim (PScalar CFloat) in let F4 := TPrim (PVec CFloat 4) in
  let g1 := {| fd_name := "g"; fd_params := [I; F] |} in
  let g2 := {| fd_name := "g"; fd_params := [F; I] |} in
  let g3 := {| fd_name := "g"; fd_params := [I; I] |} in
  let g4 := {| fd_name := "g"; fd_params := [F4; I] |} in
  find_function [g1; g2; g3] "g" [I; I] = Found g3 /\
  find_function [g1; g2] "g" [I; I] = Ambiguous /\
  find_function [g4] "g" [F; F] = NoMatch /\
  find_function [g1] "h" [I; I] = Unknown.
Proof. vm_compute. repeat split; reflexivity. Qed.

Eval compute in "ASSUMPTIONS C10_resolution_correct"%string. Print Assumptions C10_resolution_correct.
Eval compute in "ASSUMPTIONS C10_order_independent"%string. Print Assumptions C10_order_independent.
Eval compute in "ASSUMPTIONS C10_found_is_unique_best"%string. Print Assumptions C10_found_is_unique_best.
Eval compute in "END"%string.
