(** * Model of the two IR optimisations (nsl/passes/OptimizeConstantCasts.py, OptimizeLoadAfterStore.py) with the
    deferred replace / replace-uses bookkeeping of LinearIR.BasicBlock._Traverse applied block by block. *)
From Coq Require Import String ZArith List Bool PrimFloat Arith.
From NSL Require Import Model.PyNum Model.IR Model.VM Model.WfIR Model.Lower.
Import ListNotations.

(** rewrite the value operands of an instruction through a reference map (per-class ReplaceUses) *)
Definition subst_ref (m : list (nat * nat)) (r : nat) : nat :=
  match find (fun p => Nat.eqb (fst p) r) m with Some p => snd p | None => r end.

Definition subst_body (m : list (nat * nat)) (b : ibody) : ibody :=
  let s := subst_ref m in
  match b with
  | IStore sc v x => IStore sc v (s x)
  | ILoadIdx k a i => ILoadIdx k (s a) (s i)
  | IStoreArray a i x => IStoreArray (s a) (s i) (s x)
  | ISetIdx k a i x => ISetIdx k (s a) (s i) (s x)
  | ILoadMember o f => ILoadMember (s o) f
  | IStoreMember o f x => IStoreMember (s o) f (s x)
  | IShuffle a b' ix => IShuffle (s a) (s b') ix
  | IBin o a b' => IBin o (s a) (s b')
  | IBranch p t f => IBranch (option_map s p) (option_map s t) (option_map s f)
  | IRet v => IRet (option_map s v)
  | ICall fn args => ICall fn (map s args)
  | ICast x => ICast (s x)
  | IConstruct vs => IConstruct (map s vs)
  | _ => b
  end.
Definition subst_instr (m : list (nat * nat)) (i : instr) : instr :=
  {| i_ref := i_ref i; i_ty := i_ty i; i_body := subst_body m (i_body i) |}.

Definition next_ref (F : ifunc) : nat :=
  S (fold_left Nat.max (const_refs F ++ block_refs F ++ instr_refs F) 0).

(** ** OptimizeConstantCasts *)
Inductive ores (A : Type) := OOk (a : A) | ORaise | OUnmodelled.
Arguments OOk {A}. Arguments ORaise {A}. Arguments OUnmodelled {A}.

Definition fold_cast (t : irty) (c : cval) : ores cval :=
  match t with
  | ITFloat => match c with
               | KFloat f => OOk (KFloat f)
               | KInt z => match float_of_Z z with Ok f => OOk (KFloat f) | _ => OUnmodelled end
               end
  | ITInt u => match c with
               | KInt z => OOk (KInt (if u then Z.abs z else z))
               | KFloat f => match floor_float f with Ok z => OOk (KInt (if u then Z.abs z else z)) | _ => OUnmodelled end
               end
  | _ => ORaise
  end.

(** constant table with CreateConstant's key (printed type, Python-equal value); [nxt] is the next free reference *)
Definition find_const (cs : list (nat * irty * cval)) (t : irty) (v : cval) : option nat :=
  option_map (fun c => fst (fst c)) (find (fun c => irty_eqb_simple (snd (fst c)) t && cval_pyeq (snd c) v) cs).

(** one block: returns the new constants, the next reference, the cast->constant map and whether a cast could not be folded *)
Fixpoint cc_block (consts : list (nat * irty * cval)) (nxt : nat) (code : list instr) (m : list (nat * nat)) : ores (list (nat * irty * cval) * nat * list (nat * nat)) :=
  match code with
  | [] => OOk (consts, nxt, m)
  | i :: r =>
      match i_body i with
      | ICast src =>
          match find (fun c => Nat.eqb (fst (fst c)) src) consts with
          | Some c =>
              match fold_cast (i_ty i) (snd c) with
              | OOk v =>
                  match find_const consts (i_ty i) v with
                  | Some cr => cc_block consts nxt r (m ++ [(i_ref i, cr)])
                  | None => cc_block (consts ++ [(nxt, i_ty i, v)]) (S nxt) r (m ++ [(i_ref i, nxt)])
                  end
              | ORaise => ORaise
              | OUnmodelled => OUnmodelled
              end
          | None => cc_block consts nxt r m
          end
      | _ => cc_block consts nxt r m
      end
  end.

Definition apply_block (m : list (nat * nat)) (code : list instr) : list instr :=
  map (subst_instr m) (filter (fun i => negb (existsb (fun p => Nat.eqb (fst p) (i_ref i)) m)) code).

(** blocks are processed in order; the replacements of a block are applied (function-wide) right after it *)
Fixpoint cc_blocks (fuel : nat) (consts : list (nat * irty * cval)) (nxt : nat) (done todo : list block) : ores (list (nat * irty * cval) * list block) :=
  match fuel, todo with
  | _, [] => OOk (consts, done)
  | O, _ => OUnmodelled
  | S fu, b :: rest =>
      match cc_block consts nxt (b_code b) [] with
      | OOk (consts', nxt', m) =>
          let fix_b (x : block) := {| b_ref := b_ref x; b_code := apply_block m (b_code x) |} in
          cc_blocks fu consts' nxt' (map fix_b done ++ [fix_b b]) (map fix_b rest)
      | ORaise => ORaise
      | OUnmodelled => OUnmodelled
      end
  end.

Definition opt_const_casts (F : ifunc) : ores ifunc :=
  match cc_blocks (length (fn_blocks F)) (fn_consts F) (next_ref F) [] (fn_blocks F) with
  | OOk (consts, blocks) => OOk {| fn_name := fn_name F; fn_args := fn_args F; fn_ret := fn_ret F; fn_consts := consts; fn_blocks := blocks |}
  | ORaise => ORaise
  | OUnmodelled => OUnmodelled
  end.

(** ** OptimizeLoadAfterStore *)
Definition var_eqb (a b : varname) : bool :=
  match a, b with VName x, VName y => String.eqb x y | VIndex i, VIndex j => Nat.eqb i j | _, _ => false end.

(** a forwarded value that is itself scheduled for replacement is resolved (bounded by the size of the map) *)
Fixpoint resolve (fuel : nat) (m : list (nat * nat)) (r : nat) : nat :=
  match fuel with
  | O => r
  | S f => match find (fun p => Nat.eqb (fst p) r) m with Some p => resolve f m (snd p) | None => r end
  end.

Fixpoint las_scan (prev : option instr) (code : list instr) (m : list (nat * nat)) : list (nat * nat) :=
  match code with
  | [] => m
  | i :: r =>
      let m' := match i_body i, prev with
                | ILoad _ v, Some p =>
                    match i_body p with
                    | IStore _ v' src => if var_eqb v' v then m ++ [(i_ref i, resolve (length m) m src)] else m
                    | _ => m
                    end
                | _, _ => m
                end in
      las_scan (Some i) r m'
  end.

Fixpoint las_blocks (fuel : nat) (done todo : list block) : list block :=
  match fuel, todo with
  | _, [] => done
  | O, _ => done ++ todo
  | S fu, b :: rest =>
      let m := las_scan None (b_code b) [] in
      let fix_b (x : block) := {| b_ref := b_ref x; b_code := apply_block m (b_code x) |} in
      las_blocks fu (map fix_b done ++ [fix_b b]) (map fix_b rest)
  end.

Definition opt_load_after_store (F : ifunc) : ifunc :=
  {| fn_name := fn_name F; fn_args := fn_args F; fn_ret := fn_ret F; fn_consts := fn_consts F; fn_blocks := las_blocks (length (fn_blocks F)) [] (fn_blocks F) |}.

(** the optimising pipeline: constant casts over the whole module, then load-after-store *)
Definition optimise_func (F : ifunc) : ores ifunc :=
  match opt_const_casts F with OOk F' => OOk (opt_load_after_store F') | r => r end.

Definition optimise (P : program) : ores program :=
  match (fix go (l : list ifunc) : ores (list ifunc) :=
           match l with
           | [] => OOk []
           | f :: r => match optimise_func f with
                       | OOk f' => match go r with OOk r' => OOk (f' :: r') | e => e end
                       | ORaise => ORaise | OUnmodelled => OUnmodelled end
           end) (p_funcs P) with
  | OOk fs => OOk {| p_funcs := fs; p_globals := p_globals P |}
  | ORaise => ORaise
  | OUnmodelled => OUnmodelled
  end.
