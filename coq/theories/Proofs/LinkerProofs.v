(** * C16: the linked program does not depend on the order in which modules were added; every imported module is
    loaded at most once; the set of loaded modules is closed under imports; duplicate definitions are rejected. *)
From Coq Require Import String List Bool Arith NArith Permutation Lia.
From NSL Require Import Model.Linker.
Import ListNotations.

(** ** tables *)
Lemma has_key_app k a b : has_key k (a ++ b) = has_key k a || has_key k b.
Proof. unfold has_key. apply existsb_app. Qed.

Lemma has_key_perm k a b : Permutation a b -> has_key k a = has_key k b.
Proof.
  intros P. unfold has_key. apply eq_iff_eq_true. rewrite !existsb_exists. split; intros (x & Hi & Hx); exists x; split; auto.
  - eapply Permutation_in; eauto.
  - eapply Permutation_in; [apply Permutation_sym|]; eauto.
Qed.

Fixpoint nodup_keys (t : table) : bool :=
  match t with [] => true | (k, _) :: r => negb (has_key k r) && nodup_keys r end.
Definition disjoint_keys (a b : table) : bool := forallb (fun kv => negb (has_key (fst kv) a)) b.

Lemma disjoint_keys_snoc acc k v r : disjoint_keys (acc ++ [(k, v)]) r = disjoint_keys acc r && negb (has_key k r).
Proof.
  unfold disjoint_keys. induction r as [|[k2 v2] r2 IH2]; cbn [forallb fst]; [reflexivity|].
  rewrite IH2, has_key_app.
  replace (has_key k2 [(k, v)]) with (String.eqb k2 k) by (unfold has_key; cbn; rewrite orb_false_r; reflexivity).
  replace (has_key k ((k2, v2) :: r2)) with (String.eqb k2 k || has_key k r2) by (unfold has_key; cbn; rewrite (String.eqb_sym k k2); reflexivity).
  generalize (has_key k2 acc), (String.eqb k2 k), (forallb (fun kv : string * nat => negb (has_key (fst kv) acc)) r2), (has_key k r2).
  intros [] [] [] []; reflexivity.
Qed.

(** closed form of the assertion loop: it succeeds exactly when no key of [new] is in [acc] or repeated, and then
    appends *)
Lemma add_entries_closed : forall new acc,
  add_entries acc new = if disjoint_keys acc new && nodup_keys new then Some (acc ++ new) else None.
Proof.
  induction new as [|[k v] r IH]; intros acc; cbn.
  - rewrite app_nil_r. reflexivity.
  - destruct (has_key k acc) eqn:Hk; cbn; [reflexivity|].
    rewrite IH. rewrite <- app_assoc. cbn.
    rewrite (disjoint_keys_snoc acc k v r). fold (disjoint_keys acc r).
    generalize (disjoint_keys acc r), (has_key k r), (nodup_keys r). intros [] [] []; reflexivity.
Qed.

Lemma disjoint_keys_perm_l a a' b : Permutation a a' -> disjoint_keys a b = disjoint_keys a' b.
Proof. intros P. unfold disjoint_keys. induction b as [|kv b IH]; cbn; [reflexivity|]. rewrite IH, (has_key_perm _ _ _ P). reflexivity. Qed.

Lemma disjoint_keys_app_l a b c : disjoint_keys (a ++ b) c = disjoint_keys a c && disjoint_keys b c.
Proof.
  unfold disjoint_keys. induction c as [|kv c IH]; cbn; [reflexivity|]. rewrite has_key_app, IH.
  destruct (has_key (fst kv) a), (has_key (fst kv) b), (forallb _ c), (forallb _ c); reflexivity.
Qed.

Lemma disjoint_keys_sym a b : disjoint_keys a b = disjoint_keys b a.
Proof.
  apply eq_iff_eq_true. unfold disjoint_keys. rewrite !forallb_forall. split; intros H kv Hin; apply negb_true_iff; apply not_true_is_false; intro Hk;
    unfold has_key in Hk; apply existsb_exists in Hk as (kv2 & Hin2 & He); apply String.eqb_eq in He;
    specialize (H kv2 Hin2); apply negb_true_iff in H; unfold has_key in H;
    assert (existsb (fun kv0 => String.eqb (fst kv2) (fst kv0)) _ = true) by (apply existsb_exists; exists kv; split; [exact Hin|apply String.eqb_eq; auto]); congruence.
Qed.

(** ** states up to the order of dictionary insertion and of set iteration *)
Definition same_set (a b : list string) : Prop := forall x, In x a <-> In x b.
Record equiv (s t : lstate) : Prop := {
  eq_funcs : Permutation (ls_funcs s) (ls_funcs t);
  eq_globals : Permutation (ls_globals s) (ls_globals t);
  eq_pending : same_set (ls_pending s) (ls_pending t);
  eq_loaded : same_set (ls_loaded s) (ls_loaded t) }.
Definition equiv_opt (a b : option lstate) : Prop :=
  match a, b with Some s, Some t => equiv s t | None, None => True | _, _ => False end.

Lemma equiv_refl s : equiv s s.
Proof. split; try apply Permutation_refl; intros x; tauto. Qed.
Lemma equiv_sym s t : equiv s t -> equiv t s.
Proof. intros [A B C D]. split; try (apply Permutation_sym; assumption); intros x; [specialize (C x)|specialize (D x)]; tauto. Qed.
Lemma equiv_trans s t u : equiv s t -> equiv t u -> equiv s u.
Proof.
  intros [A B C D] [A' B' C' D']. split; try (eapply Permutation_trans; eassumption); intros x;
    [specialize (C x); specialize (C' x)|specialize (D x); specialize (D' x)]; tauto.
Qed.

Lemma mem_in x l : mem x l = true <-> In x l.
Proof. unfold mem. rewrite existsb_exists. split; [intros (y & Hi & He); apply String.eqb_eq in He; subst; exact Hi|intros H; exists x; split; [exact H|apply String.eqb_refl]]. Qed.
Lemma mem_same_set x a b : same_set a b -> mem x a = mem x b.
Proof. intros H. apply eq_iff_eq_true. rewrite !mem_in. apply H. Qed.

Lemma set_union_in : forall xs s x, In x (set_union s xs) <-> In x s \/ In x xs.
Proof.
  induction xs as [|y r IH]; intros s x; cbn; [tauto|].
  destruct (mem y s) eqn:E; rewrite IH.
  - apply mem_in in E. split; [tauto|]. intros [H|[H|H]]; subst; auto.
  - rewrite in_app_iff. cbn. tauto.
Qed.

Lemma add_module_equiv s t m : equiv s t -> equiv_opt (add_module s m) (add_module t m).
Proof.
  intros [A B C D]. unfold add_module. rewrite !add_entries_closed.
  rewrite (disjoint_keys_perm_l _ _ (lm_funcs m) A), (disjoint_keys_perm_l _ _ (lm_globals m) B).
  destruct (disjoint_keys (ls_funcs t) (lm_funcs m) && nodup_keys (lm_funcs m)); cbn; [|exact I].
  destruct (disjoint_keys (ls_globals t) (lm_globals m) && nodup_keys (lm_globals m)); cbn; [|exact I].
  split; cbn; try (apply Permutation_app_tail; assumption); [|exact D].
  intros x. rewrite !set_union_in. specialize (C x). tauto.
Qed.

(** adding two modules in either order *)
Definition okt (t new : table) : bool := disjoint_keys t new && nodup_keys new.

Lemma add_module_closed s m :
  add_module s m =
  if okt (ls_funcs s) (lm_funcs m) && okt (ls_globals s) (lm_globals m)
  then Some {| ls_funcs := ls_funcs s ++ lm_funcs m; ls_globals := ls_globals s ++ lm_globals m;
               ls_pending := set_union (ls_pending s) (lm_imports m); ls_loaded := ls_loaded s |}
  else None.
Proof.
  unfold add_module, okt. rewrite !add_entries_closed.
  destruct (disjoint_keys (ls_funcs s) (lm_funcs m) && nodup_keys (lm_funcs m)); cbn; [|reflexivity].
  destruct (disjoint_keys (ls_globals s) (lm_globals m) && nodup_keys (lm_globals m)); reflexivity.
Qed.

Definition add2_cond (s : lstate) (m1 m2 : lmodule) : bool :=
  okt (ls_funcs s) (lm_funcs m1) && okt (ls_globals s) (lm_globals m1) &&
  (okt (ls_funcs s) (lm_funcs m2) && okt (ls_globals s) (lm_globals m2)) &&
  (disjoint_keys (lm_funcs m1) (lm_funcs m2) && disjoint_keys (lm_globals m1) (lm_globals m2)).

Lemma add2_closed s m1 m2 :
  (match add_module s m1 with Some s1 => add_module s1 m2 | None => None end) =
  if add2_cond s m1 m2
  then Some {| ls_funcs := (ls_funcs s ++ lm_funcs m1) ++ lm_funcs m2; ls_globals := (ls_globals s ++ lm_globals m1) ++ lm_globals m2;
               ls_pending := set_union (set_union (ls_pending s) (lm_imports m1)) (lm_imports m2); ls_loaded := ls_loaded s |}
  else None.
Proof.
  rewrite (add_module_closed s m1). unfold add2_cond.
  destruct (okt (ls_funcs s) (lm_funcs m1) && okt (ls_globals s) (lm_globals m1)); cbn [andb]; [|reflexivity].
  rewrite add_module_closed. cbn [ls_funcs ls_globals ls_pending ls_loaded]. unfold okt. rewrite !disjoint_keys_app_l.
  generalize (disjoint_keys (ls_funcs s) (lm_funcs m2)), (disjoint_keys (lm_funcs m1) (lm_funcs m2)), (nodup_keys (lm_funcs m2)),
             (disjoint_keys (ls_globals s) (lm_globals m2)), (disjoint_keys (lm_globals m1) (lm_globals m2)), (nodup_keys (lm_globals m2)).
  intros [] [] [] [] [] []; reflexivity.
Qed.

Lemma add_module_comm s m1 m2 :
  equiv_opt (match add_module s m1 with Some s1 => add_module s1 m2 | None => None end)
            (match add_module s m2 with Some s1 => add_module s1 m1 | None => None end).
Proof.
  rewrite !add2_closed.
  assert (E : add2_cond s m2 m1 = add2_cond s m1 m2).
  { unfold add2_cond. rewrite (disjoint_keys_sym (lm_funcs m2) (lm_funcs m1)), (disjoint_keys_sym (lm_globals m2) (lm_globals m1)).
    generalize (okt (ls_funcs s) (lm_funcs m1)), (okt (ls_globals s) (lm_globals m1)), (okt (ls_funcs s) (lm_funcs m2)), (okt (ls_globals s) (lm_globals m2)).
    intros [] [] [] []; reflexivity. }
  rewrite E. destruct (add2_cond s m1 m2); cbn; [|exact I].
  split; cbn.
  - rewrite <- !app_assoc. apply Permutation_app_head. apply Permutation_app_comm.
  - rewrite <- !app_assoc. apply Permutation_app_head. apply Permutation_app_comm.
  - intros x. rewrite !set_union_in. tauto.
  - intros x. tauto.
Qed.

(** ** the smallest pending name depends on the set only *)
Lemma ascii_compare_refl c : Ascii.compare c c = Eq.
Proof. unfold Ascii.compare. apply N.compare_refl. Qed.

Lemma string_compare_refl : forall s, String.compare s s = Eq.
Proof. induction s as [|c s IH]; cbn; [reflexivity|]. rewrite ascii_compare_refl. exact IH. Qed.

Lemma string_compare_lt_trans : forall a b c, String.compare a b = Lt -> String.compare b c = Lt -> String.compare a c = Lt.
Proof.
  induction a as [|x a IH]; intros [|y b] [|z c] H1 H2; cbn in *; try discriminate; try reflexivity.
  destruct (Ascii.compare x y) eqn:A1; try discriminate; destruct (Ascii.compare y z) eqn:A2; try discriminate.
  - apply Ascii.compare_eq_iff in A1; apply Ascii.compare_eq_iff in A2; subst. rewrite ascii_compare_refl. eapply IH; eauto.
  - apply Ascii.compare_eq_iff in A1; subst. rewrite A2. reflexivity.
  - apply Ascii.compare_eq_iff in A2; subst. rewrite A1. reflexivity.
  - assert (R : Ascii.compare x z = Lt).
    { unfold Ascii.compare in *. rewrite N.compare_lt_iff in *. eapply N.lt_trans; eauto. }
    rewrite R. reflexivity.
Qed.

Lemma leb_refl s : String.leb s s = true.
Proof. unfold String.leb. rewrite string_compare_refl. reflexivity. Qed.

Lemma leb_trans a b c : String.leb a b = true -> String.leb b c = true -> String.leb a c = true.
Proof.
  unfold String.leb. intros H1 H2.
  destruct (String.compare a b) eqn:C1; try discriminate; destruct (String.compare b c) eqn:C2; try discriminate.
  - apply String.compare_eq_iff in C1; apply String.compare_eq_iff in C2; subst. rewrite string_compare_refl. reflexivity.
  - apply String.compare_eq_iff in C1; subst. rewrite C2. reflexivity.
  - apply String.compare_eq_iff in C2; subst. rewrite C1. reflexivity.
  - rewrite (string_compare_lt_trans a b c C1 C2). reflexivity.
Qed.

Lemma min_str_spec : forall l x, min_str l = Some x <-> In x l /\ forall y, In y l -> String.leb x y = true.
Proof.
  induction l as [|a r IH]; intros x; cbn.
  - split; [discriminate|intros [[] _]].
  - destruct (min_str r) as [m|] eqn:Em.
    + destruct (IH m) as [IH1 _]. destruct (IH1 eq_refl) as [Hin Hle]. split.
      * intros H. inversion H; subst. destruct (String.leb a m) eqn:E.
        -- split; [left; reflexivity|]. intros y [<-|Hy]; [apply leb_refl|]. eapply leb_trans; [exact E|apply Hle; exact Hy].
        -- split; [right; exact Hin|]. intros y [<-|Hy]; [|apply Hle; exact Hy].
           destruct (String.leb_total m a) as [H1|H1]; [exact H1|congruence].
      * intros [[<-|Hx] Hall].
        -- destruct (String.leb a m) eqn:E; [reflexivity|]. specialize (Hall m (or_intror Hin)). congruence.
        -- assert (x = m) by (apply String.leb_antisym; [apply Hall; right; exact Hin|apply Hle; exact Hx]).
           subst. destruct (String.leb a m) eqn:E; [|reflexivity].
           f_equal. apply String.leb_antisym; [exact E|apply Hall; left; reflexivity].
    + assert (r = []) by (destruct r as [|b r']; [reflexivity|cbn in Em; destruct (min_str r'); discriminate]). subst. split.
      * intros H. inversion H; subst. split; [left; reflexivity|]. intros y [<-|[]]. apply leb_refl.
      * intros [[<-|[]] _]. reflexivity.
Qed.

Lemma min_str_same_set a b : same_set a b -> min_str a = min_str b.
Proof.
  intros H. destruct (min_str a) as [x|] eqn:Ea.
  - symmetry. apply min_str_spec. apply min_str_spec in Ea as [Hin Hle]. split; [apply H; exact Hin|]. intros y Hy. apply Hle. apply H. exact Hy.
  - destruct (min_str b) as [y|] eqn:Eb; [|reflexivity]. apply min_str_spec in Eb as [Hin _]. apply H in Hin.
    destruct a as [|z a']; [destruct Hin|]. cbn in Ea. destruct (min_str a'); discriminate.
Qed.

Lemma remove_str_in x l y : In y (remove_str x l) <-> In y l /\ y <> x.
Proof.
  unfold remove_str. rewrite filter_In. split; intros [H1 H2]; split; auto.
  - intros E. subst. rewrite String.eqb_refl in H2. discriminate.
  - apply negb_true_iff. apply String.eqb_neq. congruence.
Qed.

(** ** Link respects the equivalence *)
Definition equiv_res (a b : link_res) : Prop :=
  match a, b with LinkOk s, LinkOk t => equiv s t | LinkFail, LinkFail => True | LinkFuel, LinkFuel => True | _, _ => False end.

Lemma link_equiv loader : forall fuel s t, equiv s t -> equiv_res (link fuel loader s) (link fuel loader t).
Proof.
  induction fuel as [|fu IH]; intros s t E; cbn [link]; [exact I|].
  pose proof E as [A B C D].
  rewrite (min_str_same_set _ _ C). destruct (min_str (ls_pending t)) as [x|]; [|exact E].
  rewrite (mem_same_set x _ _ D).
  assert (C' : same_set (remove_str x (ls_pending s)) (remove_str x (ls_pending t))).
  { intros y. rewrite !remove_str_in. specialize (C y). tauto. }
  destruct (mem x (ls_loaded t)).
  - apply IH. split; cbn; assumption.
  - destruct (loader x) as [m|]; [|exact I].
    match goal with |- equiv_res (match add_module ?s1 m with _ => _ end) (match add_module ?t1 m with _ => _ end) =>
      assert (HP : equiv s1 t1) by (split; cbn; try assumption; intros y; cbn; specialize (D y); tauto);
      pose proof (add_module_equiv s1 t1 m HP) as Hm;
      destruct (add_module s1 m) as [s2|], (add_module t1 m) as [t2|]; cbn in Hm; try contradiction end.
    + apply IH. exact Hm.
    + exact I.
Qed.

(** ** adding the same modules in another order *)
Lemma add_all_equiv : forall ms s t, equiv s t -> equiv_opt (add_all s ms) (add_all t ms).
Proof.
  induction ms as [|m r IH]; intros s t E; cbn; [exact E|].
  pose proof (add_module_equiv s t m E) as H.
  destruct (add_module s m) as [s1|], (add_module t m) as [t1|]; cbn in H; try contradiction; [apply IH; exact H|exact I].
Qed.

Lemma equiv_opt_trans a b c : equiv_opt a b -> equiv_opt b c -> equiv_opt a c.
Proof. destruct a, b, c; cbn; try tauto. apply equiv_trans. Qed.
Lemma equiv_opt_refl a : equiv_opt a a.
Proof. destruct a; cbn; [apply equiv_refl|exact I]. Qed.

Lemma add_all_perm : forall ms ms', Permutation ms ms' -> forall s, equiv_opt (add_all s ms) (add_all s ms').
Proof.
  induction 1 as [|m r r' P IH|m1 m2 r|l1 l2 l3 P1 IH1 P2 IH2]; intros s.
  - apply equiv_opt_refl.
  - cbn. destruct (add_module s m); [apply IH|exact I].
  - cbn. pose proof (add_module_comm s m2 m1) as H.
    destruct (add_module s m2) as [s2|] eqn:E2; destruct (add_module s m1) as [s1|] eqn:E1; cbn in H.
    + destruct (add_module s2 m1) as [s21|], (add_module s1 m2) as [s12|]; cbn in H; try contradiction; [|exact I].
      apply add_all_equiv. exact H.
    + destruct (add_module s2 m1); [contradiction|exact I].
    + destruct (add_module s1 m2); [contradiction|exact I].
    + exact I.
  - eapply equiv_opt_trans; [apply IH1|apply IH2].
Qed.

(** C16, order independence: adding the same modules in any order links to the same program (same function and
    global tables as finite maps, same set of loaded imports), or fails in both orders. *)
Theorem link_order_independent : forall fuel loader ms ms', Permutation ms ms' ->
  equiv_res (link_modules fuel loader ms) (link_modules fuel loader ms').
Proof.
  intros fuel loader ms ms' P. unfold link_modules. pose proof (add_all_perm ms ms' P init_state) as H.
  destruct (add_all init_state ms) as [s|], (add_all init_state ms') as [t|]; cbn in H; try contradiction; [|exact I].
  apply link_equiv. exact H.
Qed.

(** ** every import is loaded at most once, and the loaded set is closed under imports *)
Definition closed_inv (loader : string -> option lmodule) (st : lstate) : Prop :=
  NoDup (ls_loaded st) /\
  forall x, In x (ls_loaded st) -> exists m, loader x = Some m /\ forall i, In i (lm_imports m) -> In i (ls_pending st) \/ In i (ls_loaded st).

Lemma add_module_fields s m s' : add_module s m = Some s' ->
  ls_loaded s' = ls_loaded s /\ forall i, In i (ls_pending s') <-> In i (ls_pending s) \/ In i (lm_imports m).
Proof.
  rewrite add_module_closed. destruct (_ && _); [|discriminate]. intros H; inversion H; subst; cbn. split; [reflexivity|]. intros i. apply set_union_in.
Qed.

Lemma link_closed loader : forall fuel st st', closed_inv loader st -> link fuel loader st = LinkOk st' ->
  closed_inv loader st' /\ ls_pending st' = [].
Proof.
  induction fuel as [|fu IH]; intros st st' Inv H; cbn [link] in H; [discriminate|].
  destruct (min_str (ls_pending st)) as [x|] eqn:Em.
  - destruct (mem x (ls_loaded st)) eqn:El.
    + apply IH in H; [exact H|]. destruct Inv as [ND Cl]. split; cbn; [exact ND|].
      intros y Hy. destruct (Cl y Hy) as (m & Hm & Hi). exists m. split; [exact Hm|]. intros i Hin.
      destruct (Hi i Hin) as [Hp|Hl]; [|right; exact Hl]. destruct (String.eqb_spec i x) as [->|Hne]; [right; apply mem_in; exact El|left; apply remove_str_in; split; assumption].
    + destruct (loader x) as [m|] eqn:Elx; [|discriminate].
      match type of H with match add_module ?s1 m with _ => _ end = _ => destruct (add_module s1 m) as [s2|] eqn:Ea; [|discriminate] end.
      apply add_module_fields in Ea as [Hl Hp]. cbn in Hl, Hp. apply IH in H; [exact H|].
      destruct Inv as [ND Cl]. split.
      * rewrite Hl. constructor; [|exact ND]. intro Hx. apply mem_in in Hx. congruence.
      * intros y Hy. rewrite Hl in Hy. destruct Hy as [<-|Hy].
        -- exists m. split; [exact Elx|]. intros i Hin. left. apply Hp. right. exact Hin.
        -- destruct (Cl y Hy) as (m' & Hm' & Hi). exists m'. split; [exact Hm'|]. intros i Hin. rewrite Hl.
           destruct (Hi i Hin) as [Hpi|Hli]; [|right; right; exact Hli].
           destruct (String.eqb_spec i x) as [->|Hne]; [right; left; reflexivity|left; apply Hp; left; apply remove_str_in; split; assumption].
  - inversion H; subst. split; [exact Inv|]. destruct (ls_pending st') as [|z r]; [reflexivity|]. cbn in Em. destruct (min_str r); discriminate.
Qed.

(** C16, load-once and closure: when linking succeeds, no module was loaded twice ([ls_loaded] is the trace of loader
    calls), nothing is pending, and every import of every loaded module has itself been loaded. *)
Theorem link_loads_once_and_closes : forall fuel loader ms st st',
  add_all init_state ms = Some st -> link fuel loader st = LinkOk st' ->
  NoDup (ls_loaded st') /\ ls_pending st' = [] /\
  forall x, In x (ls_loaded st') -> exists m, loader x = Some m /\ forall i, In i (lm_imports m) -> In i (ls_loaded st').
Proof.
  intros fuel loader ms st st' Ha Hl.
  assert (G : forall ms s st, add_all s ms = Some st -> ls_loaded st = ls_loaded s).
  { induction ms0 as [|m r IH]; intros s st0 H; cbn in H; [inversion H; reflexivity|].
    destruct (add_module s m) as [s1|] eqn:E; [|discriminate]. apply add_module_fields in E as [E _]. rewrite <- E. apply IH. exact H. }
  assert (Hinit : ls_loaded st = []) by (apply (G ms init_state st Ha)).
  destruct (link_closed loader fuel st st') as [[ND Cl] Hp]; [|exact Hl|].
  - split; [rewrite Hinit; constructor|]. intros x Hx. rewrite Hinit in Hx. destruct Hx.
  - split; [exact ND|]. split; [exact Hp|]. intros x Hx. destruct (Cl x Hx) as (m & Hm & Hi). exists m. split; [exact Hm|].
    intros i Hin. destruct (Hi i Hin) as [H|H]; [rewrite Hp in H; destruct H|exact H].
Qed.

(** C16, duplicates: a function or global defined by two of the linked modules is rejected, never replaced *)
Theorem duplicate_definition_rejected : forall s m k v w,
  In (k, v) (ls_funcs s) -> In (k, w) (lm_funcs m) -> add_module s m = None.
Proof.
  intros s m k v w Hs Hm. rewrite add_module_closed. unfold okt.
  assert (D : disjoint_keys (ls_funcs s) (lm_funcs m) = false).
  { apply not_true_is_false. intro H. unfold disjoint_keys in H. rewrite forallb_forall in H. specialize (H (k, w) Hm). cbn in H.
    apply negb_true_iff in H. assert (has_key k (ls_funcs s) = true) by (unfold has_key; apply existsb_exists; exists (k, v); split; [exact Hs|apply String.eqb_refl]). congruence. }
  rewrite D. reflexivity.
Qed.

Theorem successful_link_keeps_every_definition : forall s m s', add_module s m = Some s' ->
  forall kv, In kv (ls_funcs s') <-> In kv (ls_funcs s) \/ In kv (lm_funcs m).
Proof.
  intros s m s' H kv. rewrite add_module_closed in H. destruct (_ && _); [|discriminate]. inversion H; subst; cbn. apply in_app_iff.
Qed.
