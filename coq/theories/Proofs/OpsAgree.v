(** * The VM's scalar arms compute the specified operators (the instruction-level core of C01):
    whenever the reference semantics defines [a op b], the VM arm selected by the lowering computes the same value. *)
From Coq Require Import String ZArith List Bool PrimFloat Lia.
From NSL Require Import Base.Types Base.Syntax Model.PyNum Model.IR Model.VM Model.Elab Model.Lower Spec.RefSem.
Import ListNotations.
Local Open Scope Z_scope.

Definition v_of (r : rval) : val := match r with RInt z => VInt z | RFloat f => VFloat f end.
Definition both_int (a b : rval) : bool := match a, b with RInt _, RInt _ => true | _, _ => false end.

Lemma to_f_to_float r f : to_f r = ROk f -> to_float (match r with RInt z => NI z | RFloat g => NF g end) = Ok f.
Proof.
  destruct r as [z|g]; cbn; intros H.
  - destruct (float_of_Z z); try discriminate. congruence.
  - congruence.
Qed.

Lemma ri_ok z r : ri z = ROk r -> r = RInt z.
Proof. unfold ri. destruct (in_i32 z); congruence. Qed.

Theorem scalar_op_agrees : forall o a b r,
    eval_binop o a b = ROk r ->
    scalar_op (scalar_opc o) (both_int a b) (v_of a) (v_of b) = Ok (v_of r).
Proof.
  intros o a b r H. unfold eval_binop in H. unfold scalar_op, num2.
  destruct a as [x|fx], b as [y|fy]; cbn [v_of as_num both_int bind];
    destruct o; cbn [cmp_of scalar_opc] in *;
    try (inversion H; subst; reflexivity);
    try (apply ri_ok in H; subst; reflexivity);
    try discriminate;
    (* int / int *)
    try (cbn [py_intdiv]; destruct (y =? 0); [discriminate|]; apply ri_ok in H; subst; reflexivity);
    (* int % int *)
    try (cbn [py_mod]; destruct (Z.leb_spec y 0); cbn [orb] in H; [discriminate|];
         destruct (Z.ltb_spec x 0); [discriminate|]; destruct (Z.eqb_spec y 0); [lia|];
         apply ri_ok in H; subst; cbn [v_of]; rewrite Z.rem_mod_nonneg by lia; reflexivity);
    (* the remaining cases go through floats *)
    cbn [rbind to_f] in H;
    unfold py_cmp, py_add, py_sub, py_mul, py_truediv, py_mod, arith, to_float; cbn [bind];
    try (destruct (float_of_Z x) eqn:E; try discriminate);
    try (destruct (float_of_Z y) eqn:E'; try discriminate);
    cbn [rbind bind] in *;
    try (destruct (PrimFloat.eqb _ zero); [discriminate|]);
    try (inversion H; subst; reflexivity); try discriminate.
Qed.

(** int -> float conversion inserted by the front end (CAST to float) is the specified promotion *)
Theorem cast_to_float_agrees : forall z f, to_f (RInt z) = ROk f -> cast_scalar ITFloat (VInt z) = Ok (VFloat f).
Proof. intros z f H. cbn in *. destruct (float_of_Z z); try discriminate. inversion H; subst. reflexivity. Qed.
