(** * C02 -- Optimisation never changes observable behaviour. *)
From Coq Require Import String ZArith List Bool Arith.
From NSL Require Import Base.Types Base.Syntax Model.PyNum Model.IR Model.VM Model.WfIR Model.Elab Model.Lower Model.Opt Spec.RefSem Proofs.WfIRProofs Proofs.OptProofs Proofs.ForwardProofs Harness.FwdLib
     Proofs.OpsAgree Proofs.LowerExprProofs Proofs.ElabExprProofs Proofs.ReturnExprProofs Proofs.CallAgreeProofs Proofs.LowerStmtProofs Proofs.ElabStmtProofs
     Proofs.StraightLineProofs Proofs.LowerWfProofs Proofs.StraightOptProofs.
From NSLDyn Require Gen_Shapes.
Import ListNotations.

(** The full statement: for every well-formed IR function the optimised function is observationally equivalent
    on the VM (same result value, same globals, same kind of failure), for every input and execution length. *)
Definition outcome_equiv (a b : outcome) : Prop :=
  match a, b with
  | Done v st, Done v' st' => v = v' /\ globals st = globals st'
  | Fail e, Fail e' => e = e'
  | UnmodelledO, _ | _, UnmodelledO => True
  | _, _ => False
  end.
Definition C02_full_statement : Prop :=
  forall P P' fn named st n out, wf_program_b P = true -> optimise P = OOk P' ->
    invoke n P fn named st = out -> out <> OutOfFuel ->
    exists m, outcome_equiv (invoke m P' fn named st) out.

(** PARTIAL (machine-checked so far): the optimised module the real compiler produces is checked well-formed by
    [wf_program_b] on every run, and a well-formed module never reads an undefined value (the failure mode the
    property singles out: "never fails, returns nothing or reads an undefined value"), whatever the input. *)
Theorem C02_optimised_wellformed_never_undefined_partial : forall fuel P fn named st,
    wf_program_b P = true -> find_func P fn <> None -> ~ bad (invoke fuel P fn named st).
Proof. exact wf_invoke_sound. Qed.

(** forwarding chains resolve to a value that is not itself removed *)
Example C02_chain_example :
  las_scan None [ {| i_ref := 1; i_ty := ITInt false; i_body := ILoad SArg (VIndex 0) |};
                  {| i_ref := 2; i_ty := ITInt false; i_body := IStore SLocal (VName "x") 1 |};
                  {| i_ref := 3; i_ty := ITInt false; i_body := ILoad SLocal (VName "x") |};
                  {| i_ref := 4; i_ty := ITInt false; i_body := IStore SLocal (VName "y") 3 |};
                  {| i_ref := 5; i_ty := ITInt false; i_body := ILoad SLocal (VName "y") |};
                  {| i_ref := 6; i_ty := ITInt false; i_body := IRet (Some 5) |} ] [] = [(3, 1); (5, 1)].
Proof. reflexivity. Qed.

(** Two value-level facts behind the equivalence, for every program:
    folding the cast of a constant yields exactly the value the VM's CAST computes from that constant (and folding
    refuses only where the VM's CAST fails); a load that directly follows a store to the same variable -- local,
    argument or global -- delivers the stored value, so rewiring its users to the stored value preserves what they read. *)
Theorem C02_constant_folding_is_vm_cast : forall t c v, fold_cast t c = OOk v -> cast_scalar t (const_val c) = Ok (const_val v).
Proof. exact fold_cast_is_vm_cast. Qed.
Theorem C02_folding_refuses_only_where_vm_fails : forall t c, fold_cast t c = ORaise -> forall v, cast_scalar t (const_val c) <> Ok v.
Proof. exact fold_cast_raises_only_where_vm_fails. Qed.
Theorem C02_load_after_store_delivers_stored : forall F pc fr st sc v src w iS iL pc1 fr1 st1,
  i_body iS = IStore sc v src -> i_body iL = ILoad sc v -> rget fr src = Ok w ->
  step F pc fr st iS = StNext pc1 fr1 st1 ->
  exists fr2, step F pc1 fr1 st1 iL = StNext (S pc1) fr2 st1 /\ rget fr2 (i_ref iL) = Ok w.
Proof. exact load_after_store_delivers_stored. Qed.

(** PARTIAL (semantic preservation of OptimizeLoadAfterStore on straight-line code, every instruction kind).
    (a) For every instruction list without branches -- loads, stores, arithmetic, casts, element / member accesses, vector
        sets, shuffles, constructors, declarations in any mix --, with distinct references and operands defined earlier:
        if it runs on the VM model from one state to another, the list the pass makes of it (forwarded loads removed, every
        use renamed through the map, chains resolved) runs from the same state to a state with the same variables,
        arguments, globals and heap and the same value in every register that was not removed.
    (b) For every function consisting of one block that ends in a return: whatever the function returns, with whatever
        final VM state, the function [opt_load_after_store] makes of it returns the same value with the same state, for
        the same fuel.  [opt_load_after_store] is the Gallina function compared for equality with the real optimised IR
        on every run; [fwd_fragment_b] decides the hypotheses on the real IR (evaluated by the check on every function).
    Missing for the full statement: functions with several blocks or calls (the replacements applied function-wide), and
    the same for OptimizeConstantCasts beyond the value-level fact below. *)
Theorem C02_forwarding_sound_on_straight_line_code_partial : forall (F F' : ifunc) code pc pc' fr vs fr1 vs1,
  forallb (fun i => negb (is_branch i)) code = true -> NoDup (map i_ref code) -> operands_earlier code -> scopes_agree None code ->
  sruns F pc code fr vs fr1 vs1 ->
  let m := las_scan None code [] in
  exists fr1', sruns F' pc' (apply_block m code) fr vs fr1' vs1 /\ vars fr1' = vars fr1 /\ fargs fr1' = fargs fr1 /\
               forall r, ~ In r (keys m) -> rlookup r (regs fr1') = rlookup r (regs fr1).
Proof. exact forwarding_sound_on_straight_line_code. Qed.

Theorem C02_forwarding_preserves_single_block_functions_partial : forall (P : program) (F : ifunc), fwd_fragment_b F = true ->
  forall fuel fr vs w vs1, run fuel P F 0 fr vs = Done w vs1 -> run fuel P (opt_load_after_store F) 0 fr vs = Done w vs1.
Proof. exact fwd_fragment_sound. Qed.

(** PARTIAL (source to optimised IR, straight-line functions).  For every source function whose body is declarations and
    assignments of int / float variables followed by a return (the fragment of C01_straight_line_functions_partial, same
    hypotheses): at every call with numeric arguments and globals, whenever the reference semantics runs the body to a
    result v, BOTH the function F the lowering model produces AND the function [opt_load_after_store F] return exactly v
    and end in the same VM state, for every sufficient fuel.  No side condition on F: the lowering of a straight-line
    function always yields one block of distinct, increasing references whose operands are pooled constants or earlier
    results, with every access in the scope its name determines ([straight_lowered_forwarding_hyps]).  (When no cast of a
    constant occurs, [opt_load_after_store F] is the whole optimising pipeline applied to F.) *)
Theorem C02_straight_line_source_to_optimised_partial :
  forall (M : module) (fn : func) (l : list stmt) (e : expr) (tf : tfunc) (F : ifunc),
    f_body fn = l ++ [SRet (Some e)] -> forallb ssimple l = true -> spure e = true ->
    elab_func (genv_of M) (genvl M) fn = EOk tf -> lower_func (m_structs M) (glnames M) tf = LOk F ->
    forall tl te, tf_body tf = tl ++ [TRet (Some te)] -> length tl = length l ->
    forallb stok tl = true -> tok te = true ->
    lits_exact (flat_map tflits (body_exprs tl ++ [te])) -> (forall q, In q (flat_map tflits (body_exprs tl ++ [te])) -> PrimFloat.eqb q q = true) ->
    Forall (fresh_decl (glnames M) (argnames fn)) l ->
    forall (P : program) (ws : list rval) (g : RefSem.frame) (vs : vmstate),
      Forall2 (fun p w => has_ty w (fst p)) (f_args fn) ws ->
      (forall x, In x (map snd (f_args fn)) -> ~ In x (glnames M)) ->
      (forall x p, find (fun q => String.eqb (fst q) x) (genvl M) = Some p ->
         num_ty (snd p) /\ exists w, find (fun q => String.eqb (fst q) x) g = Some (fst p, SV w) /\ has_ty w (snd p) /\ slookup x (globals vs) = Some (v_of w)) ->
      forall fuel fl st', exec_list M fuel (f_body fn) (call_state fn ws g) = ROk (fl, st') ->
        exists v vs', fl = OReturn (SV v) /\
          exists n, forall fuel', n <= fuel' ->
            run fuel' P F 0 (call_frame ws (init_regs F)) vs = Done (v_of v) vs' /\
            run fuel' P (opt_load_after_store F) 0 (call_frame ws (init_regs F)) vs = Done (v_of v) vs'.
Proof. exact straight_line_optimised_simulation. Qed.

(** non-vacuity: the chain example above is inside the fragment, and the pass removes both forwarded loads *)
Example C02_fragment_example :
  let F := {| fn_name := "f"%string; fn_args := [("a"%string, ITInt false)]; fn_ret := ITInt false; fn_consts := [];
              fn_blocks := [{| b_ref := 0; b_code :=
                [ {| i_ref := 1; i_ty := ITInt false; i_body := ILoad SArg (VIndex 0) |};
                  {| i_ref := 2; i_ty := ITInt false; i_body := IStore SLocal (VName "x") 1 |};
                  {| i_ref := 3; i_ty := ITInt false; i_body := ILoad SLocal (VName "x") |};
                  {| i_ref := 4; i_ty := ITInt false; i_body := IStore SLocal (VName "y") 3 |};
                  {| i_ref := 5; i_ty := ITInt false; i_body := ILoad SLocal (VName "y") |};
                  {| i_ref := 6; i_ty := ITInt false; i_body := IRet (Some 5) |} ] |}] |} in
  fwd_fragment_b F = true /\ length (flat_code (opt_load_after_store F)) = 4 /\
  run 10 {| p_funcs := [F]; p_globals := [] |} F 0 {| regs := []; vars := []; fargs := [VInt 7] |} {| globals := []; hp := [] |} = Done (VInt 7) {| globals := []; hp := [] |}.
Proof. vm_compute. repeat split; reflexivity. Qed.

Eval compute in "ASSUMPTIONS C02_forwarding_preserves_single_block_functions_partial"%string. Print Assumptions C02_forwarding_preserves_single_block_functions_partial.
Eval compute in "ASSUMPTIONS C02_straight_line_source_to_optimised_partial"%string. Print Assumptions C02_straight_line_source_to_optimised_partial.
Eval compute in "ASSUMPTIONS C02_optimised_wellformed_never_undefined_partial"%string. Print Assumptions C02_optimised_wellformed_never_undefined_partial.
Eval compute in "END"%string.
