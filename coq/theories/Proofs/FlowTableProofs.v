(** * C01, conditionals: the constant table of a function with nested conditionals holds every literal, typed and exact. *)
From Coq Require Import String ZArith List Bool PrimFloat Arith Lia.
From NSL Require Import Base.Types Base.Syntax Spec.Overload Model.PyNum Model.IR Model.VM Model.TypesBin Model.Elab Model.Lower Spec.RefSem
                        Proofs.OpsAgree Proofs.OptProofs Proofs.LowerExprProofs Proofs.ElabExprProofs Proofs.ReturnExprProofs Proofs.CallAgreeProofs
                        Proofs.LowerStmtProofs Proofs.ElabStmtProofs Proofs.StraightLineProofs Proofs.HistoryRefineProofs Proofs.LowerWfProofs Proofs.LowerAllocProofs
                        Proofs.FlowLowerProofs Proofs.FlowFuncProofs Proofs.FlowElabProofs.
Import ListNotations.

Section BTable.
  Variable structs : list sdef.
  Variable gl args : list string.
  Variable L : list float.

  Definition tres_tab (st st' : lstate) (xs : list texpr) : Prop :=
    linv st' /\ table_ok L (l_consts st') /\ (exists new, l_consts st' = l_consts st ++ new) /\ forall x, In x xs -> present (l_consts st') x.

  Lemma emit_branch_consts st p t f st' r : emit_branch st p t f = (st', r) -> linv st -> linv st' /\ l_consts st' = l_consts st.
  Proof. unfold emit_branch. intros E I. destruct (emit_raw_spec _ _ _ _ I E) as (I' & _ & Hc & _). auto. Qed.
  Lemma create_block_consts st st' b : create_block st = (st', b) -> linv st -> linv st' /\ l_consts st' = l_consts st.
  Proof.
    unfold create_block. intros E I. inversion E; subst. split; [|reflexivity]. constructor; cbn.
    - intros c Hc. pose proof (inv_consts_below _ I c Hc). lia.
    - right. intro X. apply app_eq_nil in X as [_ X]. discriminate.
    - apply I.
  Qed.
  Lemma set_targets_linv st ref t f : linv st -> linv (set_targets st ref t f).
  Proof. intros I. constructor; cbn; [apply I| |apply I]. destruct (inv_blocks _ I) as [X|X]; [left; exact X|right]. intro Y. apply X. destruct (l_blocks st); [reflexivity|discriminate]. Qed.

  Lemma lower_b_table : forall n s st st', bstmt n s = true -> linv st -> lower_stmt structs gl args s st = LOk st' ->
    table_ok L (l_consts st) -> (forall x, In x (bexprs n s) -> incl (tflits x) L) -> tres_tab st st' (bexprs n s).
  Proof.
    induction n as [|n IHn]; intros s st st' Hs I H Ht Hin; [discriminate|].
    destruct s as [| e | l | | c t f | | | | |]; cbn [bstmt] in Hs; try discriminate.
    - destruct e as [| | | | |lhs e'| | | | |]; try discriminate. destruct lhs as [| |x ty| | | | | | | |]; try discriminate. destruct ty as [[c0| |]| | |]; try discriminate.
      destruct (lower_simple_table structs gl args L (TExpr (XAssign (XVar x (TPrim (PScalar c0))) e')) st st' Hs I H Ht) as (I' & Ht' & Hn & Hp).
      { intros te Hte. apply Hin. exact Hte. }
      split; [exact I'|]. split; [exact Ht'|]. split; [exact Hn|]. intros y Hy. apply Hp. exact Hy.
    - rewrite lower_block in H. cbn [bexprs] in *.
      assert (Hgen : forall l0 st0 st1, forallb (bstmt n) l0 = true -> linv st0 -> lower_body structs gl args l0 st0 = LOk st1 -> table_ok L (l_consts st0) ->
                     (forall x, In x (flat_map (bexprs n) l0) -> incl (tflits x) L) -> tres_tab st0 st1 (flat_map (bexprs n) l0)).
      { induction l0 as [|s0 r IHl]; intros st0 st1 Hl I0 Hl0 Ht0 Hin0.
        - cbn in Hl0. inversion Hl0; subst. split; [exact I0|]. split; [exact Ht0|]. split; [exists []; rewrite app_nil_r; reflexivity|intros ? []].
        - cbn [forallb] in Hl. apply andb_prop in Hl as [Hl1 Hl2]. cbn [lower_body lbind] in Hl0.
          destruct (lower_stmt structs gl args s0 st0) as [stm| |] eqn:Em; cbn [lbind] in Hl0; try discriminate.
          destruct (IHn s0 st0 stm Hl1 I0 Em Ht0) as (Im & Htm & (nm & Hnm) & Hpm); [intros y Hy; apply Hin0; cbn [flat_map]; apply in_or_app; left; exact Hy|].
          destruct (IHl stm st1 Hl2 Im Hl0 Htm) as (I1 & Ht1 & (n1 & Hn1) & Hp1); [intros y Hy; apply Hin0; cbn [flat_map]; apply in_or_app; right; exact Hy|].
          split; [exact I1|]. split; [exact Ht1|]. split; [exists (nm ++ n1); rewrite Hn1, Hnm, app_assoc; reflexivity|].
          intros y Hy. cbn [flat_map] in Hy. apply in_app_or in Hy as [Hy|Hy]; [rewrite Hn1; apply present_app; apply Hpm; exact Hy|apply Hp1; exact Hy]. }
      apply (Hgen l st st' Hs I H Ht Hin).
    - apply andb_prop in Hs as [Hs Hf]. apply andb_prop in Hs as [Hpc Hbt]. cbn [lower_stmt lbind] in H. cbn [bexprs] in *.
      destruct (lower_expr structs gl args c st) as [[cv st1]| |] eqn:Ec; cbn [lbind] in H; try discriminate.
      destruct (emit_branch st1 (Some cv) LNone LNone) as [st2 br] eqn:Eb.
      destruct (create_block st2) as [st3 tb] eqn:Etb.
      destruct (lower_stmt structs gl args t st3) as [st4| |] eqn:Et; cbn [lbind] in H; try discriminate.
      destruct (lower_table structs gl args L c st cv st1 Hpc I Ec Ht) as (I1 & Ht1 & (n1 & Hn1) & Hpi & Hpf); [apply Hin; left; reflexivity|].
      destruct (emit_branch_consts _ _ _ _ _ _ Eb I1) as [I2 Hc2]. destruct (create_block_consts _ _ _ Etb I2) as [I3 Hc3].
      assert (Ht3 : table_ok L (l_consts st3)) by (rewrite Hc3, Hc2; exact Ht1).
      destruct (IHn t st3 st4 Hbt I3 Et Ht3) as (I4 & Ht4 & (n4 & Hn4) & Hp4); [intros y Hy; apply Hin; right; apply in_or_app; left; exact Hy|].
      pose proof (set_targets_linv st4 br (Some (LRef tb)) None I4) as I5.
      destruct f as [f'|].
      + destruct (emit_branch (set_targets st4 br (Some (LRef tb)) None) None (LRef tb) LNone) as [st6 ex] eqn:Eex.
        destruct (create_block st6) as [st7 fb] eqn:Efb.
        destruct (lower_stmt structs gl args f' st7) as [st8| |] eqn:Ef; cbn [lbind] in H; try discriminate.
        destruct (create_block (set_targets st8 br None (Some (LRef fb)))) as [st10 bb] eqn:Ebb. inversion H; subst st'; clear H.
        destruct (emit_branch_consts _ _ _ _ _ _ Eex I5) as [I6 Hc6]. destruct (create_block_consts _ _ _ Efb I6) as [I7 Hc7].
        assert (Ht7 : table_ok L (l_consts st7)) by (rewrite Hc7, Hc6; exact Ht4).
        destruct (IHn f' st7 st8 Hf I7 Ef Ht7) as (I8 & Ht8 & (n8 & Hn8) & Hp8); [intros y Hy; apply Hin; right; apply in_or_app; right; exact Hy|].
        pose proof (set_targets_linv st8 br None (Some (LRef fb)) I8) as I9.
        destruct (create_block_consts _ _ _ Ebb I9) as [I10 Hc10].
        assert (Hfin : l_consts (set_targets st10 ex (Some (LRef bb)) None) = l_consts st8) by (cbn; rewrite Hc10; reflexivity).
        assert (H84 : l_consts st8 = l_consts st4 ++ n8) by (rewrite Hn8, Hc7, Hc6; reflexivity).
        assert (H41 : l_consts st4 = l_consts st1 ++ n4) by (rewrite Hn4, Hc3, Hc2; reflexivity).
        split; [apply set_targets_linv; exact I10|]. rewrite Hfin. split; [exact Ht8|]. split; [exists (n1 ++ n4 ++ n8); rewrite H84, H41, Hn1, <- !app_assoc; reflexivity|].
        intros y [<-|Hy].
        * rewrite H84, H41, <- app_assoc. apply present_app. split; assumption.
        * apply in_app_or in Hy as [Hy|Hy]; [rewrite H84; apply present_app; apply Hp4; exact Hy|apply Hp8; exact Hy].
      + destruct (create_block (set_targets st4 br (Some (LRef tb)) None)) as [st6 bb] eqn:Ebb. inversion H; subst st'; clear H.
        destruct (create_block_consts _ _ _ Ebb I5) as [I6 Hc6].
        assert (Hfin : l_consts (set_targets st6 br None (Some (LRef bb))) = l_consts st4) by (cbn; rewrite Hc6; reflexivity).
        assert (H41 : l_consts st4 = l_consts st1 ++ n4) by (rewrite Hn4, Hc3, Hc2; reflexivity).
        split; [apply set_targets_linv; exact I6|]. rewrite Hfin. split; [exact Ht4|]. split; [exists (n1 ++ n4); rewrite H41, Hn1, <- app_assoc; reflexivity|].
        intros y [<-|Hy].
        * rewrite H41. apply present_app. split; assumption.
        * rewrite app_nil_r in Hy. apply Hp4. exact Hy.
  Qed.
End BTable.

Section TopTable.
  Variable structs : list sdef.
  Variable gl args : list string.
  Variable L : list float.

  Definition topexprs (n : nat) (s : tstmt) : list texpr := stexprs s ++ bexprs n s.

  Lemma simple_bexprs n s x : simple s = true -> In x (bexprs n s) -> In x (stexprs s).
  Proof.
    destruct n as [|n]; [intros _ []|]. destruct s as [ty y i| e | | | | | | | |]; try discriminate; cbn [bexprs stexprs].
    - intros _ [].
    - destruct e; try discriminate. intros _ H. exact H.
  Qed.
  Lemma bstmt_stexprs n s x : bstmt n s = true -> In x (stexprs s) -> In x (bexprs n s).
  Proof.
    destruct n as [|n]; [discriminate|]. destruct s as [| e | | | | | | | |]; try discriminate; cbn [bexprs stexprs bstmt].
    - destruct e; try discriminate. intros _ H. exact H.
    - intros _ [].
    - intros _ [].
  Qed.

  Lemma lower_top_table n s st st' : top_ok n s = true -> linv st -> lower_stmt structs gl args s st = LOk st' ->
    table_ok L (l_consts st) -> (forall x, In x (topexprs n s) -> incl (tflits x) L) -> tres_tab L st st' (topexprs n s).
  Proof.
    intros Hs I H Ht Hin. unfold top_ok in Hs. destruct (simple s) eqn:Esim.
    - destruct (lower_simple_table structs gl args L s st st' Esim I H Ht) as (I' & Ht' & Hn & Hp).
      { intros te Hte. apply Hin. apply in_or_app. left. exact Hte. }
      split; [exact I'|]. split; [exact Ht'|]. split; [exact Hn|]. intros x Hx. apply Hp. apply in_app_or in Hx as [Hx|Hx]; [exact Hx|apply (simple_bexprs n s x Esim Hx)].
    - cbn [orb] in Hs. destruct (lower_b_table structs gl args L n s st st' Hs I H Ht) as (I' & Ht' & Hn & Hp).
      { intros x Hx. apply Hin. apply in_or_app. right. exact Hx. }
      split; [exact I'|]. split; [exact Ht'|]. split; [exact Hn|]. intros x Hx. apply Hp. apply in_app_or in Hx as [Hx|Hx]; [apply (bstmt_stexprs n s x Hs Hx)|exact Hx].
  Qed.

  Lemma lower_toplist_table n : forall l st st', forallb (top_ok n) l = true -> linv st -> lower_body structs gl args l st = LOk st' ->
    table_ok L (l_consts st) -> (forall x, In x (flat_map (topexprs n) l) -> incl (tflits x) L) -> tres_tab L st st' (flat_map (topexprs n) l).
  Proof.
    induction l as [|s0 r IHl]; intros st0 st1 Hl I0 Hl0 Ht0 Hin0.
    - cbn in Hl0. inversion Hl0; subst. split; [exact I0|]. split; [exact Ht0|]. split; [exists []; rewrite app_nil_r; reflexivity|intros ? []].
    - cbn [forallb] in Hl. apply andb_prop in Hl as [Hl1 Hl2]. cbn [lower_body lbind] in Hl0.
      destruct (lower_stmt structs gl args s0 st0) as [stm| |] eqn:Em; cbn [lbind] in Hl0; try discriminate.
      destruct (lower_top_table n s0 st0 stm Hl1 I0 Em Ht0) as (Im & Htm & (nm & Hnm) & Hpm); [intros y Hy; apply Hin0; cbn [flat_map]; apply in_or_app; left; exact Hy|].
      destruct (IHl stm st1 Hl2 Im Hl0 Htm) as (I1 & Ht1 & (n1 & Hn1) & Hp1); [intros y Hy; apply Hin0; cbn [flat_map]; apply in_or_app; right; exact Hy|].
      split; [exact I1|]. split; [exact Ht1|]. split; [exists (nm ++ n1); rewrite Hn1, Hnm, app_assoc; reflexivity|].
      intros y Hy. cbn [flat_map] in Hy. apply in_app_or in Hy as [Hy|Hy]; [rewrite Hn1; apply present_app; apply Hpm; exact Hy|apply Hp1; exact Hy].
  Qed.
End TopTable.

(** every literal of a function with conditionals is present in its constant table and read back exactly *)
Lemma flow_function_lits_ok structs gl (f : tfunc) n tl te F :
  tf_body f = tl ++ [TRet (Some te)] -> forallb (top_ok n) tl = true -> tpure te = true -> lower_func structs gl f = LOk F ->
  let L := flat_map tflits (flat_map (topexprs n) tl ++ [te]) in
  lits_exact L -> (forall q, In q L -> PrimFloat.eqb q q = true) ->
  forall x, In x (flat_map (topexprs n) tl ++ [te]) -> lit_ok (fn_consts F) x.
Proof.
  intros Hbody Hs Hp Hlow L Hex Hnan x Hx.
  destruct (lower_func_straight_inv structs gl f tl te F Hbody Hlow) as (st1 & r & st2 & E1 & E2 & Hcs).
  assert (HinL : forall y, In y (flat_map (topexprs n) tl ++ [te]) -> incl (tflits y) L).
  { intros y Hy q Hq. unfold L. apply in_flat_map. exists y. split; assumption. }
  destruct (lower_toplist_table structs gl (map snd (tf_args f)) L n tl lstate0 st1 Hs linv0 E1) as (I1 & Ht1 & (new1 & Hn1) & Hp1).
  { intros c []. }
  { intros y Hy. apply HinL. apply in_or_app. left. exact Hy. }
  destruct (lower_table structs gl (map snd (tf_args f)) L te st1 r st2 Hp I1 E2 Ht1) as (I2 & Ht2 & (new2 & Hn2) & Hpi & Hpf).
  { apply HinL. apply in_or_app. right. left. reflexivity. }
  assert (Hpres : present (fn_consts F) x).
  { rewrite Hcs. apply in_app_or in Hx as [Hx|[<-|[]]]; [rewrite Hn2; apply present_app; apply Hp1; exact Hx|split; assumption]. }
  destruct Hpres as [Hpi' Hpf']. rewrite Hcs in *. split.
  - intros z Hz. destruct (Hpi' z Hz) as [c Hc]. exists c. split; [exact Hc|apply (lookup_exact_int L _ _ _ Ht2 Hc)].
  - intros q Hq. assert (HqL : In q L) by (apply (HinL x Hx); exact Hq). split; [|apply Hnan; exact HqL].
    destruct (Hpf' q Hq) as [c Hc]. exists c. split; [exact Hc|apply (lookup_exact_float L _ _ _ Ht2 Hex HqL Hc)].
Qed.
