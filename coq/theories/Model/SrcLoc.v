(** * Model of nsl/ast/__init__.py: SourceMapping, Location.__str__, Location.Merge, and of
    nsl/passes/UpdateLocations.py.  Regenerated from source by translator T9 (NSLDyn.Gen_SrcLoc) and shown
    equal in NSLDyn.Agree_SrcLoc.  No proofs here. *)
From Coq Require Import ZArith List Bool.
Import ListNotations.
Local Open Scope Z_scope.

(** str.split(sep) for a one-character separator *)
Fixpoint split_on (sep : Z) (s : list Z) : list (list Z) :=
  match s with
  | [] => [[]]
  | c :: r => if c =? sep then [] :: split_on sep r
              else match split_on sep r with
                   | l :: ls => (c :: l) :: ls
                   | [] => [[c]]
                   end
  end.

(** SourceMapping.__init__: one entry per line, advancing by len(line) + 1 *)
Fixpoint offsets (cur : Z) (lines : list (list Z)) : list Z :=
  match lines with
  | [] => []
  | l :: ls => cur :: offsets (cur + Z.of_nat (length l) + 1) ls
  end.
Definition line_offsets (s : list Z) : list Z := offsets 0 (split_on 10 s).

(** bisect.bisect_right on an ascending list: number of leading elements <= x *)
Fixpoint bisect_right (l : list Z) (x : Z) : Z :=
  match l with
  | [] => 0
  | a :: r => if a <=? x then 1 + bisect_right r x else 0
  end.

Definition line_from_offset (s : list Z) (off : Z) : Z := bisect_right (line_offsets s) off - 1.

(** list indexing self.__lineOffsets[line] for 0 <= line (IndexError otherwise -> None) *)
Definition line_start_offset (s : list Z) (line : Z) : option Z :=
  if line <? 0 then None else nth_error (line_offsets s) (Z.to_nat line).

(** Location.__str__ with a source mapping, as structured fields *)
Inductive loc_fields := LUnknown | LSingle (l c c' : Z) | LMulti (l c l' c' : Z) | LError.

Definition loc_str (s : list Z) (b e : Z) : loc_fields :=
  if (b =? -1) && (e =? -1) then LUnknown else
  let startLine := line_from_offset s b in
  let endLine := line_from_offset s e in
  if startLine =? endLine then
    match line_start_offset s startLine with
    | Some startOffset => LSingle (startLine + 1) (b - startOffset + 1) (e - startOffset + 1)
    | None => LError
    end
  else
    match line_start_offset s startLine, line_start_offset s endLine with
    | Some startOffset, Some endOffset => LMulti (startLine + 1) (b - startOffset + 1) (endLine + 1) (e - endOffset + 1)
    | _, _ => LError
    end.

(** Location.Merge: fold of (min begin, max end) starting from the first argument *)
Definition merge2 (a b : Z * Z) : Z * Z := (Z.min (fst a) (fst b), Z.max (snd a) (snd b)).
Definition merge (first : Z * Z) (rest : list (Z * Z)) : Z * Z := fold_left merge2 rest first.

(** UpdateLocations: post-order; a node's location becomes the hull of its own (if known) and its
    children's (after they were updated); unknown stays unknown when nothing is known below. *)
Inductive ltree := LNode (own : option (Z * Z)) (children : list ltree).

Definition node_loc (t : ltree) : option (Z * Z) := match t with LNode o _ => o end.

Fixpoint update_locs (t : ltree) : ltree :=
  match t with
  | LNode own cs =>
      let cs' := map update_locs cs in
      let known := (match own with Some l => [l] | None => [] end)
                   ++ flat_map (fun c => match node_loc c with Some l => [l] | None => [] end) cs' in
      match known with
      | [] => LNode own cs'
      | l :: ls => LNode (Some (merge l ls)) cs'
      end
  end.
