(** * C15: histories of calls to functions WITH LOOPS refine the reference state machine.  The same statement as [history_refines],
    for functions in the fragment of [loop_function_simulation] (declarations, assignments, blocks, nested conditionals and while
    loops, a return). *)
From Coq Require Import String ZArith List Bool PrimFloat Arith Lia.
From NSL Require Import Base.Types Base.Syntax Spec.Overload Model.PyNum Model.IR Model.VM Model.TypesBin Model.Elab Model.Lower Spec.RefSem
                        Proofs.OpsAgree Proofs.OptProofs Proofs.LowerExprProofs Proofs.ElabExprProofs Proofs.ReturnExprProofs Proofs.CallAgreeProofs
                        Proofs.LowerStmtProofs Proofs.ElabStmtProofs Proofs.StraightLineProofs Proofs.HistoryRefineProofs
                        Proofs.FlowLowerProofs Proofs.FlowFuncProofs Proofs.FlowElabProofs Proofs.FlowTableProofs Proofs.FlowSimProofs Proofs.LoopLowerProofs Proofs.LoopElabProofs Proofs.LoopSimProofs.
Import ListNotations.

Theorem call_refines_loop : forall (M : module) (P : program) (fn : func) (n : nat) (l : list stmt) (e : expr) (tf : tfunc) (F : ifunc) tl te,
  f_body fn = l ++ [SRet (Some e)] -> forallb (wstop n) l = true -> spure e = true ->
  elab_func (genv_of M) (genvl M) fn = EOk tf -> lower_func (m_structs M) (glnames M) tf = LOk F ->
  tf_body tf = tl ++ [TRet (Some te)] -> length tl = length l -> forallb tok (flat_map (wtopexprs n) tl ++ [te]) = true ->
  lits_exact (flat_map tflits (flat_map (wtopexprs n) tl ++ [te])) -> (forall q, In q (flat_map tflits (flat_map (wtopexprs n) tl ++ [te])) -> PrimFloat.eqb q q = true) ->
  Forall (fresh_decl (glnames M) (argnames fn)) l -> fors_fresh (glnames M) (argnames fn) (fenv M fn) l ->
  (forall x, In x (map snd (f_args fn)) -> ~ In x (glnames M)) -> NoDup (map snd (f_args fn)) ->
  find (fun f => String.eqb (f_name f) (f_name fn) && f_export f) (m_funcs M) = Some fn -> find_func P (f_name fn) = Some F ->
  forall (ws : list rval) (g : RefSem.frame) (vs : vmstate),
    Forall2 (fun p w => has_ty w (fst p)) (f_args fn) ws -> GA M g vs ->
    forall fuel s g', ref_invoke M fuel (f_name fn) (combine (map snd (f_args fn)) (map SV ws)) g = RefSem.ROk (s, g') ->
      exists v vs', s = SV v /\ GA M g' vs' /\
        exists N, forall fuel', N <= fuel' -> invoke fuel' P (f_name fn) (combine (map snd (f_args fn)) (map v_of ws)) vs = Done (v_of v) vs'.
Proof.
  intros M P fn n l e tf F tl te Hbody Hs Hp Helab Hlower Htb Hlen Hk Hlit Hnan Hfr Hff Hdist Hnd Hfind HfindP ws g vs Hargs Hga fuel s g' Hinv.
  assert (Hlw : length ws = length (f_args fn)) by (clear -Hargs; induction Hargs; cbn; congruence).
  rewrite (ref_invoke_unfold M fuel _ _ g fn Hfind) in Hinv.
  pose proof (ref_bind_combine (f_args fn) ws [] [] Hnd eq_refl Hlw) as Hb. cbn [app] in Hb. rewrite Hb in Hinv. cbn [rbind] in Hinv.
  change {| locals := [[]; combine (map snd (f_args fn)) (map SV ws)]; globs := g |} with (call_state fn ws g) in Hinv.
  destruct (exec_list M fuel (f_body fn) (call_state fn ws g)) as [[fl st']| | |] eqn:Ex; cbn [rbind] in Hinv; try discriminate.
  destruct (loop_function_simulation M fn n l e tf F Hbody Hs Hp Helab Hlower tl te Htb Hlen Hk Hlit Hnan Hfr Hff P ws g vs Hargs Hdist Hga fuel fl st' Ex)
    as (v & vs' & -> & (N & Hrun) & (locals' & V' & A' & Hag) & Hnm).
  inversion Hinv; subst s g'; clear Hinv.
  exists v, vs'. split; [reflexivity|]. split.
  - apply (GA_after M fn l st' locals' V' A' vs' Hdist).
    + intros y Hy Hg'. clear -Hfr Hy Hg'. induction l as [|s0 r IH]; [destruct Hy|]. inversion Hfr; subst. cbn [flat_map] in Hy. apply in_app_or in Hy as [Hy|Hy]; [|apply IH; assumption].
      destruct s0; cbn in Hy; try contradiction. destruct Hy as [<-|[]]. cbn in H1. destruct H1 as [H1 _]. rewrite (existsb_true_in _ _ Hg') in H1. discriminate.
    + intros y Hy. destruct (Hnm y Hy) as [Hd|Hn]; [left; exact Hd|right].
      unfold locals_names, call_state in Hn. cbn [locals flat_map map app] in Hn. rewrite app_nil_r in Hn.
      clear -Hn Hlw. revert ws Hlw Hn. induction (f_args fn) as [|[t x] ps IH]; intros [|w ws] Hlw Hn; cbn in *; try contradiction; try discriminate.
      destruct Hn as [<-|Hn]; [left; reflexivity|right; apply (IH ws); [lia|exact Hn]].
    + exact Hag.
  - exists N. intros fuel' Hf. unfold invoke. rewrite HfindP. rewrite (lower_func_args _ _ _ _ Hlower), (elab_func_args _ _ _ _ Helab). rewrite map_map. cbn [fst].
    pose proof (vm_bind_combine (map snd (f_args fn)) ws [] [] Hnd eq_refl) as Hvb. cbn [app] in Hvb. rewrite map_map in Hvb. rewrite Hvb by (rewrite map_length; exact Hlw).
    apply Hrun. exact Hf.
Qed.

Inductive fn_ok_loop (M : module) (P : program) (fn : func) : Prop :=
  fn_ok_loop_intro : forall (n : nat) (l : list stmt) (e : expr) (tf : tfunc) (F : ifunc) (tl : list tstmt) (te : texpr),
    f_body fn = l ++ [SRet (Some e)] -> forallb (wstop n) l = true -> spure e = true ->
    elab_func (genv_of M) (genvl M) fn = EOk tf -> lower_func (m_structs M) (glnames M) tf = LOk F ->
    tf_body tf = tl ++ [TRet (Some te)] -> length tl = length l -> forallb tok (flat_map (wtopexprs n) tl ++ [te]) = true ->
    lits_exact (flat_map tflits (flat_map (wtopexprs n) tl ++ [te])) -> (forall q, In q (flat_map tflits (flat_map (wtopexprs n) tl ++ [te])) -> PrimFloat.eqb q q = true) ->
    Forall (fresh_decl (glnames M) (argnames fn)) l -> fors_fresh (glnames M) (argnames fn) (fenv M fn) l ->
    (forall x, In x (map snd (f_args fn)) -> ~ In x (glnames M)) -> NoDup (map snd (f_args fn)) ->
    find (fun f => String.eqb (f_name f) (f_name fn) && f_export f) (m_funcs M) = Some fn -> find_func P (f_name fn) = Some F ->
    fn_ok_loop M P fn.

Theorem history_refines_loop : forall (M : module) (P : program) (calls : list hcall),
  (forall c, In c calls -> fn_ok_loop M P (fst c) /\ Forall2 (fun p w => has_ty w (fst p)) (f_args (fst c)) (snd c)) ->
  forall fuel g vs rs g', GA M g vs -> ref_hist M fuel g calls = RefSem.ROk (rs, g') ->
  exists N, forall fuel', N <= fuel' ->
    exists vl vs', vm_hist fuel' P vs calls = Some (vl, vs') /\ Forall2 (fun s v => exists w, s = SV w /\ v = v_of w) rs vl /\ GA M g' vs'.
Proof.
  intros M P calls. induction calls as [|[fn ws] r IH]; intros Hok fuel g vs rs g' Hga Href.
  - cbn in Href. inversion Href; subst. exists 0. intros fuel' _. exists [], vs. split; [reflexivity|]. split; [apply Forall2_nil|exact Hga].
  - cbn [ref_hist] in Href.
    destruct (ref_invoke M fuel (f_name fn) (combine (map snd (f_args fn)) (map SV ws)) g) as [[s g1]| | |] eqn:Ei; cbn [rbind] in Href; try discriminate.
    destruct (ref_hist M fuel g1 r) as [[rs1 g2]| | |] eqn:Er; cbn [rbind] in Href; try discriminate. inversion Href; subst rs g'; clear Href. cbn [fst snd].
    destruct (Hok (fn, ws) (or_introl eq_refl)) as [Hfn Hty]. cbn [fst snd] in Hfn, Hty.
    destruct Hfn as [n l e tf F tl te H1 H2 H3 H4 H5 H6 H7 H8 H9 H10 H11 H11f H12 H13 H14 H15].
    destruct (call_refines_loop M P fn n l e tf F tl te H1 H2 H3 H4 H5 H6 H7 H8 H9 H10 H11 H11f H12 H13 H14 H15 ws g vs Hty Hga fuel s g1 Ei) as (v & vs1 & -> & Hga1 & n1 & Hrun1).
    destruct (IH (fun c Hc => Hok c (or_intror Hc)) fuel g1 vs1 rs1 g2 Hga1 Er) as (n2 & Hrun2).
    exists (Nat.max n1 n2). intros fuel' Hf. destruct (Hrun2 fuel' ltac:(lia)) as (vl & vs' & Hh & Hf2 & Hga2).
    exists (v_of v :: vl), vs'. cbn [vm_hist]. rewrite (Hrun1 fuel' ltac:(lia)), Hh. split; [reflexivity|]. split; [|exact Hga2].
    constructor; [exists v; auto|exact Hf2].
Qed.
