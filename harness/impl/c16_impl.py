"""Implementation side of C16: compile modules separately (dependency order), store them as <name>.nslir in a private
directory, link by import with a counting loader for every requested order of AddModule, run the calls; compile and
run the single-module version of the same functions."""
import sys, json, io, contextlib, os, pickle, tempfile, shutil
sys.path.insert(0, os.path.dirname(os.path.abspath(__file__)))
from nsl import Compiler, LinearIR, VM
import irdump
from compile_impl import classify_exc, jsonable, unjson


class CountingLoader(LinearIR.FilesystemModuleLoader):
    def __init__(self):
        self.trace = []
    def Load(self, name):
        self.trace.append(name)
        return super().Load(name)


def run_calls(prog, calls):
    out = []
    vm = VM.VirtualMachine(prog)
    for c in calls:
        try:
            for g, v in c.get("globals", {}).items():
                vm.SetGlobal(g, unjson(v))
            rv = vm.Invoke(c["fn"], **{k: unjson(v) for k, v in c["args"].items()})
            out.append({"ret": jsonable(rv), "globals": {g: jsonable(vm.GetGlobal(g)) for g in c.get("read_globals", [])}})
        except BaseException as e:
            out.append({"fail": classify_exc(e)}); break
    return out


def run(job):
    cwd = os.getcwd()
    d = tempfile.mkdtemp(dir="/dev/shm", prefix="c16_")
    os.chdir(d)
    res = {"modules": {}, "links": []}
    buf = io.StringIO()
    try:
        with contextlib.redirect_stdout(buf), contextlib.redirect_stderr(buf):
            compiled = {}
            for name in job["order"]:
                try:
                    r = Compiler.Compiler().Compile(job["modules"][name], dict(job.get("opts", {})))
                    if r is None:
                        res["modules"][name] = {"error": {"exc": None, "stage": "returned-none"}}; continue
                    if os.path.dirname(name):
                        os.makedirs(os.path.dirname(name), exist_ok=True)
                    pickle.dump(r.IRModule, open(name + ".nslir", "wb"))
                    compiled[name] = r.IRModule
                    res["modules"][name] = {"fnkeys": list(r.IRModule.Functions.keys()), "globals": list(r.IRModule.Globals.keys()),
                                            "imports": sorted(r.IRModule.Imports)}
                except BaseException as e:
                    res["modules"][name] = {"error": classify_exc(e)}
            for adds in job["adds"]:
                entry = {"adds": adds}
                try:
                    loader = CountingLoader()
                    l = LinearIR.Linker(loader=loader)
                    for name in adds:
                        # a fresh copy of the stored module for every link (Link mutates nothing, but stay independent)
                        l.AddModule(pickle.load(open(name + ".nslir", "rb")))
                    prog = l.Link()
                    entry["ok"] = True
                    entry["trace"] = loader.trace
                    entry["fnkeys"] = list(prog.Functions.keys()); entry["globals"] = list(prog.Globals.keys())
                    entry["ir"] = irdump.program(prog)
                    entry["calls"] = run_calls(prog, job["calls"])
                except BaseException as e:
                    entry["ok"] = False; entry["error"] = classify_exc(e)
                res["links"].append(entry)
            try:
                r = Compiler.Compiler().Compile(job["single"], dict(job.get("opts", {})))
                l = LinearIR.Linker(); l.AddModule(r.IRModule); prog = l.Link()
                res["single"] = {"ok": True, "calls": run_calls(prog, job["calls"]), "fnkeys": list(prog.Functions.keys())}
            except BaseException as e:
                res["single"] = {"ok": False, "error": classify_exc(e)}
    finally:
        os.chdir(cwd)
        shutil.rmtree(d, ignore_errors=True)
    return res


if __name__ == "__main__":
    jobs = json.load(open(sys.argv[1]))
    json.dump([run(j) for j in jobs], open(sys.argv[2], "w"))
