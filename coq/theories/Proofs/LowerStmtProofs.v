(** * C01, straight-line statements: declarations (with or without initialiser) and assignments to scalar variables,
    lowered by [lower_stmt], run on the VM model as [texec] prescribes: a declaration creates the zero of its type and
    registers the name as a local, an initialiser or assignment evaluates its (pure) right-hand side with [teval] and
    stores into the variable the name denotes at that point (global, argument by index, local). *)
From Coq Require Import String ZArith List Bool PrimFloat Arith Lia.
From NSL Require Import Base.Types Base.Syntax Model.PyNum Model.IR Model.VM Model.WfIR Model.Elab Model.Lower Model.Opt
                        Proofs.WfIRProofs Proofs.OptProofs Proofs.LowerExprProofs Proofs.ForwardProofs.
Import ListNotations.

Lemma runs_sruns F is : forall pc fr vs fr', runs F pc is fr vs fr' -> sruns F pc is fr vs fr' vs.
Proof. induction is as [|i r IH]; intros pc fr vs fr' H; inversion H; subst; [constructor|econstructor; [eassumption|apply IH; assumption]]. Qed.
Lemma sruns_app F is1 : forall pc is2 fr vs fr1 vs1 fr2 vs2, sruns F pc is1 fr vs fr1 vs1 -> sruns F (pc + length is1) is2 fr1 vs1 fr2 vs2 -> sruns F pc (is1 ++ is2) fr vs fr2 vs2.
Proof.
  induction is1 as [|i is1 IH]; intros pc is2 fr vs fr1 vs1 fr2 vs2 H1 H2; inversion H1; subst; cbn in *.
  - rewrite Nat.add_0_r in H2. exact H2.
  - econstructor; [eassumption|]. eapply IH; [eassumption|]. replace (S pc + length is1) with (pc + S (length is1)) by lia. exact H2.
Qed.

Definition zero_val (t : irty) : val := match t with ITFloat => VFloat zero | _ => VInt 0 end.
Definition mkfr (V : list (string * val)) (A : list val) : frame := {| regs := []; vars := V; fargs := A |}.

Section Stmt.
  Variable structs : list sdef.
  Variable gl args : list string.
  Notation adt := (adapt structs 8).
  Notation tev := (teval structs gl args).

  Definition simple (s : tstmt) : bool :=
    match s with
    | TDecl (TPrim (PScalar _)) _ None => true
    | TDecl (TPrim (PScalar _)) _ (Some e) => tpure e
    | TExpr (XAssign (XVar _ (TPrim (PScalar _))) e) => tpure e
    | _ => false
    end.

  (** where an assignment to [x] goes *)
  Definition store_var (locals : list string) (V : list (string * val)) (A : list val) (vs : vmstate) (x : string) (w : val)
    : option (list (string * val) * list val * vmstate) :=
    if existsb (String.eqb x) gl then Some (V, A, {| globals := supdate x w (globals vs); hp := hp vs |})
    else if existsb (String.eqb x) args then
      match arg_idx args x with VIndex n => if Nat.ltb n (length A) then Some (V, list_set A n w, vs) else None | VName _ => None end
    else if existsb (String.eqb x) locals then Some (supdate x w V, A, vs)
    else None.

  Definition texec (cs : list (nat * irty * cval)) (locals : list string) (V : list (string * val)) (A : list val) (vs : vmstate) (s : tstmt)
    : option (list string * list (string * val) * list val * vmstate) :=
    match s with
    | TDecl t x None => Some (x :: locals, supdate x (zero_val (adt t)) V, A, vs)
    | TDecl t x (Some e) =>
        let V1 := supdate x (zero_val (adt t)) V in
        match tev cs (x :: locals) (mkfr V1 A) vs e with
        | Ok w => Some (x :: locals, supdate x w V1, A, vs)
        | _ => None
        end
    | TExpr (XAssign (XVar x _) e) =>
        match tev cs locals (mkfr V A) vs e with
        | Ok w => match store_var locals V A vs x w with Some (V', A', vs') => Some (locals, V', A', vs') | None => None end
        | _ => None
        end
    | _ => None
    end.

  Definition ssem_ok (st st' : lstate) (s : tstmt) (is : list instr) : Prop :=
    forall F pc fr vs cs locals' V' A' vs',
      (exists more, cs = l_consts st' ++ more) ->
      (forall c, In c cs -> rlookup (cref c) (regs fr) = Some (const_val (snd c))) ->
      (forall c i, In c cs -> In i is -> cref c <> i_ref i) ->
      texec cs (l_locals st) (vars fr) (fargs fr) vs s = Some (locals', V', A', vs') ->
      l_locals st' = locals' /\
      exists fr', sruns F pc (map (finish_instr args) (map LI is)) fr vs fr' vs' /\ vars fr' = V' /\ fargs fr' = A' /\
                  (forall q, (forall i, In i is -> i_ref i <> q) -> rlookup q (regs fr') = rlookup q (regs fr)).

  Lemma register_local_inv st x : linv st -> linv (register_local st x).
  Proof. intros I. constructor; cbn; apply I. Qed.

  Lemma step_newvar F pc fr vs ref c x :
    step F pc fr vs {| i_ref := ref; i_ty := adt (TPrim (PScalar c)); i_body := INewVar x |} =
    StNext (S pc) (rset {| regs := regs fr; vars := supdate x (zero_val (adt (TPrim (PScalar c)))) (vars fr); fargs := fargs fr |} ref (zero_val (adt (TPrim (PScalar c))))) vs.
  Proof. unfold step. cbn [i_body i_ty i_ref]. destruct c; cbn; rewrite with_heap_same; reflexivity. Qed.

  Lemma lower_simple_correct : forall s st st', simple s = true -> linv st -> lower_stmt structs gl args s st = LOk st' ->
    linv st' /\ l_next st <= l_next st' /\
    (exists new, l_consts st' = l_consts st ++ new /\ forall c, In c new -> l_next st <= cref c) /\
    exists is, lcode st' = lcode st ++ map LI is /\ (forall i, In i is -> l_next st <= i_ref i < l_next st') /\
               (forall c i, In c (l_consts st') -> In i is -> cref c <> i_ref i) /\ ssem_ok st st' s is.
  Proof.
    intros s st st' Hs I H. destruct s as [t x init|e| | | | | | | | ]; try discriminate.
    - (* declaration *)
      destruct t as [[c| |]| | |]; try discriminate. cbn [lower_stmt] in H. unfold lower_decl in H.
      pose proof (register_local_inv st x I) as I0.
      match type of H with context [emit ?s0 ?t ?b] => destruct (emit s0 t b) as [st1 r1] eqn:E1 end.
      destruct (emit_spec _ _ _ _ _ I0 E1) as (I1 & Hcode1 & Hcs1 & Hl1 & _ & _ & Hlo1 & Hhi1). cbn [register_local l_next l_consts l_locals] in *.
      set (nv := {| i_ref := r1; i_ty := adapt structs 8 (TPrim (PScalar c)); i_body := INewVar x |}) in *.
      assert (Hcode1' : lcode st1 = lcode st ++ [LI nv]) by exact Hcode1.
      destruct init as [e|].
      + cbn [simple] in Hs. cbn [lbind] in H.
        destruct (lower_expr structs gl args e st1) as [[v st2]| |] eqn:Ee; cbn [lbind] in H; try discriminate.
        match type of H with context [emit st2 ?t ?b] => destruct (emit st2 t b) as [st3 r3] eqn:E3 end. inversion H; subst st'; clear H.
        destruct (lower_pure_correct structs gl args e st1 v st2 Hs I1 Ee) as (I2 & Hl2 & Hn2 & Hv & (new2 & Hc2 & Hg2) & is2 & Hcode2 & Hr2 & Hd2 & Hsem2).
        destruct (emit_spec _ _ _ _ _ I2 E3) as (I3 & Hcode3 & Hcs3 & Hl3 & _ & _ & Hlo3 & Hhi3).
        set (sto := {| i_ref := r3; i_ty := adapt structs 8 (TPrim (PScalar c)); i_body := IStore SLocal (VName x) v |}) in *.
        split; [exact I3|]. split; [lia|]. split; [exists new2; split; [rewrite Hcs3, Hc2, Hcs1; reflexivity|intros c0 Hc0; specialize (Hg2 c0 Hc0); lia]|].
        exists (nv :: is2 ++ [sto]). split; [rewrite Hcode3, Hcode2, Hcode1'; cbn [map]; rewrite map_app, <- !app_assoc; reflexivity|].
        split.
        { intros i [<-|Hi]; [cbn; lia|]. apply in_app_or in Hi as [Hi|[<-|[]]]; [specialize (Hr2 i Hi); lia|cbn; lia]. }
        split.
        { intros c0 i Hc0 Hi. rewrite Hcs3 in Hc0. destruct Hi as [<-|Hi].
          - rewrite Hc2 in Hc0. apply in_app_or in Hc0 as [Hc0|Hc0]; [rewrite Hcs1 in Hc0; pose proof (inv_consts_below _ I c0 Hc0); cbn; lia|specialize (Hg2 c0 Hc0); cbn; lia].
          - apply in_app_or in Hi as [Hi|[<-|[]]]; [apply Hd2; assumption|]. pose proof (inv_consts_below _ I2 c0 Hc0). cbn. lia. }
        intros F pc fr vs cs locals' V' A' vs' [more Hcs] Hc Hdisj Hte. cbn [texec] in Hte.
        set (z := zero_val (adapt structs 8 (TPrim (PScalar c)))) in *.
        destruct (teval structs gl args cs (x :: l_locals st) (mkfr (supdate x z (vars fr)) (fargs fr)) vs e) as [w| |] eqn:Ew; try discriminate.
        inversion Hte; subst locals' V' A' vs'; clear Hte.
        split; [rewrite Hl3, Hl2, Hl1; reflexivity|].
        set (fr1 := rset {| regs := regs fr; vars := supdate x z (vars fr); fargs := fargs fr |} r1 z).
        destruct (Hsem2 F (S pc) fr1 vs cs w) as (fr2 & Hrun2 & Hgv & Hv2 & Ha2 & Hf2).
        { exists more. rewrite Hcs, Hcs3. reflexivity. }
        { intros c0 Hc0. unfold fr1. cbn [rset regs]. rewrite rlookup_update_other; [apply Hc; exact Hc0|]. intro E. apply (Hdisj c0 nv Hc0); [left; reflexivity|exact E]. }
        { intros c0 i Hc0 Hi. apply Hdisj; [exact Hc0|]. right. apply in_or_app. left. exact Hi. }
        { rewrite Hl1. cbn [register_local l_locals]. rewrite <- Ew. apply teval_frame; reflexivity. }
        exists {| regs := regs (rset fr2 r3 w); vars := supdate x w (vars (rset fr2 r3 w)); fargs := fargs (rset fr2 r3 w) |}.
        split; [|split; [cbn; rewrite Hv2; reflexivity|split; [cbn; rewrite Ha2; reflexivity|]]].
        * cbn [map]. econstructor; [apply step_newvar|]. fold z. fold fr1. rewrite !map_app. eapply sruns_app; [apply runs_sruns; exact Hrun2|].
          rewrite !map_length. econstructor; [|constructor]. unfold sto. cbn [map finish_instr i_body i_ref i_ty]. unfold step. cbn [i_body i_ref i_ty]. rewrite Hgv. cbn [lift]. reflexivity.
        * intros q Hq. cbn [regs rset]. rewrite rlookup_update_other by (intro E; apply (Hq sto); [right; apply in_or_app; right; left; reflexivity|exact (eq_sym E)]).
          rewrite Hf2 by (intros i Hi; apply Hq; right; apply in_or_app; left; exact Hi).
          unfold fr1. cbn [rset regs]. apply rlookup_update_other. intro E. apply (Hq nv); [left; reflexivity|exact (eq_sym E)].
      + inversion H; subst st'; clear H.
        split; [exact I1|]. split; [lia|]. split; [exists []; split; [rewrite app_nil_r; exact Hcs1|intros ? []]|].
        exists [nv]. split; [exact Hcode1'|]. split; [intros i [<-|[]]; cbn; lia|].
        split; [intros c0 i Hc0 [<-|[]]; rewrite Hcs1 in Hc0; pose proof (inv_consts_below _ I c0 Hc0); cbn; lia|].
        intros F pc fr vs cs locals' V' A' vs' _ Hc Hdisj Hte. cbn [texec] in Hte. inversion Hte; subst; clear Hte.
        split; [exact Hl1|]. eexists. split; [cbn [map]; econstructor; [apply step_newvar|constructor]|].
        split; [reflexivity|]. split; [reflexivity|]. intros q Hq. cbn [rset regs]. apply rlookup_update_other. intro E. apply (Hq nv); [left; reflexivity|exact (eq_sym E)].
    - (* assignment statement *)
      destruct e as [| | | | |l r0| | | | |]; try discriminate. destruct l as [| |x t| | | | | | | |]; try discriminate.
      destruct t as [[c| |]| | |]; try discriminate. cbn [simple] in Hs. cbn [lower_stmt lower_expr lbind] in H.
      destruct (lower_expr structs gl args r0 st) as [[v st1]| |] eqn:Ee; cbn [lbind] in H; try discriminate.
      destruct (scope_of gl args st1 x) as [sc| |] eqn:Esc; cbn [lbind] in H; try discriminate.
      match type of H with context [emit st1 ?t ?b] => destruct (emit st1 t b) as [st2 r2] eqn:E2 end. cbn [lbind snd] in H. inversion H; subst st'; clear H.
      destruct (lower_pure_correct structs gl args r0 st v st1 Hs I Ee) as (I1 & Hl1 & Hn1 & Hv & (new1 & Hc1 & Hg1) & is1 & Hcode1 & Hr1 & Hd1 & Hsem1).
      destruct (emit_spec _ _ _ _ _ I1 E2) as (I2 & Hcode2 & Hcs2 & Hl2 & _ & _ & Hlo2 & Hhi2).
      set (sto := {| i_ref := r2; i_ty := adapt structs 8 (TPrim (PScalar c)); i_body := IStore sc (VName x) v |}) in *.
      split; [exact I2|]. split; [lia|]. split; [exists new1; split; [rewrite Hcs2; exact Hc1|exact Hg1]|].
      exists (is1 ++ [sto]). split; [rewrite Hcode2, Hcode1, map_app, <- app_assoc; reflexivity|].
      split; [intros i Hi; apply in_app_or in Hi as [Hi|[<-|[]]]; [specialize (Hr1 i Hi); lia|cbn; lia]|].
      split.
      { intros c0 i Hc0 Hi. rewrite Hcs2 in Hc0. apply in_app_or in Hi as [Hi|[<-|[]]]; [apply Hd1; assumption|]. pose proof (inv_consts_below _ I1 c0 Hc0). cbn. lia. }
      intros F pc fr vs cs locals' V' A' vs' [more Hcs] Hc Hdisj Hte. cbn [texec] in Hte.
      destruct (teval structs gl args cs (l_locals st) (mkfr (vars fr) (fargs fr)) vs r0) as [w| |] eqn:Ew; try discriminate.
      destruct (store_var (l_locals st) (vars fr) (fargs fr) vs x w) as [[[V1 A1] vs1]|] eqn:Est; [|discriminate]. inversion Hte; subst locals' V' A' vs'; clear Hte.
      split; [rewrite Hl2, Hl1; reflexivity|].
      destruct (Hsem1 F pc fr vs cs w) as (fr1 & Hrun1 & Hgv & Hv1 & Ha1 & Hf1).
      { exists more. rewrite Hcs, Hcs2. reflexivity. }
      { exact Hc. }
      { intros c0 i Hc0 Hi. apply Hdisj; [exact Hc0|]. apply in_or_app. left. exact Hi. }
      { rewrite <- Ew. apply teval_frame; reflexivity. }
      unfold store_var in Est. unfold scope_of in Esc. rewrite Hl1 in Esc.
      destruct (existsb (String.eqb x) gl) eqn:Eg.
      + inversion Esc; subst sc. inversion Est; subst V1 A1 vs1.
        exists (rset fr1 r2 w). split; [|split; [cbn; exact Hv1|split; [cbn; exact Ha1|]]].
        * rewrite !map_app. eapply sruns_app; [apply runs_sruns; exact Hrun1|]. rewrite !map_length. econstructor; [|constructor].
          unfold sto. cbn [map finish_instr i_body i_ref i_ty]. unfold step. cbn [i_body i_ref i_ty]. rewrite Hgv. cbn [lift]. reflexivity.
        * intros q Hq. cbn [rset regs]. rewrite rlookup_update_other by (intro E; apply (Hq sto); [apply in_or_app; right; left; reflexivity|exact (eq_sym E)]).
          apply Hf1. intros i Hi. apply Hq. apply in_or_app. left. exact Hi.
      + destruct (existsb (String.eqb x) args) eqn:Ea.
        * inversion Esc; subst sc. destruct (arg_idx args x) as [s0|n] eqn:Ei; [discriminate|]. destruct (Nat.ltb n (length (fargs fr))) eqn:El; [|discriminate].
          inversion Est; subst V1 A1 vs1.
          exists {| regs := regs (rset fr1 r2 w); vars := vars (rset fr1 r2 w); fargs := list_set (fargs (rset fr1 r2 w)) n w |}.
          split; [|split; [cbn; exact Hv1|split; [cbn; rewrite Ha1; reflexivity|]]].
          -- rewrite !map_app. eapply sruns_app; [apply runs_sruns; exact Hrun1|]. rewrite !map_length. econstructor; [|constructor].
             unfold sto. cbn [map finish_instr i_body i_ref i_ty]. fold (arg_idx args x). rewrite Ei. unfold step. cbn [i_body i_ref i_ty]. rewrite Hgv. cbn [lift].
             cbn [rset fargs]. rewrite Ha1, El. reflexivity.
          -- intros q Hq. cbn [rset regs]. rewrite rlookup_update_other by (intro E; apply (Hq sto); [apply in_or_app; right; left; reflexivity|exact (eq_sym E)]).
             apply Hf1. intros i Hi. apply Hq. apply in_or_app. left. exact Hi.
        * destruct (existsb (String.eqb x) (l_locals st)) eqn:Elo; [|discriminate]. inversion Esc; subst sc. inversion Est; subst V1 A1 vs1.
          exists {| regs := regs (rset fr1 r2 w); vars := supdate x w (vars (rset fr1 r2 w)); fargs := fargs (rset fr1 r2 w) |}.
          split; [|split; [cbn; rewrite Hv1; reflexivity|split; [cbn; exact Ha1|]]].
          -- rewrite !map_app. eapply sruns_app; [apply runs_sruns; exact Hrun1|]. rewrite !map_length. econstructor; [|constructor].
             unfold sto. cbn [map finish_instr i_body i_ref i_ty]. unfold step. cbn [i_body i_ref i_ty]. rewrite Hgv. cbn [lift]. reflexivity.
          -- intros q Hq. cbn [rset regs]. rewrite rlookup_update_other by (intro E; apply (Hq sto); [apply in_or_app; right; left; reflexivity|exact (eq_sym E)]).
             apply Hf1. intros i Hi. apply Hq. apply in_or_app. left. exact Hi.
  Qed.

  (** ** statement lists *)
  Fixpoint texec_list (cs : list (nat * irty * cval)) (locals : list string) (V : list (string * val)) (A : list val) (vs : vmstate) (l : list tstmt)
    : option (list string * list (string * val) * list val * vmstate) :=
    match l with
    | [] => Some (locals, V, A, vs)
    | s :: r => match texec cs locals V A vs s with
                | Some (locals1, V1, A1, vs1) => texec_list cs locals1 V1 A1 vs1 r
                | None => None
                end
    end.

  Definition lsem_ok (st st' : lstate) (l : list tstmt) (is : list instr) : Prop :=
    forall F pc fr vs cs locals' V' A' vs',
      (exists more, cs = l_consts st' ++ more) ->
      (forall c, In c cs -> rlookup (cref c) (regs fr) = Some (const_val (snd c))) ->
      (forall c i, In c cs -> In i is -> cref c <> i_ref i) ->
      texec_list cs (l_locals st) (vars fr) (fargs fr) vs l = Some (locals', V', A', vs') ->
      l_locals st' = locals' /\
      exists fr', sruns F pc (map (finish_instr args) (map LI is)) fr vs fr' vs' /\ vars fr' = V' /\ fargs fr' = A' /\
                  (forall q, (forall i, In i is -> i_ref i <> q) -> rlookup q (regs fr') = rlookup q (regs fr)).

  Lemma lower_body_simple : forall l st st', forallb simple l = true -> linv st -> lower_body structs gl args l st = LOk st' ->
    linv st' /\ l_next st <= l_next st' /\
    (exists new, l_consts st' = l_consts st ++ new /\ forall c, In c new -> l_next st <= cref c) /\
    exists is, lcode st' = lcode st ++ map LI is /\ (forall i, In i is -> l_next st <= i_ref i < l_next st') /\
               (forall c i, In c (l_consts st') -> In i is -> cref c <> i_ref i) /\ lsem_ok st st' l is.
  Proof.
    induction l as [|s r IH]; intros st st' Hs I H.
    - cbn in H. inversion H; subst st'. split; [exact I|]. split; [lia|]. split; [exists []; split; [rewrite app_nil_r; reflexivity|intros ? []]|].
      exists []. split; [rewrite app_nil_r; reflexivity|]. split; [intros ? []|]. split; [intros ? ? ? []|].
      intros F pc fr vs cs locals' V' A' vs' _ _ _ Hte. cbn in Hte. inversion Hte; subst. split; [reflexivity|]. exists fr. split; [constructor|auto].
    - cbn [forallb] in Hs. apply andb_prop in Hs as [Hs1 Hsr]. cbn [lower_body lbind] in H.
      destruct (lower_stmt structs gl args s st) as [st1| |] eqn:E1; cbn [lbind] in H; try discriminate.
      destruct (lower_simple_correct s st st1 Hs1 I E1) as (I1 & Hn1 & (new1 & Hc1 & Hg1) & is1 & Hcode1 & Hr1 & Hd1 & Hsem1).
      destruct (IH st1 st' Hsr I1 H) as (I2 & Hn2 & (new2 & Hc2 & Hg2) & is2 & Hcode2 & Hr2 & Hd2 & Hsem2).
      split; [exact I2|]. split; [lia|].
      split; [exists (new1 ++ new2); split; [rewrite Hc2, Hc1, app_assoc; reflexivity|intros c0 Hc0; apply in_app_or in Hc0 as [Hc0|Hc0]; [apply Hg1; exact Hc0|specialize (Hg2 c0 Hc0); lia]]|].
      exists (is1 ++ is2). split; [rewrite Hcode2, Hcode1, map_app, <- app_assoc; reflexivity|].
      split; [intros i Hi; apply in_app_or in Hi as [Hi|Hi]; [specialize (Hr1 i Hi); lia|specialize (Hr2 i Hi); lia]|].
      split.
      { intros c0 i Hc0 Hi. rewrite Hc2 in Hc0. apply in_app_or in Hc0 as [Hc0|Hc0].
        - apply in_app_or in Hi as [Hi|Hi]; [apply Hd1; assumption|]. pose proof (inv_consts_below _ I1 c0 Hc0). specialize (Hr2 i Hi). lia.
        - apply in_app_or in Hi as [Hi|Hi]; [specialize (Hg2 c0 Hc0); specialize (Hr1 i Hi); lia|apply Hd2; [rewrite Hc2; apply in_or_app; right; exact Hc0|exact Hi]]. }
      intros F pc fr vs cs locals' V' A' vs' [more Hcs] Hc Hdisj Hte. cbn [texec_list] in Hte.
      destruct (texec cs (l_locals st) (vars fr) (fargs fr) vs s) as [[[[locals1 V1] A1] vs1]|] eqn:Et; [|discriminate].
      destruct (Hsem1 F pc fr vs cs locals1 V1 A1 vs1) as (Hloc1 & fr1 & Hrun1 & Hv1 & Ha1 & Hf1).
      { exists (new2 ++ more). rewrite Hcs, Hc2, <- app_assoc. reflexivity. }
      { exact Hc. }
      { intros c0 i Hc0 Hi. apply Hdisj; [exact Hc0|]. apply in_or_app. left. exact Hi. }
      { exact Et. }
      destruct (Hsem2 F (pc + length is1) fr1 vs1 cs locals' V' A' vs') as (Hloc2 & fr2 & Hrun2 & Hv2 & Ha2 & Hf2).
      { exists more. exact Hcs. }
      { intros c0 Hc0. rewrite Hf1; [apply Hc; exact Hc0|]. intros i Hi E. apply (Hdisj c0 i Hc0); [apply in_or_app; left; exact Hi|congruence]. }
      { intros c0 i Hc0 Hi. apply Hdisj; [exact Hc0|]. apply in_or_app. right. exact Hi. }
      { rewrite Hloc1, Hv1, Ha1. exact Hte. }
      split; [exact Hloc2|]. exists fr2. split; [|split; [exact Hv2|split; [exact Ha2|]]].
      + rewrite !map_app. eapply sruns_app; [exact Hrun1|]. rewrite !map_length. exact Hrun2.
      + intros q Hq. rewrite Hf2 by (intros i Hi; apply Hq; apply in_or_app; right; exact Hi). apply Hf1. intros i Hi. apply Hq. apply in_or_app. left. exact Hi.
  Qed.

  Lemma lower_body_app l1 : forall l2 st, lower_body structs gl args (l1 ++ l2) st = (ldo st1 <- lower_body structs gl args l1 st; lower_body structs gl args l2 st1).
  Proof. induction l1 as [|s r IH]; intros l2 st; cbn; [reflexivity|]. destruct (lower_stmt structs gl args s st); cbn; [apply IH|reflexivity|reflexivity]. Qed.
End Stmt.

(** ** functions: simple statements, then [return e] *)
Theorem straight_function_correct structs gl (f : tfunc) l te F :
  tf_body f = l ++ [TRet (Some te)] -> forallb simple l = true -> tpure te = true -> lower_func structs gl f = LOk F ->
  forall P argv vs locals' V' A' vs' v,
    texec_list structs gl (map snd (tf_args f)) (fn_consts F) [] [] argv vs l = Some (locals', V', A', vs') ->
    teval structs gl (map snd (tf_args f)) (fn_consts F) locals' (mkfr V' A') vs' te = Ok v ->
    exists n, forall fuel, n <= fuel -> run fuel P F 0 {| regs := init_regs F; vars := []; fargs := argv |} vs = Done v vs'.
Proof.
  intros Hbody Hs Hp Hlow P argv vs locals' V' A' vs' v Hte Hv. unfold lower_func in Hlow. rewrite Hbody in Hlow. fold lstate0 in Hlow.
  rewrite lower_body_app in Hlow.
  destruct (lower_body structs gl (map snd (tf_args f)) l lstate0) as [st1| |] eqn:E1; cbn [lbind] in Hlow; try discriminate.
  cbn [lower_body lower_stmt lower_opt lbind] in Hlow.
  destruct (lower_expr structs gl (map snd (tf_args f)) te st1) as [[r st2]| |] eqn:El; cbn [lbind fst snd] in Hlow; try discriminate.
  match type of Hlow with context [emit st2 ?t ?bd] => destruct (emit st2 t bd) as [st3 ref] eqn:Ee end. cbn [lbind] in Hlow.
  inversion Hlow; subst F; clear Hlow.
  destruct (lower_body_simple structs gl (map snd (tf_args f)) l lstate0 st1 Hs linv0 E1) as (I1 & _ & (new1 & Hc1 & Hg1) & is1 & Hcode1 & Hr1 & Hd1 & Hsem1).
  destruct (lower_pure_correct structs gl (map snd (tf_args f)) te st1 r st2 Hp I1 El) as (I2 & Hl2 & Hn2 & Hr & (new2 & Hc2 & Hg2) & is2 & Hcode2 & Hr2 & Hd2 & Hsem2).
  destruct (emit_spec _ _ _ _ _ I2 Ee) as (I3 & Hcode3 & Hc3 & _).
  cbn [fn_consts end_block l_consts] in *.
  set (F := {| fn_name := tf_name f; fn_args := _; fn_ret := _; fn_consts := l_consts st3; fn_blocks := _ |}) in *.
  set (fr0 := {| regs := init_regs F; vars := []; fargs := argv |}) in *.
  assert (Hregs0 : forall c, In c (l_consts st3) -> rlookup (cref c) (regs fr0) = Some (const_val (snd c))).
  { intros c Hc. unfold fr0, init_regs. cbn [regs fn_consts F]. apply init_regs_lookup; [apply I3|exact Hc]. }
  destruct (Hsem1 F 0 fr0 vs (l_consts st3) locals' V' A' vs') as (Hloc & fr1 & Hrun1 & Hv1 & Ha1 & Hf1).
  { exists new2. rewrite Hc3, Hc2. reflexivity. }
  { exact Hregs0. }
  { intros c i Hc Hi. rewrite Hc3, Hc2 in Hc. apply in_app_or in Hc as [Hc|Hc]; [apply Hd1; assumption|]. specialize (Hg2 c Hc). specialize (Hr1 i Hi). lia. }
  { exact Hte. }
  destruct (Hsem2 F (length is1) fr1 vs' (l_consts st3) v) as (fr2 & Hrun2 & Hg & _).
  { exists []. rewrite app_nil_r. exact Hc3. }
  { intros c Hc. rewrite Hf1; [apply Hregs0; exact Hc|]. intros i Hi E. rewrite Hc3, Hc2 in Hc. apply in_app_or in Hc as [Hc|Hc].
    - apply (Hd1 c i Hc Hi). congruence.
    - specialize (Hg2 c Hc). specialize (Hr1 i Hi). lia. }
  { intros c i Hc Hi. apply Hd2; [rewrite <- Hc3; exact Hc|exact Hi]. }
  { rewrite Hloc. rewrite <- Hv. apply teval_frame; [exact Hv1|exact Ha1]. }
  set (ret := {| i_ref := ref; i_ty := match Some te with Some e' => adapt structs 8 (type_of e') | None => ITVoid end; i_body := IRet (Some r) |}).
  assert (Hflat : flat_code F = [] ++ (map (finish_instr (map snd (tf_args f))) (map LI is1) ++ map (finish_instr (map snd (tf_args f))) (map LI is2)) ++ [ret]).
  { unfold flat_code, F. cbn [fn_blocks end_block l_blocks]. rewrite flat_code_lowered. fold (lcode st3). rewrite Hcode3, Hcode2, Hcode1. cbn [lcode lstate0 l_blocks flat_map app].
    rewrite !map_app. rewrite <- !app_assoc. reflexivity. }
  assert (Hruns : sruns F 0 (map (finish_instr (map snd (tf_args f))) (map LI is1) ++ map (finish_instr (map snd (tf_args f))) (map LI is2)) fr0 vs fr2 vs').
  { eapply sruns_app; [exact Hrun1|]. rewrite !map_length. apply runs_sruns. exact Hrun2. }
  set (code := map (finish_instr (map snd (tf_args f))) (map LI is1) ++ map (finish_instr (map snd (tf_args f))) (map LI is2)) in *.
  exists (length code + 1). intros fuel Hf. replace fuel with (length code + (fuel - length code)) by lia.
  rewrite (run_sruns P F code 0 fr0 vs fr2 vs' (fuel - length code) [] [ret] Hruns Hflat eq_refl).
  destruct (fuel - length code) as [|k] eqn:Ek; [lia|]. cbn [run Nat.add]. rewrite Hflat. cbn [app]. rewrite nth_error_app2 by lia. rewrite Nat.sub_diag. cbn [nth_error].
  unfold step, ret. cbn [i_body]. rewrite Hg. reflexivity.
Qed.
