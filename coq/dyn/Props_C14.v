(** * C14 -- Every compiled IR module is well-formed.  Statements only. *)
From Coq Require Import String ZArith List Bool Arith.
From NSL Require Import Base.Types Base.Syntax Model.PyNum Model.IR Model.VM Model.WfIR Model.Elab Model.Lower Proofs.WfIRProofs
     Proofs.LowerExprProofs Proofs.LowerStmtProofs Proofs.LowerWfProofs Proofs.LowerAllocProofs.
From NSLDyn Require Gen_Shapes.
Import ListNotations.

(** What well-formedness buys, for every IR program, every function, every input and every execution length:
    in a program that passes the check (unique references; every operand a constant or defined earlier in the same
    block; branch targets existing blocks, both when conditional; calls resolving with equal arity) the VM never
    reads an undefined operand, never branches to a missing block and never calls a missing function.
    (The check itself is run on the IR the real compiler produced, at both optimisation settings.) *)
Theorem C14_wellformed_never_undefined : forall fuel P, wf_program_b P = true ->
    forall F pc fr st, In F (p_funcs P) ->
      (nth_error (marked F) pc = None \/ inv F pc fr) ->
      ~ bad (run fuel P F pc fr st).
Proof. exact wf_run_sound. Qed.

Theorem C14_wellformed_invoke : forall fuel P fn named st, wf_program_b P = true ->
    find_func P fn <> None -> ~ bad (invoke fuel P fn named st).
Proof. exact wf_invoke_sound. Qed.

(** The compiler side, for straight-line functions: whatever the lowering model ([lower_func], compared for equality with
    the real compiler's IR on every run) produces for a typed function whose body is declarations and assignments of
    scalar variables with pure right-hand sides followed by a return passes the check: references of constants, the block
    and the instructions pairwise distinct ([alloc_ok], an invariant of the three primitive moves of the lowering state),
    every operand a pooled constant or the result of an earlier instruction ([code_ok]), one block, no branch or call.
    Hence (with the theorem above) such a function never reads an undefined operand.  For other functions
    well-formedness is checked per compiled module, not proved of the compiler. *)
Theorem C14_lowering_straight_line_wellformed_partial : forall structs gl (f : tfunc) tl te F P,
  tf_body f = tl ++ [TRet (Some te)] -> forallb simple tl = true -> tpure te = true ->
  Forall (fresh_tdecl gl (map snd (tf_args f))) tl -> lower_func structs gl f = LOk F -> wf_func_b P F = true.
Proof. exact straight_lowered_wellformed. Qed.

(** non-vacuity: a well-formed two-block function, and an ill-formed one (operand from another block) *)
Definition iI := ITInt false.
Definition F_ok : ifunc :=
  {| fn_name := "f"; fn_args := [("a"%string, iI)]; fn_ret := iI; fn_consts := [(1, iI, KInt 1)];
     fn_blocks := [ {| b_ref := 0; b_code := [ {| i_ref := 2; i_ty := iI; i_body := ILoad SArg (VIndex 0) |};
                                               {| i_ref := 3; i_ty := ITVoid; i_body := IBranch (Some 2) (Some 4) (Some 7) |} ] |};
                    {| b_ref := 4; b_code := [ {| i_ref := 5; i_ty := iI; i_body := ILoad SArg (VIndex 0) |};
                                               {| i_ref := 6; i_ty := iI; i_body := IRet (Some 5) |} ] |};
                    {| b_ref := 7; b_code := [ {| i_ref := 8; i_ty := iI; i_body := IRet (Some 1) |} ] |} ] |}.
Definition F_bad : ifunc :=
  {| fn_name := "f"; fn_args := [("a"%string, iI)]; fn_ret := iI; fn_consts := [];
     fn_blocks := [ {| b_ref := 0; b_code := [ {| i_ref := 2; i_ty := iI; i_body := ILoad SArg (VIndex 0) |};
                                               {| i_ref := 3; i_ty := ITVoid; i_body := IBranch None (Some 4) None |} ] |};
                    {| b_ref := 4; b_code := [ {| i_ref := 6; i_ty := iI; i_body := IRet (Some 2) |} ] |} ] |}.
Example C14_examples :
  wf_program_b {| p_funcs := [F_ok]; p_globals := [] |} = true /\ wf_program_b {| p_funcs := [F_bad]; p_globals := [] |} = false.
Proof. vm_compute. split; reflexivity. Qed.

Eval compute in "ASSUMPTIONS C14_wellformed_never_undefined"%string. Print Assumptions C14_wellformed_never_undefined.
Eval compute in "ASSUMPTIONS C14_wellformed_invoke"%string. Print Assumptions C14_wellformed_invoke.
Eval compute in "ASSUMPTIONS C14_lowering_straight_line_wellformed_partial"%string. Print Assumptions C14_lowering_straight_line_wellformed_partial.
Eval compute in "END"%string.
