(** Support for the generated case files: run host-call histories through the VM model (on a dumped IR program)
    and through the reference semantics (on the source AST), and compare with what the implementation did. *)
From Coq Require Import String ZArith List Bool PrimFloat.
From NSL Require Import Base.Util Base.Types Base.Syntax Model.PyNum Model.IR Model.VM Model.PyTree Spec.RefSem.
Import ListNotations.
Local Open Scope Z_scope.

Record call := { c_fn : string; c_args : list (string * pv); c_set : list (string * pv); c_read : list string }.

Inductive obs :=
  | ORet (v : pv) (g : list (string * pv))
  | OFail (e : errkind)
  | OSkip (why : Z).      (* 1 unmodelled, 2 out of fuel, 3 out of the specified domain, 4 outside the specified language *)

(** ---- VM model *)
Definition set_globals (st : vmstate) (gs : list (string * pv)) : vmstate :=
  fold_left (fun st kv => let '(h1, v) := inject (hp st) (snd kv) in
                          {| globals := supdate (fst kv) v (globals st); hp := h1 |}) gs st.

Definition model_call (fuel : nat) (P : program) (st : vmstate) (c : call) : obs * vmstate :=
  let st1 := set_globals st (c_set c) in
  let '(h2, args) := fold_left (fun acc kv => let '(h, out) := acc in let '(h', v) := inject h (snd kv) in (h', out ++ [(fst kv, v)]))
                               (c_args c) (hp st1, []) in
  let st2 := {| globals := globals st1; hp := h2 |} in
  match invoke fuel P (c_fn c) args st2 with
  | Done v st3 =>
      match reify 8 (hp st3) v with
      | Some r =>
          let gs := map (fun x => (x, match slookup x (globals st3) with Some gv => reify 8 (hp st3) gv | None => None end)) (c_read c) in
          if forallb (fun p => match snd p with Some _ => true | None => false end) gs
          then (ORet r (map (fun p => (fst p, match snd p with Some x => x | None => PNone end)) gs), st3)
          else (OSkip 1, st3)
      | None => (OSkip 1, st3)
      end
  | Fail e => (OFail e, st2)
  | OutOfFuel => (OSkip 2, st2)
  | UnmodelledO => (OSkip 1, st2)
  end.

Fixpoint model_history (fuel : nat) (P : program) (st : vmstate) (cs : list call) : list obs :=
  match cs with
  | [] => []
  | c :: r => let '(o, st') := model_call fuel P st c in
              o :: match o with ORet _ _ => model_history fuel P st' r | _ => [] end
  end.

(** ---- reference semantics *)
Fixpoint sto_of_pv (p : pv) : sto :=
  match p with
  | PInt z => SV (RInt z) | PFloat f => SV (RFloat f) | PNone => SNoValue
  | PList l => SA (map sto_of_pv l)
  | PDict d => SS (map (fun kx => (fst kx, sto_of_pv (snd kx))) d)
  end.
Fixpoint pv_of_sto (s : sto) : pv :=
  match s with
  | SV (RInt z) => PInt z | SV (RFloat f) => PFloat f | SNoValue => PNone
  | SA l => PList (map pv_of_sto l)
  | SS fs => PDict (map (fun kx => (fst kx, pv_of_sto (snd kx))) fs)
  | SVec l => PList (map (fun x => match x with RInt z => PInt z | RFloat f => PFloat f end) l)
  | SMat m => PList (map (fun row => PList (map (fun x => match x with RInt z => PInt z | RFloat f => PFloat f end) row)) m)
  end.

Definition spec_call (fuel : nat) (M : module) (g : RefSem.frame) (c : call) : obs * RefSem.frame :=
  let gty x := match find (fun p => String.eqb (snd p) x) (m_globals M) with Some p => fst p | None => TVoid end in
  let g1 := fold_left (fun g kv => let v := host_coerce (gty (fst kv)) (sto_of_pv (snd kv)) in
                                   match frame_set g (fst kv) v with Some g' => g' | None => g ++ [(fst kv, v)] end) (c_set c) g in
  match ref_invoke M fuel (c_fn c) (map (fun kv => (fst kv, sto_of_pv (snd kv))) (c_args c)) g1 with
  | ROk (v, g2) =>
      (ORet (pv_of_sto v) (map (fun x => (x, match find (fun p => String.eqb (fst p) x) g2 with Some p => pv_of_sto (snd p) | None => PNone end)) (c_read c)), g2)
  | ROut => (OSkip 3, g1)
  | RStuck => (OSkip 4, g1)
  | RFuel => (OSkip 2, g1)
  end.

Fixpoint spec_history (fuel : nat) (M : module) (g : RefSem.frame) (cs : list call) : list obs :=
  match cs with
  | [] => []
  | c :: r => let '(o, g') := spec_call fuel M g c in
              o :: match o with ORet _ _ => spec_history fuel M g' r | _ => [] end
  end.

(** ---- comparison with the implementation's observations *)
Definition errkind_eqb (a b : errkind) : bool :=
  match a, b with
  | EZeroDiv, EZeroDiv | EIndex, EIndex | EKey _, EKey _ | EType, EType | EAssert, EAssert | EICE, EICE | EAttr, EAttr
  | EValue, EValue | EOverflow, EOverflow | EUnhandledOpcode, EUnhandledOpcode => true
  | _, _ => false
  end.

Definition globals_eqb (eq : pv -> pv -> bool) (a b : list (string * pv)) : bool :=
  Nat.eqb (length a) (length b) && forallb (fun p => String.eqb (fst (fst p)) (fst (snd p)) && eq (snd (fst p)) (snd (snd p))) (combine a b).

(** model vs implementation: exact (same Python types, floats bit for bit, same exception class).
    returns (agree, skipped) *)
Fixpoint cmp_model (m i : list obs) : bool * bool :=
  match m, i with
  | [], _ => (true, false)
  | OSkip _ :: _, _ => (true, true)
  | _, OSkip _ :: _ => (true, true)         (* the harness could not record the implementation's result (e.g. an astronomically large int) *)
  | ORet v g :: m', ORet v' g' :: i' => if pv_same v v' && globals_eqb pv_same g g' then cmp_model m' i' else (false, false)
  | OFail e :: _, OFail e' :: _ => (errkind_eqb e e', false)
  | _, _ => (false, false)
  end.

(** specification vs implementation: values compared as Python's == does; a failure of the implementation where
    the specification defines a result is a disagreement; outside the domain nothing is claimed *)
Fixpoint cmp_spec (s i : list obs) : bool * bool :=
  match s, i with
  | [], _ => (true, false)
  | OSkip _ :: _, _ => (true, true)
  | _, OSkip _ :: _ => (true, true)
  | ORet v g :: s', ORet v' g' :: i' => if pv_pyeq v v' && globals_eqb pv_pyeq g g' then cmp_spec s' i' else (false, false)
  | _, _ => (false, false)
  end.

Definition run_case (fuel : nat) (M : module) (P : program) (cs : list call) (impl : list obs) : Z :=
  match impl with OSkip _ :: _ => 12 | _ =>
  let '(mok, mskip) := cmp_model (model_history fuel P (vm_init P) cs) impl in
  let '(sok, sskip) := cmp_spec (spec_history fuel M [] cs) impl in
  (if mok then 0 else 1) + (if sok then 0 else 2) + (if mskip then 4 else 0) + (if sskip then 8 else 0)
  end.

(** model only (programs outside the reference language) *)
Definition run_case_model (fuel : nat) (P : program) (cs : list call) (impl : list obs) : Z :=
  let '(mok, mskip) := cmp_model (model_history fuel P (vm_init P) cs) impl in
  (if mok then 0 else 1) + (if mskip then 4 else 0).

(** ---- the lowering model against the real compiler's IR: 0 equal, 1 different, 4 outside the modelled fragment,
    5 the model rejects / fails where the compiler produced IR *)
From NSL Require Import Model.Elab Model.Lower Model.IREq.
Definition ir_case (M : module) (P : program) : Z :=
  match compile M with
  | COk P' => if program_eqb P' P then 0 else 1
  | CUnmodelled => 4
  | _ => 5
  end.

(** ---- C14: the executable well-formedness check on a dumped program: 0 well-formed, 32 not *)
From NSL Require Import Model.WfIR.
Definition wf_case (P : program) : Z := if wf_program_b P then 0 else 32.

(** ---- C02: the optimiser model against the real optimised IR (given the real unoptimised IR):
    0 equal, 128 different, 256 outside the model *)
From NSL Require Import Model.Opt.
Definition opt_case (P Popt : program) : Z :=
  match optimise P with
  | OOk P' => if program_eqb P' Popt then 0 else 128
  | ORaise => 128
  | OUnmodelled => 256
  end.
(** value and globals of the two runs of the implementation must coincide: handled by the harness through two run cases *)

(** ---- programs with a known expected observation list (self-checking programs): bit 1 model vs implementation,
    bit 2 implementation vs expectation, bit 4 model skipped *)
Definition run_case_expect (fuel : nat) (P : program) (cs : list call) (impl expected : list obs) : Z :=
  let '(mok, mskip) := cmp_model (model_history fuel P (vm_init P) cs) impl in
  let '(sok, _) := cmp_spec expected impl in
  (if mok then 0 else 1) + (if sok then 0 else 2) + (if mskip then 4 else 0).

(** ---- several VMs of one program: each call names its VM; every VM has its own state *)
Fixpoint model_history_vms (fuel : nat) (P : program) (sts : list (nat * vmstate)) (cs : list (nat * call)) : list obs :=
  match cs with
  | [] => []
  | (k, c) :: r =>
      let st := match find (fun p => Nat.eqb (fst p) k) sts with Some p => snd p | None => vm_init P end in
      let '(o, st') := model_call fuel P st c in
      let sts' := (k, st') :: filter (fun p => negb (Nat.eqb (fst p) k)) sts in
      o :: match o with ORet _ _ => model_history_vms fuel P sts' r | _ => [] end
  end.
Fixpoint spec_history_vms (fuel : nat) (M : module) (gs : list (nat * RefSem.frame)) (cs : list (nat * call)) : list obs :=
  match cs with
  | [] => []
  | (k, c) :: r =>
      let g := match find (fun p => Nat.eqb (fst p) k) gs with Some p => snd p | None => [] end in
      let '(o, g') := spec_call fuel M g c in
      let gs' := (k, g') :: filter (fun p => negb (Nat.eqb (fst p) k)) gs in
      o :: match o with ORet _ _ => spec_history_vms fuel M gs' r | _ => [] end
  end.
Definition run_case_vms (fuel : nat) (M : module) (P : program) (cs : list (nat * call)) (impl : list obs) : Z :=
  match impl with OSkip _ :: _ => 12 | _ =>
  let '(mok, mskip) := cmp_model (model_history_vms fuel P [] cs) impl in
  let '(sok, sskip) := cmp_spec (spec_history_vms fuel M [] cs) impl in
  (if mok then 0 else 1) + (if sok then 0 else 2) + (if mskip then 4 else 0) + (if sskip then 8 else 0)
  end.
