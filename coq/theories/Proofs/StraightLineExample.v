(** Non-vacuity of [straight_line_function_simulation] and of its composition with the forwarding theorem (C02). *)
From Coq Require Import String ZArith List Bool PrimFloat.
From NSL Require Import Base.Types Base.Syntax Model.PyNum Model.IR Model.VM Model.Elab Model.Lower Model.Opt Spec.RefSem Proofs.OpsAgree
                        Proofs.LowerExprProofs Proofs.ElabExprProofs Proofs.ReturnExprProofs Proofs.CallAgreeProofs
                        Proofs.LowerStmtProofs Proofs.ElabStmtProofs Proofs.StraightLineProofs Proofs.ForwardProofs
                        Harness.FragLib Harness.FwdLib Harness.FragLib2.
Import ListNotations.
Local Open Scope string_scope.

(** int g;
    export function f(int a, float b) -> float { int x = a + 2; float y; y = x * b; g = g + x; a = a - 1; return y + g / 1.5 - a; } *)
Definition sl_body : list stmt :=
  [ SDecl tint "x" (Some (EBin OAdd (EVar "a") (EInt 2)));
    SDecl tfloat "y" None;
    SExpr (EAssign AAssign (EVar "y") (EBin OMul (EVar "x") (EVar "b")));
    SExpr (EAssign AAssign (EVar "g") (EBin OAdd (EVar "g") (EVar "x")));
    SExpr (EAssign AAssign (EVar "a") (EBin OSub (EVar "a") (EInt 1))) ].
Definition sl_e : expr := EBin OSub (EBin OAdd (EVar "y") (EBin ODiv (EVar "g") (EFloat 1.5))) (EVar "a").
Definition sl_fn : func := {| f_name := "f"; f_export := true; f_args := [(tint, "a"); (tfloat, "b")]; f_ret := tfloat; f_body := sl_body ++ [SRet (Some sl_e)] |}.
Definition sl_M : module := {| m_structs := []; m_globals := [(tint, "g")]; m_funcs := [sl_fn] |}.

Example sl_in_fragment : straight_in_fragment sl_M sl_fn = true.
Proof. vm_compute. reflexivity. Qed.

Definition sl_static := Eval vm_compute in straight_static sl_M sl_fn.
Definition sl_F : ifunc := match sl_static with Some (_, _, _, F, _, _) => F | None => {| fn_name := ""; fn_args := []; fn_ret := ITVoid; fn_consts := []; fn_blocks := [] |} end.
Definition sl_tl : list tstmt := match sl_static with Some (_, _, _, _, tl, _) => tl | None => [] end.
Definition sl_te : texpr := match sl_static with Some (_, _, _, _, _, te) => te | None => XInt 0 end.
Definition sl_tf : tfunc := match sl_static with Some (_, _, tf, _, _, _) => tf | None => {| tf_name := ""; tf_args := []; tf_ret := TVoid; tf_body := [] |} end.

Example sl_lits_exact : lits_exact (flat_map tflits (body_exprs sl_tl ++ [sl_te])).
Proof. intros f f' Hf Hf' _. vm_compute in Hf, Hf'. destruct Hf as [<-|[]]. destruct Hf' as [<-|[]]. reflexivity. Qed.

Definition sl_ws : list rval := [RInt 3; RFloat 2.5%float].
Definition sl_g : RefSem.frame := [("g", SV (RInt 8))].
Definition sl_vs : vmstate := {| globals := [("g", VInt 8)]; hp := [] |}.

Example sl_conclusion : forall P,
  exists v vs', fst (match exec_list sl_M 12 (f_body sl_fn) (call_state sl_fn sl_ws sl_g) with RefSem.ROk p => p | _ => (ONormal, call_state sl_fn sl_ws sl_g) end) = OReturn (SV v) /\
                exists n, forall fuel', n <= fuel' -> run fuel' P sl_F 0 (call_frame sl_ws (init_regs sl_F)) sl_vs = Done (v_of v) vs'.
Proof.
  intros P.
  destruct (exec_list sl_M 12 (f_body sl_fn) (call_state sl_fn sl_ws sl_g)) as [[fl st']| | |] eqn:E; try (vm_compute in E; discriminate).
  assert (Hnan : forall q, In q (flat_map tflits (body_exprs sl_tl ++ [sl_te])) -> PrimFloat.eqb q q = true) by (intros q Hq; vm_compute in Hq; destruct Hq as [<-|[]]; reflexivity).
  destruct (straight_line_function_simulation sl_M sl_fn sl_body sl_e sl_tf sl_F eq_refl eq_refl eq_refl eq_refl eq_refl sl_tl sl_te eq_refl eq_refl eq_refl eq_refl sl_lits_exact Hnan)
    with (P := P) (ws := sl_ws) (g := sl_g) (vs := sl_vs) (fuel := 12) (fl := fl) (st' := st') as (v & vs' & -> & Hrun & _).
  - repeat constructor; cbn; auto.
  - repeat constructor.
  - intros x Hx Hg. cbn in Hx, Hg. destruct Hg as [Hg|[]]. subst x. destruct Hx as [Hx|[Hx|[]]]; inversion Hx.
  - intros x p H. unfold genvl in H. cbn [sl_M m_globals map find fst snd] in H. destruct (String.eqb_spec "g" x) as [<-|Hne]; [|discriminate]. inversion H; subst p. cbn.
    split; [left; reflexivity|]. exists (RInt 8). repeat split; reflexivity.
  - exact E.
  - exists v, vs'. split; [reflexivity|exact Hrun].
Qed.

(** the two sides evaluated, and the optimised function (the forwarding theorem applies to the lowered function) *)
Example sl_values :
  (match exec_list sl_M 12 (f_body sl_fn) (call_state sl_fn sl_ws sl_g) with RefSem.ROk (OReturn (SV (RFloat x)), _) => Some x | _ => None end) = Some 0x1.32aaaaaaaaaaap+4%float /\
  run 60 {| p_funcs := [sl_F]; p_globals := ["g"] |} sl_F 0 (call_frame sl_ws (init_regs sl_F)) sl_vs = Done (VFloat 0x1.32aaaaaaaaaaap+4%float) {| globals := [("g", VInt 13)]; hp := [] |} /\
  fwd_fragment_b sl_F = true /\
  run 60 {| p_funcs := [sl_F]; p_globals := ["g"] |} (opt_load_after_store sl_F) 0 (call_frame sl_ws (init_regs sl_F)) sl_vs = Done (VFloat 0x1.32aaaaaaaaaaap+4%float) {| globals := [("g", VInt 13)]; hp := [] |}.
Proof. repeat split; vm_compute; reflexivity. Qed.
