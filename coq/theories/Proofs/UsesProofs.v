(** * C12, uses at statement level: for a program without redeclarations, the typing scopes of ComputeTypes accept
    exactly the programs in which every used name is visible where it stands (flat lexical specification). *)
From Coq Require Import String ZArith List Bool Arith Lia.
From NSL Require Import Base.Types Base.Syntax Base.SyntaxInd Spec.Scope Model.Names Proofs.ScopeProofs.
Import ListNotations.

(** two visible sets with the same members *)
Definition meq (a b : list string) : Prop := forall x, mem x a = mem x b.
Lemma meq_refl a : meq a a. Proof. intros x. reflexivity. Qed.
Lemma meq_cons y a b : meq a b -> meq (y :: a) (y :: b).
Proof. intros H x. rewrite !mem_cons, H. reflexivity. Qed.
Lemma bound_meq a b e : meq a b -> bound a e = bound b e.
Proof.
  intros H. destruct e as [e|]; cbn; [|reflexivity].
  induction (expr_names e) as [|x l IH]; cbn; [reflexivity|]. rewrite H, IH. reflexivity.
Qed.
Lemma rep_meq c a b : rep c a -> meq a b -> rep c b.
Proof. intros R H x. rewrite R. apply H. Qed.

Lemma ct_register_fresh c vis x : rep c vis -> mem x vis = false -> ct_register c x = (POk, add_head c x).
Proof.
  intros R H. destruct c as [|t r]; cbn; [reflexivity|].
  assert (E : mem x t = false).
  { specialize (R x). rewrite H in R. unfold chain_get in R. cbn in R. apply orb_false_elim in R. tauto. }
  rewrite E. reflexivity.
Qed.

Definition stmt_law (s : stmt) : Prop := forall c vis vis2, rep c vis -> meq vis vis2 -> fst (decl_stmt vis s) = true ->
  pok (fst (ct_stmt c s)) = fst (use_stmt vis2 s) /\
  meq (snd (decl_stmt vis s)) (snd (use_stmt vis2 s)) /\
  (pok (fst (ct_stmt c s)) = true -> rep (snd (ct_stmt c s)) (snd (decl_stmt vis s))).

Lemma list_law : forall l, Forall stmt_law l -> forall c vis vis2, rep c vis -> meq vis vis2 -> thread decl_stmt vis l = true ->
  pok (mthread ct_stmt c l) = thread use_stmt vis2 l.
Proof.
  induction l as [|s l IH]; intros HF c vis vis2 R M D; cbn; [reflexivity|].
  inversion HF as [|? ? Hs Hl]; subst. cbn in D.
  destruct (decl_stmt vis s) as [okd visd] eqn:Ed. apply andb_prop in D as [D1 D2]. subst okd.
  destruct (Hs c vis vis2 R M) as (E1 & E2 & E3); [rewrite Ed; reflexivity|]. rewrite Ed in E2, E3. cbn [fst snd] in *.
  destruct (ct_stmt c s) as [r c'] eqn:Ec. destruct (use_stmt vis2 s) as [oku visu] eqn:Eu. cbn [fst snd] in *.
  destruct r; cbn [pok] in E1; subst oku; cbn [andb]; try reflexivity.
  apply (IH Hl c' visd visu); [apply E3; reflexivity|exact E2|exact D2].
Qed.

Lemma pok_match (r : pass_res) (c : chain) (k : pass_res * chain) :
  pok (fst (match r with POk => k | v => (v, c) end)) = pok r && pok (fst k).
Proof. destruct r; reflexivity. Qed.

Theorem ct_stmt_use : forall s, stmt_law s.
Proof.
  induction s using stmt_ind2; intros c0 vis vis2 R M D; cbn [ct_stmt decl_stmt use_stmt] in *.
  - (* declaration *)
    destruct (mem x vis) eqn:Ex; cbn in D; [discriminate|].
    rewrite (ct_register_fresh c0 vis x R Ex). cbn [fst snd].
    split; [rewrite (ct_expr_bound (add_head c0 x) (x :: vis) i (rep_add _ _ _ R)); apply bound_meq, meq_cons, M|].
    split; [apply meq_cons, M|intros _; apply rep_add, R].
  - (* expression *) cbn [fst snd]. split; [rewrite (ct_expr_bound c0 vis (Some e) R); apply bound_meq, M|]. split; [exact M|intros _; exact R].
  - (* block *) cbn [fst snd] in *. split; [apply (list_law b H (push c0) vis vis2 (rep_push _ _ R) M D)|]. split; [exact M|intros _; exact R].
  - (* return *) cbn [fst snd]. split; [rewrite (ct_expr_bound c0 vis e R); apply bound_meq, M|]. split; [exact M|intros _; exact R].
  - (* if *)
    destruct (decl_stmt vis s) as [okd vis1] eqn:Ed. destruct okd; [|cbn in D; discriminate].
    pose proof (rep_push _ _ R) as R1.
    destruct (IHs (push c0) vis vis2 R1 M) as (E1 & _ & _); [rewrite Ed; reflexivity|].
    rewrite <- (bound_meq vis vis2 (Some c) M), <- (ct_expr_bound c0 vis (Some c) R).
    assert (Hsnd : snd (match f with Some f' => (fst (decl_stmt vis f'), vis) | None => (true, vis) end) = vis) by (destruct f; reflexivity).
    rewrite Hsnd. clear Hsnd.
    destruct (ct_expr c0 (Some c)) eqn:Ece; cbn [pok andb fst snd]; try (split; [reflexivity|split; [exact M|discriminate]]).
    destruct (ct_stmt (push c0) s) as [r c2] eqn:Ect. cbn [fst snd] in *. rewrite <- E1.
    destruct r; cbn [andb fst snd pok]; try (split; [reflexivity|split; [exact M|discriminate]]).
    destruct f as [f'|]; cbn [fst snd].
    + cbn in D. destruct (H f' eq_refl (push c0) vis vis2 R1 M D) as (F1 & _ & _).
      split; [exact F1|]. split; [exact M|intros _; exact R].
    + split; [reflexivity|]. split; [exact M|intros _; exact R].
  - (* for *)
    pose proof (rep_push _ _ R) as R1.
    destruct i as [[[t x] ini]|].
    + destruct (mem x vis) eqn:Ex; [cbn in D; discriminate|]. cbn [fst snd] in D.
      rewrite (ct_register_fresh (push c0) vis x R1 Ex).
      pose proof (rep_add _ _ x R1) as R2. pose proof (meq_cons x _ _ M) as M2.
      rewrite <- (bound_meq _ _ ini M2), <- (bound_meq _ _ c M2), <- (bound_meq _ _ n M2).
      rewrite <- (ct_expr_bound _ _ ini R2), <- (ct_expr_bound _ _ c R2), <- (ct_expr_bound _ _ n R2).
      destruct (IHs (add_head (push c0) x) (x :: vis) (x :: vis2) R2 M2 D) as (F1 & _ & _).
      destruct (ct_expr (add_head (push c0) x) ini); cbn [pok andb fst snd]; try (split; [reflexivity|split; [exact M|discriminate]]).
      destruct (ct_expr (add_head (push c0) x) c); cbn [pok andb fst snd]; try (split; [reflexivity|split; [exact M|discriminate]]).
      destruct (ct_expr (add_head (push c0) x) n); cbn [pok andb fst snd]; try (split; [reflexivity|split; [exact M|discriminate]]).
      split; [exact F1|]. split; [exact M|intros _; exact R].
    + cbn [fst snd] in D.
      rewrite <- (bound_meq _ _ c M), <- (bound_meq _ _ n M), <- (ct_expr_bound _ _ c R1), <- (ct_expr_bound _ _ n R1).
      destruct (IHs (push c0) vis vis2 R1 M D) as (F1 & _ & _).
      destruct (ct_expr (push c0) c); cbn [pok andb fst snd]; try (split; [reflexivity|split; [exact M|discriminate]]).
      destruct (ct_expr (push c0) n); cbn [pok andb fst snd]; try (split; [reflexivity|split; [exact M|discriminate]]).
      split; [exact F1|]. split; [exact M|intros _; exact R].
  - (* while *)
    pose proof (rep_push _ _ R) as R1.
    rewrite <- (bound_meq _ _ (Some c) M), <- (ct_expr_bound _ _ (Some c) R1).
    destruct b as [b'|]; cbn [fst snd] in *.
    + destruct (H b' eq_refl (push c0) vis vis2 R1 M D) as (F1 & _ & _).
      destruct (ct_expr (push c0) (Some c)); cbn [pok andb fst snd]; try (split; [reflexivity|split; [exact M|discriminate]]).
      split; [exact F1|]. split; [exact M|intros _; exact R].
    + rewrite andb_true_r. split; [reflexivity|]. split; [exact M|intros _; exact R].
  - (* do *)
    pose proof (rep_push _ _ R) as R1. cbn [fst snd] in *.
    rewrite <- (bound_meq _ _ (Some c) M), <- (ct_expr_bound _ _ (Some c) R1).
    rewrite <- (list_law b H (push (push c0)) vis vis2 (rep_push _ _ R1) M D).
    destruct (mthread ct_stmt (push (push c0)) b); cbn [pok andb fst snd]; try (split; [reflexivity|split; [exact M|discriminate]]).
    split; [reflexivity|]. split; [exact M|intros _; exact R].
  - (* break *) cbn. split; [reflexivity|]. split; [exact M|intros _; exact R].
  - (* continue *) cbn. split; [reflexivity|]. split; [exact M|intros _; exact R].
Qed.

Lemma body_use l c vis vis2 : rep c vis -> meq vis vis2 -> decl_list vis l = true -> pok (ct_body c l) = use_list vis2 l.
Proof.
  intros R M D. assert (HF : Forall stmt_law l) by (apply Forall_forall; intros s _; apply ct_stmt_use).
  exact (list_law l HF c vis vis2 R M D).
Qed.

(** parameters: when none of them is visible or repeated, registering them one by one represents them all *)
Lemma add_all_true : forall names vis vis', add_all names vis = (true, vis') ->
  NoDup names /\ (forall x, In x names -> mem x vis = false) /\ meq vis' (names ++ vis).
Proof.
  induction names as [|y r IH]; intros vis vis' H; cbn in H.
  - inversion H; subst. split; [constructor|]. split; [intros x []|apply meq_refl].
  - destruct (mem y vis) eqn:Ey; [discriminate|]. destruct (IH _ _ H) as (ND & Hn & Hm). split; [|split].
    + constructor; [|exact ND]. intro Hin. specialize (Hn y Hin). rewrite mem_cons, String.eqb_refl in Hn. discriminate.
    + intros x [<-|Hx]; [exact Ey|]. specialize (Hn x Hx). rewrite mem_cons in Hn. apply orb_false_elim in Hn. tauto.
    + intros x. rewrite Hm. unfold mem. rewrite existsb_app. cbn. rewrite existsb_app.
      destruct (String.eqb x y), (existsb (String.eqb x) r), (existsb (String.eqb x) vis); reflexivity.
Qed.

Lemma ct_register_all_fresh : forall names c vis, rep c vis -> NoDup names -> (forall x, In x names -> mem x vis = false) ->
  exists c', ct_register_all c names = (POk, c') /\ rep c' (rev names ++ vis).
Proof.
  induction names as [|y r IH]; intros c vis R ND Hn; cbn.
  - exists c. split; [reflexivity|exact R].
  - inversion ND as [|? ? Hy ND']; subst. rewrite (ct_register_fresh c vis y R (Hn y (or_introl eq_refl))).
    destruct (IH (add_head c y) (y :: vis) (rep_add _ _ _ R) ND') as (c' & Hc & Hr).
    + intros x Hx. rewrite mem_cons. rewrite (Hn x (or_intror Hx)). destruct (String.eqb_spec x y); [subst; contradiction|reflexivity].
    + exists c'. split; [exact Hc|]. rewrite <- app_assoc. exact Hr.
Qed.

Lemma meq_rev_app a b : meq (rev a ++ b) (a ++ b).
Proof. intros x. unfold mem. rewrite !existsb_app. f_equal. induction a as [|y a IH]; cbn; [reflexivity|]. rewrite existsb_app, IH. cbn. rewrite orb_false_r, orb_comm. reflexivity. Qed.

Theorem ct_func_use : forall f c g1 g2, rep c g1 -> meq g1 g2 -> decl_func g1 f = true -> pok (ct_func c f) = use_func g2 f.
Proof.
  intros f c g1 g2 R Mg D. unfold decl_func in D. unfold ct_func, use_func.
  destruct (add_all (map snd (f_args f)) g1) as [ok vis] eqn:Ea. destruct ok; [|discriminate].
  destruct (add_all_true _ _ _ Ea) as (ND & Hn & Hm).
  rewrite (nodup_fixed_point string_dec ND).
  destruct (ct_register_all_fresh (map snd (f_args f)) (push c) g1 (rep_push _ _ R) ND Hn) as (c1 & Hc1 & Hr1). rewrite Hc1.
  apply (body_use (f_body f) (push c1) vis (map snd (f_args f) ++ g2)); [| |exact D].
  - apply rep_push. eapply rep_meq; [exact Hr1|]. intros x. rewrite (meq_rev_app _ _ x). symmetry. apply Hm.
  - intros x. rewrite Hm. unfold mem. rewrite !existsb_app. f_equal. apply Mg.
Qed.

(** C12, second sentence, whole programs: in a program without redeclarations the typing scopes reject exactly the
    programs that use a name where it is not visible *)
Theorem ct_module_use : forall m, decl_module m = true -> pok (ct_module m) = use_module m.
Proof.
  intros m D. unfold decl_module in D. unfold ct_module, use_module.
  destruct (add_all (map snd (m_globals m)) []) as [ok globals] eqn:Ea. destruct ok; [|discriminate].
  destruct (add_all_true _ _ _ Ea) as (ND & Hn & Hm). rewrite app_nil_r in Hm.
  assert (R0 : rep [[]] []) by (intros x; reflexivity).
  destruct (ct_register_all_fresh (map snd (m_globals m)) [[]] [] R0 ND Hn) as (c & Hc & Hr). rewrite Hc. rewrite app_nil_r in Hr.
  assert (Rg : rep c globals).
  { eapply rep_meq; [exact Hr|]. intros x. pose proof (meq_rev_app (map snd (m_globals m)) [] x) as E. rewrite !app_nil_r in E. rewrite E. symmetry. apply Hm. }
  clear Hc. induction (m_funcs m) as [|f fs IH]; cbn; [reflexivity|]. cbn in D. apply andb_prop in D as [Df Dfs].
  rewrite <- (ct_func_use f c globals (map snd (m_globals m)) Rg Hm Df).
  destruct (ct_func c f); cbn [pok andb]; try reflexivity. apply IH. exact Dfs.
Qed.
