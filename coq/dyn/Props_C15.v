(** * C15 -- Global state persists exactly across invocation histories; VMs are isolated. *)
From Coq Require Import String ZArith List Bool Arith.
From NSL Require Import Base.Types Base.Syntax Model.PyNum Model.IR Model.VM Model.PyTree Model.Elab Model.Lower Spec.RefSem Harness.RunLib Proofs.HistoryProofs Proofs.CallProofs
     Proofs.OpsAgree Proofs.LowerExprProofs Proofs.ElabExprProofs Proofs.ReturnExprProofs Proofs.CallAgreeProofs Proofs.LowerStmtProofs Proofs.ElabStmtProofs
     Proofs.StraightLineProofs Proofs.StraightLineExample Proofs.HistoryRefineProofs Proofs.HistoryExample
     Proofs.FlowSimProofs Proofs.FlowSimExample Proofs.HistoryFlowProofs Proofs.HistoryFlowExample
     Proofs.LoopSimProofs Proofs.LoopSimExample Proofs.HistoryLoopProofs Proofs.LoopOptExample.
From NSLDyn Require Gen_VM Agree_VM Gen_Shapes.
Import ListNotations.

(** The full statement (history refinement): the observations of any finite sequence of host operations on the VM
    equal those of the reference state machine of the source program.  It composes the per-invocation statement
    (C01_full_statement) along the history; it is PARTIAL for the same reason and tied by the correspondence. *)
Definition C15_full_statement : Prop :=
  forall M P cs n, Model.Lower.compile M = Model.Lower.COk P ->
    (forall o, In o (spec_history_vms n M [] cs) -> match o with OSkip _ => False | _ => True end) ->
      exists m', fst (cmp_spec (spec_history_vms n M [] cs) (model_history_vms m' P [] cs)) = true.

(** proved: each invocation starts with fresh locals (no named locals, only the function's constants) *)
Theorem C15_fresh_locals : forall fuel P fn named st F,
    find_func P fn = Some F ->
    invoke fuel P fn named st =
    run fuel P F 0 {| regs := init_regs F; vars := [];
                      fargs := map (fun a => match slookup (fst a) named with Some v => v | None => VNone end) (fn_args F) |} st.
Proof. exact invoke_fresh_locals. Qed.

(** proved: globals change only through the global stores an invocation executes *)
Theorem C15_globals_only_by_stores : forall F pc fr st i pc' fr' st',
    global_store i = false -> step F pc fr st i = StNext pc' fr' st' -> globals st' = globals st.
Proof. exact step_globals_unchanged. Qed.

(** proved: two VMs of the same program do not influence each other -- an operation on one VM leaves the state of
    every other VM (its globals and its heap) exactly as it was; the program itself is an immutable value *)
Theorem C15_vm_isolation : forall P sts k st' j, j <> k ->
    vm_state P ((k, st') :: filter (fun p => negb (Nat.eqb (fst p) k)) sts) j = vm_state P sts j.
Proof. exact other_vm_untouched. Qed.

(** PARTIAL (history refinement for programs of straight-line functions).  [fn_ok M P fn]: fn is a straight-line function
    (declarations and assignments of int / float variables, then a return, as in C01_straight_line_functions_partial) with
    distinct parameter names, and P holds under its name the IR function the front-end and lowering models produce for it.
    For every finite history of invocations of such functions with numeric arguments of the declared types, started from
    globals on which reference state and VM agree: whenever the reference state machine of the source runs the history
    to the results rs and the globals g', the VM model, for every sufficient fuel, runs the same history to exactly those
    results and to a state whose globals agree with g' again -- so each invocation saw the globals its predecessors left,
    started with fresh locals, and changed globals only through its assignments.  (SetGlobal / GetGlobal of the host are
    the agreement relation [GA] itself.)  Conditionals and while loops: the next theorems.  Missing for the full statement: other loops, calls, aggregates. *)
Theorem C15_history_refinement_partial : forall (M : module) (P : program) (calls : list hcall),
  (forall c, In c calls -> fn_ok M P (fst c) /\ Forall2 (fun p w => has_ty w (fst p)) (f_args (fst c)) (snd c)) ->
  forall fuel g vs rs g', GA M g vs -> ref_hist M fuel g calls = ROk (rs, g') ->
  exists n, forall fuel', n <= fuel' ->
    exists vl vs', vm_hist fuel' P vs calls = Some (vl, vs') /\ Forall2 (fun s v => exists w, s = SV w /\ v = v_of w) rs vl /\ GA M g' vs'.
Proof. exact history_refines. Qed.

(** non-vacuity: int g; f(int a, float b) -> float { int x = a + 2; float y; y = x * b; g = g + x; a = a - 1; return y + g / 1.5 - a; }
    called three times from g = 8: the theorem applies, and evaluation gives g = 16 on both sides *)
Example C15_history_example :
  exists rs g', ref_hist sl_M 14 hx_g hx_calls = ROk (rs, g') /\
  exists n, forall fuel', n <= fuel' ->
    exists vl vs', vm_hist fuel' hx_P hx_vs hx_calls = Some (vl, vs') /\ Forall2 (fun s v => exists w, s = SV w /\ v = v_of w) rs vl /\ GA sl_M g' vs'.
Proof. exact hx_history. Qed.

(** the same for functions WITH CONDITIONALS (the fragment of C01_conditional_functions_partial: declarations, plain and compound
    assignments, blocks and nested if / if-else statements, a return): [fn_ok_flow] collects the static hypotheses,
    [fn_hist_flow_ok_b] decides them and is evaluated by the check on generated programs *)
Theorem C15_history_refinement_conditionals_partial : forall (M : module) (P : program) (calls : list hcall),
  (forall c, In c calls -> fn_ok_flow M P (fst c) /\ Forall2 (fun p w => has_ty w (fst p)) (f_args (fst c)) (snd c)) ->
  forall fuel g vs rs g', GA M g vs -> ref_hist M fuel g calls = ROk (rs, g') ->
  exists n, forall fuel', n <= fuel' ->
    exists vl vs', vm_hist fuel' P vs calls = Some (vl, vs') /\ Forall2 (fun s v => exists w, s = SV w /\ v = v_of w) rs vl /\ GA M g' vs'.
Proof. exact history_refines_flow. Qed.

(** non-vacuity: the function of C01's conditional instance called three times (the calls take different branches) from g = 1:
    the theorem applies, and evaluation gives g = 0 on both sides *)
Example C15_history_conditionals_example :
  (exists rs g', ref_hist fs_M 16 hf_g hf_calls = ROk (rs, g') /\
   exists n, forall fuel', n <= fuel' ->
     exists vl vs', vm_hist fuel' hf_P hf_vs hf_calls = Some (vl, vs') /\ Forall2 (fun s v => exists w, s = SV w /\ v = v_of w) rs vl /\ GA fs_M g' vs') /\
  (match vm_hist 100 hf_P hf_vs hf_calls with Some (_, vs') => Some (globals vs') | None => None end) = Some [("g"%string, VInt 0)].
Proof. exact (conj hf_history (proj2 hf_values)). Qed.

(** the same for functions WITH WHILE LOOPS (the fragment of C01_loop_functions_partial) *)
Theorem C15_history_refinement_loops_partial : forall (M : module) (P : program) (calls : list hcall),
  (forall c, In c calls -> fn_ok_loop M P (fst c) /\ Forall2 (fun p w => has_ty w (fst p)) (f_args (fst c)) (snd c)) ->
  forall fuel g vs rs g', GA M g vs -> ref_hist M fuel g calls = ROk (rs, g') ->
  exists n, forall fuel', n <= fuel' ->
    exists vl vs', vm_hist fuel' P vs calls = Some (vl, vs') /\ Forall2 (fun s v => exists w, s = SV w /\ v = v_of w) rs vl /\ GA M g' vs'.
Proof. exact history_refines_loop. Qed.
(** non-vacuity: the loop function of C01 called three times (4, 0 and 2 iterations) from g = 5: the theorem applies; g = 0 afterwards *)
Example C15_history_loops_example :
  (exists rs g', ref_hist lp_M 40 hl_g hl_calls = ROk (rs, g') /\
   exists n, forall fuel', n <= fuel' ->
     exists vl vs', vm_hist fuel' hl_P hl_vs hl_calls = Some (vl, vs') /\ Forall2 (fun s v => exists w, s = SV w /\ v = v_of w) rs vl /\ GA lp_M g' vs') /\
  (match vm_hist 300 hl_P hl_vs hl_calls with Some (_, vs') => Some (globals vs') | None => None end) = Some [("g"%string, VInt 0)].
Proof. exact (conj hl_history hl_values). Qed.

(** the interpreter arms that write the VM's global table in nsl/VM.py on this run: STORE only *)
Theorem C15_global_writers :
  filter (fun p => existsb (String.eqb "self.__globalScope") (snd p)) Gen_VM.vm_arm_writes = [("STORE"%string, ["args"; "localScope"; "self.__globalScope"]%string)].
Proof. rewrite Agree_VM.agree_vm_writes. reflexivity. Qed.

Eval compute in "ASSUMPTIONS C15_vm_isolation"%string. Print Assumptions C15_vm_isolation.
Eval compute in "ASSUMPTIONS C15_globals_only_by_stores"%string. Print Assumptions C15_globals_only_by_stores.
Eval compute in "ASSUMPTIONS C15_history_refinement_partial"%string. Print Assumptions C15_history_refinement_partial.
Eval compute in "ASSUMPTIONS C15_history_refinement_conditionals_partial"%string. Print Assumptions C15_history_refinement_conditionals_partial.
Eval compute in "END"%string.
