"""Shared machinery: compile generated programs with the real compiler, run host-call histories on the real VM,
and print Coq case lines that replay them on the VM model (over the dumped IR) and on the reference semantics."""
import json
import nslgen, ircoq
from common import coq_list

HEADER = """From Coq Require Import String ZArith List Bool PrimFloat.
From NSL Require Import Base.Util Base.Types Base.Syntax Model.PyNum Model.IR Model.VM Model.PyTree Spec.RefSem Harness.RunLib Harness.FragLib Harness.FwdLib Harness.FragLib2 Harness.HistLib Harness.FlowLib Harness.FlowLib2 Harness.FwdFlowLib Harness.HistLib2 Harness.CCLib Harness.LoopLib Harness.HistLib3.
Import ListNotations.
Open Scope Z_scope.
Definition fuel : nat := Z.to_nat 60000.
"""

ERR = {"ZeroDivisionError": "EZeroDiv", "IndexError": "EIndex", "KeyError": "(EKey KReg)", "TypeError": "EType", "AssertionError": "EAssert",
       "CompileException": "EICE", "AttributeError": "EAttr", "ValueError": "EValue", "OverflowError": "EOverflow"}


def jsonify(v):
    if isinstance(v, float):
        return {"f": v.hex()}
    if isinstance(v, list):
        return [jsonify(x) for x in v]
    if isinstance(v, dict):
        return {"d": {k: jsonify(x) for k, x in v.items()}}
    return v


def job(text, calls, optimize=False, want=("ir",)):
    return {"src": text, "opts": {"optimize": optimize}, "want": list(want),
            "calls": [{"fn": c["fn"], "args": {k: jsonify(v) for k, v in c["args"].items()},
                       "globals": {k: jsonify(v) for k, v in c.get("globals", {}).items()}, "read_globals": c.get("read_globals", [])} for c in calls]}


def coq_call(c):
    return "{| c_fn := %s; c_args := [%s]; c_set := [%s]; c_read := [%s] |}" % (
        ircoq.s(c["fn"]), "; ".join("(%s, %s)" % (ircoq.s(k), ircoq.pyval(jsonify(v))) for k, v in c["args"].items()),
        "; ".join("(%s, %s)" % (ircoq.s(k), ircoq.pyval(jsonify(v))) for k, v in c.get("globals", {}).items()),
        "; ".join(ircoq.s(g) for g in c.get("read_globals", [])))


def coq_obs(r, read_globals):
    if "fail" in r:
        e = r["fail"]["exc"]
        if e == "Exception" and "Unhandled opcode" in r["fail"].get("msg", ""):
            return "(OFail EUnhandledOpcode)"
        if e == "RecursionError":
            return "(OSkip 2)"
        if e == "Timeout":
            return "(OFail EValue)"     # never what model or specification produce for a terminating program
        if e in ERR:
            return "(OFail %s)" % ERR[e]
        return "(OSkip 9)"
    if '"big"' in json.dumps(r):
        return "(OSkip 9)"
    return "(ORet %s [%s])" % (ircoq.pyval(r["ret"]), "; ".join("(%s, %s)" % (ircoq.s(g), ircoq.pyval(r["globals"][g])) for g in read_globals))


def case_line(module_json, result, calls, with_spec=True):
    """result: output of compile_impl for an accepted program with 'ir' and 'calls'"""
    prog = ircoq.program({"functions": result["ir"]["functions"], "globals": result["ir"]["globals"]})
    obs = []
    for c, r in zip(calls, result["calls"]):
        obs.append(coq_obs(r, c.get("read_globals", [])))
        if "fail" in r:
            break
    cs = coq_list([coq_call(c) for c in calls])
    if with_spec:
        return "run_case fuel %s %s %s %s" % (nslgen.coq_module(module_json), prog, cs, coq_list(obs))
    return "run_case_model fuel %s %s %s" % (prog, cs, coq_list(obs))


def case_block(k, module_json, result, calls, with_spec=True, with_ir=True):
    """Definitions M_k, P_k and the expression computing the case code:
       bits 1 model-vs-impl run, 2 spec-vs-impl run, 4 model skipped, 8 spec skipped, 16 lowering model IR differs,
       64 outside the lowering model's fragment, 80 (=16+64) the lowering model rejects/fails"""
    prog = ircoq.program({"functions": result["ir"]["functions"], "globals": result["ir"]["globals"]})
    obs = []
    for c, r in zip(calls, result["calls"]):
        obs.append(coq_obs(r, c.get("read_globals", [])))
        if "fail" in r:
            break
    cs = coq_list([coq_call(c) for c in calls])
    defs = "Definition P_%d : program := %s.\n" % (k, prog)
    if with_spec or with_ir:
        defs += "Definition M_%d : module := %s.\n" % (k, nslgen.coq_module(module_json))
    run = ("run_case fuel M_%d P_%d %s %s" % (k, k, cs, coq_list(obs))) if with_spec else ("run_case_model fuel P_%d %s %s" % (k, cs, coq_list(obs)))
    if with_ir:
        run = "(%s + 16 * ir_case M_%d P_%d)" % (run, k, k)
    return defs, run


def write_case_files(ctx, name, blocks, per=8):
    """blocks: list of (defs, expr); returns list of files"""
    import os
    files = []
    for i in range(0, len(blocks), per):
        f = os.path.join(ctx.dyn, "cases_%s_%d.v" % (name, i // per))
        chunk = blocks[i:i + per]
        open(f, "w").write(HEADER + "".join(d for d, _ in chunk) + "Definition cases : list Z := [\n  " + ";\n  ".join(e for _, e in chunk) + "].\nEval vm_compute in cases.\n")
        files.append(f)
    return files


def collect_codes(ctx, files, outs, n, per=8):
    import os
    from common import parse_coq_values
    codes = []
    for f in files:
        ok, out, err = outs[f]
        vals = parse_coq_values(out) if ok else []
        if not ok or not vals or not isinstance(vals[0], list):
            ctx.broken.append("correspondence: %s did not evaluate: %s" % (os.path.basename(f), err[-300:]))
            codes.extend([None] * min(per, n - len(codes)))
        else:
            codes.extend(vals[0])
    return codes
