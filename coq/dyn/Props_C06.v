(** * C06 -- The WebAssembly backend agrees with the VM or refuses. *)
From Coq Require Import String ZArith List Bool.
From NSL Require Import Model.PyNum Model.IR Model.VM Spec.Wasm Model.WasmGen Proofs.WasmProofs Proofs.WasmGenProofs Proofs.WasmSimProofs.
From NSLDyn Require Gen_Shapes.
Import ListNotations.
Local Open Scope Z_scope.

(** PARTIAL.  Proved: the integer core of the agreement -- the three ring operations the backend maps to i32.add /
    i32.sub / i32.mul commute with reduction to 32 bits, so computing on unbounded integers (the VM) and reducing
    the final result gives what computing on wrapped values (WebAssembly) gives, for expressions of any size. *)
Theorem C06_wrap_add : forall a b, wrap32 (a + b) = wrap32 (wrap32 a + wrap32 b).
Proof. exact wrap32_add. Qed.
Theorem C06_wrap_sub : forall a b, wrap32 (a - b) = wrap32 (wrap32 a - wrap32 b).
Proof. exact wrap32_sub. Qed.
Theorem C06_wrap_mul : forall a b, wrap32 (a * b) = wrap32 (wrap32 a * wrap32 b).
Proof. exact wrap32_mul. Qed.

(** an arithmetic expression over + - * evaluated on unbounded integers and then wrapped equals its evaluation with
    every intermediate result wrapped (what the emitted i32 code does), whatever the operand values *)
Theorem C06_ring_expressions_agree : forall e env, wrap32 (eval_z env e) = eval_w env e.
Proof. exact ring_expr_agree. Qed.

(** Compiler correctness for the integer ring fragment, on the generator model (which is compared for equality with
    the decoded binary of the real compiler on every run): for every IR function made of argument loads, + - * on
    ints and a return -- any length, any number of parameters, any constants -- and every integer argument vector,
    if the VM model returns v then v is an integer r and the emitted body, executed by the WebAssembly semantics on the
    wrapped arguments with all other locals zero, returns r reduced to 32 bits. *)
Theorem C06_ring_functions_agree : forall F ft ls body zs fuel P st v st',
  gen_function F = Some (ft, ls, body) -> ring_fn F = true -> length zs = argc F ->
  run fuel P F 0 {| regs := init_regs F; vars := []; fargs := map VInt zs |} st = Done v st' ->
  exists r, v = VInt r /\ exec body (map (fun z => WI32 (wrap32 z)) zs ++ map zero_of ls) [] 1 = XVal [WI32 (wrap32 r)].
Proof. exact ring_function_agrees. Qed.

(** Full statement (NOT proved): for every program in the backend's subset and every argument vector, the exported
    function run by a conforming engine returns the reference result (ints exactly, floats to single precision) or
    the compiler refuses.  Division, comparisons and f32 arithmetic are covered by the correspondence: V8, the Coq
    interpreter of Spec.Wasm and the reference semantics on the source. *)
Definition C06_full_statement : Prop := forall (emitted : bytes) (name : list Z) (args : list wval) (expected : wval),
  invoke_export match decode emitted with DOk m _ => m | _ => empty_module end name args = XVal [expected].

Theorem C06_generator_shape : Gen_Shapes.shape_wasm_generator_checked = true.
Proof. reflexivity. Qed.

Eval compute in "ASSUMPTIONS C06_ring_functions_agree"%string. Print Assumptions C06_ring_functions_agree.
Eval compute in "ASSUMPTIONS C06_ring_expressions_agree"%string. Print Assumptions C06_ring_expressions_agree.
Eval compute in "END"%string.
