(** Support for the C08 case files. *)
From Coq Require Import String ZArith List Bool Arith.
From NSL Require Import Base.Util Base.Types Base.Syntax Spec.Prec Model.ParserSR.
Import ListNotations.

Definition binop_eqb (a b : binop) : bool :=
  match a, b with
  | OLor, OLor | OLand, OLand | OEq, OEq | ONe, ONe | OLt, OLt | OLe, OLe | OGt, OGt | OGe, OGe
  | OAdd, OAdd | OSub, OSub | OMul, OMul | ODiv, ODiv | OMod, OMod => true
  | _, _ => false
  end.

Fixpoint etree_eqb (a b : etree) : bool :=
  match a, b with
  | ELeaf x, ELeaf y => Nat.eqb x y
  | ENode o l r, ENode o' l' r' => binop_eqb o o' && etree_eqb l l' && etree_eqb r r'
  | EAsgn x r, EAsgn y r' => Nat.eqb x y && etree_eqb r r'
  | _, _ => false
  end.

(** the table "reduce iff the lookahead does not bind tighter" -- by [sr_parser_exact] the machine run with it returns
    t exactly when t is the prescribed grouping of the tokens *)
Definition spec_decide (o1 o2 : binop) : bool := Nat.leb (lvl o2) (lvl o1).

Definition same_tree (p : option ptree) (impl : option etree) : bool :=
  match p, impl with
  | Some t, Some i => etree_eqb (erase t) i
  | None, None => true
  | _, _ => false
  end.

(** tree built by the real parser (None: syntax error) against the machine run with the regenerated table (model)
    and with the precedence table (specification) *)
Definition pchk (decide : binop -> binop -> bool) (toks : list token) (impl : option etree) : Z :=
  verdict (same_tree (parse decide toks) impl) (same_tree (parse spec_decide toks) impl).

(** the source-level program [export function f(int a0, ..) -> int { return <prescribed grouping of toks>; }] *)
Fixpoint expr_of (names : list string) (t : etree) : expr :=
  match t with
  | ELeaf a => EVar (nth a names EmptyString)
  | ENode o l r => EBin o (expr_of names l) (expr_of names r)
  | EAsgn a r => EAssign AAssign (EVar (nth a names EmptyString)) (expr_of names r)
  end.
Definition tint := TPrim (PScalar CInt).
Definition module_of (names : list string) (toks : list token) : option module :=
  match parse spec_decide toks with
  | Some t => Some {| m_structs := []; m_globals := [];
                      m_funcs := [{| f_name := "f"; f_export := true; f_args := map (fun n => (tint, n)) names; f_ret := tint;
                                     f_body := [SRet (Some (expr_of names (erase t)))] |}] |}
  | None => None
  end.
