(** Non-vacuity of [return_function_simulation]: a concrete function meets every hypothesis, and the conclusion is the
    value a direct evaluation of both sides gives. *)
From Coq Require Import String ZArith List Bool PrimFloat.
From NSL Require Import Base.Types Base.Syntax Model.PyNum Model.IR Model.VM Model.Elab Model.Lower Spec.RefSem Proofs.OpsAgree
                        Proofs.LowerExprProofs Proofs.ElabExprProofs Proofs.ReturnExprProofs Proofs.CallAgreeProofs Harness.FragLib.
Import ListNotations.
Local Open Scope string_scope.

(** int g;  export function f(int a, float b) -> float { return (a + 2) * b + g / 1.5 - (a < g); } *)
Definition ex_e : expr :=
  EBin OSub (EBin OAdd (EBin OMul (EBin OAdd (EVar "a") (EInt 2)) (EVar "b")) (EBin ODiv (EVar "g") (EFloat 1.5))) (EBin OLt (EVar "a") (EVar "g")).
Definition ex_fn : func := {| f_name := "f"; f_export := true; f_args := [(tint, "a"); (tfloat, "b")]; f_ret := tfloat; f_body := [SRet (Some ex_e)] |}.
Definition ex_M : module := {| m_structs := []; m_globals := [(tint, "g")]; m_funcs := [ex_fn] |}.

Example ex_in_fragment : fn_in_fragment ex_M ex_fn = true.
Proof. vm_compute. reflexivity. Qed.

Definition ex_static := Eval vm_compute in fn_static ex_M ex_fn.
Definition ex_tf : tfunc := match ex_static with Some (_, tf, _, _) => tf | None => {| tf_name := ""; tf_args := []; tf_ret := TVoid; tf_body := [] |} end.
Definition ex_F : ifunc := match ex_static with Some (_, _, F, _) => F | None => {| fn_name := ""; fn_args := []; fn_ret := ITVoid; fn_consts := []; fn_blocks := [] |} end.
Definition ex_te : texpr := match ex_static with Some (_, _, _, te) => te | None => XInt 0 end.

Example ex_lits_exact : lits_exact (tflits ex_te).
Proof. intros f f' Hf Hf' _. vm_compute in Hf, Hf'. destruct Hf as [<-|[]]. destruct Hf' as [<-|[]]. reflexivity. Qed.

Definition ex_ws : list rval := [RInt 3; RFloat 2.5%float].
Definition ex_g : RefSem.frame := [("g", SV (RInt 8))].
Definition ex_vs : vmstate := {| globals := [("g", VInt 8)]; hp := [] |}.

Example ex_conclusion : forall P,
  exists v, exec_list ex_M 10 (f_body ex_fn) (call_state ex_fn ex_ws ex_g) = RefSem.ROk (OReturn (SV v), call_state ex_fn ex_ws ex_g) /\
            exists n, forall fuel', n <= fuel' -> run fuel' P ex_F 0 (call_frame ex_ws (init_regs ex_F)) ex_vs = Done (v_of v) ex_vs.
Proof.
  intros P.
  destruct (exec_list ex_M 10 (f_body ex_fn) (call_state ex_fn ex_ws ex_g)) as [[fl st']| | |] eqn:E; try (vm_compute in E; discriminate).
  assert (Hsim := return_function_simulation ex_M ex_fn ex_e ex_tf ex_F ex_te eq_refl eq_refl eq_refl eq_refl eq_refl eq_refl ex_lits_exact).
  assert (Hnan : forall f, In f (tflits ex_te) -> PrimFloat.eqb f f = true) by (intros f Hf; vm_compute in Hf; destruct Hf as [<-|[]]; reflexivity).
  destruct (Hsim Hnan P ex_ws ex_g ex_vs) with (fuel := 10) (fl := fl) (st' := st') as (-> & v & -> & Hrun).
  - repeat constructor.
  - intros x Hx Hg. cbn in Hx, Hg. destruct Hg as [Hg|[]]. subst x. destruct Hx as [Hx|[Hx|[]]]; inversion Hx.
  - intros x p H. unfold genvl in H. cbn [ex_M m_globals map find fst snd] in H. destruct (String.eqb_spec "g" x) as [<-|Hne]; [|discriminate]. inversion H; subst p. cbn.
    split; [left; reflexivity|]. exists (RInt 8). repeat split; reflexivity.
  - exact E.
  - exists v. split; [reflexivity|exact Hrun].
Qed.

(** the two sides, evaluated: (3 + 2) * 2.5 + 8 / 1.5 - (3 < 8) *)
Example ex_values :
  exec_list ex_M 10 (f_body ex_fn) (call_state ex_fn ex_ws ex_g) = RefSem.ROk (OReturn (SV (RFloat 0x1.0d55555555555p+4%float)), call_state ex_fn ex_ws ex_g) /\
  run 40 {| p_funcs := [ex_F]; p_globals := ["g"] |} ex_F 0 (call_frame ex_ws (init_regs ex_F)) ex_vs = Done (VFloat 0x1.0d55555555555p+4%float) ex_vs.
Proof. split; vm_compute; reflexivity. Qed.
