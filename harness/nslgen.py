"""NSL-JSON: the AST interchange format of the harness (DESIGN.md section 4.1), its renderer to NSL
text under arbitrary layouts (recording the span of every token) and generic tree utilities.

Expressions  {"k": "int"|"float"|"id"|"bin"|"par"|"assign"|"pre"|"post"|"call"|"idx"|"mem"|"ctor", ...}
Statements   {"k": "decl"|"expr"|"block"|"ret"|"if"|"for"|"while"|"do"|"break"|"continue", ...}
Items        {"k": "struct"|"global"|"func"|"import", ...};  module = {"items": [...]}
"""
import random

BINOPS = ["||", "&&", "==", "!=", "<", "<=", ">", ">=", "+", "-", "*", "/", "%"]
LEVEL = {"||": 1, "&&": 2, "==": 3, "!=": 3, "<": 4, "<=": 4, ">": 4, ">=": 4, "+": 5, "-": 5, "*": 6, "/": 6, "%": 6}
PUNCT = set(";{}(),[]")


# ------------------------------------------------------------------ constructors
def I(v): return {"k": "int", "v": v}
def F(txt): return {"k": "float", "txt": txt}
def V(n): return {"k": "id", "n": n}
def _B(op, l, r): return {"k": "bin", "op": op, "l": l, "r": r}
def B(op, l, r):
    """binary node; operands are parenthesised exactly where the declared precedence and left associativity would
    otherwise regroup them, so the rendered text parses back to this tree"""
    if l["k"] == "bin" and LEVEL[l["op"]] < LEVEL[op]:
        l = P(l)
    if r["k"] == "bin" and LEVEL[r["op"]] <= LEVEL[op]:
        r = P(r)
    return _B(op, l, r)
def P(e): return {"k": "par", "e": e}
def A(l, r, op="="): return {"k": "assign", "op": op, "l": l, "r": r}
def Pre(op, n): return {"k": "pre", "op": op, "n": n}
def Post(op, n): return {"k": "post", "op": op, "n": n}
def Call(f, args): return {"k": "call", "f": f, "args": args}
def Idx(p, i): return {"k": "idx", "p": p, "i": i}
def Mem(p, m): return {"k": "mem", "p": p, "m": m}
def Ctor(t, args): return {"k": "ctor", "t": t, "args": args}
def Decl(t, n, init=None, dims=None): return {"k": "decl", "t": t, "dims": dims or [], "n": n, "init": init}
def ES(e): return {"k": "expr", "e": e}
def Block(b): return {"k": "block", "b": b}
def Ret(e=None): return {"k": "ret", "e": e}
def ends_with_open_if(s):
    """would a following `else` attach to something inside s?"""
    k = s["k"]
    if k == "if":
        return True if s["f"] is None else ends_with_open_if(s["f"])
    if k in ("for", "while"):
        return s["b"] is not None and ends_with_open_if(s["b"])
    return False


def If(c, t, f=None):
    if f is not None and ends_with_open_if(t):
        t = {"k": "block", "b": [t]}     # keep the else attached to this if
    return {"k": "if", "c": c, "t": t, "f": f}
def For(init, c, n, b): return {"k": "for", "init": init, "c": c, "n": n, "b": b}
def While(c, b): return {"k": "while", "c": c, "b": b}
def Do(b, c): return {"k": "do", "b": b, "c": c}
def Break(): return {"k": "break"}
def Continue(): return {"k": "continue"}
def Func(n, args, ret, body, export=False): return {"k": "func", "n": n, "export": export, "args": args, "ret": ret, "body": body}
def Arg(t, n): return {"t": t, "n": n}
def Global(t, n, dims=None): return {"k": "global", "t": t, "dims": dims or [], "n": n}
def Struct(n, fields): return {"k": "struct", "n": n, "fields": fields}
def Module(items): return {"items": items}


# ------------------------------------------------------------------ tokens
class Tok:
    __slots__ = ("text", "node", "role", "begin", "end", "nl_after")

    def __init__(self, text, node=None, role=None, nl_after=False):
        self.text = text; self.node = node; self.role = role; self.begin = self.end = -1; self.nl_after = nl_after


def _type_toks(t, dims):
    out = [Tok(t)]
    for d in dims:
        out += [Tok("["), Tok(str(d)), Tok("]")]
    return out


def expr_toks(e):
    k = e["k"]
    if k == "int":
        return [Tok(e.get("txt", str(e["v"])), e, "lit")]
    if k == "float":
        return [Tok(e["txt"], e, "lit")]
    if k == "id":
        return [Tok(e["n"], e, "id")]
    if k == "bin":
        return expr_toks(e["l"]) + [Tok(e["op"])] + expr_toks(e["r"])
    if k == "par":
        return [Tok("(")] + expr_toks(e["e"]) + [Tok(")")]
    if k == "assign":
        return expr_toks(e["l"]) + [Tok(e["op"])] + expr_toks(e["r"])
    if k == "pre":
        return [Tok(e["op"]), Tok(e["n"], e, "id")]
    if k == "post":
        return [Tok(e["n"], e, "id"), Tok(e["op"])]
    if k == "call":
        out = [Tok(e["f"]), Tok("(")]
        for i, a in enumerate(e["args"]):
            if i: out.append(Tok(","))
            out += expr_toks(a)
        return out + [Tok(")")]
    if k == "idx":
        return expr_toks(e["p"]) + [Tok("[")] + expr_toks(e["i"]) + [Tok("]")]
    if k == "mem":
        return expr_toks(e["p"]) + [Tok("."), Tok(e["m"], e, "member")]
    if k == "ctor":
        out = [Tok(e["t"]), Tok("(")]
        for i, a in enumerate(e["args"]):
            if i: out.append(Tok(","))
            out += expr_toks(a)
        return out + [Tok(")")]
    raise ValueError(k)


def decl_toks(d):
    out = _type_toks(d["t"], d["dims"]) + [Tok(d["n"], d, "decl")]
    if d.get("init") is not None:
        out += [Tok("=")] + expr_toks(d["init"])
    return out


def stmt_toks(s):
    k = s["k"]
    if k == "decl":
        return decl_toks(s) + [Tok(";", nl_after=True)]
    if k == "expr":
        return expr_toks(s["e"]) + [Tok(";", nl_after=True)]
    if k == "block":
        out = [Tok("{", nl_after=True)]
        for x in s["b"]:
            out += stmt_toks(x)
        return out + [Tok("}", nl_after=True)]
    if k == "ret":
        return [Tok("return")] + (expr_toks(s["e"]) if s["e"] is not None else []) + [Tok(";", nl_after=True)]
    if k == "if":
        out = [Tok("if"), Tok("(")] + expr_toks(s["c"]) + [Tok(")")] + stmt_toks(s["t"])
        if s["f"] is not None:
            out += [Tok("else")] + stmt_toks(s["f"])
        return out
    if k == "for":
        out = [Tok("for"), Tok("(")]
        if s["init"] is not None:
            out += decl_toks(s["init"])
        out.append(Tok(";"))
        if s["c"] is not None:
            out += expr_toks(s["c"])
        out.append(Tok(";"))
        if s["n"] is not None:
            out += expr_toks(s["n"])
        return out + [Tok(")")] + stmt_toks(s["b"])
    if k == "while":
        out = [Tok("while"), Tok("(")] + expr_toks(s["c"]) + [Tok(")")]
        return out + (stmt_toks(s["b"]) if s["b"] is not None else [Tok(";", nl_after=True)])
    if k == "do":
        return [Tok("do")] + stmt_toks(s["b"]) + [Tok("while"), Tok("(")] + expr_toks(s["c"]) + [Tok(")", nl_after=True)]
    if k == "break":
        return [Tok("break"), Tok(";", nl_after=True)]
    if k == "continue":
        return [Tok("continue"), Tok(";", nl_after=True)]
    raise ValueError(k)


def item_toks(it):
    k = it["k"]
    if k == "import":
        return [Tok("import"), Tok('"%s"' % it["n"]), Tok(";", nl_after=True)]
    if k == "global":
        return _type_toks(it["t"], it["dims"]) + [Tok(it["n"], it, "decl"), Tok(";", nl_after=True)]
    if k == "struct":
        out = [Tok("struct"), Tok(it["n"]), Tok("{", nl_after=True)]
        for f in it["fields"]:
            out += _type_toks(f["t"], f.get("dims", [])) + [Tok(f["n"], f, "decl"), Tok(";", nl_after=True)]
        return out + [Tok("}", nl_after=True)]
    if k == "func":
        out = ([Tok("export")] if it["export"] else []) + [Tok("function"), Tok(it["n"]), Tok("(")]
        for i, a in enumerate(it["args"]):
            if i: out.append(Tok(","))
            out += _type_toks(a["t"], a.get("dims", [])) + ([Tok(a["n"], a, "arg")] if a["n"] is not None else [])
        out += [Tok(")"), Tok("->")] + _type_toks(it["ret"], it.get("retdims", []))
        return out + stmt_toks(it["body"])
    raise ValueError(k)


def module_toks(m):
    out = []
    for it in m["items"]:
        out += item_toks(it)
    return out


# ------------------------------------------------------------------ layout
def may_join(a, b):
    """True if tokens a and b can be written with nothing between them without changing the token stream."""
    if a in PUNCT or b in PUNCT:
        return not (a == ")" and False)
    if b == "." and (a[0].isalpha() or a[0] == "_"):
        return True
    if a == "." and (b[0].isalpha() or b[0] == "_"):
        return True
    return False


WILD_SEPS = [" ", "  ", "\t", "\n", "\n\n", " \n\t", "\r\n", "\t \t", "\n   ", "\x0c", "\x0b", " \r\n\r\n  ", "\n\x0c\n"]


def layout(toks, mode="canonical", rng=None, prefix=""):
    """Concatenate tokens with separators; fills Tok.begin/end; returns the text.
    modes: canonical | dense | wild (random whitespace incl. tabs, CRLF, form feed) | lines (one token per line)."""
    rng = rng or random.Random(0)
    parts = [prefix]
    pos = len(prefix)
    prev = None
    for t in toks:
        if prev is not None:
            if mode == "canonical":
                sep = "\n" if prev.nl_after else " "
            elif mode == "dense":
                sep = "" if may_join(prev.text, t.text) else " "
            elif mode == "lines":
                sep = "\n"
            elif mode == "tabs":
                sep = "\t" if not prev.nl_after else "\n\t\t"
            else:
                if may_join(prev.text, t.text) and rng.random() < 0.3:
                    sep = ""
                else:
                    sep = rng.choice(WILD_SEPS)
                    if rng.random() < 0.15:
                        sep += rng.choice(WILD_SEPS)
            parts.append(sep); pos += len(sep)
        t.begin = pos; t.end = pos + len(t.text)
        parts.append(t.text); pos = t.end
        prev = t
    if mode in ("wild",) and rng.random() < 0.5:
        parts.append(rng.choice(["\n", "\n\n", " ", "\r\n"]))
    return "".join(parts)


def render(module, mode="canonical", rng=None, prefix=""):
    toks = module_toks(module)
    text = layout(toks, mode, rng, prefix)
    return text, toks


def render_expr(e, mode="canonical", rng=None):
    toks = expr_toks(e)
    return layout(toks, mode, rng), toks


# ------------------------------------------------------------------ tree utilities
def children(n):
    """semantic children of an expression/statement/item node, in source order"""
    k = n.get("k")
    if k in ("bin", "assign"):
        return [n["l"], n["r"]]
    if k == "par":
        return [n["e"]]
    if k in ("call", "ctor"):
        return list(n["args"])
    if k == "idx":
        return [n["p"], n["i"]]
    if k == "mem":
        return [n["p"]]
    if k == "decl":
        return [n["init"]] if n.get("init") is not None else []
    if k == "expr":
        return [n["e"]]
    if k == "block":
        return list(n["b"])
    if k == "ret":
        return [n["e"]] if n["e"] is not None else []
    if k == "if":
        return [n["c"], n["t"]] + ([n["f"]] if n["f"] is not None else [])
    if k == "for":
        return [x for x in (n["init"], n["c"], n["n"], n["b"]) if x is not None]
    if k == "while":
        return [n["c"]] + ([n["b"]] if n["b"] is not None else [])
    if k == "do":
        return [n["b"], n["c"]]
    if k == "func":
        return [n["body"]]
    return []


def size(n):
    return 1 + sum(size(c) for c in children(n))


def strip_par(e):
    """remove 'par' wrappers (the parser does not represent parentheses)"""
    if isinstance(e, list):
        return [strip_par(x) for x in e]
    if not isinstance(e, dict):
        return e
    if e.get("k") == "par":
        return strip_par(e["e"])
    return {k: strip_par(v) for k, v in e.items()}


def canon_bin(op, l, r):
    """binary node whose operands are parenthesised exactly where the declared precedence and left
    associativity would otherwise regroup them"""
    if l["k"] == "bin" and LEVEL[l["op"]] < LEVEL[op]:
        l = P(l)
    if r["k"] == "bin" and LEVEL[r["op"]] <= LEVEL[op]:
        r = P(r)
    return _B(op, l, r)


# ------------------------------------------------------------------ loose generator (syntactically valid programs)
class Loose:
    """Random syntactically valid programs exercising every located construct; types are not guaranteed."""

    def __init__(self, rng):
        self.rng = rng
        self.names = ["a", "b", "c", "x", "y", "i", "j", "n", "val", "tmp", "count", "abc", "v", "w", "m", "idx_1", "_q"]
        self.counter = 0

    def fresh(self):
        self.counter += 1
        return self.rng.choice(["t", "u", "var", "k", "zz"]) + str(self.counter)

    def lit(self):
        r = self.rng
        c = r.random()
        if c < 0.5:
            return I(r.choice([0, 1, 2, 7, 10, 42, 100, 65535]))
        if c < 0.6:
            v = r.choice([8, 15, 64]); return {"k": "int", "v": v, "txt": "0%o" % v}
        if c < 0.7:
            v = r.choice([255, 4096, 10]); return {"k": "int", "v": v, "txt": "0x%X" % v}
        return F(r.choice(["1.5", "0.25", "2.0", "10.0f", "3.", ".5", "1e3", "2.5e-1"]))

    def access(self, depth):
        r = self.rng
        e = V(r.choice(self.names))
        for _ in range(r.choice([0, 0, 1, 1, 2])):
            if r.random() < 0.5:
                e = Idx(e, self.expr(depth - 1))
            else:
                e = Mem(e, r.choice(["x", "y", "xy", "zyx", "rgba", "field", "w"]))
        return e

    def unary(self, depth):
        r = self.rng
        c = r.random()
        if depth <= 0 or c < 0.35:
            return V(r.choice(self.names)) if r.random() < 0.6 else self.lit()
        if c < 0.55:
            return self.access(depth)
        if c < 0.65:
            return Pre(r.choice(["++", "--"]), r.choice(self.names))
        if c < 0.75:
            return Post(r.choice(["++", "--"]), r.choice(self.names))
        if c < 0.88:
            return Call(r.choice(["f", "g", "helper"]), [self.expr(depth - 1) for _ in range(r.choice([0, 1, 2, 3]))])
        return Ctor(r.choice(["float4", "int2", "float3x3", "float"]), [self.expr(depth - 1) for _ in range(r.choice([1, 2, 4]))])

    def expr(self, depth):
        r = self.rng
        if depth <= 0 or r.random() < 0.4:
            return self.unary(depth)
        e = canon_bin(r.choice(BINOPS), self.expr(depth - 1), self.expr(depth - 1))
        return P(e) if r.random() < 0.3 else e

    def lvalue(self, depth):
        return self.access(depth) if self.rng.random() < 0.5 else V(self.rng.choice(self.names))

    def stmt(self, depth, in_loop=False):
        r = self.rng
        c = r.random()
        if depth <= 0 or c < 0.3:
            c2 = r.random()
            if c2 < 0.35:
                return Decl(r.choice(["int", "float", "float4", "uint", "int3"]), self.fresh(),
                            self.expr(2) if r.random() < 0.6 else None, dims=r.choice([[], [], [], [3], [2, 4]]))
            if c2 < 0.7:
                return ES(A(self.lvalue(1), self.expr(2), r.choice(["=", "=", "+=", "-=", "*=", "/="])))
            if c2 < 0.8:
                return ES(self.unary(2))
            if c2 < 0.9 and in_loop:
                return r.choice([Break(), Continue()])
            return Ret(self.expr(2) if r.random() < 0.8 else None)
        if c < 0.45:
            return Block([self.stmt(depth - 1, in_loop) for _ in range(r.choice([0, 1, 2, 3]))])
        if c < 0.6:
            return If(self.expr(2), self.braced(depth - 1, in_loop), self.braced(depth - 1, in_loop) if r.random() < 0.5 else None)
        if c < 0.75:
            init = Decl("int", self.fresh(), self.expr(1)) if r.random() < 0.7 else None
            return For(init, self.expr(2) if r.random() < 0.85 else None, self.expr(1) if r.random() < 0.85 else None,
                       self.braced(depth - 1, True))
        if c < 0.88:
            return While(self.expr(2), self.braced(depth - 1, True) if r.random() < 0.9 else None)
        return Do(Block([self.stmt(depth - 1, True) for _ in range(r.choice([1, 2]))]), self.expr(2))

    def braced(self, depth, in_loop):
        s = self.stmt(depth, in_loop)
        if s["k"] in ("if", "decl") or self.rng.random() < 0.6:
            return Block([s])
        return s

    def module(self, nfuncs=None):
        r = self.rng
        items = []
        if r.random() < 0.3:
            items.append(Struct("S", [{"t": "float", "n": "field"}, {"t": "int", "n": "count", "dims": r.choice([[], [4]])}]))
        for _ in range(r.choice([0, 0, 1, 2])):
            items.append(Global(r.choice(["int", "float", "float4"]), self.fresh(), dims=r.choice([[], [], [5]])))
        for k in range(nfuncs or r.choice([1, 1, 2, 3])):
            args = [Arg(r.choice(["int", "float", "float4", "uint"]), n) for n in r.sample(self.names, r.choice([0, 1, 2, 3]))]
            body = Block([self.stmt(3) for _ in range(r.choice([1, 2, 4, 6]))])
            items.append(Func(r.choice(["f", "g", "helper", "main"]) + str(k), args, r.choice(["int", "float", "void", "float4"]), body,
                              export=r.random() < 0.5))
        return Module(items)


# ------------------------------------------------------------------ NSL-JSON -> Coq terms (NSL.Base.Syntax)
_COMP = {"float": "CFloat", "int": "CInt", "uint": "CUInt"}
_OPC = {"||": "OLor", "&&": "OLand", "==": "OEq", "!=": "ONe", "<": "OLt", "<=": "OLe", ">": "OGt", ">=": "OGe",
        "+": "OAdd", "-": "OSub", "*": "OMul", "/": "ODiv", "%": "OMod"}
_AOP = {"=": "AAssign", "+=": "AAddEq", "-=": "ASubEq", "*=": "AMulEq", "/=": "ADivEq"}


def coq_pty(name):
    import re
    name = {"matrix3x3": "float3x3", "matrix4x4": "float4x4"}.get(name, name)
    m = re.fullmatch(r"(float|int|uint)(\d)x(\d)", name)
    if m:
        return "(PMat %s %s %s)" % (_COMP[m.group(1)], m.group(2), m.group(3))
    m = re.fullmatch(r"(float|int|uint)(\d)", name)
    if m:
        return "(PVec %s %s)" % (_COMP[m.group(1)], m.group(2))
    if name in _COMP:
        return "(PScalar %s)" % _COMP[name]
    return None


def coq_ty(name, dims=()):
    if name == "void":
        base = "TVoid"
    else:
        p = coq_pty(name)
        base = "(TPrim %s)" % p if p else '(TStruct "%s"%%string)' % name
    if dims:
        return "(TArr %s [%s])" % (base, "; ".join("%d%%nat" % d for d in dims))
    return base


def float_value(txt):
    return float(txt[:-1]) if txt.endswith("f") else float(txt)


def coq_float(v):
    h = v.hex()
    return "(%s)%%float" % h


def coq_expr(e):
    k = e["k"]
    if k == "int":
        return "(EInt (%d))" % e["v"]
    if k == "float":
        return "(EFloat %s)" % coq_float(float_value(e["txt"]))
    if k == "id":
        return '(EVar "%s"%%string)' % e["n"]
    if k == "bin":
        return "(EBin %s %s %s)" % (_OPC[e["op"]], coq_expr(e["l"]), coq_expr(e["r"]))
    if k == "par":
        return coq_expr(e["e"])
    if k == "assign":
        return "(EAssign %s %s %s)" % (_AOP[e["op"]], coq_expr(e["l"]), coq_expr(e["r"]))
    if k in ("pre", "post"):
        return '(%s %s "%s"%%string)' % ("EPre" if k == "pre" else "EPost", "true" if e["op"] == "++" else "false", e["n"])
    if k == "call":
        return '(ECall "%s"%%string [%s])' % (e["f"], "; ".join(coq_expr(a) for a in e["args"]))
    if k == "idx":
        return "(EIdx %s %s)" % (coq_expr(e["p"]), coq_expr(e["i"]))
    if k == "mem":
        return '(EMem %s "%s"%%string)' % (coq_expr(e["p"]), e["m"])
    if k == "ctor":
        return "(ECtor %s [%s])" % (coq_pty(e["t"]), "; ".join(coq_expr(a) for a in e["args"]))
    raise ValueError(k)


def _opt(x, f):
    return "None" if x is None else "(Some %s)" % f(x)


def coq_stmt(s):
    k = s["k"]
    if k == "decl":
        return '(SDecl %s "%s"%%string %s)' % (coq_ty(s["t"], s["dims"]), s["n"], _opt(s.get("init"), coq_expr))
    if k == "expr":
        return "(SExpr %s)" % coq_expr(s["e"])
    if k == "block":
        return "(SBlock [%s])" % "; ".join(coq_stmt(x) for x in s["b"])
    if k == "ret":
        return "(SRet %s)" % _opt(s["e"], coq_expr)
    if k == "if":
        return "(SIf %s %s %s)" % (coq_expr(s["c"]), coq_stmt(s["t"]), _opt(s["f"], coq_stmt))
    if k == "for":
        init = "None" if s["init"] is None else '(Some (%s, "%s"%%string, %s))' % (
            coq_ty(s["init"]["t"], s["init"]["dims"]), s["init"]["n"], _opt(s["init"].get("init"), coq_expr))
        return "(SFor %s %s %s %s)" % (init, _opt(s["c"], coq_expr), _opt(s["n"], coq_expr), coq_stmt(s["b"]))
    if k == "while":
        return "(SWhile %s %s)" % (coq_expr(s["c"]), _opt(s["b"], coq_stmt))
    if k == "do":
        return "(SDo [%s] %s)" % ("; ".join(coq_stmt(x) for x in s["b"]["b"]), coq_expr(s["c"]))
    if k == "break":
        return "SBreak"
    if k == "continue":
        return "SContinue"
    raise ValueError(k)


def coq_module(m):
    structs, globs, funcs = [], [], []
    for it in m["items"]:
        if it["k"] == "struct":
            structs.append('{| s_name := "%s"%%string; s_fields := [%s] |}' % (
                it["n"], "; ".join('(%s, "%s"%%string)' % (coq_ty(f["t"], f.get("dims", [])), f["n"]) for f in it["fields"])))
        elif it["k"] == "global":
            globs.append('(%s, "%s"%%string)' % (coq_ty(it["t"], it["dims"]), it["n"]))
        elif it["k"] == "func":
            funcs.append('{| f_name := "%s"%%string; f_export := %s; f_args := [%s]; f_ret := %s; f_body := [%s] |}' % (
                it["n"], "true" if it["export"] else "false",
                "; ".join('(%s, "%s"%%string)' % (coq_ty(a["t"], a.get("dims", [])), a["n"]) for a in it["args"] if a["n"] is not None),  # a parameter written without a name declares no variable
                coq_ty(it["ret"], it.get("retdims", [])), "; ".join(coq_stmt(x) for x in it["body"]["b"])))
    return "{| m_structs := [%s]; m_globals := [%s]; m_funcs := [%s] |}" % ("; ".join(structs), "; ".join(globs), "; ".join(funcs))
