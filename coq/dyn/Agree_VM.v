(** Agreement between the tables regenerated from nsl/VM.py / nsl/LinearIR.py / passes and what the models implement. *)
From Coq Require Import String ZArith List Bool.
From NSL Require Import Base.Types Base.Syntax Model.PyNum Model.IR Model.VM Model.Lower.
From NSLDyn Require Gen_VM.
Import ListNotations.
Open Scope string_scope.

Definition cmp_py (c : cmp) : string :=
  match c with CLt => "<" | CLe => "<=" | CGt => ">" | CGe => ">=" | CEq => "==" | CNe => "!=" end.
Definition cmp_name (c : cmp) : string :=
  match c with CLt => "CMP_LT" | CLe => "CMP_LE" | CGt => "CMP_GT" | CGe => "CMP_GE" | CEq => "CMP_EQ" | CNe => "CMP_NE" end.

Definition opcode_name (o : binopc) : string :=
  match o with
  | BAdd => "ADD" | BSub => "SUB" | BMul => "MUL" | BDiv => "DIV" | BMod => "MOD" | BLgAnd => "LG_AND" | BLgOr => "LG_OR"
  | BCmp c => cmp_name c
  | BVAdd => "VECTOR_ADD" | BVSub => "VECTOR_SUB" | BVMul => "VECTOR_MUL" | BVDiv => "VECTOR_DIV" | BVMod => "VECTOR_MOD"
  | BVLgAnd => "VECTOR_LG_AND" | BVLgOr => "VECTOR_LG_OR" | BVCmp c => "VECTOR_" ++ cmp_name c
  | BVMulS => "VECTOR_MUL_SCALAR" | BVDivS => "VECTOR_DIV_SCALAR" | BMatMul => "MATRIX_MUL_MATRIX"
  | BOther _ => "_"
  end.

(** the Python expression each arm of the model stands for *)
Definition arm_of (o : binopc) : string :=
  match o with
  | BAdd => "op1 + op2" | BSub => "op1 - op2" | BMul => "op1 * op2" | BMod => "op1 % op2"
  | BDiv => "STMT: if isinstance(instruction.Type, LinearIR.IntegerType):     quotient = abs(op1) // abs(op2)     if (op1 < 0) != (op2 < 0):         quotient = -quotient     localScope[ref] = quotient else:     localScope[ref] = op1 / op2"
  | BLgAnd => "1 if op1 and op2 else 0" | BLgOr => "1 if op1 or op2 else 0"
  | BCmp c => "1 if op1 " ++ cmp_py c ++ " op2 else 0"
  | BVAdd => "[x + y for x, y in zip(op1, op2)]" | BVSub => "[x - y for x, y in zip(op1, op2)]"
  | BVMul => "[x * y for x, y in zip(op1, op2)]" | BVDiv => "[x / y for x, y in zip(op1, op2)]"
  | BVMod => "[x % y for x, y in zip(op1, op2)]"
  | BVLgAnd => "[1 if x and y else 0 for x, y in zip(op1, op2)]" | BVLgOr => "[1 if x or y else 0 for x, y in zip(op1, op2)]"
  | BVCmp c => "[1 if x " ++ cmp_py c ++ " y else 0 for x, y in zip(op1, op2)]"
  | BVMulS => "[v * op2 for v in op1]" | BVDivS => "STMT: if isinstance(instruction.Type.ElementType, LinearIR.IntegerType):     localScope[ref] = [-(abs(v) // abs(op2)) if (v < 0) != (op2 < 0) else abs(v) // abs(op2) for v in op1] else:     localScope[ref] = [v / op2 for v in op1]"
  | BMatMul => "self.__MatrixMatrixMultiply(instruction.Type.Shape, op1, op2)"
  | BOther _ => "Errors.ERROR_INTERNAL_COMPILER_ERROR.Raise(f'Unsupported binary operation: {operation}')"
  end.

Definition slook (k : string) (l : list (string * string)) : option string :=
  option_map snd (find (fun p => String.eqb (fst p) k) l).

Definition all_cmps := [CLt; CLe; CGt; CGe; CEq; CNe].
Definition all_opcs : list binopc :=
  [BAdd; BSub; BMul; BDiv; BMod; BLgAnd; BLgOr; BVAdd; BVSub; BVMul; BVDiv; BVMod; BVLgAnd; BVLgOr; BVMulS; BVDivS; BMatMul; BOther 0]
  ++ map BCmp all_cmps ++ map BVCmp all_cmps.

(** every arm of the VM's binary family is the operation the model implements, and there is no other arm *)
Lemma agree_vm_arms :
  forallb (fun o => match slook (opcode_name o) Gen_VM.vm_binary_arms with Some a => String.eqb a (arm_of o) | None => false end) all_opcs = true
  /\ length Gen_VM.vm_binary_arms = length all_opcs.
Proof. split; vm_compute; reflexivity. Qed.

(** which state each arm of the interpreter writes (CALL must not touch `args`, the caller's argument list) *)
Lemma agree_vm_writes :
  Gen_VM.vm_arm_writes =
  [("LOAD", ["localScope"]); ("STORE", ["args"; "localScope"; "self.__globalScope"]);
   ("LOAD_ARRAY | VECTOR_GET | MATRIX_GET", ["localScope"]); ("LOAD_MEMBER", ["localScope"]); ("STORE_MEMBER", ["localScope"]);
   ("SHUFFLE", ["localScope"]); ("STORE_ARRAY", ["localScope"]); ("BINARY_FAMILY", ["localScope"]); ("BRANCH", []); ("RETURN", []);
   ("CALL", ["localScope"]); ("NEW_VARIABLE", ["localScope"]); ("CAST", ["localScope"]); ("CONSTRUCT_PRIMITIVE", ["localScope"]);
   ("VECTOR_SET", ["localScope"; "result"]); ("MATRIX_SET", ["localScope"; "result"]); ("_", [])].
Proof. reflexivity. Qed.

(** FromOperation, scalar result: the opcode the lowering model selects *)
Definition op_name (o : binop) : string :=
  match o with
  | OLor => "LG_OR" | OLand => "LG_AND" | OEq => "CMP_EQ" | ONe => "CMP_NE" | OLt => "CMP_LT" | OLe => "CMP_LE" | OGt => "CMP_GT" | OGe => "CMP_GE"
  | OAdd => "ADD" | OSub => "SUB" | OMul => "MUL" | ODiv => "DIV" | OMod => "MOD"
  end.
Lemma agree_from_operation_scalar : forall o,
    slook (op_name o) Gen_VM.from_operation_scalar = Some (opcode_name (scalar_opc o)).
Proof. destruct o; reflexivity. Qed.

Lemma agree_small_maps :
  Gen_VM.affix_op_map = [("ADD", "ADD"); ("SUB", "SUB")] /\
  Gen_VM.assign_op_map = [("ASSIGN_ADD_EQUAL", "ADD"); ("ASSIGN_SUB_EQUAL", "SUB"); ("ASSIGN_MUL_EQUAL", "MUL"); ("ASSIGN_DIV_EQUAL", "DIV")] /\
  Gen_VM.swizzle_index_lower = [("r", 0); ("g", 1); ("b", 2); ("a", 3); ("x", 0); ("y", 1); ("z", 2); ("w", 3)]%Z /\
  Gen_VM.swizzle_index_types = [("x", 0); ("y", 1); ("z", 2); ("w", 3); ("r", 0); ("g", 1); ("b", 2); ("a", 3)]%Z.
Proof. repeat split; reflexivity. Qed.

(** the binary family is exactly the opcodes whose value >> 16 is 1 *)
Lemma agree_binary_family :
  forallb (fun o => match find (fun p => String.eqb (fst p) (opcode_name o)) Gen_VM.opcode_values with
                    | Some p => Z.eqb (Z.shiftr (snd p) 16) 1 | None => match o with BOther _ => true | _ => false end end) all_opcs = true.
Proof. vm_compute. reflexivity. Qed.
