(** * C01 for functions of the form [function f(params) -> t { return e; }] with [e] a pure scalar expression:
    the value the compiled function returns on the VM model is the value the reference semantics gives [e].
    Composition of stage 1 (lowering) and stage 2 (elaboration) with the constant-table facts. *)
From Coq Require Import String ZArith List Bool PrimFloat Arith Lia.
From NSL Require Import Base.Types Base.Syntax Spec.Overload Model.PyNum Model.IR Model.VM Model.TypesBin Model.Elab Model.Lower Spec.RefSem
                        Proofs.OpsAgree Proofs.LowerExprProofs Proofs.ElabExprProofs.
Import ListNotations.

Section Compose.
  Variable M : module.
  Variable fn : func.
  Variable e : expr.
  Hypothesis Hbody : f_body fn = [SRet (Some e)].
  Hypothesis Hpure : spure e = true.
  Definition genv_of : genv := {| ge_structs := m_structs M; ge_funcs := m_funcs M |}.
  Definition genvl : list (string * ty) := map (fun g => (snd g, fst g)) (m_globals M).
  Definition glnames : list string := map snd (m_globals M).
  Definition fenv : tenv := [[]; map (fun a => (snd a, fst a)) (f_args fn); genvl].
  Definition argnames : list string := map snd (f_args fn).

  Variable tf : tfunc.
  Hypothesis Helab : elab_func genv_of genvl fn = EOk tf.
  Variable F : ifunc.
  Hypothesis Hlower : lower_func (m_structs M) glnames tf = LOk F.

  Lemma elab_func_return_inv : exists te, elab genv_of COn fenv e = EOk te /\ tf_body tf = [TRet (Some te)] /\ tf_args tf = f_args fn.
  Proof.
    unfold elab_func in Helab. rewrite Hbody in Helab. fold fenv in Helab. cbn [elab_body elab_stmt elab_opt ebind] in Helab.
    destruct (elab genv_of COn fenv e) as [te| |] eqn:Ee; cbn [ebind] in Helab; try discriminate.
    inversion Helab; subst tf. exists te. auto.
  Qed.

  Theorem return_expression_simulation : forall te,
    elab genv_of COn fenv e = EOk te -> tok te = true ->
    lits_exact (tflits te) -> (forall f, In f (tflits te) -> PrimFloat.eqb f f = true) ->
    forall (P : program) (argv : list val) (vs : vmstate) (st : RefSem.state),
      let fr0 := {| regs := init_regs F; vars := []; fargs := argv |} in
      (forall x t, tlookup fenv x = Some t ->
         num_ty t /\ exists w, var_get st x = RefSem.ROk (SV w) /\ has_ty w t /\ var_val glnames argnames [] fr0 vs x = Ok (v_of w)) ->
      forall fuel s st', eval M fuel e st = RefSem.ROk (s, st') ->
        st' = st /\ exists v, s = SV v /\ exists n, forall fuel', n <= fuel' -> run fuel' P F 0 fr0 vs = Done (v_of v) vs.
  Proof.
    intros te Hte Hk Hlit Hnan P argv vs st fr0 Hagree fuel s st' Hev.
    destruct elab_func_return_inv as (te' & Hte' & Htb & Hta). rewrite Hte in Hte'. inversion Hte'; subst te'; clear Hte'.
    destruct (lower_func_return_inv _ _ _ _ _ Htb Hlower) as (r & st1 & Hl & Hcs). rewrite Hta in Hl. fold argnames in Hl.
    assert (Hpure_t : tpure te = true /\
              forall fuel s st', eval M fuel e st = RefSem.ROk (s, st') -> st' = st /\ exists v, s = SV v /\ has_ty v (type_of te) /\
                                   teval (m_structs M) glnames argnames (fn_consts F) [] fr0 vs te = Ok (v_of v)).
    { (* the table facts need tpure, which stage 2 provides together with the semantics; literals first, for an arbitrary table use *)
      assert (Hstage2 : forall cs,
                (forall z, In z (tilits te) -> teval (m_structs M) glnames argnames cs [] fr0 vs (XInt z) = Ok (VInt z)) ->
                (forall f, In f (tflits te) -> teval (m_structs M) glnames argnames cs [] fr0 vs (XFloat f) = Ok (VFloat f) /\ PrimFloat.eqb f f = true) ->
                tpure te = true /\
                forall fuel s st', eval M fuel e st = RefSem.ROk (s, st') -> st' = st /\ exists v, s = SV v /\ has_ty v (type_of te) /\
                                   teval (m_structs M) glnames argnames cs [] fr0 vs te = Ok (v_of v)).
      { intros cs H1 H2. exact (elab_pure_correct M genv_of (m_structs M) glnames argnames cs [] fr0 vs fenv st Hagree e te Hpure Hte Hk H1 H2). }
      (* tpure is independent of the table: take it from an instance whose literal hypotheses are those of the real table, proved below *)
      assert (Hp : tpure te = true) by exact (elab_pure_tpure genv_of glnames argnames [] fr0 vs fenv st Hagree e te Hpure Hte Hnan).
      destruct (lower_table (m_structs M) glnames argnames (tflits te) te lstate0 r st1 Hp linv0 Hl) as (_ & Htab & _ & Hpi & Hpf).
      { intros c []. }
      { intros f Hf. exact Hf. }
      apply Hstage2; rewrite Hcs.
      - intros z Hz. cbn [teval]. destruct (Hpi z Hz) as [c Hc]. rewrite Hc. rewrite (lookup_exact_int _ _ _ _ Htab Hc). reflexivity.
      - intros f Hf. split; [|apply Hnan; exact Hf]. cbn [teval]. destruct (Hpf f Hf) as [c Hc]. rewrite Hc. rewrite (lookup_exact_float _ _ _ _ Htab Hlit Hf Hc). reflexivity. }
    destruct Hpure_t as (Hp & Hsem). destruct (Hsem _ _ _ Hev) as (-> & v & -> & _ & Hv).
    split; [reflexivity|]. exists v. split; [reflexivity|].
    assert (Hv' : teval (m_structs M) glnames (map snd (tf_args tf)) (fn_consts F) [] {| regs := init_regs F; vars := []; fargs := argv |} vs te = Ok (v_of v)).
    { rewrite Hta. exact Hv. }
    exact (return_function_correct (m_structs M) glnames tf te F Htb Hp Hlower P argv vs (v_of v) Hv').
  Qed.
End Compose.
