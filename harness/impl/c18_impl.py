"""Implementation side of C18: compile `history` sources first (same process), then `target` with a fresh Compiler();
return the InstructionPrinter listing, the structural IR dump and the wasm bytes."""
import sys, json, io, contextlib, os
sys.path.insert(0, os.path.dirname(os.path.abspath(__file__)))
from nsl import Compiler, LinearIR
import irdump
from compile_impl import classify_exc


def listing(m):
    lines = []
    def cb(*args, end="\n"):
        lines.append(" ".join(str(a) for a in args) + end)
    p = LinearIR.InstructionPrinter(cb)
    for f in m.Functions.values():
        p.Print(f)
    return "".join(lines)


def compile_one(src, opts, reuse=None, later=()):
    buf = io.StringIO()
    try:
        with contextlib.redirect_stdout(buf), contextlib.redirect_stderr(buf):
            c = reuse or Compiler.Compiler()
            r = c.Compile(src, dict(opts))
        # `later`: sources compiled AFTER the target, before its result is read -- a result must not change once it has been returned
        for h in later:
            compile_one(h["src"], h.get("opts", {}))
        if r is None:
            return {"accept": False, "how": {"exc": None}}
        out = {"accept": True, "listing": listing(r.IRModule), "imports": sorted(r.IRModule.Imports), "globals": list(r.IRModule.Globals.keys())}
        try:
            out["ir"] = irdump.module(r.IRModule)
        except BaseException as e:
            out["ir_error"] = str(e)[:100]
        if opts.get("wasm") and r.WasmModule is not None:
            b = io.BytesIO(); r.WasmModule.WriteTo(b); out["wasm"] = b.getvalue().hex()
        return out
    except BaseException as e:
        return {"accept": False, "how": classify_exc(e)}


def run(job):
    shared = Compiler.Compiler() if job.get("reuse_compiler") else None
    for h in job.get("history", []):
        compile_one(h["src"], h.get("opts", {}), shared)
    return compile_one(job["target"], job.get("opts", {}), shared, job.get("later", ()))


if __name__ == "__main__":
    jobs = json.load(open(sys.argv[1]))
    json.dump([run(j) for j in jobs], open(sys.argv[2], "w"))
