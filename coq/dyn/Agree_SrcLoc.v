(** Agreement of the location arithmetic regenerated from the source with the model the proofs are about. *)
From Coq Require Import String ZArith List Bool Lia.
From NSL Require Import Model.SrcLoc.
From NSLDyn Require Gen_SrcLoc.
Import ListNotations.
Open Scope Z_scope.

Lemma agree_offsets : forall lines cur, Gen_SrcLoc.offsets cur lines = offsets cur lines.
Proof.
  induction lines as [|l ls IH]; intros cur; cbn [Gen_SrcLoc.offsets offsets]; [reflexivity|].
  f_equal. rewrite IH. f_equal. lia.
Qed.

Lemma agree_line_offsets : forall s, Gen_SrcLoc.line_offsets s = line_offsets s.
Proof. intros. unfold Gen_SrcLoc.line_offsets, line_offsets. apply agree_offsets. Qed.

Lemma agree_line_from_offset : forall s off, Gen_SrcLoc.line_from_offset s off = line_from_offset s off.
Proof. intros. unfold Gen_SrcLoc.line_from_offset, line_from_offset. rewrite agree_line_offsets. reflexivity. Qed.

Lemma agree_line_start_offset : forall s l, Gen_SrcLoc.line_start_offset s l = line_start_offset s l.
Proof. intros. unfold Gen_SrcLoc.line_start_offset, line_start_offset. rewrite agree_line_offsets. reflexivity. Qed.

Lemma agree_loc_str : forall s b e, Gen_SrcLoc.loc_str s b e = loc_str s b e.
Proof.
  intros. unfold Gen_SrcLoc.loc_str, loc_str. rewrite !agree_line_from_offset, !agree_line_start_offset.
  destruct ((b =? -1) && (e =? -1)); [reflexivity|].
  destruct (line_from_offset s b =? line_from_offset s e).
  - destruct (line_start_offset s (line_from_offset s b)); reflexivity.
  - destruct (line_start_offset s (line_from_offset s b)); [|reflexivity].
    destruct (line_start_offset s (line_from_offset s e)); reflexivity.
Qed.

Lemma agree_merge2 : forall a b, Gen_SrcLoc.merge2 a b = merge2 a b.
Proof. intros. reflexivity. Qed.

Lemma agree_merge : forall f r, Gen_SrcLoc.merge f r = merge f r.
Proof. intros. reflexivity. Qed.

Lemma agree_token_span : forall pos len, Gen_SrcLoc.token_span pos len = (pos, pos + len).
Proof. intros. reflexivity. Qed.

(** every parser action takes the location of an identifier or literal from the identifier / literal token *)
Definition located_token (t : string) : bool :=
  existsb (String.eqb t) ["ID"; "INT_CONST_DEC"; "INT_CONST_OCT"; "INT_CONST_HEX"; "FLOAT_CONST"]%string.

Lemma agree_location_tokens :
  forallb (fun row => forallb (fun kt => located_token (snd kt)) (snd row)) Gen_SrcLoc.location_tokens = true.
Proof. vm_compute. reflexivity. Qed.
