(** * C01 -- Compiled programs compute what the source says (scalar core, VM). *)
From Coq Require Import String ZArith List Bool PrimFloat.
From NSL Require Import Base.Types Base.Syntax Model.PyNum Model.IR Model.VM Model.PyTree Model.Elab Model.Lower Spec.RefSem
     Harness.RunLib Proofs.OpsAgree Proofs.LowerExprProofs Proofs.ElabExprProofs Proofs.ReturnExprProofs Proofs.CallAgreeProofs
     Proofs.ReturnExprExample Harness.FragLib Proofs.LowerStmtProofs Proofs.ElabStmtProofs Proofs.StraightLineProofs Proofs.StraightLineExample
     Proofs.ForwardProofs Harness.FwdLib Harness.FragLib2 Model.Opt Proofs.FlowLowerProofs Proofs.FlowFuncProofs Harness.FlowLib
     Proofs.FlowElabProofs Proofs.FlowTableProofs Proofs.FlowSimProofs Proofs.FlowSimExample Harness.FlowLib2 Proofs.HistoryRefineProofs
     Proofs.LoopLowerProofs Proofs.LoopElabProofs Proofs.LoopSimProofs Proofs.ForElabProofs Proofs.LoopSimExample Proofs.DoSimExample Proofs.ForLowerExample Proofs.ForSimExample Harness.LoopLib.
From NSLDyn Require Gen_VM Agree_VM Gen_Shapes.
Import ListNotations.

(** The full statement: for every program of the scalar core that the front end accepts, whenever the reference
    semantics of the source defines the result of invoking an exported function (inside the numeric domain), the
    VM run on the compiled module terminates with a Python-equal result and Python-equal globals. *)
Definition C01_full_statement : Prop :=
  forall (M : module) (P : program) (c : call) (n : nat) (r : pv) (g : list (string * pv)),
    compile M = COk P ->
    fst (spec_call n M [] c) = ORet r g ->
    exists m r' g', fst (model_call m P (vm_init P) c) = ORet r' g' /\ pv_pyeq r r' = true /\ globals_eqb pv_pyeq g g' = true.

(** PARTIAL (what is machine-checked so far):
    (1) every scalar arm of the VM computes the operator the reference semantics prescribes, on every pair of
        operand values for which the reference semantics defines a result -- all 13 operators, ints and floats, mixed
        operands, truncating integer division, 0/1 comparisons and logical operators; the arm table is the one in
        nsl/VM.py on this run and the opcode is the one FromOperation selects (Agree_VM);
    (2) the inserted int->float conversion is the specified promotion.
    The statement-level simulation (lowering of control flow) is tied by the correspondence: the lowering model
    reproduces the real IR exactly, and implementation, VM model and reference semantics agree on every generated
    program. *)
Theorem C01_operators_agree_partial : forall o a b r,
    eval_binop o a b = ROk r ->
    scalar_op (scalar_opc o) (both_int a b) (v_of a) (v_of b) = Ok (v_of r).
Proof. exact scalar_op_agrees. Qed.

Theorem C01_selected_arm_is_source_arm_partial : forall o,
    Agree_VM.slook (Agree_VM.op_name o) Gen_VM.from_operation_scalar = Some (Agree_VM.opcode_name (scalar_opc o)) /\
    Agree_VM.slook (Agree_VM.opcode_name (scalar_opc o)) Gen_VM.vm_binary_arms = Some (Agree_VM.arm_of (scalar_opc o)).
Proof. intros o. split; [apply Agree_VM.agree_from_operation_scalar|destruct o; reflexivity]. Qed.

Theorem C01_promotion_partial : forall z f, to_f (RInt z) = ROk f -> cast_scalar ITFloat (VInt z) = Ok (VFloat f).
Proof. exact cast_to_float_agrees. Qed.

(** PARTIAL (3): the whole pipeline for functions of the form  function f(params) -> t { return e; }  with e built from
    int / float literals, int / float parameters and globals and the 13 binary operators, of ANY size: if the front-end
    model elaborates the function ([elab_func]: operator typing, implicit casts) and the lowering model lowers it
    ([lower_func]: constants pooled, operands left to right into fresh registers, arm selected by [scalar_opc] with the
    integer flag of the result type, argument accesses by index) to the IR function F, then, at every call whose
    arguments and globals are numbers of the declared types, whenever the reference semantics runs the body to a result,
    that result is a number v and the VM model running F from its first instruction returns exactly v and leaves the VM
    state unchanged, for every sufficient amount of fuel.  [tok]: && and || only on int operands (on float operands the
    front end types the 0/1 result as float, and a following / divides differently); [lits_exact]: no two float literals of
    the function equal as numbers but different as values (+0.0 / -0.0: the constant pool is keyed by ==).  The model
    functions [elab_func] and [lower_func] are the ones compared for EQUALITY with the real compiler's IR on every run.
    Missing for the full statement: statements other than a single return (locals, assignments, control flow, calls),
    aggregates. *)
Theorem C01_return_expression_functions_partial :
  forall (M : module) (fn : func) (e : expr) (tf : tfunc) (F : ifunc) (te : texpr),
    f_body fn = [SRet (Some e)] -> spure e = true ->
    elab_func (genv_of M) (genvl M) fn = EOk tf -> lower_func (m_structs M) (glnames M) tf = LOk F ->
    elab (genv_of M) COn (fenv M fn) e = EOk te -> tok te = true ->
    lits_exact (tflits te) -> (forall f, In f (tflits te) -> PrimFloat.eqb f f = true) ->
    forall (P : program) (ws : list rval) (g : RefSem.frame) (vs : vmstate),
      Forall2 (fun p w => has_ty w (fst p)) (f_args fn) ws ->
      (forall x, In x (map snd (f_args fn)) -> ~ In x (glnames M)) ->
      (forall x p, find (fun q => String.eqb (fst q) x) (genvl M) = Some p ->
         num_ty (snd p) /\ exists w, find (fun q => String.eqb (fst q) x) g = Some (fst p, SV w) /\ has_ty w (snd p) /\ slookup x (globals vs) = Some (v_of w)) ->
      forall fuel fl st', exec_list M fuel (f_body fn) (call_state fn ws g) = ROk (fl, st') ->
        st' = call_state fn ws g /\
        exists v, fl = OReturn (SV v) /\ exists n, forall fuel', n <= fuel' -> run fuel' P F 0 (call_frame ws (init_regs F)) vs = Done (v_of v) vs.
Proof. exact return_function_simulation. Qed.

(** the boolean membership test the check evaluates on every generated function delivers the static hypotheses *)
Theorem C01_fragment_test_sound : forall M fn, fn_in_fragment M fn = true ->
  exists e tf F te,
    f_body fn = [SRet (Some e)] /\ spure e = true /\ elab_func (genv_of M) (genvl M) fn = EOk tf /\ lower_func (m_structs M) (glnames M) tf = LOk F /\
    elab (genv_of M) COn (fenv M fn) e = EOk te /\ tok te = true /\ (forall f, In f (tflits te) -> PrimFloat.eqb f f = true) /\
    (forall x, In x (map snd (f_args fn)) -> ~ In x (glnames M)).
Proof. exact fn_in_fragment_sound. Qed.

(** non-vacuity of (3): int g; f(int a, float b) -> float { return (a + 2) * b + g / 1.5 - (a < g); } at a = 3, b = 2.5, g = 8 *)
Example C01_return_expression_example : forall P,
  exists v, exec_list ex_M 10 (f_body ex_fn) (call_state ex_fn ex_ws ex_g) = ROk (OReturn (SV v), call_state ex_fn ex_ws ex_g) /\
            exists n, forall fuel', n <= fuel' -> run fuel' P ex_F 0 (call_frame ex_ws (init_regs ex_F)) ex_vs = Done (v_of v) ex_vs.
Proof. exact ex_conclusion. Qed.

(** PARTIAL (4): straight-line functions.  The body is any sequence of declarations of int / float locals (with or without
    initialiser) and assignments -- plain or compound (+= -= *= /=, which front end and reference semantics both read as
    x = x op e) -- to int / float locals, parameters and globals, each right-hand side a pure expression as in (3),
    followed by  return e.  If the front-end model elaborates and the lowering model lowers the function to F, then at
    every call with numeric arguments and globals of the declared types, whenever the reference semantics runs the body
    to completion it returns a number v, and the VM model running F returns exactly v and ends in a VM state that agrees
    with the reference state on every visible name (in particular on every global), for every sufficient fuel.
    Hypotheses as in (3), plus: declared names differ from parameter and global names (the front end rejects the others,
    C12).  [straight_in_fragment] decides the static hypotheses (sound by C01_straight_fragment_test_sound) and is
    evaluated by the check on every generated straight-line function.
    Missing for the full statement: control flow, calls, aggregates, ++ / --. *)
Theorem C01_straight_line_functions_partial :
  forall (M : module) (fn : func) (l : list stmt) (e : expr) (tf : tfunc) (F : ifunc),
    f_body fn = l ++ [SRet (Some e)] -> forallb ssimple l = true -> spure e = true ->
    elab_func (genv_of M) (genvl M) fn = EOk tf -> lower_func (m_structs M) (glnames M) tf = LOk F ->
    forall tl te, tf_body tf = tl ++ [TRet (Some te)] -> length tl = length l ->
    forallb stok tl = true -> tok te = true ->
    lits_exact (flat_map tflits (body_exprs tl ++ [te])) -> (forall q, In q (flat_map tflits (body_exprs tl ++ [te])) -> PrimFloat.eqb q q = true) ->
    Forall (fresh_decl (glnames M) (argnames fn)) l ->
    forall (P : program) (ws : list rval) (g : RefSem.frame) (vs : vmstate),
      Forall2 (fun p w => has_ty w (fst p)) (f_args fn) ws ->
      (forall x, In x (map snd (f_args fn)) -> ~ In x (glnames M)) ->
      (forall x p, find (fun q => String.eqb (fst q) x) (genvl M) = Some p ->
         num_ty (snd p) /\ exists w, find (fun q => String.eqb (fst q) x) g = Some (fst p, SV w) /\ has_ty w (snd p) /\ slookup x (globals vs) = Some (v_of w)) ->
      forall fuel fl st', exec_list M fuel (f_body fn) (call_state fn ws g) = ROk (fl, st') ->
        exists v vs', fl = OReturn (SV v) /\
          (exists n, forall fuel', n <= fuel' -> run fuel' P F 0 (call_frame ws (init_regs F)) vs = Done (v_of v) vs') /\
          exists locals' V' A', Agree (glnames M) (argnames fn) (env_after (fenv M fn) l) st' locals' V' A' vs'.
Proof. exact straight_line_function_simulation. Qed.

Theorem C01_straight_fragment_test_sound : forall M fn, straight_in_fragment M fn = true ->
  exists l e tf F tl te,
    f_body fn = l ++ [SRet (Some e)] /\ forallb ssimple l = true /\ spure e = true /\
    elab_func (genv_of M) (genvl M) fn = EOk tf /\ lower_func (m_structs M) (glnames M) tf = LOk F /\
    tf_body tf = tl ++ [TRet (Some te)] /\ length tl = length l /\ forallb stok tl = true /\ tok te = true /\
    (forall q, In q (flat_map tflits (body_exprs tl ++ [te])) -> PrimFloat.eqb q q = true) /\
    Forall (fresh_decl (glnames M) (argnames fn)) l /\ (forall x, In x (map snd (f_args fn)) -> ~ In x (glnames M)).
Proof. exact straight_in_fragment_sound. Qed.

(** non-vacuity of (4), and its composition with C02: int g; f(int a, float b) -> float
    { int x = a + 2; float y; y = x * b; g = g + x; a = a - 1; return y + g / 1.5 - a; }  at a = 3, b = 2.5, g = 8;
    the lowered function is inside the fragment of the forwarding theorem, and the optimised function returns the same *)
Example C01_straight_line_example :
  fwd_fragment_b sl_F = true /\
  run 60 {| p_funcs := [sl_F]; p_globals := ["g"%string] |} sl_F 0 (call_frame sl_ws (init_regs sl_F)) sl_vs =
  run 60 {| p_funcs := [sl_F]; p_globals := ["g"%string] |} (opt_load_after_store sl_F) 0 (call_frame sl_ws (init_regs sl_F)) sl_vs.
Proof. split; vm_compute; reflexivity. Qed.
Example C01_straight_line_instance : forall P,
  exists v vs', fst (match exec_list sl_M 12 (f_body sl_fn) (call_state sl_fn sl_ws sl_g) with ROk p => p | _ => (ONormal, call_state sl_fn sl_ws sl_g) end) = OReturn (SV v) /\
                exists n, forall fuel', n <= fuel' -> run fuel' P sl_F 0 (call_frame sl_ws (init_regs sl_F)) sl_vs = Done (v_of v) vs'.
Proof. exact sl_conclusion. Qed.

(** PARTIAL (5): the lowering of CONDITIONALS is correct (typed AST to IR).  For every typed function whose body is a
    sequence of declarations, assignments, blocks and if / if-else statements (conditions and right-hand sides pure; blocks
    and branches contain assignments, blocks and conditionals, nested to any depth up to the index n) followed by a return:
    whatever IR function F the lowering model produces, running F on the VM model from its first instruction performs
    exactly what [topexec_list] prescribes -- evaluate the condition with the VM's operators, take the branch its
    truth value selects, perform the assignments in order -- and returns the value of the returned expression.  The proof
    follows the lowering through its blocks and PATCHED branch targets: [fok] (references of constants, blocks and
    instructions pairwise distinct and below the counter) is preserved by the five moves of the lowering state (pool a
    constant, emit, register a local, start a block, patch the targets of a branch); the flat code only grows and earlier
    instructions are only changed by patches of their own construct ([upd_layout]); a block's offset is fixed when it is
    created ([boffs]); executions with jumps ([jruns]) are composed from the straight-line executions of the parts and
    the two branch instructions.  [flow_in_fragment] decides the hypotheses and is evaluated by the check on generated
    functions.  The source side is (6) below. *)
Theorem C01_conditional_lowering_partial : forall structs gl (f : tfunc) n l te F,
  tf_body f = l ++ [TRet (Some te)] -> forallb (top_ok n) l = true -> tpure te = true -> lower_func structs gl f = LOk F ->
  forall P argv vs locals' V' A' vs' v,
    topexec_list structs gl (map snd (tf_args f)) n (fn_consts F) [] l [] argv vs = Some (locals', V', A', vs') ->
    teval structs gl (map snd (tf_args f)) (fn_consts F) locals' (mkfr V' A') vs' te = Ok v ->
    exists N, forall fuel, N <= fuel -> run fuel P F 0 {| regs := init_regs F; vars := []; fargs := argv |} vs = Done v vs'.
Proof. exact flow_function_correct. Qed.

(** PARTIAL (6): END TO END for functions with CONDITIONALS.  For every source function whose body is a sequence of
    declarations of int/float locals, plain or compound assignments to int/float locals, parameters and globals, blocks
    and if / if-else statements (conditions and right-hand sides pure scalar expressions; blocks and branches contain
    assignments, blocks and conditionals nested to any depth up to the index n, no declarations inside) followed by
    [return e]: if the front-end model elaborates it and the lowering model produces F, then at every call with numeric
    arguments and globals of the declared types, whenever the reference semantics runs the body to an outcome, that
    outcome is the return of a number v, and the VM model running F from its first instruction returns exactly v, for
    every sufficient fuel, and ends in a state that agrees with the reference state on every visible name.  Composition of
    (5) with the source side: elaboration of blocks and conditionals preserves the reference semantics ([src_all]: the
    frames pushed for a block or a conditional stay empty, so the agreement on visible names survives push and pop; the
    truth value of the condition is the VM's), the constant table of a function with nested statements holds every
    literal typed and exact ([flow_function_lits_ok]), and the call agreement.  [flowsrc_in_fragment] decides the
    static hypotheses and is evaluated by the check on generated functions.  While loops: (7) below. *)
Theorem C01_conditional_functions_partial :
  forall (M : module) (fn : func) (n : nat) (l : list stmt) (e : expr) (tf : tfunc) (F : ifunc),
    f_body fn = l ++ [SRet (Some e)] -> forallb (stop n) l = true -> spure e = true ->
    elab_func (genv_of M) (genvl M) fn = EOk tf -> lower_func (m_structs M) (glnames M) tf = LOk F ->
    forall tl te, tf_body tf = tl ++ [TRet (Some te)] -> length tl = length l ->
    forallb tok (flat_map (topexprs n) tl ++ [te]) = true ->
    lits_exact (flat_map tflits (flat_map (topexprs n) tl ++ [te])) -> (forall q, In q (flat_map tflits (flat_map (topexprs n) tl ++ [te])) -> PrimFloat.eqb q q = true) ->
    Forall (fresh_decl (glnames M) (argnames fn)) l ->
    forall (P : program) (ws : list rval) (g : RefSem.frame) (vs : vmstate),
      Forall2 (fun p w => has_ty w (fst p)) (f_args fn) ws ->
      (forall x, In x (map snd (f_args fn)) -> ~ In x (glnames M)) ->
      (forall x p, find (fun q => String.eqb (fst q) x) (genvl M) = Some p ->
         num_ty (snd p) /\ exists w, find (fun q => String.eqb (fst q) x) g = Some (fst p, SV w) /\ has_ty w (snd p) /\ slookup x (globals vs) = Some (v_of w)) ->
      forall fuel fl st', exec_list M fuel (f_body fn) (call_state fn ws g) = ROk (fl, st') ->
        exists v vs', fl = OReturn (SV v) /\
          (exists N, forall fuel', N <= fuel' -> run fuel' P F 0 (call_frame ws (init_regs F)) vs = Done (v_of v) vs') /\
          (exists locals' V' A', Agree (glnames M) (argnames fn) (env_after (fenv M fn) l) st' locals' V' A' vs') /\
          (forall y, In y (locals_names st') -> In y (flat_map decl_name l) \/ In y (locals_names (call_state fn ws g))).
Proof. exact flow_function_simulation. Qed.

Theorem C01_conditional_fragment_test_sound : forall M fn, flowsrc_in_fragment M fn = true ->
  exists l e tf F tl te,
    f_body fn = l ++ [SRet (Some e)] /\ forallb (stop flow_depth) l = true /\ spure e = true /\
    elab_func (genv_of M) (genvl M) fn = EOk tf /\ lower_func (m_structs M) (glnames M) tf = LOk F /\
    tf_body tf = tl ++ [TRet (Some te)] /\ length tl = length l /\ forallb tok (flat_map (topexprs flow_depth) tl ++ [te]) = true /\
    (forall q, In q (flat_map tflits (flat_map (topexprs flow_depth) tl ++ [te])) -> PrimFloat.eqb q q = true) /\
    Forall (fresh_decl (glnames M) (argnames fn)) l /\ (forall x, In x (map snd (f_args fn)) -> ~ In x (glnames M)).
Proof. exact flowsrc_in_fragment_sound. Qed.

(** non-vacuity of (6): int g; f(int a, float b) -> float
    { float y = b * 0.5; if (a > 1) { y += a; if (g) { g = g - 1; } } else { a = a + 3; } { y = y - 0.5; } return y + a + g; }
    at a = 3, b = 2.5, g = 8: both sides give 13.75 and leave g = 7 *)
Example C01_conditional_instance : forall P,
  exists v vs', fst (match exec_list fs_M 14 (f_body fs_fn) (call_state fs_fn fs_ws fs_g) with ROk p => p | _ => (ONormal, call_state fs_fn fs_ws fs_g) end) = OReturn (SV v) /\
                exists n, forall fuel', n <= fuel' -> run fuel' P fs_F 0 (call_frame fs_ws (init_regs fs_F)) fs_vs = Done (v_of v) vs'.
Proof. exact fs_conclusion. Qed.
Example C01_conditional_values :
  flowsrc_in_fragment fs_M fs_fn = true /\
  run 80 {| p_funcs := [fs_F]; p_globals := ["g"%string] |} fs_F 0 (call_frame fs_ws (init_regs fs_F)) fs_vs = Done (VFloat 13.75%float) {| globals := [("g"%string, VInt 7)]; hp := [] |}.
Proof. split; vm_compute; reflexivity. Qed.

(** PARTIAL (7): END TO END for functions with WHILE LOOPS.  The fragment of (6) extended by [while (c) body] statements at the
    top level of the function body: the condition a pure scalar expression, the body made of assignments (plain or compound),
    blocks and nested conditionals (no declarations inside, no break / continue).  Whenever the reference semantics runs the
    body -- whatever the number of iterations -- the outcome is the return of a number v, and the VM model running the lowered
    function returns exactly v for every sufficient fuel, in a state that agrees with the reference state on every visible
    name.  Lowering side ([loop_function_correct], [tres_while]): the loop's blocks (condition, body, exit), the branch patched
    with both targets and the jump back are followed by induction on the number of evaluations of the condition; the code
    holds no break / continue placeholders, so the final [patch] is the identity ([nobc], [patch_id]).  Source side
    ([src_while]): an execution of the reference semantics with fuel k evaluates the condition at most k times; the frame of
    the body stays empty.  DO LOOPS ([wstop] also admits [do body while (c)] at the top level, body a list of assignments,
    blocks and nested conditionals): lowering side [tres_do] -- start block, body, condition block, the branch emitted with
    its true target (the start block) and patched with its false target, by induction on the number of executions of the
    body; source side [src_do] -- the body runs in two pushed frames that stay empty, the condition in one.
    FOR LOOPS ([wstop] also admits [for (t x = i; c; y = e) body] at the top level: a scalar declaration with a pure initialiser, a pure
    condition, a plain assignment as increment, a body of assignments, blocks and nested conditionals): lowering side [tres_forloop] /
    [tres_for]; source side [src_for] -- the reference semantics keeps the loop variable in a frame of its own that holds nothing else, the
    VM keeps it as a local of the function; the extra hypothesis [fors_fresh] says that the variable is not visible where the loop stands
    (not a global, not a parameter, not declared before -- the name validator rejects such programs: C12), so popping its frame changes
    no visible name ([Agree_pop1]).  [loopsrc_in_fragment] decides the static hypotheses, [fors_fresh] included, and is evaluated by the check on generated
    functions.  Missing: break / continue, loops inside loops or conditionals, declarations inside blocks and loop
    bodies, early returns, calls, aggregates. *)
Theorem C01_loop_functions_partial :
  forall (M : module) (fn : func) (n : nat) (l : list stmt) (e : expr) (tf : tfunc) (F : ifunc),
    f_body fn = l ++ [SRet (Some e)] -> forallb (wstop n) l = true -> spure e = true ->
    elab_func (genv_of M) (genvl M) fn = EOk tf -> lower_func (m_structs M) (glnames M) tf = LOk F ->
    forall tl te, tf_body tf = tl ++ [TRet (Some te)] -> length tl = length l ->
    forallb tok (flat_map (wtopexprs n) tl ++ [te]) = true ->
    lits_exact (flat_map tflits (flat_map (wtopexprs n) tl ++ [te])) -> (forall q, In q (flat_map tflits (flat_map (wtopexprs n) tl ++ [te])) -> PrimFloat.eqb q q = true) ->
    Forall (fresh_decl (glnames M) (argnames fn)) l -> fors_fresh (glnames M) (argnames fn) (fenv M fn) l ->
    forall (P : program) (ws : list rval) (g : RefSem.frame) (vs : vmstate),
      Forall2 (fun p w => has_ty w (fst p)) (f_args fn) ws ->
      (forall x, In x (map snd (f_args fn)) -> ~ In x (glnames M)) ->
      (forall x p, find (fun q => String.eqb (fst q) x) (genvl M) = Some p ->
         num_ty (snd p) /\ exists w, find (fun q => String.eqb (fst q) x) g = Some (fst p, SV w) /\ has_ty w (snd p) /\ slookup x (globals vs) = Some (v_of w)) ->
      forall fuel fl st', exec_list M fuel (f_body fn) (call_state fn ws g) = ROk (fl, st') ->
        exists v vs', fl = OReturn (SV v) /\
          (exists N, forall fuel', N <= fuel' -> run fuel' P F 0 (call_frame ws (init_regs F)) vs = Done (v_of v) vs') /\
          (exists locals' V' A', Agree (glnames M) (argnames fn) (env_after (fenv M fn) l) st' locals' V' A' vs') /\
          (forall y, In y (locals_names st') -> In y (flat_map decl_name l) \/ In y (locals_names (call_state fn ws g))).
Proof. exact loop_function_simulation. Qed.

Theorem C01_loop_fragment_test_sound : forall M fn, loopsrc_in_fragment M fn = true ->
  exists l e tf F tl te,
    f_body fn = l ++ [SRet (Some e)] /\ forallb (wstop flow_depth) l = true /\ spure e = true /\
    elab_func (genv_of M) (genvl M) fn = EOk tf /\ lower_func (m_structs M) (glnames M) tf = LOk F /\
    tf_body tf = tl ++ [TRet (Some te)] /\ length tl = length l /\ forallb tok (flat_map (wtopexprs flow_depth) tl ++ [te]) = true /\
    (forall q, In q (flat_map tflits (flat_map (wtopexprs flow_depth) tl ++ [te])) -> PrimFloat.eqb q q = true) /\
    Forall (fresh_decl (glnames M) (argnames fn)) l /\ (forall x, In x (map snd (f_args fn)) -> ~ In x (glnames M)) /\
    fors_fresh (glnames M) (argnames fn) (fenv M fn) l.
Proof. exact loopsrc_in_fragment_sound. Qed.

(** non-vacuity of (7): int g; f(int n, float b) -> float
    { float acc = b * 0.5; int i = 0; while (i < n) { acc += i; if (g) { g = g - 1; } i = i + 1; } return acc + g; }
    at n = 4, b = 3, g = 2: both sides give 7.5 and leave g = 0 *)
Example C01_loop_instance : forall P,
  exists v vs', fst (match exec_list lp_M 30 (f_body lp_fn) (call_state lp_fn lp_ws lp_g) with ROk p => p | _ => (ONormal, call_state lp_fn lp_ws lp_g) end) = OReturn (SV v) /\
                exists n, forall fuel', n <= fuel' -> run fuel' P lp_F 0 (call_frame lp_ws (init_regs lp_F)) lp_vs = Done (v_of v) vs'.
Proof. exact lp_conclusion. Qed.
Example C01_loop_values :
  loopsrc_in_fragment lp_M lp_fn = true /\
  run 200 {| p_funcs := [lp_F]; p_globals := ["g"%string] |} lp_F 0 (call_frame lp_ws (init_regs lp_F)) lp_vs = Done (VFloat 7.5%float) {| globals := [("g"%string, VInt 0)]; hp := [] |}.
Proof. split; vm_compute; reflexivity. Qed.

(** (7') LOOPS, TYPED AST TO IR, including FOR loops: for every typed function whose body is a list of declarations, assignments, blocks,
    conditionals and -- at the top level -- [while (c) b], [do b while (c)] and [for (t x = i; c; y = e) b] statements (conditions and the
    initialiser pure, the increment an assignment to a scalar variable, bodies made of assignments, blocks and nested conditionals),
    followed by a return: the IR function the lowering model produces performs on the VM model exactly what [wtopexec_list] prescribes --
    the header declaration first, then condition, body and increment in turn for as many rounds as the condition holds -- and returns
    the value of the returned expression.  For loops: [tres_forloop] (condition block, body block, increment block, exit block; the branch
    patched with both targets, the jump back from the increment block; induction on the number of evaluations of the condition) composed
    with the header declaration by [tres_seq].  The source side of for loops is part of (7). *)
Theorem C01_loop_lowering_partial : forall structs gl (f : tfunc) n k l te F,
  tf_body f = l ++ [TRet (Some te)] -> forallb (wtop_ok n) l = true -> tpure te = true -> lower_func structs gl f = LOk F ->
  forall P argv vs locals' V' A' vs' v,
    wtopexec_list structs gl (map snd (tf_args f)) n k (fn_consts F) [] l [] argv vs = Some (locals', V', A', vs') ->
    teval structs gl (map snd (tf_args f)) (fn_consts F) locals' (mkfr V' A') vs' te = Ok v ->
    exists N, forall fuel, N <= fuel -> run fuel P F 0 {| regs := init_regs F; vars := []; fargs := argv |} vs = Done v vs'.
Proof. exact loop_function_correct. Qed.

(** non-vacuity of (7') for a for loop: int g; f(int n, float b) -> float
    { float acc = b * 0.5; for (int i = 0; i < n; i = i + 1) { acc += i; if (i < g) { g = g - 1; } } return acc + g; }
    at n = 3, b = 1, g = 2: the lowered function returns 4.5 and leaves g = 1 *)
Example C01_for_loop_lowering_instance : forall P,
  exists N, forall fuel, N <= fuel ->
    run fuel P fl_F 0 {| regs := init_regs fl_F; vars := []; fargs := fl_argv |} fl_vs = Done (VFloat 4.5%float) {| globals := [("g"%string, VInt 1)]; hp := [] |}.
Proof. exact fl_conclusion. Qed.
Example C01_for_loop_in_fragment : forallb (wtop_ok flow_depth) fl_tl = true /\ existsb (fun s => match s with TFor _ _ _ _ => true | _ => false end) fl_tl = true.
Proof. exact fl_in_typed_fragment. Qed.

(** non-vacuity of (7) for for loops: int g; f(int n, float b) -> float
    { float acc = b * 0.5; for (int i = 0; i < n; i = i + 1) { acc += i; if (i < g) { g = g - 1; } } return acc + g; }
    at n = 3, b = 1, g = 2: both sides give 4.5 and leave g = 1 *)
Example C01_for_loop_instance : forall P,
  exists v vs', fst (match exec_list fo_M 30 (f_body fo_fn) (call_state fo_fn fo_ws fo_g) with ROk p => p | _ => (ONormal, call_state fo_fn fo_ws fo_g) end) = OReturn (SV v) /\
                exists n, forall fuel', n <= fuel' -> run fuel' P fo_F 0 (call_frame fo_ws (init_regs fo_F)) fo_vs = Done (v_of v) vs'.
Proof. exact fo_conclusion. Qed.
Example C01_for_loop_values :
  loopsrc_in_fragment fo_M fo_fn = true /\
  run 200 {| p_funcs := [fo_F]; p_globals := ["g"%string] |} fo_F 0 (call_frame fo_ws (init_regs fo_F)) fo_vs = Done (VFloat 4.5%float) {| globals := [("g"%string, VInt 1)]; hp := [] |}.
Proof. split; vm_compute; reflexivity. Qed.

(** non-vacuity of (7) for do loops: int g; f(int n, float b) -> float
    { float acc = b * 0.5; int i = 0; do { acc += i; if (i < g) { g = g - 1; } i = i + 1; } while (i < n); return acc + g; }
    at n = 3, b = 1, g = 2: both sides give 4.5 and leave g = 1 *)
Example C01_do_loop_instance : forall P,
  exists v vs', fst (match exec_list dl_M 30 (f_body dl_fn) (call_state dl_fn dl_ws dl_g) with ROk p => p | _ => (ONormal, call_state dl_fn dl_ws dl_g) end) = OReturn (SV v) /\
                exists n, forall fuel', n <= fuel' -> run fuel' P dl_F 0 (call_frame dl_ws (init_regs dl_F)) dl_vs = Done (v_of v) vs'.
Proof. exact dl_conclusion. Qed.
Example C01_do_loop_values :
  loopsrc_in_fragment dl_M dl_fn = true /\
  run 200 {| p_funcs := [dl_F]; p_globals := ["g"%string] |} dl_F 0 (call_frame dl_ws (init_regs dl_F)) dl_vs = Done (VFloat 4.5%float) {| globals := [("g"%string, VInt 1)]; hp := [] |}.
Proof. split; vm_compute; reflexivity. Qed.

(** non-vacuity: 7 / 2 and -7 / 2 truncate; mixed arithmetic promotes; % on non-negative operands *)
Example C01_examples :
  eval_binop ODiv (RInt 7) (RInt 2) = ROk (RInt 3) /\ eval_binop ODiv (RInt (-7)) (RInt 2) = ROk (RInt (-3)) /\
  eval_binop OAdd (RInt 1) (RFloat 0.5) = ROk (RFloat 1.5) /\ eval_binop OMod (RInt 7) (RInt 3) = ROk (RInt 1) /\
  eval_binop OLe (RFloat 0.5) (RInt 1) = ROk (RInt 1).
Proof. vm_compute. repeat split; reflexivity. Qed.

Eval compute in "ASSUMPTIONS C01_operators_agree_partial"%string. Print Assumptions C01_operators_agree_partial.
Eval compute in "ASSUMPTIONS C01_selected_arm_is_source_arm_partial"%string. Print Assumptions C01_selected_arm_is_source_arm_partial.
Eval compute in "ASSUMPTIONS C01_return_expression_functions_partial"%string. Print Assumptions C01_return_expression_functions_partial.
Eval compute in "ASSUMPTIONS C01_straight_line_functions_partial"%string. Print Assumptions C01_straight_line_functions_partial.
Eval compute in "ASSUMPTIONS C01_conditional_lowering_partial"%string. Print Assumptions C01_conditional_lowering_partial.
Eval compute in "ASSUMPTIONS C01_conditional_functions_partial"%string. Print Assumptions C01_conditional_functions_partial.
Eval compute in "ASSUMPTIONS C01_loop_functions_partial"%string. Print Assumptions C01_loop_functions_partial.
Eval compute in "ASSUMPTIONS C01_loop_lowering_partial"%string. Print Assumptions C01_loop_lowering_partial.
Eval compute in "END"%string.
