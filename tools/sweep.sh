#!/bin/bash
# usage: tools/sweep.sh "<seeds>" [tier] [props...]  -- run every registered check for each seed on the current tree; one line per (seed, property)
# (evidence files are rewritten by these runs: regenerate them with the default seed before committing)
cd /verif
SEEDS=${1:-"1 2 3"}; TIER=${2:-quick}; shift; shift
PROPS=${@:-"C01 C02 C03 C04 C05 C06 C07 C08 C09 C10 C11 C12 C13 C14 C15 C16 C18 C19 C20"}
for s in $SEEDS; do for p in $PROPS; do
  out=$(VERIF_SEED=$s ./check $p --tier $TIER 2>&1); rc=$?
  echo "seed=$s $p rc=$rc $(echo "$out" | grep -c '^VIOLATION') violation(s) | $(echo "$out" | tail -1)"
done; done
