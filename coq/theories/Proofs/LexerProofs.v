(** * C08, last sentence: the token string the lexer delivers does not depend on the blanks, tabs and line breaks
    between tokens -- for every token list and every choice of separators that keeps neighbours from merging. *)
From Coq Require Import String Ascii List Bool Arith NArith Lia.
From NSL Require Import Base.Types Model.Lexer.
Import ListNotations.
Local Open Scope char_scope.

(** ** character classes (facts about all 256 characters, by computation) *)
Ltac all_ascii c := destruct c as [[] [] [] [] [] [] [] []]; cbn; try reflexivity; try discriminate; auto.

Lemma digit_not_alpha c : is_digit c = true -> is_alpha c = false.  Proof. all_ascii c. Qed.
Lemma digit_is_word c : is_digit c = true -> is_word c = true.      Proof. all_ascii c. Qed.
Lemma alpha_is_word c : is_alpha c = true -> is_word c = true.      Proof. unfold is_word. intros ->. reflexivity. Qed.
Lemma digit19_digit c : is_digit19 c = true -> is_digit c = true.   Proof. all_ascii c. Qed.
Lemma blank_not_word c : is_blank c = true -> is_word c = false.    Proof. all_ascii c. Qed.
Lemma num_cont_word c : is_num_cont c = true -> is_word c = true \/ Ascii.eqb c "." = true.  Proof. all_ascii c. Qed.
Lemma word_not_blank c : is_word c = true -> is_blank c = false.    Proof. all_ascii c. Qed.

Lemma span_app p : forall a rest, forallb p a = true -> (match rest with x :: _ => p x = false | [] => True end) -> span p (a ++ rest) = (a, rest).
Proof.
  induction a as [|c a IH]; intros rest Ha Hr; cbn.
  - destruct rest as [|x r]; [reflexivity|]. cbn. rewrite Hr. reflexivity.
  - cbn in Ha. apply andb_prop in Ha as [Hc Ha]. rewrite Hc, (IH rest Ha Hr). reflexivity.
Qed.

(** ** well-formed tokens and what may follow them directly *)
Definition wf_tok (t : ltok) : bool :=
  match t with
  | LId s => match s with c :: _ => is_alpha c && forallb is_word s | [] => false end
  | LInt None ds => match ds with
                    | [c] => is_digit c
                    | c :: _ => is_digit19 c && forallb is_digit ds
                    | [] => false end
  | LInt (Some _) ds => match ds with c :: _ => is_digit19 c && forallb is_digit ds | [] => false end
  | _ => true
  end.

(** the character directly after a token must not change how the token is read *)
Definition follow_ok (t : ltok) (c : ascii) : bool :=
  match t with
  | LId _ | LInt _ _ => negb (is_word c) && negb (Ascii.eqb c ".")
  | LOp OAdd => negb (Ascii.eqb c "+") && negb (Ascii.eqb c "=") && negb (is_digit19 c)
  | LOp OSub => negb (Ascii.eqb c "-") && negb (Ascii.eqb c "=") && negb (Ascii.eqb c ">") && negb (is_digit19 c)
  | LOp OLt => negb (Ascii.eqb c "=") && negb (Ascii.eqb c "<")
  | LOp OGt => negb (Ascii.eqb c "=") && negb (Ascii.eqb c ">")
  | LOp OMul | LOp ODiv | LOp OMod | LAssign => negb (Ascii.eqb c "=")
  | _ => true
  end.
Definition next_ok (t : ltok) (rest : list ascii) : bool := match rest with c :: _ => follow_ok t c | [] => true end.

Lemma follow_blank t c : is_blank c = true -> follow_ok t c = true.
Proof. intros H. destruct t as [s|sg ds|o| | |]; try destruct o; cbn; revert H; all_ascii c. Qed.

(** ** one token *)
Lemma lex_one_tok t rest : wf_tok t = true -> next_ok t rest = true -> lex_one (tok_text t ++ rest) = Some (t, rest).
Proof.
  intros Hw Hn. destruct t as [s|sg ds|o| | |]; cbn [tok_text].
  - (* identifier *)
    destruct s as [|c s]; [discriminate|]. cbn in Hw. apply andb_prop in Hw as [Ha Hall].
    cbn [app lex_one]. rewrite Ha.
    change (c :: s ++ rest) with ((c :: s) ++ rest).
    rewrite (span_app is_word (c :: s) rest); [reflexivity|exact Hall|].
    destruct rest as [|x r]; [exact I|]. cbn in Hn. apply andb_prop in Hn as [H1 _]. apply negb_true_iff in H1. exact H1.
  - (* number *)
    assert (Hrest : match rest with x :: _ => is_digit x = false | [] => True end).
    { destruct rest as [|x r]; [exact I|]. cbn in Hn. apply andb_prop in Hn as [H1 _]. apply negb_true_iff in H1.
      destruct (is_digit x) eqn:E; [|reflexivity]. rewrite (digit_is_word x E) in H1. discriminate. }
    assert (Hbad : match rest with x :: _ => is_num_cont x | [] => false end = false).
    { destruct rest as [|x r]; [reflexivity|]. cbn in Hn. apply andb_prop in Hn as [H1 H2]. apply negb_true_iff in H1, H2.
      destruct (is_num_cont x) eqn:E; [|reflexivity]. destruct (num_cont_word x E); congruence. }
    destruct sg as [b|].
    + (* signed *)
      destruct ds as [|d ds]; [discriminate|]. cbn in Hw. apply andb_prop in Hw as [Hd Hall].
      assert (Hsign : forall sc, (sc = "-" \/ sc = "+") -> lex_one (sc :: (d :: ds) ++ rest) = Some (LInt (Some (Ascii.eqb sc "-")) (d :: ds), rest)).
      { intros sc Hsc. cbn [lex_one]. assert (Hna : is_alpha sc = false) by (destruct Hsc; subst; reflexivity).
        assert (Hnd : is_digit sc = false) by (destruct Hsc; subst; reflexivity). rewrite Hna, Hnd.
        assert (Hs : (Ascii.eqb sc "+" || Ascii.eqb sc "-") = true) by (destruct Hsc; subst; reflexivity). rewrite Hs. cbn [andb app]. rewrite Hd.
        change (d :: ds ++ rest) with ((d :: ds) ++ rest). rewrite (span_app is_digit (d :: ds) rest Hall Hrest). rewrite Hbad. reflexivity. }
      destruct b; [exact (Hsign "-" (or_introl eq_refl))|exact (Hsign "+" (or_intror eq_refl))].
    + (* unsigned *)
      destruct ds as [|d ds]; [discriminate|].
      assert (Hd : is_digit d = true /\ forallb is_digit (d :: ds) = true /\ (Ascii.eqb d "0" = true -> ds = [])).
      { cbn in Hw. destruct ds as [|d2 ds2].
        - split; [exact Hw|]. split; [cbn; rewrite Hw; reflexivity|reflexivity].
        - apply andb_prop in Hw as [H19 Hall]. split; [apply digit19_digit; exact H19|]. split; [exact Hall|].
          intros H0. apply Ascii.eqb_eq in H0. subst. discriminate. }
      destruct Hd as (Hdig & Hall & Hzero).
      cbn [app lex_one]. rewrite (digit_not_alpha d Hdig), Hdig.
      change (d :: ds ++ rest) with ((d :: ds) ++ rest). rewrite (span_app is_digit (d :: ds) rest Hall Hrest). rewrite Hbad.
      destruct (Ascii.eqb d "0") eqn:E0; [|reflexivity]. rewrite (Hzero eq_refl). reflexivity.
  - (* operator *)
    destruct o; cbn [op_text app]; destruct rest as [|c r]; cbn in Hn |- *; try reflexivity;
      repeat match type of Hn with _ && _ = true => apply andb_prop in Hn as [Hn ?] end;
      repeat match goal with H : negb _ = true |- _ => apply negb_true_iff in H end;
      repeat match goal with H : _ = false |- _ => rewrite H end; try reflexivity.
  - destruct rest as [|c r]; cbn in Hn |- *; [reflexivity|]. apply negb_true_iff in Hn. rewrite Hn. reflexivity.
  - reflexivity.
  - reflexivity.
Qed.

Lemma tok_text_nonblank t : wf_tok t = true -> exists c r, tok_text t = c :: r /\ is_blank c = false.
Proof.
  destruct t as [s|sg ds|o| | |]; cbn; intros Hw.
  - destruct s as [|c s]; [discriminate|]. apply andb_prop in Hw as [Ha _]. exists c, s. split; [reflexivity|apply word_not_blank, alpha_is_word, Ha].
  - destruct sg as [[]|]; [eexists; eexists; split; reflexivity|eexists; eexists; split; reflexivity|].
    destruct ds as [|d ds]; [discriminate|]. exists d, ds. split; [reflexivity|]. apply word_not_blank, digit_is_word.
    destruct ds; [exact Hw|]. apply andb_prop in Hw as [H _]. apply digit19_digit, H.
  - destruct o; eexists; eexists; split; reflexivity.
  - eexists; eexists; split; reflexivity.
  - eexists; eexists; split; reflexivity.
  - eexists; eexists; split; reflexivity.
Qed.

(** ** separators *)
(** [seps] has one separator before every token and one after the last; a separator is any string of blanks, tabs
    and line breaks; it may be empty only where the token before it tolerates the first character of the next one *)
Fixpoint seps_ok (prev : option ltok) (toks : list ltok) (seps : list (list ascii)) : bool :=
  match toks, seps with
  | t :: r, s :: ss =>
      forallb is_blank s &&
      (match prev, s with
       | Some p, [] => match tok_text t with c :: _ => follow_ok p c | [] => false end
       | _, _ => true end) &&
      seps_ok (Some t) r ss
  | [], [s] => forallb is_blank s
  | _, _ => false
  end.

Lemma lex_blanks : forall s fuel rest, forallb is_blank s = true -> lex (length s + fuel) (s ++ rest) = lex fuel rest.
Proof.
  induction s as [|c s IH]; intros fuel rest H; [reflexivity|]. cbn in H. apply andb_prop in H as [Hc Hs].
  cbn [length plus app lex]. rewrite Hc. apply IH. exact Hs.
Qed.

Lemma lex_fuel_mono : forall fuel cs r, lex fuel cs = Some r -> forall k, lex (k + fuel) cs = Some r.
Proof.
  induction fuel as [|fu IH]; intros cs r H k; [discriminate|].
  replace (k + S fu) with (S (k + fu)) by lia. cbn [lex] in *. destruct cs as [|c rest]; [exact H|].
  destruct (is_blank c); [apply IH; exact H|]. destruct (lex_one (c :: rest)) as [[t rest']|]; [|discriminate].
  destruct (lex fu rest') as [r'|] eqn:E; [|discriminate]. rewrite (IH _ _ E k). exact H.
Qed.

Lemma next_ok_sep p s t rest : forallb is_blank s = true -> wf_tok t = true ->
  (match s with [] => match tok_text t with c :: _ => follow_ok p c | [] => false end | _ => true end) = true ->
  next_ok p (s ++ tok_text t ++ rest) = true.
Proof.
  intros Hs Hw Hadj. destruct s as [|c s]; cbn.
  - destruct (tok_text_nonblank t Hw) as (c & r & E & _). rewrite E in *. cbn. exact Hadj.
  - cbn in Hs. apply andb_prop in Hs as [Hc _]. apply follow_blank. exact Hc.
Qed.

(** The main statement, generalised over the token read last. *)
Lemma lex_render_from : forall toks seps prev, forallb wf_tok toks = true -> seps_ok prev toks seps = true ->
  (* whatever precedes: the text from here on lexes to exactly toks, given enough fuel *)
  exists fuel, lex fuel (render toks seps) = Some toks /\
               (match prev with Some p => next_ok p (render toks seps) = true | None => True end).
Proof.
  induction toks as [|t r IH]; intros seps prev Hw Hs.
  - destruct seps as [|s [|s2 ss]]; cbn in Hs; try discriminate. cbn [render].
    exists (length s + 1). split.
    + rewrite <- (app_nil_r s) at 2. rewrite (lex_blanks s 1 [] Hs). reflexivity.
    + destruct prev as [p|]; [|exact I]. destruct s as [|c s']; [reflexivity|]. cbn in Hs. apply andb_prop in Hs as [Hc _]. cbn. apply follow_blank. exact Hc.
  - destruct seps as [|s ss]; [discriminate|]. cbn in Hw. apply andb_prop in Hw as [Hwt Hwr].
    cbn in Hs. apply andb_prop in Hs as [Hs Hrest]. apply andb_prop in Hs as [Hblank Hadj].
    destruct (IH ss (Some t) Hwr Hrest) as (fuel & Hlex & Hnext).
    cbn [render].
    destruct (tok_text_nonblank t Hwt) as (c & tr & Et & Hnb).
    exists (length s + S fuel). split.
    + rewrite (lex_blanks s (S fuel) _ Hblank).
      pose proof (lex_one_tok t (render r ss) Hwt Hnext) as Hl1. rewrite Et in Hl1. cbn [app] in Hl1.
      rewrite Et. cbn [app lex]. rewrite Hnb, Hl1, Hlex. reflexivity.
    + destruct prev as [p|]; [|exact I]. apply next_ok_sep; [exact Hblank|exact Hwt|].
      destruct s; [exact Hadj|reflexivity].
Qed.

(** C08: every two layouts of the same token list lex to the same token list (namely that list) *)
Theorem lex_layout_independent : forall toks seps1 seps2, forallb wf_tok toks = true ->
  seps_ok None toks seps1 = true -> seps_ok None toks seps2 = true ->
  exists f1 f2, lex f1 (render toks seps1) = Some toks /\ lex f2 (render toks seps2) = Some toks.
Proof.
  intros toks seps1 seps2 Hw H1 H2.
  destruct (lex_render_from toks seps1 None Hw H1) as (f1 & L1 & _).
  destruct (lex_render_from toks seps2 None Hw H2) as (f2 & L2 & _).
  exists f1, f2. split; assumption.
Qed.

(** with the natural fuel (the length of the text) *)
Theorem lex_render : forall toks seps, forallb wf_tok toks = true -> seps_ok None toks seps = true ->
  exists fuel, forall k, lex (k + fuel) (render toks seps) = Some toks.
Proof.
  intros toks seps Hw Hs. destruct (lex_render_from toks seps None Hw Hs) as (f & L & _).
  exists f. intros k. apply lex_fuel_mono. exact L.
Qed.
