(** * C02 -- Optimisation never changes observable behaviour. *)
From Coq Require Import String ZArith List Bool Arith PrimFloat.
From NSL Require Import Base.Types Base.Syntax Model.PyNum Model.IR Model.VM Model.WfIR Model.Elab Model.Lower Model.Opt Spec.RefSem Proofs.WfIRProofs Proofs.OptProofs Proofs.ForwardProofs Harness.FwdLib
     Proofs.OpsAgree Proofs.LowerExprProofs Proofs.ElabExprProofs Proofs.ReturnExprProofs Proofs.CallAgreeProofs Proofs.LowerStmtProofs Proofs.ElabStmtProofs
     Proofs.StraightLineProofs Proofs.LowerWfProofs Proofs.StraightOptProofs
     Proofs.FlowFuncProofs Proofs.FlowElabProofs Proofs.FlowTableProofs Proofs.FlowSimProofs Proofs.FlowSimExample Proofs.ForwardFlowProofs Harness.FwdFlowLib Proofs.FlowOptProofs
     Proofs.ForwardFlowFailProofs Proofs.ConstCastFlowProofs Harness.CCLib Proofs.OptPipelineExample Proofs.FlowOptFullProofs
     Proofs.LoopLowerProofs Proofs.LoopElabProofs Proofs.LoopSimProofs Proofs.LoopSimExample Proofs.LoopOptProofs Proofs.LoopOptExample Harness.LoopLib.
From NSLDyn Require Gen_Shapes.
Import ListNotations.

(** The full statement: for every well-formed IR function the optimised function is observationally equivalent
    on the VM (same result value, same globals, same kind of failure), for every input and execution length. *)
Definition outcome_equiv (a b : outcome) : Prop :=
  match a, b with
  | Done v st, Done v' st' => v = v' /\ globals st = globals st'
  | Fail e, Fail e' => e = e'
  | UnmodelledO, _ | _, UnmodelledO => True
  | _, _ => False
  end.
Definition C02_full_statement : Prop :=
  forall P P' fn named st n out, wf_program_b P = true -> optimise P = OOk P' ->
    invoke n P fn named st = out -> out <> OutOfFuel ->
    exists m, outcome_equiv (invoke m P' fn named st) out.

(** PARTIAL (machine-checked so far): the optimised module the real compiler produces is checked well-formed by
    [wf_program_b] on every run, and a well-formed module never reads an undefined value (the failure mode the
    property singles out: "never fails, returns nothing or reads an undefined value"), whatever the input. *)
Theorem C02_optimised_wellformed_never_undefined_partial : forall fuel P fn named st,
    wf_program_b P = true -> find_func P fn <> None -> ~ bad (invoke fuel P fn named st).
Proof. exact wf_invoke_sound. Qed.

(** forwarding chains resolve to a value that is not itself removed *)
Example C02_chain_example :
  las_scan None [ {| i_ref := 1; i_ty := ITInt false; i_body := ILoad SArg (VIndex 0) |};
                  {| i_ref := 2; i_ty := ITInt false; i_body := IStore SLocal (VName "x") 1 |};
                  {| i_ref := 3; i_ty := ITInt false; i_body := ILoad SLocal (VName "x") |};
                  {| i_ref := 4; i_ty := ITInt false; i_body := IStore SLocal (VName "y") 3 |};
                  {| i_ref := 5; i_ty := ITInt false; i_body := ILoad SLocal (VName "y") |};
                  {| i_ref := 6; i_ty := ITInt false; i_body := IRet (Some 5) |} ] [] = [(3, 1); (5, 1)].
Proof. reflexivity. Qed.

(** Two value-level facts behind the equivalence, for every program:
    folding the cast of a constant yields exactly the value the VM's CAST computes from that constant (and folding
    refuses only where the VM's CAST fails); a load that directly follows a store to the same variable -- local,
    argument or global -- delivers the stored value, so rewiring its users to the stored value preserves what they read. *)
Theorem C02_constant_folding_is_vm_cast : forall t c v, fold_cast t c = OOk v -> cast_scalar t (const_val c) = Ok (const_val v).
Proof. exact fold_cast_is_vm_cast. Qed.
Theorem C02_folding_refuses_only_where_vm_fails : forall t c, fold_cast t c = ORaise -> forall v, cast_scalar t (const_val c) <> Ok v.
Proof. exact fold_cast_raises_only_where_vm_fails. Qed.
Theorem C02_load_after_store_delivers_stored : forall F pc fr st sc v src w iS iL pc1 fr1 st1,
  i_body iS = IStore sc v src -> i_body iL = ILoad sc v -> rget fr src = Ok w ->
  step F pc fr st iS = StNext pc1 fr1 st1 ->
  exists fr2, step F pc1 fr1 st1 iL = StNext (S pc1) fr2 st1 /\ rget fr2 (i_ref iL) = Ok w.
Proof. exact load_after_store_delivers_stored. Qed.

(** PARTIAL (semantic preservation of OptimizeLoadAfterStore on straight-line code, every instruction kind).
    (a) For every instruction list without branches -- loads, stores, arithmetic, casts, element / member accesses, vector
        sets, shuffles, constructors, declarations in any mix --, with distinct references and operands defined earlier:
        if it runs on the VM model from one state to another, the list the pass makes of it (forwarded loads removed, every
        use renamed through the map, chains resolved) runs from the same state to a state with the same variables,
        arguments, globals and heap and the same value in every register that was not removed.
    (b) For every function consisting of one block that ends in a return: whatever the function returns, with whatever
        final VM state, the function [opt_load_after_store] makes of it returns the same value with the same state, for
        the same fuel.  [opt_load_after_store] is the Gallina function compared for equality with the real optimised IR
        on every run; [fwd_fragment_b] decides the hypotheses on the real IR (evaluated by the check on every function).
    Missing for the full statement: functions with several blocks or calls (the replacements applied function-wide), and
    the same for OptimizeConstantCasts beyond the value-level fact below. *)
Theorem C02_forwarding_sound_on_straight_line_code_partial : forall (F F' : ifunc) code pc pc' fr vs fr1 vs1,
  forallb (fun i => negb (is_branch i)) code = true -> NoDup (map i_ref code) -> operands_earlier code -> scopes_agree None code ->
  sruns F pc code fr vs fr1 vs1 ->
  let m := las_scan None code [] in
  exists fr1', sruns F' pc' (apply_block m code) fr vs fr1' vs1 /\ vars fr1' = vars fr1 /\ fargs fr1' = fargs fr1 /\
               forall r, ~ In r (keys m) -> rlookup r (regs fr1') = rlookup r (regs fr1).
Proof. exact forwarding_sound_on_straight_line_code. Qed.

Theorem C02_forwarding_preserves_single_block_functions_partial : forall (P : program) (F : ifunc), fwd_fragment_b F = true ->
  forall fuel fr vs w vs1, run fuel P F 0 fr vs = Done w vs1 -> run fuel P (opt_load_after_store F) 0 fr vs = Done w vs1.
Proof. exact fwd_fragment_sound. Qed.

(** PARTIAL (source to optimised IR, straight-line functions).  For every source function whose body is declarations and
    assignments of int / float variables followed by a return (the fragment of C01_straight_line_functions_partial, same
    hypotheses): at every call with numeric arguments and globals, whenever the reference semantics runs the body to a
    result v, BOTH the function F the lowering model produces AND the function [opt_load_after_store F] return exactly v
    and end in the same VM state, for every sufficient fuel.  No side condition on F: the lowering of a straight-line
    function always yields one block of distinct, increasing references whose operands are pooled constants or earlier
    results, with every access in the scope its name determines ([straight_lowered_forwarding_hyps]).  (When no cast of a
    constant occurs, [opt_load_after_store F] is the whole optimising pipeline applied to F.) *)
Theorem C02_straight_line_source_to_optimised_partial :
  forall (M : module) (fn : func) (l : list stmt) (e : expr) (tf : tfunc) (F : ifunc),
    f_body fn = l ++ [SRet (Some e)] -> forallb ssimple l = true -> spure e = true ->
    elab_func (genv_of M) (genvl M) fn = EOk tf -> lower_func (m_structs M) (glnames M) tf = LOk F ->
    forall tl te, tf_body tf = tl ++ [TRet (Some te)] -> length tl = length l ->
    forallb stok tl = true -> tok te = true ->
    lits_exact (flat_map tflits (body_exprs tl ++ [te])) -> (forall q, In q (flat_map tflits (body_exprs tl ++ [te])) -> PrimFloat.eqb q q = true) ->
    Forall (fresh_decl (glnames M) (argnames fn)) l ->
    forall (P : program) (ws : list rval) (g : RefSem.frame) (vs : vmstate),
      Forall2 (fun p w => has_ty w (fst p)) (f_args fn) ws ->
      (forall x, In x (map snd (f_args fn)) -> ~ In x (glnames M)) ->
      (forall x p, find (fun q => String.eqb (fst q) x) (genvl M) = Some p ->
         num_ty (snd p) /\ exists w, find (fun q => String.eqb (fst q) x) g = Some (fst p, SV w) /\ has_ty w (snd p) /\ slookup x (globals vs) = Some (v_of w)) ->
      forall fuel fl st', exec_list M fuel (f_body fn) (call_state fn ws g) = ROk (fl, st') ->
        exists v vs', fl = OReturn (SV v) /\
          exists n, forall fuel', n <= fuel' ->
            run fuel' P F 0 (call_frame ws (init_regs F)) vs = Done (v_of v) vs' /\
            run fuel' P (opt_load_after_store F) 0 (call_frame ws (init_regs F)) vs = Done (v_of v) vs'.
Proof. exact straight_line_optimised_simulation. Qed.

(** non-vacuity: the chain example above is inside the fragment, and the pass removes both forwarded loads *)
Example C02_fragment_example :
  let F := {| fn_name := "f"%string; fn_args := [("a"%string, ITInt false)]; fn_ret := ITInt false; fn_consts := [];
              fn_blocks := [{| b_ref := 0; b_code :=
                [ {| i_ref := 1; i_ty := ITInt false; i_body := ILoad SArg (VIndex 0) |};
                  {| i_ref := 2; i_ty := ITInt false; i_body := IStore SLocal (VName "x") 1 |};
                  {| i_ref := 3; i_ty := ITInt false; i_body := ILoad SLocal (VName "x") |};
                  {| i_ref := 4; i_ty := ITInt false; i_body := IStore SLocal (VName "y") 3 |};
                  {| i_ref := 5; i_ty := ITInt false; i_body := ILoad SLocal (VName "y") |};
                  {| i_ref := 6; i_ty := ITInt false; i_body := IRet (Some 5) |} ] |}] |} in
  fwd_fragment_b F = true /\ length (flat_code (opt_load_after_store F)) = 4 /\
  run 10 {| p_funcs := [F]; p_globals := [] |} F 0 {| regs := []; vars := []; fargs := [VInt 7] |} {| globals := []; hp := [] |} = Done (VInt 7) {| globals := []; hp := [] |}.
Proof. vm_compute. repeat split; reflexivity. Qed.

(** PARTIAL: load-after-store forwarding preserves WHOLE FUNCTIONS WITH ARBITRARY CONTROL FLOW.  For every IR function -- any
    number of blocks, conditional and unconditional branches (conditionals, loops), calls and returns anywhere -- whose
    instruction references are pairwise distinct, whose operands are constants or results of earlier instructions of the
    same block, whose branch targets are not instruction references and in which a store and the load that directly follows
    it agree on the scope: whenever the function returns a value w in state vs1 on the VM model (inside any program P, for
    any arguments, registers, globals and heap), the function OptimizeLoadAfterStore produces returns the same w in the same
    vs1.  The proof is a simulation by induction on the fuel of the original run: inside a block the pass's state (the
    previous instruction and the replacement map) is carried instruction by instruction ([Suf], [suf_kept], [suf_fwd]); a
    removed load costs the original one step and the optimised function none; registers of loads removed from other blocks
    -- or from an earlier execution of this block in a loop -- are never read before they are written again ([Inv] with the
    dead set); a branch lands on the block of the same index in both functions ([bol_split], [bol_app]: offsets of the
    shortened blocks); a call runs the same callee from the same state (fuel monotonicity [run_mono]).  Under block-local
    operands the function-wide renaming of the real pass only touches the block itself ([las_blocks_map]).
    [flow_hyps_b] decides the hypotheses and is evaluated by the check on every function of every generated program
    (after the constant-cast pass); the constant-cast pass itself is covered by the value-level theorems above and the
    correspondence. *)
Theorem C02_forwarding_preserves_functions_partial : forall (P : program) (F : ifunc), flow_hyps F ->
  forall fuel fr vs w vs1, run fuel P F 0 fr vs = Done w vs1 -> exists fuel', run fuel' P (opt_load_after_store F) 0 fr vs = Done w vs1.
Proof. exact forwarding_preserves_functions. Qed.

Theorem C02_flow_fragment_test_sound : forall (P : program) (F : ifunc), flow_hyps_b F = true ->
  forall fuel fr vs w vs1, run fuel P F 0 fr vs = Done w vs1 -> exists fuel', run fuel' P (opt_load_after_store F) 0 fr vs = Done w vs1.
Proof. exact fwdflow_sound. Qed.

(** with C01: a source function with nested conditionals, lowered and then optimised, returns the reference value *)
Theorem C02_conditional_source_to_optimised_partial :
  forall (M : module) (fn : func) (n : nat) (l : list stmt) (e : expr) (tf : tfunc) (F : ifunc),
    f_body fn = l ++ [SRet (Some e)] -> forallb (stop n) l = true -> spure e = true ->
    elab_func (genv_of M) (genvl M) fn = EOk tf -> lower_func (m_structs M) (glnames M) tf = LOk F ->
    forall tl te, tf_body tf = tl ++ [TRet (Some te)] -> length tl = length l ->
    forallb tok (flat_map (topexprs n) tl ++ [te]) = true ->
    lits_exact (flat_map tflits (flat_map (topexprs n) tl ++ [te])) -> (forall q, In q (flat_map tflits (flat_map (topexprs n) tl ++ [te])) -> PrimFloat.eqb q q = true) ->
    Forall (fresh_decl (glnames M) (argnames fn)) l ->
    flow_hyps_b F = true ->
    forall (P : program) (ws : list rval) (g : RefSem.frame) (vs : vmstate),
      Forall2 (fun p w => has_ty w (fst p)) (f_args fn) ws ->
      (forall x, In x (map snd (f_args fn)) -> ~ In x (glnames M)) ->
      (forall x p, find (fun q => String.eqb (fst q) x) (genvl M) = Some p ->
         num_ty (snd p) /\ exists w, find (fun q => String.eqb (fst q) x) g = Some (fst p, SV w) /\ has_ty w (snd p) /\ slookup x (globals vs) = Some (v_of w)) ->
      forall fuel fl st', exec_list M fuel (f_body fn) (call_state fn ws g) = ROk (fl, st') ->
        exists v vs', fl = OReturn (SV v) /\
          exists N, run N P (opt_load_after_store F) 0 (call_frame ws (init_regs F)) vs = Done (v_of v) vs'.
Proof. exact flow_source_to_optimised. Qed.

(** non-vacuity: the lowered function of C01's conditional instance (five blocks) satisfies the hypotheses, the pass removes
    loads from it, and the optimised function returns 13.75 and leaves g = 7 *)
Example C02_flow_example :
  flow_hyps_b fs_F = true /\
  (Nat.ltb 1 (length (fn_blocks fs_F)) && existsb (fun b => negb (Nat.eqb (length (las_scan None (b_code b) [])) 0)) (fn_blocks fs_F)) = true /\
  run 80 {| p_funcs := [fs_F]; p_globals := ["g"%string] |} (opt_load_after_store fs_F) 0 (call_frame fs_ws (init_regs fs_F)) fs_vs = Done (VFloat 13.75%float) {| globals := [("g"%string, VInt 7)]; hp := [] |}.
Proof. exact (conj fs_fwd_hyps (conj fs_fwd_active fs_opt_value)). Qed.

(** PARTIAL -> the WHOLE OPTIMISER on one function, values AND failures.  [final out] says the run ended: with a value and a
    state, or with an error of the VM (missing key, type error, division by zero, index error, ...).
    (a) forwarding: under the hypotheses of C02_forwarding_preserves_functions_partial the optimised function ends exactly as the
        original -- same value and state, or the same error (a removed load never fails: the store before it has just
        written the variable; every kept instruction fails in the optimised function exactly as in the original);
    (b) constant casts: for a table T (cast reference -> constant reference) and new constants N, the function whose blocks
        are rewritten with T (casts of constants removed, uses renamed to the constant holding the folded value) ends
        exactly as the original, started from its own constant registers -- two simulations: first the same code with the
        longer constant table (the new registers are never read), then the folding (a folded cast takes one step that cannot
        fail and yields the VM's own CAST of the constant, C02_constant_folding_is_vm_cast; constant registers are never
        overwritten).  Hypotheses: distinct references, constants not among the instruction references, block-local
        operands, every table entry a cast of a constant whose folded value the named constant holds;
    (c) both passes: [optimiser_preserves_outcomes].  [plan] recomputes T and N, [cc_hyps_b] and [flow_hyps_b] decide the
        hypotheses, and the check also evaluates that the planned function is bit for bit what the optimiser model produces
        from the real unoptimised IR (the model is compared with the real optimised IR).  One hypothesis is not decidable by
        computation inside Coq and is tested, not proved, per function: among the constants of one type, values that Python
        calls equal are identical (no +0.0 beside -0.0) -- [vals_exact]. *)
Theorem C02_forwarding_preserves_outcomes_partial : forall (P : program) (F : ifunc), flow_hyps F ->
  forall fuel fr vs out, run fuel P F 0 fr vs = out -> final out -> exists fuel', run fuel' P (opt_load_after_store F) 0 fr vs = out.
Proof. exact forwarding_preserves_outcomes. Qed.

Theorem C02_const_casts_preserve_outcomes_partial : forall (P : program) (F : ifunc) T C', cc_hyps F T C' ->
  forall fuel args vs out, run fuel P F 0 (entry F args) vs = out -> final out ->
  exists fuel', run fuel' P (cc_apply T C' F) 0 (entry (cc_apply T C' F) args) vs = out.
Proof. exact const_casts_preserve_outcomes. Qed.

Theorem C02_optimiser_preserves_outcomes_partial : forall (P : program) (F : ifunc) T N,
  cc_hyps_b F T N = true -> vals_exact (fold_vals F (fn_consts F ++ N)) -> flow_hyps_b (cc_apply T (fn_consts F ++ N) F) = true ->
  let F'' := opt_load_after_store (cc_apply T (fn_consts F ++ N) F) in
  forall fuel args vs out, run fuel P F 0 (entry F args) vs = out -> final out ->
  exists fuel', run fuel' P F'' 0 (entry F'' args) vs = out.
Proof. exact optimiser_check_sound. Qed.

(** with C01: a source function with nested conditionals, lowered and optimised by BOTH passes, returns the reference value *)
Theorem C02_conditional_source_to_fully_optimised_partial :
  forall (M : module) (fn : func) (n : nat) (l : list stmt) (e : expr) (tf : tfunc) (F : ifunc),
    f_body fn = l ++ [SRet (Some e)] -> forallb (stop n) l = true -> spure e = true ->
    elab_func (genv_of M) (genvl M) fn = EOk tf -> lower_func (m_structs M) (glnames M) tf = LOk F ->
    forall tl te, tf_body tf = tl ++ [TRet (Some te)] -> length tl = length l ->
    forallb tok (flat_map (topexprs n) tl ++ [te]) = true ->
    lits_exact (flat_map tflits (flat_map (topexprs n) tl ++ [te])) -> (forall q, In q (flat_map tflits (flat_map (topexprs n) tl ++ [te])) -> PrimFloat.eqb q q = true) ->
    Forall (fresh_decl (glnames M) (argnames fn)) l ->
    forall T N, cc_hyps_b F T N = true -> vals_exact (fold_vals F (fn_consts F ++ N)) -> flow_hyps_b (cc_apply T (fn_consts F ++ N) F) = true ->
    let F'' := opt_load_after_store (cc_apply T (fn_consts F ++ N) F) in
    forall (P : program) (ws : list rval) (g : RefSem.frame) (vs : vmstate),
      Forall2 (fun p w => has_ty w (fst p)) (f_args fn) ws ->
      (forall x, In x (map snd (f_args fn)) -> ~ In x (glnames M)) ->
      (forall x p, find (fun q => String.eqb (fst q) x) (genvl M) = Some p ->
         num_ty (snd p) /\ exists w, find (fun q => String.eqb (fst q) x) g = Some (fst p, SV w) /\ has_ty w (snd p) /\ slookup x (globals vs) = Some (v_of w)) ->
      forall fuel fl st', exec_list M fuel (f_body fn) (call_state fn ws g) = ROk (fl, st') ->
        exists v vs', fl = OReturn (SV v) /\
          exists K, run K P F'' 0 (call_frame ws (init_regs F'')) vs = Done (v_of v) vs'.
Proof. exact flow_source_to_fully_optimised. Qed.

(** non-vacuity: f(float x, int a) -> float { float y = x * 2; if (a > 1) { y = y + 2; } return y + 3; } -- three casts of int
    constants fold (two of them to the same new constant), three blocks; the planned function is what the optimiser model
    produces, the theorem applies, and both functions return 8 at x = 1.5, a = 4 *)
Example C02_optimiser_example :
  (length op_T = 3 /\ length op_N = 2 /\ length (fn_blocks op_F) = 3) /\
  (cc_hyps_b op_F op_T op_N = true /\ flow_hyps_b (cc_apply op_T (fn_consts op_F ++ op_N) op_F) = true /\
   match optimise_func op_F with OOk F'' => Model.IREq.ifunc_eqb (opt_load_after_store (cc_apply op_T (fn_consts op_F ++ op_N) op_F)) F'' | _ => false end = true) /\
  vals_exact (fold_vals op_F (fn_consts op_F ++ op_N)).
Proof. exact (conj op_plan_shape (conj op_checks op_exact)). Qed.

(** with C01's loop theorem: a source function with conditionals and WHILE LOOPS, lowered and optimised by both passes, returns the
    reference value; the concrete loop function of C01 (seven blocks, a back edge) passes the optimiser checker and its optimised
    form returns 7.5 and leaves g = 0 *)
Theorem C02_loop_source_to_fully_optimised_partial :
  forall (M : module) (fn : func) (n : nat) (l : list stmt) (e : expr) (tf : tfunc) (F : ifunc),
    f_body fn = l ++ [SRet (Some e)] -> forallb (wstop n) l = true -> spure e = true ->
    elab_func (genv_of M) (genvl M) fn = EOk tf -> lower_func (m_structs M) (glnames M) tf = LOk F ->
    forall tl te, tf_body tf = tl ++ [TRet (Some te)] -> length tl = length l ->
    forallb tok (flat_map (wtopexprs n) tl ++ [te]) = true ->
    lits_exact (flat_map tflits (flat_map (wtopexprs n) tl ++ [te])) -> (forall q, In q (flat_map tflits (flat_map (wtopexprs n) tl ++ [te])) -> PrimFloat.eqb q q = true) ->
    Forall (fresh_decl (glnames M) (argnames fn)) l -> fors_fresh (glnames M) (argnames fn) (fenv M fn) l ->
    forall T N, cc_hyps_b F T N = true -> vals_exact (fold_vals F (fn_consts F ++ N)) -> flow_hyps_b (cc_apply T (fn_consts F ++ N) F) = true ->
    let F'' := opt_load_after_store (cc_apply T (fn_consts F ++ N) F) in
    forall (P : program) (ws : list rval) (g : RefSem.frame) (vs : vmstate),
      Forall2 (fun p w => has_ty w (fst p)) (f_args fn) ws ->
      (forall x, In x (map snd (f_args fn)) -> ~ In x (glnames M)) ->
      (forall x p, find (fun q => String.eqb (fst q) x) (genvl M) = Some p ->
         num_ty (snd p) /\ exists w, find (fun q => String.eqb (fst q) x) g = Some (fst p, SV w) /\ has_ty w (snd p) /\ slookup x (globals vs) = Some (v_of w)) ->
      forall fuel fl st', exec_list M fuel (f_body fn) (call_state fn ws g) = ROk (fl, st') ->
        exists v vs', fl = OReturn (SV v) /\
          exists K, run K P F'' 0 (call_frame ws (init_regs F'')) vs = Done (v_of v) vs'.
Proof. exact loop_source_to_fully_optimised. Qed.
Example C02_loop_example :
  (optfull_ok lp_F = true /\ Nat.ltb 3 (length (fn_blocks lp_F)) = true) /\
  match optimise_func lp_F with
  | OOk F'' => run 200 {| p_funcs := [lp_F]; p_globals := ["g"%string] |} F'' 0 (call_frame lp_ws (init_regs F'')) lp_vs
  | _ => OutOfFuel end = Done (VFloat 7.5%float) {| globals := [("g"%string, VInt 0)]; hp := [] |}.
Proof. exact (conj lp_optimiser_ok lp_opt_value). Qed.

Eval compute in "ASSUMPTIONS C02_forwarding_preserves_single_block_functions_partial"%string. Print Assumptions C02_forwarding_preserves_single_block_functions_partial.
Eval compute in "ASSUMPTIONS C02_straight_line_source_to_optimised_partial"%string. Print Assumptions C02_straight_line_source_to_optimised_partial.
Eval compute in "ASSUMPTIONS C02_optimised_wellformed_never_undefined_partial"%string. Print Assumptions C02_optimised_wellformed_never_undefined_partial.
Eval compute in "ASSUMPTIONS C02_forwarding_preserves_functions_partial"%string. Print Assumptions C02_forwarding_preserves_functions_partial.
Eval compute in "ASSUMPTIONS C02_conditional_source_to_optimised_partial"%string. Print Assumptions C02_conditional_source_to_optimised_partial.
Eval compute in "ASSUMPTIONS C02_optimiser_preserves_outcomes_partial"%string. Print Assumptions C02_optimiser_preserves_outcomes_partial.
Eval compute in "ASSUMPTIONS C02_const_casts_preserve_outcomes_partial"%string. Print Assumptions C02_const_casts_preserve_outcomes_partial.
Eval compute in "END"%string.
