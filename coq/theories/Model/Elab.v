(** * Model of the front end on the core language: RewriteAssignEqualOperations, ComputeTypes and AddImplicitCasts,
    fused into one elaboration from the source AST to a typed AST with explicit casts.
    Constructs outside the modelled fragment give [EUnmodelled] (never a guess). *)
From Coq Require Import String ZArith List Bool PrimFloat.
From NSL Require Import Base.Types Base.Syntax Spec.Overload Model.Overload Model.TypesBin.
Import ListNotations.

Inductive texpr :=
  | XInt (z : Z)
  | XFloat (f : float)
  | XVar (x : string) (t : ty)
  | XBin (o : binop) (rt : pty) (l r : texpr)
  | XCast (t : pty) (e : texpr)
  | XAssign (l r : texpr)
  | XPre (inc : bool) (x : string) (t : ty)
  | XPost (inc : bool) (x : string) (t : ty)
  | XCall (name : string) (rt : ty) (args : list texpr)     (* name: as emitted (mangled unless exported) *)
  | XIdx (p i : texpr) (t : ty)
  | XField (p : texpr) (m : string) (t : ty).

Inductive tstmt :=
  | TDecl (t : ty) (x : string) (init : option texpr)
  | TExpr (e : texpr)
  | TBlock (b : list tstmt)
  | TRet (e : option texpr)
  | TIf (c : texpr) (t : tstmt) (f : option tstmt)
  | TFor (init : option (ty * string * option texpr)) (c n : option texpr) (b : tstmt)
  | TWhile (c : texpr) (b : option tstmt)
  | TDo (b : list tstmt) (c : texpr)
  | TBreak
  | TContinue.

Record tfunc := { tf_name : string; tf_args : list (ty * string); tf_ret : ty; tf_body : list tstmt }.
Record tmodule := { tm_structs : list sdef; tm_globals : list (ty * string); tm_funcs : list tfunc }.

Inductive eres (A : Type) := EOk (a : A) | EReject | EUnmodelled.
Arguments EOk {A}. Arguments EReject {A}. Arguments EUnmodelled {A}.
Definition ebind {A B} (r : eres A) (f : A -> eres B) : eres B :=
  match r with EOk a => f a | EReject => EReject | EUnmodelled => EUnmodelled end.
Notation "'edo' x <- r ; k" := (ebind r (fun x => k)) (at level 200, x pattern, r at level 100, k at level 200).

Fixpoint type_of (e : texpr) : ty :=
  match e with
  | XInt _ => TPrim (PScalar CInt)
  | XFloat _ => TPrim (PScalar CFloat)
  | XVar _ t | XPre _ _ t | XPost _ _ t | XCall _ t _ | XIdx _ _ t | XField _ _ t => t
  | XBin _ rt _ _ => TPrim rt
  | XCast t _ => TPrim t
  | XAssign l _ => type_of l
  end.

(** ** names of types and functions as the compiler prints them *)
Definition comp_name (c : comp) : string := match c with CFloat => "float" | CInt => "int" | CUInt => "uint" end.
Definition digit (n : nat) : string :=
  match n with 0 => "0" | 1 => "1" | 2 => "2" | 3 => "3" | 4 => "4" | 5 => "5" | 6 => "6" | 7 => "7" | 8 => "8" | 9 => "9" | _ => "?" end.
Fixpoint nat_str_aux (fuel n : nat) (acc : string) : string :=
  match fuel with
  | O => acc
  | S f => let acc' := (digit (Nat.modulo n 10) ++ acc)%string in
           if Nat.ltb n 10 then acc' else nat_str_aux f (Nat.div n 10) acc'
  end.
Definition nat_str (n : nat) : string := nat_str_aux 10 n "".
Definition pty_name (p : pty) : string :=
  match p with
  | PScalar c => comp_name c
  | PVec c n => (comp_name c ++ nat_str n)%string
  | PMat c r k => (comp_name c ++ nat_str r ++ "x" ++ nat_str k)%string
  end.
Fixpoint ty_name (t : ty) : string :=
  match t with
  | TPrim p => pty_name p
  | TStruct n => n
  | TVoid => "void"
  | TArr e dims => (ty_name e ++ fold_right (fun d acc => "[" ++ nat_str d ++ "]" ++ acc) "" dims)%string
  end.

(** Function.GetMangledName: "@name->ret`arg,arg" *)
Definition mangle (name : string) (ret : ty) (params : list ty) : string :=
  ("@" ++ name ++ "->" ++ ty_name ret ++ "`" ++
   (fix join (l : list ty) : string := match l with [] => "" | [t] => ty_name t | t :: r => ty_name t ++ "," ++ join r end) params)%string.

(** ** environments *)
Definition tenv := list (list (string * ty)).        (* typing scopes, innermost first *)
Fixpoint tlookup (env : tenv) (x : string) : option ty :=
  match env with
  | [] => None
  | sc :: r => match find (fun p => String.eqb (fst p) x) sc with Some p => Some (snd p) | None => tlookup r x end
  end.
Definition tdeclare (env : tenv) (x : string) (t : ty) : tenv :=
  match env with sc :: r => ((x, t) :: sc) :: r | [] => [[(x, t)]] end.

Record genv := { ge_structs : list sdef; ge_funcs : list func }.

Definition field_ty (G : genv) (sname fname : string) : option ty :=
  match find (fun d => String.eqb (s_name d) sname) (ge_structs G) with
  | Some d => option_map fst (find (fun p => String.eqb (snd p) fname) (s_fields d))
  | None => None
  end.

Definition cast_to (target : pty) (e : texpr) : texpr :=
  match type_of e with
  | TPrim p => if pty_eqb p target then e else XCast target e
  | _ => e
  end.

Definition aop_op (o : aop) : option binop :=
  match o with AAssign => None | AAddEq => Some OAdd | ASubEq => Some OSub | AMulEq => Some OMul | ADivEq => Some ODiv end.

Definition is_scalar_ty (t : ty) : bool := match t with TPrim (PScalar _) => true | _ => false end.
Definition is_int_ty (t : ty) : bool := match t with TPrim (PScalar CInt) | TPrim (PScalar CUInt) => true | _ => false end.

Definition fdecl_of (f : func) : fdecl := {| fd_name := f_name f; fd_params := map fst (f_args f) |}.

Section Elab.
  Variable G : genv.

  Definition resolve_fn (name : string) (args : list ty) : eres func :=
    match find_function (map fdecl_of (ge_funcs G)) name args with
    | Found d =>
        match find (fun f => String.eqb (f_name f) (fd_name d) && Nat.eqb (length (f_args f)) (length (fd_params d)) &&
                             forallb (fun p => ty_eqb (fst p) (snd p)) (combine (map fst (f_args f)) (fd_params d))) (ge_funcs G) with
        | Some f => EOk f
        | None => EUnmodelled
        end
    | _ => EReject
    end.

  (** AddImplicitCasts only inserts conversions at the nodes its visitor reaches: v_CallExpression and
      v_ConstructPrimitiveExpression do not descend into their arguments, v_ArrayExpression visits only the
      children of the index expression and never the indexed parent.  [COn]: this node is visited;
      [CKids]: only its children are; [COff]: nothing below is. *)
  Inductive cmode := COn | CKids | COff.
  Definition kids (m : cmode) : cmode := match m with COff => COff | _ => COn end.
  Definition self_on (m : cmode) : bool := match m with COn => true | _ => false end.

  Fixpoint elab (m : cmode) (env : tenv) (e : expr) : eres texpr :=
    match e with
    | EInt z => EOk (XInt z)
    | EFloat f => EOk (XFloat f)
    | EVar x => match tlookup env x with Some t => EOk (XVar x t) | None => EReject end
    | EBin o l r =>
        edo l' <- elab (kids m) env l; edo r' <- elab (kids m) env r;
        match type_of l', type_of r' with
        | TPrim pl, TPrim pr =>
            match resolve_binop o pl pr with
            | ROk res lt rt =>
                if is_scalar pl && is_scalar pr
                then EOk (if self_on m then XBin o res (cast_to lt l') (cast_to rt r') else XBin o res l' r')
                else EUnmodelled
            | RFail _ => EReject
            end
        | _, _ => EReject
        end
    | EAssign o l r =>
        edo l' <- elab (kids m) env l;
        edo r0 <- elab (kids m) env r;
        edo r' <- match aop_op o with
                  | None => EOk r0
                  | Some bo =>
                      (* x op= y is rewritten to x = x op y before typing; the left node is shared; the new binary
                         node is a child of the assignment *)
                      match type_of l', type_of r0 with
                      | TPrim pl, TPrim pr =>
                          match resolve_binop bo pl pr with
                          | ROk res lt rt =>
                              if is_scalar pl && is_scalar pr
                              then EOk (if self_on (kids m) then XBin bo res (cast_to lt l') (cast_to rt r0) else XBin bo res l' r0)
                              else EUnmodelled
                          | RFail _ => EReject
                          end
                      | _, _ => EReject
                      end
                  end;
        (* no conversion is inserted on assignment: outside the fragment unless the types coincide *)
        if ty_eqb (type_of l') (type_of r') && is_scalar_ty (type_of l') then
          match l' with
          | XVar _ _ | XIdx _ _ _ | XField _ _ _ => EOk (XAssign l' r')
          | _ => EUnmodelled
          end
        else EUnmodelled
    | EPre inc x => match tlookup env x with Some t => if is_scalar_ty t then EOk (XPre inc x t) else EUnmodelled | None => EReject end
    | EPost inc x => match tlookup env x with Some t => if is_scalar_ty t then EOk (XPost inc x t) else EUnmodelled | None => EReject end
    | ECall f args =>
        let am := match m with CKids => COn | _ => COff end in
        edo args' <- (fix go (l : list expr) : eres (list texpr) :=
                        match l with [] => EOk [] | a :: r => edo a' <- elab am env a; edo r' <- go r; EOk (a' :: r') end) args;
        edo fn <- resolve_fn f (map type_of args');
        (* arguments are converted to the component type of the parameter (only when the call node itself is visited) *)
        let conv := map (fun p => match snd p with
                                  | TPrim pp => match type_of (fst p) with
                                                | TPrim pa => if comp_eqb (comp_of pa) (comp_of pp) then fst p else XCast (with_comp pa (comp_of pp)) (fst p)
                                                | _ => fst p end
                                  | _ => fst p end) (combine args' (map fst (f_args fn))) in
        if forallb (fun a => is_scalar_ty (type_of a)) args' && forallb (fun p => is_scalar_ty (fst p)) (f_args fn) then
          EOk (XCall (if f_export fn then f_name fn else mangle (f_name fn) (f_ret fn) (map fst (f_args fn))) (f_ret fn)
                     (if self_on m then conv else args'))
        else EUnmodelled
    | EIdx p i =>
        edo p' <- elab (match m with CKids => COn | _ => COff end) env p;
        edo i' <- elab (match m with COn => CKids | CKids => COn | COff => COff end) env i;
        if negb (is_int_ty (type_of i')) then (if is_scalar_ty (type_of i') then EReject else EUnmodelled) else
        match type_of p' with
        | TArr elem [d] => EOk (XIdx p' i' elem)
        | TArr elem (d :: ds) => EOk (XIdx p' i' (TArr elem ds))
        | _ => EUnmodelled
        end
    | EMem p fld =>
        edo p' <- elab (kids m) env p;
        match type_of p' with
        | TStruct sn => match field_ty G sn fld with Some t => EOk (XField p' fld t) | None => EReject end
        | _ => EUnmodelled
        end
    | ECtor _ _ => EUnmodelled
    end.

  Definition elab_opt (env : tenv) (e : option expr) : eres (option texpr) :=
    match e with None => EOk None | Some e' => edo x <- elab COn env e'; EOk (Some x) end.

  (** statements: returns the elaborated statement and the environment for what follows in the same scope *)
  Fixpoint elab_stmt (env : tenv) (s : stmt) : eres (tstmt * tenv) :=
    let elab_list := fix elab_list (env : tenv) (l : list stmt) : eres (list tstmt) :=
        match l with
        | [] => EOk []
        | x :: r => edo p <- elab_stmt env x; let '(x', env') := p in edo r' <- elab_list env' r; EOk (x' :: r')
        end in
    match s with
    | SDecl t x init =>
        let env' := tdeclare env x t in
        edo i <- elab_opt env' init;
        match i with
        | Some i' => if ty_eqb (type_of i') t then EOk (TDecl t x i, env') else EUnmodelled
        | None => EOk (TDecl t x None, env')
        end
    | SExpr e => edo e' <- elab COn env e; EOk (TExpr e', env)
    | SBlock b => edo b' <- elab_list ([] :: env) b; EOk (TBlock b', env)
    | SRet e => edo e' <- elab_opt env e; EOk (TRet e', env)
    | SIf c t f =>
        let env1 := [] :: env in
        edo c' <- elab COn env1 c;
        edo p <- elab_stmt env1 t; let '(t', env2) := p in
        edo f' <- match f with None => EOk None | Some f0 => edo q <- elab_stmt env2 f0; EOk (Some (fst q)) end;
        EOk (TIf c' t' f', env)
    | SFor init c n b =>
        let env1 := [] :: env in
        edo r <- match init with
                 | None => EOk (None, env1)
                 | Some (t, x, i) =>
                     let env2 := tdeclare env1 x t in
                     edo i' <- elab_opt env2 i;
                     match i' with
                     | Some i0 => if ty_eqb (type_of i0) t then EOk (Some (t, x, i'), env2) else EUnmodelled
                     | None => EOk (Some (t, x, None), env2)
                     end
                 end;
        let '(init', env2) := r in
        edo c' <- elab_opt env2 c; edo n' <- elab_opt env2 n;
        edo p <- elab_stmt env2 b;
        EOk (TFor init' c' n' (fst p), env)
    | SWhile c b =>
        let env1 := [] :: env in
        (* the body is typed before the condition *)
        edo r <- match b with None => EOk (None, env1) | Some b0 => edo p <- elab_stmt env1 b0; EOk (Some (fst p), snd p) end;
        let '(b', env2) := r in
        edo c' <- elab COn env2 c;
        EOk (TWhile c' b', env)
    | SDo b c =>
        let env1 := [] :: env in
        edo b' <- elab_list ([] :: env1) b;
        edo c' <- elab COn env1 c;
        EOk (TDo b' c', env)
    | SBreak => EOk (TBreak, env)
    | SContinue => EOk (TContinue, env)
    end.

  Fixpoint elab_body (env : tenv) (l : list stmt) : eres (list tstmt) :=
    match l with
    | [] => EOk []
    | x :: r => edo p <- elab_stmt env x; let '(x', env') := p in edo r' <- elab_body env' r; EOk (x' :: r')
    end.
End Elab.

Definition elab_func (G : genv) (globals : list (string * ty)) (f : func) : eres tfunc :=
  edo b <- elab_body G [[]; map (fun a => (snd a, fst a)) (f_args f); globals] (f_body f);
  EOk {| tf_name := if f_export f then f_name f else mangle (f_name f) (f_ret f) (map fst (f_args f));
         tf_args := f_args f; tf_ret := f_ret f; tf_body := b |}.

Definition elab_module (m : module) : eres tmodule :=
  let G := {| ge_structs := m_structs m; ge_funcs := m_funcs m |} in
  let globals := map (fun g => (snd g, fst g)) (m_globals m) in
  edo fs <- (fix go (l : list func) : eres (list tfunc) :=
               match l with [] => EOk [] | f :: r => edo f' <- elab_func G globals f; edo r' <- go r; EOk (f' :: r') end) (m_funcs m);
  EOk {| tm_structs := m_structs m; tm_globals := m_globals m; tm_funcs := fs |}.
