(** * Model of nsl/VM.py: ExecutionContext.__Execute and VirtualMachine, over a heap of Python objects.
    One [step] per instruction; loops and calls run on fuel ([OutOfFuel] is a distinct outcome). *)
From Coq Require Import String ZArith List Bool PrimFloat Arith.
From NSL Require Import Model.PyNum Model.IR.
Import ListNotations.
Local Open Scope Z_scope.

(** ** dictionaries and the heap *)
Fixpoint lookup {K V} (eqb : K -> K -> bool) (k : K) (d : list (K * V)) : option V :=
  match d with [] => None | (k', v) :: r => if eqb k k' then Some v else lookup eqb k r end.
Fixpoint update {K V} (eqb : K -> K -> bool) (k : K) (v : V) (d : list (K * V)) : list (K * V) :=
  match d with
  | [] => [(k, v)]
  | (k', v') :: r => if eqb k k' then (k, v) :: r else (k', v') :: update eqb k v r
  end.
Definition rlookup := @lookup nat val Nat.eqb.
Definition rupdate := @update nat val Nat.eqb.
Definition slookup := @lookup string val String.eqb.
Definition supdate := @update string val String.eqb.

Definition alloc (h : heap) (o : obj) : heap * nat := (h ++ [o], length h).
Definition hget (h : heap) (a : nat) : option obj := nth_error h a.
Fixpoint list_set {A} (l : list A) (n : nat) (x : A) : list A :=
  match l, n with
  | [], _ => []
  | _ :: r, O => x :: r
  | y :: r, S n' => y :: list_set r n' x
  end.
Definition hset (h : heap) (a : nat) (o : obj) : heap := list_set h a o.

(** Python list indexing with an int: negative indices wrap once; out of range is IndexError *)
Definition norm_index (len : nat) (i : Z) : res nat :=
  let n := Z.of_nat len in
  if (0 <=? i) && (i <? n) then Ok (Z.to_nat i)
  else if (i <? 0) && (- n <=? i) then Ok (Z.to_nat (i + n))
  else Err EIndex.

(** x[i] for a Python value x and index value i *)
Definition py_getitem (h : heap) (x i : val) : res val :=
  match x with
  | VRef a =>
      match hget h a with
      | Some (OList l) =>
          match i with
          | VInt z => do n <- norm_index (length l) z; match nth_error l n with Some v => Ok v | None => Err EIndex end
          | _ => Err EType
          end
      | Some (ODict _) => Unmodelled
      | None => Unmodelled
      end
  | _ => Err EType
  end.

(** x[i] = v in place *)
Definition py_setitem (h : heap) (x i v : val) : res heap :=
  match x with
  | VRef a =>
      match hget h a with
      | Some (OList l) =>
          match i with
          | VInt z => do n <- norm_index (length l) z; Ok (hset h a (OList (list_set l n v)))
          | _ => Err EType
          end
      | _ => Unmodelled
      end
  | _ => Err EType
  end.

(** copy.deepcopy as a recursive copy of the reachable structure (fuel = nesting depth; sharing between
    sub-objects is not preserved -- unobservable as long as copies are only rebound, never mutated in place) *)
Fixpoint deepcopy (fuel : nat) (h : heap) (v : val) : res (heap * val) :=
  match v with
  | VRef a =>
      match fuel with
      | O => Unmodelled
      | S fu =>
          match hget h a with
          | Some (OList l) =>
              do r <- fold_left (fun acc x => do p <- acc; let '(h', out) := p in
                                               do q <- deepcopy fu h' x; let '(h'', x') := q in Ok (h'', out ++ [x']))
                                l (Ok (h, []));
              let '(h1, l') := r in let '(h2, a') := alloc h1 (OList l') in Ok (h2, VRef a')
          | Some (ODict d) =>
              do r <- fold_left (fun acc kx => do p <- acc; let '(h', out) := p in
                                                do q <- deepcopy fu h' (snd kx); let '(h'', x') := q in Ok (h'', out ++ [(fst kx, x')]))
                                d (Ok (h, []));
              let '(h1, d') := r in let '(h2, a') := alloc h1 (ODict d') in Ok (h2, VRef a')
          | None => Unmodelled
          end
      end
  | _ => Ok (h, v)
  end.

Definition get_list (h : heap) (v : val) : option (list val) :=
  match v with VRef a => match hget h a with Some (OList l) => Some l | _ => None end | _ => None end.

(** ** default instances (__CreateInstance): a total function *)
Fixpoint alloc_n (n : nat) (mk : heap -> heap * val) (h : heap) : heap * list val :=
  match n with
  | O => (h, [])
  | S n' => let '(h1, v) := mk h in let '(h2, vs) := alloc_n n' mk h1 in (h2, v :: vs)
  end.

Definition zero_elem (e : irty) : val := match e with ITFloat => VFloat zero | _ => VInt 0 end.

Fixpoint create_instance (t : irty) (h : heap) : heap * val :=
  match t with
  | ITInt _ => (h, VInt 0)
  | ITFloat => (h, VFloat zero)
  | ITVec e n => let '(h1, a) := alloc h (OList (repeat (zero_elem e) n)) in (h1, VRef a)
  | ITMat e rows cols =>
      (* [[zero] * cols] * rows : every row is the same list object *)
      let '(h1, a) := alloc h (OList (repeat (zero_elem e) cols)) in
      let '(h2, b) := alloc h1 (OList (repeat (VRef a) rows)) in (h2, VRef b)
  | ITStruct _ fields =>
      let '(h1, d) := (fix go (fs : list (string * irty)) (h : heap) : heap * list (string * val) :=
                         match fs with
                         | [] => (h, [])
                         | (n, ft) :: rest => let '(h1, v) := create_instance ft h in
                                              let '(h2, vs) := go rest h1 in (h2, (n, v) :: vs)
                         end) fields h in
      let '(h2, a) := alloc h1 (ODict d) in (h2, VRef a)
  | ITArr elem dims =>
      (fix dim (ds : list nat) (h : heap) : heap * val :=
         match ds with
         | [] => create_instance elem h
         | d :: rest => let '(h1, vs) := alloc_n d (dim rest) h in
                        let '(h2, a) := alloc h1 (OList vs) in (h2, VRef a)
         end) dims h
  | ITVoid => (h, VNone)
  end.

(** ** operations of the binary family *)
Definition num2 (a b : val) : res (num * num) :=
  match as_num a, as_num b with Some x, Some y => Ok (x, y) | _, _ => Unmodelled end.

Definition truthy (h : heap) (v : val) : res bool :=
  match v with
  | VInt z => Ok (negb (z =? 0))
  | VFloat f => Ok (negb (PrimFloat.eqb f zero))
  | VNone => Ok false
  | VRef a => match hget h a with Some (OList l) => Ok (negb (Nat.eqb (length l) 0)) | Some (ODict d) => Ok (negb (Nat.eqb (length d) 0)) | None => Unmodelled end
  end.

Definition scalar_op (o : binopc) (is_int_type : bool) (a b : val) : res val :=
  do p <- num2 a b; let '(x, y) := p in
  match o with
  | BAdd => py_add x y | BSub => py_sub x y | BMul => py_mul x y
  | BDiv => if is_int_type then py_intdiv x y else py_truediv x y
  | BMod => py_mod x y
  | BCmp c => do r <- py_cmp c x y; Ok (b2v r)
  | BLgAnd => Ok (b2v (truthy_num x && truthy_num y))
  | BLgOr => Ok (b2v (truthy_num x || truthy_num y))
  | _ => Unmodelled
  end.

Fixpoint zip_with (f : val -> val -> res val) (l1 l2 : list val) : res (list val) :=
  match l1, l2 with
  | x :: r1, y :: r2 => do v <- f x y; do vs <- zip_with f r1 r2; Ok (v :: vs)
  | _, _ => Ok []
  end.

Fixpoint map_res (f : val -> res val) (l : list val) : res (list val) :=
  match l with [] => Ok [] | x :: r => do v <- f x; do vs <- map_res f r; Ok (v :: vs) end.

Definition vec_elem_op (o : binopc) : option binopc :=
  match o with
  | BVAdd => Some BAdd | BVSub => Some BSub | BVMul => Some BMul | BVDiv => Some BDiv | BVMod => Some BMod
  | BVCmp c => Some (BCmp c) | BVLgAnd => Some BLgAnd | BVLgOr => Some BLgOr
  | _ => None
  end.

(** __MatrixMatrixMultiply: result[i][j] accumulates m0[i][k] * m1[k][j] from the int 0, k ascending *)
Definition dot (h : heap) (row : list val) (m1 : list (list val)) (j : nat) : res val :=
  fold_left (fun acc p => do a <- acc; let '(x, r) := p in
                          match nth_error r j with
                          | Some y => do xy <- scalar_op BMul false x y; scalar_op BAdd false a xy
                          | None => Err EIndex end)
            (combine row m1) (Ok (VInt 0)).

Definition rows_of (h : heap) (v : val) : res (list (list val)) :=
  match get_list h v with
  | Some rows => (fix go (l : list val) : res (list (list val)) :=
                    match l with [] => Ok [] | r :: rest => match get_list h r with Some x => do xs <- go rest; Ok (x :: xs) | None => Unmodelled end end) rows
  | None => Unmodelled
  end.

Fixpoint matmul_rows (m1 : list (list val)) (ncols : nat) (l : list (list val)) (h : heap) : res (heap * list val) :=
  match l with
  | [] => Ok (h, [])
  | row :: rest =>
      do vs <- map_res (fun jv => match jv with VInt j => dot h row m1 (Z.to_nat j) | _ => Unmodelled end)
                       (map (fun j => VInt (Z.of_nat j)) (seq 0 ncols));
      let '(h1, ad) := alloc h (OList vs) in
      do q <- matmul_rows m1 ncols rest h1; let '(h2, out) := q in Ok (h2, VRef ad :: out)
  end.

Definition binary_op (o : binopc) (t : irty) (h : heap) (a b : val) : res (heap * val) :=
  match o with
  | BOther _ => Err EICE
  | BVMulS | BVDivS =>
      match get_list h a with
      | Some l => (* VECTOR_DIV_SCALAR divides like the scalar DIV arm: truncating when the element type is an integer type *)
                  let int_elem := match t with ITVec (ITInt _) _ => true | _ => false end in
                  do vs <- map_res (fun v => scalar_op (match o with BVMulS => BMul | _ => BDiv end) int_elem v b) l;
                  let '(h1, ad) := alloc h (OList vs) in Ok (h1, VRef ad)
      | None => match a with VRef _ => Unmodelled | _ => Err EType end
      end
  | BMatMul =>
      do m0 <- rows_of h a; do m1 <- rows_of h b;
      match t, m1 with
      | ITMat _ trows tcols, r0 :: _ =>
          (* result has Shape[0] = ColumnCount rows of Shape[1] = RowCount entries; for the (square) spellable
             types this is rows x cols; other shapes are outside the model *)
          if negb (Nat.eqb trows tcols) then Unmodelled else
          do rows <- matmul_rows m1 (length r0) m0 h;
          let '(h1, out) := rows in
          if negb (Nat.eqb (length out) trows) || negb (Nat.eqb (length r0) tcols) then Unmodelled else
          let '(h2, ad) := alloc h1 (OList out) in Ok (h2, VRef ad)
      | _, _ => Unmodelled
      end
  | _ =>
      match vec_elem_op o with
      | Some so =>
          match get_list h a, get_list h b with
          | Some l1, Some l2 => do vs <- zip_with (scalar_op so false) l1 l2;
                                let '(h1, ad) := alloc h (OList vs) in Ok (h1, VRef ad)
          | _, _ => match a, b with VRef _, VRef _ => Unmodelled | _, _ => Err EType end
          end
      | None =>
          let is_int := match t with ITInt _ => true | _ => false end in
          do v <- scalar_op o is_int a b; Ok (h, v)
      end
  end.

(** CAST: component-wise conversion to the element type of the target *)
Definition cast_scalar (elem : irty) (v : val) : res val :=
  match elem with
  | ITInt u =>
      match v with
      | VInt z => Ok (VInt (if u then Z.abs z else z))
      | VFloat f => do z <- floor_float f; Ok (VInt (if u then Z.abs z else z))
      | _ => Err EType
      end
  | ITFloat =>
      match v with
      | VInt z => do f <- float_of_Z z; Ok (VFloat f)
      | VFloat f => Ok (VFloat f)
      | _ => Err EType
      end
  | _ => Err EAssert
  end.

Fixpoint cast_value (fuel : nat) (elem : irty) (h : heap) (v : val) : res (heap * val) :=
  match v with
  | VRef a =>
      match fuel, hget h a with
      | S fu, Some (OList l) =>
          do r <- fold_left (fun acc x => do p <- acc; let '(h', out) := p in
                                          do q <- cast_value fu elem h' x; let '(h'', x') := q in Ok (h'', out ++ [x']))
                            l (Ok (h, []));
          let '(h1, l') := r in let '(h2, a') := alloc h1 (OList l') in Ok (h2, VRef a')
      | _, _ => Unmodelled
      end
  | _ => do x <- cast_scalar elem v; Ok (h, x)
  end.

(** ** activation state and execution *)
Record frame := { regs : list (nat * val); vars : list (string * val); fargs : list val }.
Record vmstate := { globals : list (string * val); hp : heap }.

Inductive outcome := Done (ret : val) (st : vmstate) | Fail (e : errkind) | OutOfFuel | UnmodelledO.

Definition flat_code (F : ifunc) : list instr := flat_map b_code (fn_blocks F).
Fixpoint block_offset (bs : list block) (ref : nat) (acc : nat) : option nat :=
  match bs with
  | [] => None
  | b :: r => if Nat.eqb (b_ref b) ref then Some acc else block_offset r ref (acc + length (b_code b))%nat
  end.
(** blockOffsets is a dict filled front to back: a repeated block reference keeps the last offset *)
Definition block_offset_last (bs : list block) (ref : nat) : option nat :=
  (fix go (bs : list block) (acc : nat) (found : option nat) : option nat :=
     match bs with
     | [] => found
     | b :: r => go r (acc + length (b_code b))%nat (if Nat.eqb (b_ref b) ref then Some acc else found)
     end) bs O None.

Definition const_val (c : cval) : val := match c with KInt z => VInt z | KFloat f => VFloat f end.
Definition init_regs (F : ifunc) : list (nat * val) :=
  fold_left (fun d c => rupdate (fst (fst c)) (const_val (snd c)) d) (fn_consts F) [].

Inductive step_res :=
  | StNext (pc : nat) (fr : frame) (st : vmstate)
  | StRet (v : val) (st : vmstate)
  | StCall (fn : string) (args : list val) (dst : nat)      (* continue with the callee, then store into dst *)
  | StFail (e : errkind)
  | StUnmodelled.

Definition rget (fr : frame) (r : nat) : res val := match rlookup r (regs fr) with Some v => Ok v | None => Err (EKey KReg) end.
Definition rset (fr : frame) (r : nat) (v : val) : frame := {| regs := rupdate r v (regs fr); vars := vars fr; fargs := fargs fr |}.
Definition with_heap (st : vmstate) (h : heap) : vmstate := {| globals := globals st; hp := h |}.

Definition lift {A} (r : res A) (k : A -> step_res) : step_res :=
  match r with Ok a => k a | Err e => StFail e | Unmodelled => StUnmodelled end.

Definition step (F : ifunc) (pc : nat) (fr : frame) (st : vmstate) (i : instr) : step_res :=
  let ref := i_ref i in
  let next fr' st' := StNext (S pc) fr' st' in
  match i_body i with
  | ILoad sc v =>
      match sc, v with
      | SGlobal, VName x => match slookup x (globals st) with Some w => next (rset fr ref w) st | None => StFail (EKey KGlobal) end
      | SArg, VIndex n => match nth_error (fargs fr) n with Some w => next (rset fr ref w) st | None => StFail EIndex end
      | SArg, VName _ => StFail EType                        (* a list indexed with a str *)
      | SLocal, VName x => match slookup x (vars fr) with Some w => next (rset fr ref w) st | None => StFail (EKey KVar) end
      | _, _ => StUnmodelled
      end
  | IStore sc v src =>
      lift (rget fr src) (fun w =>
      let fr1 := rset fr ref w in                           (* the value of an assignment *)
      match sc, v with
      | SGlobal, VName x => next fr1 {| globals := supdate x w (globals st); hp := hp st |}
      | SArg, VIndex n => if Nat.ltb n (length (fargs fr1))
                          then next {| regs := regs fr1; vars := vars fr1; fargs := list_set (fargs fr1) n w |} st
                          else StFail EIndex
      | SArg, VName _ => StFail EType
      | SLocal, VName x => next {| regs := regs fr1; vars := supdate x w (vars fr1); fargs := fargs fr1 |} st
      | _, _ => StUnmodelled
      end)
  | ILoadIdx _ arr idx =>
      lift (rget fr arr) (fun a => lift (rget fr idx) (fun ix => lift (py_getitem (hp st) a ix) (fun w => next (rset fr ref w) st)))
  | IStoreArray arr idx src =>
      lift (rget fr src) (fun w => lift (rget fr arr) (fun a => lift (rget fr idx) (fun ix =>
      lift (py_setitem (hp st) a ix w) (fun h' => next (rset fr ref w) (with_heap st h')))))
  | ISetIdx _ arr idx src =>
      lift (rget fr src) (fun w => lift (rget fr arr) (fun a =>
      lift (deepcopy 8 (hp st) a) (fun p => let '(h1, c) := p in
      lift (rget fr idx) (fun ix => lift (py_setitem h1 c ix w) (fun h2 => next (rset fr ref c) (with_heap st h2))))))
  | ILoadMember o m =>
      lift (rget fr o) (fun ov =>
      match ov with
      | VRef a => match hget (hp st) a with
                  | Some (ODict d) => match slookup m d with Some w => next (rset fr ref w) st | None => StFail (EKey KMember) end
                  | Some (OList _) => StFail EType
                  | None => StUnmodelled end
      | _ => StFail EType
      end)
  | IStoreMember o m src =>
      lift (rget fr o) (fun ov => lift (rget fr src) (fun w =>
      match ov with
      | VRef a => match hget (hp st) a with
                  | Some (ODict d) => next (rset fr ref w) (with_heap st (hset (hp st) a (ODict (supdate m w d))))
                  | Some (OList _) => StFail EType
                  | None => StUnmodelled end
      | _ => StFail EType
      end))
  | IShuffle a b indices =>
      lift (rget fr a) (fun av => lift (rget fr b) (fun bv =>
      let as_list v := match get_list (hp st) v with Some l => Ok l | None => match v with VRef _ => Unmodelled | _ => Ok [v] end end in
      lift (as_list av) (fun l1 => lift (as_list bv) (fun l2 =>
      let combined := l1 ++ l2 in
      lift (map_res (fun jv => match jv with VInt j => match nth_error combined (Z.to_nat j) with Some x => Ok x | None => Err EIndex end | _ => Unmodelled end)
                    (map (fun j => VInt (Z.of_nat j)) indices)) (fun out =>
      if ty_is_scalar (i_ty i)
      then match out with x :: _ => next (rset fr ref x) st | [] => StFail EIndex end
      else let '(h1, ad) := alloc (hp st) (OList out) in next (rset fr ref (VRef ad)) (with_heap st h1))))))
  | IBin o a b =>
      lift (rget fr a) (fun av => lift (rget fr b) (fun bv =>
      lift (binary_op o (i_ty i) (hp st) av bv) (fun p => let '(h1, w) := p in next (rset fr ref w) (with_heap st h1))))
  | IBranch pred t f =>
      match pred with
      | Some pr =>
          lift (rget fr pr) (fun pv =>
          match t, f with
          | Some tb, Some fb =>
              lift (truthy (hp st) pv) (fun c =>
              match block_offset_last (fn_blocks F) (if c then tb else fb) with
              | Some off => StNext off fr st | None => StFail (EKey KBlock) end)
          | _, _ => StFail EAttr
          end)
      | None =>
          match t with
          | Some tb => match block_offset_last (fn_blocks F) tb with Some off => StNext off fr st | None => StFail (EKey KBlock) end
          | None => StFail EAttr
          end
      end
  | IRet v =>
      match v with
      | Some r => lift (rget fr r) (fun w => StRet w st)
      | None => StRet VNone st
      end
  | ICall fn args =>
      lift (map_res (fun rv => match rv with VInt r => rget fr (Z.to_nat r) | _ => Unmodelled end) (map (fun r => VInt (Z.of_nat r)) args))
           (fun vs => StCall fn vs ref)
  | INewVar name =>
      let '(h1, w) := create_instance (i_ty i) (hp st) in
      let fr1 := {| regs := regs fr; vars := supdate name w (vars fr); fargs := fargs fr |} in
      next (rset fr1 ref w) (with_heap st h1)
  | ICast src =>
      lift (rget fr src) (fun w =>
      if negb (ty_is_primitive (i_ty i)) then StFail EAssert else
      let elem := match i_ty i with ITVec e _ | ITMat e _ _ => e | t => t end in
      lift (cast_value 4 elem (hp st) w) (fun p => let '(h1, c) := p in next (rset fr ref c) (with_heap st h1)))
  | IConstruct vals =>
      lift (map_res (fun rv => match rv with VInt r => rget fr (Z.to_nat r) | _ => Unmodelled end) (map (fun r => VInt (Z.of_nat r)) vals)) (fun vs =>
      match i_ty i with
      | ITVec _ _ =>
          let flat := flat_map (fun v => match get_list (hp st) v with Some l => l | None => [v] end) vs in
          if existsb (fun v => match v with VRef _ => match get_list (hp st) v with Some _ => false | None => true end | _ => false end) vs then StUnmodelled else
          let '(h1, ad) := alloc (hp st) (OList flat) in next (rset fr ref (VRef ad)) (with_heap st h1)
      | ITMat _ _ _ =>
          if forallb (fun v => match get_list (hp st) v with Some _ => true | None => false end) vs
          then let '(h1, ad) := alloc (hp st) (OList vs) in next (rset fr ref (VRef ad)) (with_heap st h1)
          else StFail EAssert
      | ITInt _ | ITFloat => match vs with [v] => next (rset fr ref v) st | _ => StFail EICE end   (* a scalar is its (converted) argument *)
      | _ => StFail EICE
      end)
  | IUnknown _ => StFail EUnhandledOpcode
  end.

(** running off the end of the instruction list returns None *)
Fixpoint run (fuel : nat) (P : program) (F : ifunc) (pc : nat) (fr : frame) (st : vmstate) : outcome :=
  match fuel with
  | O => OutOfFuel
  | S fu =>
      match nth_error (flat_code F) pc with
      | None => Done VNone st
      | Some i =>
          match step F pc fr st i with
          | StNext pc' fr' st' => run fu P F pc' fr' st'
          | StRet v st' => Done v st'
          | StFail e => Fail e
          | StUnmodelled => UnmodelledO
          | StCall fn vs dst =>
              match find_func P fn with
              | None => Fail (EKey KFunc)
              | Some G =>
                  match run fu P G 0 {| regs := init_regs G; vars := []; fargs := vs |} st with
                  | Done v st' => run fu P F (S pc) (rset fr dst v) st'
                  | other => other
                  end
              end
          end
      end
  end.

(** VirtualMachine.Invoke: arguments by name, missing ones are None *)
Definition invoke (fuel : nat) (P : program) (fn : string) (named : list (string * val)) (st : vmstate) : outcome :=
  match find_func P fn with
  | None => Fail (EKey KFunc)
  | Some F =>
      let args := map (fun a => match slookup (fst a) named with Some v => v | None => VNone end) (fn_args F) in
      run fuel P F 0 {| regs := init_regs F; vars := []; fargs := args |} st
  end.

Definition vm_init (P : program) : vmstate := {| globals := map (fun g => (g, VNone)) (p_globals P); hp := [] |}.
