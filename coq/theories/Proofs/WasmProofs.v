(** * C07 / C06: facts about stack typing of the instruction groups the generator emits, for bodies of any length. *)
From Coq Require Import String ZArith List Bool.
From NSL Require Import Spec.Wasm.
Import ListNotations.

Lemma check_instrs_app : forall locals results is1 is2 s,
  check_instrs locals results (is1 ++ is2) s =
  match check_instrs locals results is1 s with Some s1 => check_instrs locals results is2 s1 | None => None end.
Proof.
  induction is1 as [|i r IH]; intros is2 s; cbn; [reflexivity|].
  destruct (check_instr locals results i s); [apply IH|reflexivity].
Qed.

(** what pushing instruction puts on the stack: local.get of a typed local, or a constant *)
Definition push_type (locals : list valtype) (i : instr) : option valtype :=
  match i with
  | LocalGet x => nth_error locals x
  | I32Const _ => Some I32
  | F32Const _ => Some F32
  | _ => None
  end.
(** operand type and result type of the operators the generator uses *)
Definition op_types (op : instr) : option (valtype * valtype) :=
  match op with
  | I32Bin _ => Some (I32, I32) | F32Bin _ => Some (F32, F32)
  | I32Rel _ => Some (I32, I32) | F32Rel _ => Some (F32, I32)
  | _ => None
  end.
Definition result_type (op : instr) (t : valtype) : valtype :=
  match op with I32Rel _ | F32Rel _ => I32 | _ => t end.

Definition empty_stack : vstack := {| vs_types := []; vs_poly := false |}.

Lemma valtype_eqb_refl t : valtype_eqb t t = true.
Proof. destruct t; reflexivity. Qed.

Lemma push_type_check locals results i t s : push_type locals i = Some t -> check_instr locals results i s = Some (push t s).
Proof. destruct i; cbn; intros H; try discriminate; try (inversion H; subst; reflexivity). rewrite H. reflexivity. Qed.

Lemma binary_group_valid : forall locals results (pa pb : instr) ta r op,
  push_type locals pa = Some ta -> push_type locals pb = Some ta ->
  op_types op = Some (ta, result_type op ta) -> nth_error locals r = Some (result_type op ta) ->
  check_instrs locals results [pa; pb; op; LocalSet r] empty_stack = Some empty_stack.
Proof.
  intros locals results pa pb ta r op Ha Hb Hop Hr. cbn [check_instrs].
  rewrite (push_type_check _ _ _ _ _ Ha), (push_type_check _ _ _ _ _ Hb).
  destruct op; cbn in Hop; try discriminate; inversion Hop; subst; cbn; rewrite Hr; cbn; reflexivity.
Qed.

Lemma load_group_valid : forall locals results i r t,
  nth_error locals i = Some t -> nth_error locals r = Some t ->
  check_instrs locals results [LocalGet i; LocalSet r] empty_stack = Some empty_stack.
Proof. intros locals results i r t Hi Hr. cbn. rewrite Hi, Hr. cbn. rewrite valtype_eqb_refl. reflexivity. Qed.

Lemma groups_valid locals results : forall groups,
  Forall (fun g => check_instrs locals results g empty_stack = Some empty_stack) groups ->
  check_instrs locals results (concat groups) empty_stack = Some empty_stack.
Proof.
  induction groups as [|g r IH]; intros H; [reflexivity|]. inversion H as [|? ? Hg Hr]; subst.
  cbn [concat]. rewrite check_instrs_app, Hg. apply IH. exact Hr.
Qed.

Lemma straight_line_body_valid : forall ft ls groups pv t,
  ft_results ft = [t] ->
  Forall (fun g => check_instrs (ft_params ft ++ ls) [t] g empty_stack = Some empty_stack) groups ->
  push_type (ft_params ft ++ ls) pv = Some t ->
  check_body ft ls (concat groups ++ [pv; Return]) = true.
Proof.
  intros ft ls groups pv t Hres Hg Hp. unfold check_body. rewrite Hres.
  rewrite check_instrs_app. fold empty_stack. rewrite (groups_valid _ _ _ Hg).
  cbn [check_instrs]. rewrite (push_type_check _ _ _ _ _ Hp). cbn. rewrite valtype_eqb_refl. reflexivity.
Qed.

(** ** C06: 32-bit wrap-around is a ring homomorphism *)
Local Open Scope Z_scope.
Lemma wrap32_add a b : wrap32 (a + b) = wrap32 (wrap32 a + wrap32 b).
Proof. unfold wrap32. rewrite Zplus_mod. reflexivity. Qed.
Lemma wrap32_sub a b : wrap32 (a - b) = wrap32 (wrap32 a - wrap32 b).
Proof. unfold wrap32. rewrite Zminus_mod. reflexivity. Qed.
Lemma wrap32_mul a b : wrap32 (a * b) = wrap32 (wrap32 a * wrap32 b).
Proof. unfold wrap32. rewrite Zmult_mod. reflexivity. Qed.

Inductive zexpr := ZLit (z : Z) | ZVar (x : nat) | ZAdd (a b : zexpr) | ZSub (a b : zexpr) | ZMul (a b : zexpr).
Fixpoint eval_z (env : nat -> Z) (e : zexpr) : Z :=
  match e with
  | ZLit z => z | ZVar x => env x
  | ZAdd a b => eval_z env a + eval_z env b | ZSub a b => eval_z env a - eval_z env b | ZMul a b => eval_z env a * eval_z env b
  end.
(** the same expression as the emitted code computes it: arguments and constants wrapped, every result wrapped *)
Fixpoint eval_w (env : nat -> Z) (e : zexpr) : Z :=
  match e with
  | ZLit z => wrap32 z | ZVar x => wrap32 (env x)
  | ZAdd a b => wrap32 (eval_w env a + eval_w env b) | ZSub a b => wrap32 (eval_w env a - eval_w env b) | ZMul a b => wrap32 (eval_w env a * eval_w env b)
  end.
Lemma ring_expr_agree : forall e env, wrap32 (eval_z env e) = eval_w env e.
Proof.
  induction e as [z|x|a IHa b IHb|a IHa b IHb|a IHa b IHb]; intros env; cbn; try reflexivity.
  - rewrite wrap32_add, IHa, IHb. reflexivity.
  - rewrite wrap32_sub, IHa, IHb. reflexivity.
  - rewrite wrap32_mul, IHa, IHb. reflexivity.
Qed.
