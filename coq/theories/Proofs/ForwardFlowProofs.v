(** * C02: load-after-store forwarding preserves whole functions with arbitrary control flow.
    Functions of any number of blocks, with branches (conditionals, loops), calls and returns anywhere: if the references of
    the instructions are pairwise distinct, every operand is a constant or is defined earlier in the same block, branch
    targets are not instruction references and a store and the load that follows it agree on the scope, then whenever
    the function returns a value on the VM model, the function [OptimizeLoadAfterStore] produces returns the same value
    and leaves the same globals and heap. *)
From Coq Require Import String ZArith List Bool PrimFloat Arith Lia.
From NSL Require Import Model.PyNum Model.IR Model.VM Model.WfIR Model.Lower Model.Opt Proofs.WfIRProofs Proofs.OptProofs Proofs.ForwardProofs.
Import ListNotations.

(** ** fuel monotonicity of the VM model *)
Lemma run_mono P : forall fuel F pc fr vs w vs1, run fuel P F pc fr vs = Done w vs1 -> forall fuel', fuel <= fuel' -> run fuel' P F pc fr vs = Done w vs1.
Proof.
  induction fuel as [|fu IH]; intros F pc fr vs w vs1 H fuel' Hle; [discriminate|].
  destruct fuel' as [|fu']; [lia|]. assert (Hle' : fu <= fu') by lia. cbn [run] in *.
  destruct (nth_error (flat_code F) pc) as [i|]; [|exact H].
  destruct (step F pc fr vs i) as [pc1 fr' vs'|? ?|fn vs0 dst|?|]; try discriminate.
  - apply (IH _ _ _ _ _ _ H _ Hle').
  - exact H.
  - destruct (find_func P fn) as [G|]; [|discriminate].
    destruct (run fu P G 0 {| regs := init_regs G; vars := []; fargs := vs0 |} vs) eqn:Ec; try discriminate.
    rewrite (IH _ _ _ _ _ _ Ec _ Hle'). apply (IH _ _ _ _ _ _ H _ Hle').
Qed.

(** ** references an instruction mentions: value operands and branch targets *)
Definition brtargets (b : ibody) : list nat := match b with IBranch _ t f => opt_list t ++ opt_list f | _ => [] end.

Lemma subst_body_ext' m1 m2 b : (forall o, In o (operands b) -> subst_ref m1 o = subst_ref m2 o) ->
  (forall o, In o (brtargets b) -> subst_ref m1 o = subst_ref m2 o) -> subst_body m1 b = subst_body m2 b.
Proof.
  intros H Hb. destruct b as [| | | | | | | | |p t f| | | | | |]; try (apply subst_body_ext; [exact H|exact I]).
  cbn [subst_body operands brtargets opt_list] in *. f_equal.
  - destruct p as [x|]; cbn; [rewrite (H x) by (left; reflexivity)|]; reflexivity.
  - destruct t as [x|]; cbn; [rewrite (Hb x) by (left; reflexivity)|]; reflexivity.
  - destruct f as [x|]; cbn; [rewrite (Hb x) by (apply in_or_app; right; left; reflexivity)|]; reflexivity.
Qed.

Lemma subst_ref_nil r : subst_ref [] r = r.
Proof. reflexivity. Qed.
Lemma subst_body_id m b : (forall o, In o (operands b) -> ~ In o (keys m)) -> (forall o, In o (brtargets b) -> ~ In o (keys m)) -> subst_body m b = b.
Proof.
  intros H Hb. transitivity (subst_body [] b).
  - apply subst_body_ext'; intros o Ho; rewrite subst_ref_nil; apply subst_ref_notin; auto.
  - destruct b; cbn [subst_body]; try reflexivity; unfold subst_ref; cbn [find];
      repeat match goal with |- context [option_map ?f ?x] => destruct x; cbn [option_map] end; try reflexivity; rewrite map_id; reflexivity.
Qed.

(** ** the state of the pass inside a block *)
Record Suf (D : list nat) (prev : option instr) (m : list (nat * nat)) (code : list instr) : Prop := {
  su_nd : NoDup (map i_ref code);
  su_fresh : fresh_for code m;
  su_ops : operands_earlier code;
  su_sc : scopes_agree prev code;
  su_dead : dead_ok D prev code m;
  su_bt : forall i t, In i code -> In t (brtargets (i_body i)) -> ~ In t (keys m) /\ ~ In t (map i_ref code) }.

Definition prev_ok (F : ifunc) (D : list nat) (prev : option instr) (m : list (nat * nat)) (code : list instr) (fo : frame) (vs : vmstate) : Prop :=
  forall p sc v src, prev = Some p -> i_body p = IStore sc v src ->
    (exists pc0 fo0 vs0, step F pc0 fo0 vs0 p = StNext (S pc0) fo vs) /\ src <> i_ref p /\ ~ In src (map i_ref code) /\ readable m D src.

Lemma suf_read D prev m i r : Suf D prev m (i :: r) -> forall o, In o (operands (i_body i)) -> readable m D o.
Proof.
  intros HS o Ho. destruct (in_dec Nat.eq_dec o D) as [HoD|HoD]; [|right; exact HoD].
  destruct (proj2 (su_dead _ _ _ _ HS) i o (or_introl eq_refl) Ho HoD) as [X|X]; [left; exact X|].
  exfalso. destruct (su_ops _ _ _ _ HS) as [Hopi _]. apply (Hopi o Ho). exact X.
Qed.

Lemma suf_kept D prev m i r : Suf D prev m (i :: r) -> forwardable prev i = None ->
  Suf D (Some i) m r /\ ~ In (i_ref i) (keys m) /\ ~ In (i_ref i) (targets m).
Proof.
  intros HS Efw. destruct (su_fresh _ _ _ _ HS i (or_introl eq_refl)) as [Hk Ht]. split; [|split; assumption].
  pose proof (su_nd _ _ _ _ HS) as Hnd. inversion Hnd as [|? ? Hni Hndr]; subst. destruct (su_ops _ _ _ _ HS) as [Hopi Hopr].
  destruct (su_sc _ _ _ _ HS) as [_ Hscr]. destruct (su_dead _ _ _ _ HS) as [HD HO]. cbn [las_map] in HD. rewrite Efw in HD.
  constructor.
  - exact Hndr.
  - intros j Hj. apply (su_fresh _ _ _ _ HS). right. exact Hj.
  - exact Hopr.
  - exact Hscr.
  - split.
    + intros q HqD Hq. apply HD; [exact HqD|right; exact Hq].
    + intros j o Hj Ho HoD. destruct (HO j o (or_intror Hj) Ho HoD) as [X|[X|X]]; [left; exact X| |right; exact X].
      exfalso. subst o. specialize (HD (i_ref i) HoD (or_introl eq_refl)).
      destruct (las_map_grows r (Some i) m) as (d & Hd & Hkd). rewrite Hd in HD. unfold keys in HD. rewrite map_app in HD. apply in_app_or in HD as [X|X]; [exact (Hk X)|].
      apply Hni. apply Hkd. exact X.
  - intros j t Hj Ht'. destruct (su_bt _ _ _ _ HS j t (or_intror Hj) Ht') as [H1 H2]. split; [exact H1|]. intro X. apply H2. right. exact X.
Qed.

Lemma prev_ok_kept F D m i r pc fo vs fo' vs' : (forall o, In o (operands (i_body i)) -> readable m D o) -> operands_earlier (i :: r) ->
  step F pc fo vs i = StNext (S pc) fo' vs' -> prev_ok F D (Some i) m r fo' vs'.
Proof.
  intros Hread [Hopi _] Hstep p sc v src Hp Hb. inversion Hp; subst p. split; [exists pc, fo, vs; exact Hstep|].
  assert (Ho : In src (operands (i_body i))) by (rewrite Hb; left; reflexivity).
  specialize (Hopi src Ho). cbn [map] in Hopi. split; [intro E; apply Hopi; left; congruence|]. split; [intro E; apply Hopi; right; exact E|apply Hread; exact Ho].
Qed.

(** a forwarded load: the original takes one step, the optimised function stands still *)
Lemma suf_fwd F D prev m i r src pc fo fp vs fo' vs' :
  Suf D prev m (i :: r) -> forwardable prev i = Some src -> Inv m D fo fp -> prev_ok F D prev m (i :: r) fo vs ->
  step F pc fo vs i = StNext (S pc) fo' vs' ->
  let m' := m ++ [(i_ref i, resolve (length m) m src)] in
  Suf D (Some i) m' r /\ Inv m' D fo' fp /\ vs' = vs /\ prev_ok F D (Some i) m' r fo' vs'.
Proof.
  intros HS Efw I Hprev Hstep m'. destruct (su_fresh _ _ _ _ HS i (or_introl eq_refl)) as [Hk Ht].
  pose proof (su_nd _ _ _ _ HS) as Hnd. inversion Hnd as [|? ? Hni Hndr]; subst. destruct (su_ops _ _ _ _ HS) as [Hopi Hopr].
  destruct (su_sc _ _ _ _ HS) as [Hsci Hscr]. destruct (su_dead _ _ _ _ HS) as [HD HO]. cbn [las_map] in HD. rewrite Efw in HD.
  unfold forwardable in Efw. destruct (i_body i) as [sc v| | | | | | | | | | | | | | | ] eqn:Eb; try discriminate.
  destruct prev as [p|]; [|discriminate]. destruct (i_body p) as [|sc' v' src'| | | | | | | | | | | | | | ] eqn:Ep; try discriminate.
  destruct (var_eqb v' v) eqn:Ev; [|discriminate]. inversion Efw; subst src'. clear Efw.
  specialize (Hsci eq_refl). subst sc'. apply var_eqb_eq in Ev. subst v'.
  destruct (Hprev p sc v src eq_refl Ep) as ((pc0 & fo0 & vs0 & Hst) & Hsrc1 & Hsrc2 & Hsrc3).
  destruct (step_store_src _ _ _ _ _ _ _ _ _ _ _ Ep Hst) as (w & Hw0 & Hw1). specialize (Hw1 Hsrc1).
  destruct (load_after_store_delivers_stored F pc0 fo0 vs0 sc v src w p i (S pc0) fo vs Ep Eb Hw0 Hst) as (fr2 & Hl & Hg).
  destruct (step_load_shape _ _ _ _ _ _ _ _ _ Eb Hstep) as (-> & w' & ->).
  assert (w' = w).
  { assert (Hfr : fr2 = rset fo (i_ref i) w').
    { clear -Eb Hstep Hl. unfold step in Hstep, Hl. rewrite Eb in Hstep, Hl. destruct sc, v as [x|n]; try discriminate.
      - destruct (slookup x (globals vs)); [|discriminate]. inversion Hstep. inversion Hl. congruence.
      - destruct (nth_error (fargs fo) n); [|discriminate]. inversion Hstep. inversion Hl. congruence.
      - destruct (slookup x (vars fo)); [|discriminate]. inversion Hstep. inversion Hl. congruence. }
    rewrite Hfr, rget_rset_eq in Hg. congruence. }
  subst w'.
  set (r' := resolve (length m) m src) in *. assert (Hr' : r' = subst_ref m src) by (apply (resolve_one m D fo fp src I)).
  assert (Hr'k : ~ In r' (keys m)).
  { rewrite Hr'. destruct (in_dec Nat.eq_dec src (keys m)) as [Hin|Hn]; [apply (inv_fwd _ _ _ _ I src Hin)|rewrite (subst_ref_notin _ _ Hn); exact Hn]. }
  assert (Hr'D : ~ In r' D).
  { rewrite Hr'. destruct (in_dec Nat.eq_dec src (keys m)) as [Hin|Hn]; [apply (inv_fwd _ _ _ _ I src Hin)|]. rewrite (subst_ref_notin _ _ Hn). destruct Hsrc3 as [X|X]; [contradiction|exact X]. }
  assert (Hr'v : rlookup r' (regs fo) = Some w).
  { rewrite Hr'. destruct (in_dec Nat.eq_dec src (keys m)) as [Hin|Hn].
    - rewrite <- (proj1 (inv_fwd _ _ _ _ I src Hin)). unfold rget in Hw1. destruct (rlookup src (regs fo)); inversion Hw1; reflexivity.
    - rewrite (subst_ref_notin _ _ Hn). unfold rget in Hw1. destruct (rlookup src (regs fo)); inversion Hw1; reflexivity. }
  assert (Hr'i : r' <> i_ref i).
  { rewrite Hr'. destruct (in_dec Nat.eq_dec src (keys m)) as [Hin|Hn].
    - intro E. apply Ht. rewrite <- E. apply subst_ref_in. exact Hin.
    - rewrite (subst_ref_notin _ _ Hn). intro E. apply Hsrc2. left. congruence. }
  split; [|split; [|split; [reflexivity|]]].
  - constructor.
    + exact Hndr.
    + intros j Hj. destruct (su_fresh _ _ _ _ HS j (or_intror Hj)) as [Hjk Hjt]. unfold m', keys, targets. rewrite !map_app. cbn. split.
      * intro X. apply in_app_or in X as [X|[X|[]]]; [contradiction|]. apply Hni. rewrite X. apply in_map. exact Hj.
      * intro X. apply in_app_or in X as [X|[X|[]]]; [contradiction|].
        rewrite Hr' in X. destruct (in_dec Nat.eq_dec src (keys m)) as [Hin|Hn].
        -- apply Hjt. rewrite <- X. apply subst_ref_in. exact Hin.
        -- rewrite (subst_ref_notin _ _ Hn) in X. apply Hsrc2. right. rewrite X. apply in_map. exact Hj.
    + exact Hopr.
    + exact Hscr.
    + split.
      * intros q HqD Hq. apply HD; [exact HqD|right; exact Hq].
      * intros j o Hj Ho HoD. unfold m'. destruct (HO j o (or_intror Hj) Ho HoD) as [X|[X|X]].
        -- left. unfold keys. rewrite map_app. apply in_or_app. left. exact X.
        -- left. unfold keys. rewrite map_app. apply in_or_app. right. left. exact X.
        -- right. exact X.
    + intros j t Hj Ht'. destruct (su_bt _ _ _ _ HS j t (or_intror Hj) Ht') as [H1 H2]. split.
      * unfold m', keys. rewrite map_app. cbn. intro X. apply in_app_or in X as [X|[X|[]]]; [contradiction|]. apply H2. left. exact X.
      * intro X. apply H2. right. exact X.
  - unfold m'. constructor; cbn [rset regs vars fargs]; try apply I.
    + intros q Hq HqD. unfold keys in Hq. rewrite map_app in Hq. cbn in Hq.
      assert (q <> i_ref i) by (intro; subst; apply Hq; apply in_or_app; right; left; reflexivity).
      rewrite rlookup_update_other by assumption. apply (inv_same _ _ _ _ I); [|exact HqD]. intro; apply Hq; apply in_or_app; left; assumption.
    + intros q Hq. unfold keys in Hq. rewrite map_app in Hq. apply in_app_or in Hq as [Hq|Hq]; [|cbn in Hq; destruct Hq as [<-|[]]].
      * assert (Hs : subst_ref (m ++ [(i_ref i, r')]) q = subst_ref m q).
        { unfold subst_ref. rewrite (find_app_some' m _ q Hq). reflexivity. }
        rewrite Hs. destruct (inv_fwd _ _ _ _ I q Hq) as (H1 & H2 & H3). split; [|split; [|exact H3]].
        -- assert (q <> i_ref i) by (intro; subst; contradiction).
           assert (subst_ref m q <> i_ref i) by (intro E; apply Ht; rewrite <- E; apply subst_ref_in; exact Hq).
           rewrite !rlookup_update_other by assumption. exact H1.
        -- unfold keys. rewrite map_app. intro X. apply in_app_or in X as [X|[X|[]]]; [contradiction|].
           apply Ht. cbn in X. rewrite X. apply subst_ref_in. exact Hq.
      * assert (Hs : subst_ref (m ++ [(i_ref i, r')]) (i_ref i) = r').
        { unfold subst_ref. rewrite (find_app_none' _ _ _ Hk). cbn. rewrite Nat.eqb_refl. reflexivity. }
        rewrite Hs. split; [|split; [|exact Hr'D]].
        -- rewrite rlookup_update_same. rewrite rlookup_update_other by exact Hr'i. symmetry. exact Hr'v.
        -- unfold keys. rewrite map_app. intro X. apply in_app_or in X as [X|[X|[]]]; [contradiction|]. cbn in X. congruence.
  - intros p' sc0 v0 src0 Hp' Hb'. inversion Hp'; subst p'. rewrite Eb in Hb'. discriminate.
Qed.

(** ** the pass block by block: under block-local operands the function-wide renaming only touches the block itself *)
Definition opt_block (b : block) : block := {| b_ref := b_ref b; b_code := apply_block (las_scan None (b_code b) []) (b_code b) |}.
Definition brefs (b : block) : list nat := map i_ref (b_code b).

Definition untouched (K : list nat) (x : block) : Prop :=
  forall i, In i (b_code x) -> ~ In (i_ref i) K /\ (forall o, In o (operands (i_body i)) -> ~ In o K) /\ (forall o, In o (brtargets (i_body i)) -> ~ In o K).

Lemma apply_block_id m code :
  (forall i, In i code -> ~ In (i_ref i) (keys m) /\ (forall o, In o (operands (i_body i)) -> ~ In o (keys m)) /\ (forall o, In o (brtargets (i_body i)) -> ~ In o (keys m))) ->
  apply_block m code = code.
Proof.
  unfold apply_block. induction code as [|i r IH]; intros H; [reflexivity|]. cbn [filter].
  destruct (H i (or_introl eq_refl)) as (Hk & Ho & Hb).
  assert (He : existsb (fun p => Nat.eqb (fst p) (i_ref i)) m = false).
  { apply not_true_is_false. intro X. apply existsb_exists in X as (p & Hp & Hpe). apply Nat.eqb_eq in Hpe. apply Hk. rewrite <- Hpe. apply in_map. exact Hp. }
  rewrite He. cbn [negb map]. rewrite IH by (intros j Hj; apply H; right; exact Hj). f_equal.
  unfold subst_instr. rewrite (subst_body_id m _ Ho Hb). destruct i; reflexivity.
Qed.

Lemma resolve_in m : forall n r, resolve n m r = r \/ In (resolve n m r) (targets m).
Proof.
  induction n as [|n IH]; intros r; cbn [resolve]; [left; reflexivity|].
  destruct (find (fun p => Nat.eqb (fst p) r) m) as [p|] eqn:Ef; [|left; reflexivity].
  right. destruct (IH (snd p)) as [->|X]; [|exact X]. apply find_some in Ef as [Hp _]. apply in_map. exact Hp.
Qed.

Definition all_operands (code : list instr) : list nat := flat_map (fun i => operands (i_body i)) code.

Lemma las_targets : forall code prev m t, In t (targets (las_map prev code m)) ->
  In t (targets m) \/ In t (all_operands code) \/ (exists p, prev = Some p /\ In t (operands (i_body p))).
Proof.
  induction code as [|i r IH]; intros prev m t H; cbn [las_map] in H; [left; exact H|].
  destruct (forwardable prev i) as [src|] eqn:Efw.
  - destruct (IH _ _ _ H) as [X|[X|(p & Hp & X)]].
    + unfold targets in X. rewrite map_app in X. apply in_app_or in X as [X|[X|[]]]; [left; exact X|]. cbn in X.
      destruct (resolve_in m (length m) src) as [E|E]; [|left; rewrite <- X; exact E].
      right. right. unfold forwardable in Efw. destruct (i_body i); try discriminate. destruct prev as [p|]; [|discriminate].
      exists p. split; [reflexivity|]. destruct (i_body p); try discriminate. destruct (var_eqb v0 v); [|discriminate]. injection Efw as Es. rewrite <- X, E. left. exact Es.
    + right. left. unfold all_operands. cbn [flat_map]. apply in_or_app. right. exact X.
    + inversion Hp; subst p. right. left. unfold all_operands. cbn [flat_map]. apply in_or_app. left. exact X.
  - destruct (IH _ _ _ H) as [X|[X|(p & Hp & X)]]; [left; exact X| |].
    + right. left. unfold all_operands. cbn [flat_map]. apply in_or_app. right. exact X.
    + inversion Hp; subst p. right. left. unfold all_operands. cbn [flat_map]. apply in_or_app. left. exact X.
Qed.

Lemma las_keys_refs code : forall k, In k (keys (las_scan None code [])) -> In k (map i_ref code).
Proof. intros k Hk. rewrite las_scan_map in Hk. destruct (las_map_grows code None []) as (d & Hd & Hkd). rewrite Hd in Hk. apply Hkd. exact Hk. Qed.

Lemma operands_subst m b o' : In o' (operands (subst_body m b)) -> exists o, In o (operands b) /\ o' = subst_ref m o.
Proof.
  destruct b; cbn [subst_body operands opt_list]; intros H;
    repeat match goal with
           | H : In _ (_ :: _) |- _ => destruct H as [<-|H]
           | H : In _ [] |- _ => destruct H
           end; try (eexists; split; [|reflexivity]; cbn; auto; fail).
  - destruct pred as [x|]; cbn in H; [destruct H as [<-|[]]|destruct H]. exists x. split; [left; reflexivity|reflexivity].
  - destruct v as [x|]; cbn in H; [destruct H as [<-|[]]|destruct H]. exists x. split; [left; reflexivity|reflexivity].
  - apply in_map_iff in H as (o & <- & Ho). exists o. auto.
  - apply in_map_iff in H as (o & <- & Ho). exists o. auto.
Qed.
Lemma brtargets_subst m b o' : In o' (brtargets (subst_body m b)) -> exists o, In o (brtargets b) /\ o' = subst_ref m o.
Proof.
  destruct b; cbn [subst_body brtargets]; intros H; try destruct H.
  apply in_app_or in H as [H|H].
  - destruct t as [x|]; cbn in H; [destruct H as [<-|[]]|destruct H]. exists x. split; [left; reflexivity|reflexivity].
  - destruct f as [x|]; cbn in H; [destruct H as [<-|[]]|destruct H]. exists x. split; [apply in_or_app; right; left; reflexivity|reflexivity].
Qed.

Lemma untouched_opt K b : untouched K b -> untouched K (opt_block b).
Proof.
  intros H i Hi. unfold opt_block, apply_block in Hi. cbn [b_code] in Hi. apply in_map_iff in Hi as (i0 & <- & Hi0). apply filter_In in Hi0 as [Hi0 _].
  destruct (H i0 Hi0) as (Hr & Ho & Hb). cbn [subst_instr i_ref i_body].
  assert (Hsub : forall o, ~ In o K -> (forall t, In t (targets (las_scan None (b_code b) [])) -> ~ In t K) -> ~ In (subst_ref (las_scan None (b_code b) []) o) K).
  { intros o Ho' Ht. destruct (in_dec Nat.eq_dec o (keys (las_scan None (b_code b) []))) as [Hin|Hn]; [apply Ht; apply subst_ref_in; exact Hin|rewrite (subst_ref_notin _ _ Hn); exact Ho']. }
  assert (Ht : forall t, In t (targets (las_scan None (b_code b) [])) -> ~ In t K).
  { intros t Ht. rewrite las_scan_map in Ht. destruct (las_targets _ _ _ _ Ht) as [[]|[X|(p & Hp & _)]]; [|discriminate].
    unfold all_operands in X. apply in_flat_map in X as (j & Hj & Hoj). destruct (H j Hj) as (_ & Hjo & _). apply Hjo. exact Hoj. }
  split; [exact Hr|]. split.
  - intros o' Ho'. apply operands_subst in Ho' as (o & Ho1 & ->). apply Hsub; [apply Ho; exact Ho1|exact Ht].
  - intros o' Ho'. apply brtargets_subst in Ho' as (o & Ho1 & ->). apply Hsub; [apply Hb; exact Ho1|exact Ht].
Qed.

Definition sep (l : list block) : Prop := forall pre b post, l = pre ++ b :: post -> forall x, In x (pre ++ post) -> untouched (brefs b) x.

Lemma untouched_sub K K' x : (forall k, In k K' -> In k K) -> untouched K x -> untouched K' x.
Proof. intros Hs H i Hi. destruct (H i Hi) as (H1 & H2 & H3). split; [|split]; intros; intro X; [apply H1|eapply H2|eapply H3]; eauto. Qed.

Lemma las_blocks_map : forall todo fuel done, length todo <= fuel ->
  (forall b x, In b todo -> In x done -> untouched (brefs b) x) -> sep todo ->
  las_blocks fuel done todo = done ++ map opt_block todo.
Proof.
  induction todo as [|b rest IH]; intros fuel done Hf Hd Hs.
  - destruct fuel; cbn; rewrite app_nil_r; reflexivity.
  - destruct fuel as [|fu]; [cbn in Hf; lia|]. cbn [las_blocks].
    set (m := las_scan None (b_code b) []).
    assert (Hk : forall k, In k (keys m) -> In k (brefs b)) by (apply las_keys_refs).
    assert (Hid : forall x, untouched (brefs b) x -> {| b_ref := b_ref x; b_code := apply_block m (b_code x) |} = x).
    { intros x Hx. rewrite apply_block_id; [destruct x; reflexivity|]. intros i Hi. destruct (untouched_sub _ _ _ Hk Hx i Hi) as (H1 & H2 & H3). auto. }
    assert (Hdone : map (fun x => {| b_ref := b_ref x; b_code := apply_block m (b_code x) |}) done = done).
    { rewrite <- (map_id done) at 2. apply map_ext_in. intros x Hx. apply Hid. apply Hd; [left; reflexivity|exact Hx]. }
    assert (Hrest : map (fun x => {| b_ref := b_ref x; b_code := apply_block m (b_code x) |}) rest = rest).
    { rewrite <- (map_id rest) at 2. apply map_ext_in. intros x Hx. apply Hid. apply (Hs [] b rest eq_refl). exact Hx. }
    rewrite Hdone, Hrest. fold (opt_block b). rewrite IH.
    + rewrite <- app_assoc. reflexivity.
    + cbn in Hf. lia.
    + intros b' x Hb' Hx. apply in_app_or in Hx as [Hx|[<-|[]]].
      * apply Hd; [right; exact Hb'|exact Hx].
      * apply untouched_opt. apply in_split in Hb' as (p1 & p2 & ->). apply (Hs (b :: p1) b' p2 eq_refl). left. reflexivity.
    + intros pre b' post E x Hx. subst rest. apply (Hs (b :: pre) b' post eq_refl). right. exact Hx.
Qed.

(** ** block offsets *)
Lemma bol_app (t : nat) (B1 : list block) b B2 : b_ref b = t -> (forall x, In x B2 -> b_ref x <> t) ->
  block_offset_last (B1 ++ b :: B2) t = Some (length (flat_map b_code B1)).
Proof.
  intros Hb Hn. unfold block_offset_last. generalize (@None nat). change (length (flat_map b_code B1)) with (0 + length (flat_map b_code B1)). generalize 0.
  induction B1 as [|x B1 IH]; intros acc found; cbn [app flat_map].
  - rewrite Hb, Nat.eqb_refl. cbn [length]. rewrite Nat.add_0_r. clear -Hn. generalize (acc + length (b_code b)). revert Hn. generalize (Some acc).
    induction B2 as [|y B2 IH]; intros found Hn a; [reflexivity|]. rewrite (proj2 (Nat.eqb_neq _ _) (Hn y (or_introl eq_refl))). apply IH. intros z Hz. apply Hn. right. exact Hz.
  - rewrite IH. rewrite app_length. f_equal. lia.
Qed.

Lemma bol_split (t : nat) : forall bs off, block_offset_last bs t = Some off ->
  exists B1 b B2, bs = B1 ++ b :: B2 /\ b_ref b = t /\ off = length (flat_map b_code B1) /\ (forall x, In x B2 -> b_ref x <> t).
Proof.
  intros bs off H.
  assert (G : forall bs acc found off, (fix go (bs : list block) (acc : nat) (found : option nat) : option nat :=
                 match bs with [] => found | b :: r => go r (acc + length (b_code b)) (if Nat.eqb (b_ref b) t then Some acc else found) end) bs acc found = Some off ->
              (found = Some off /\ forall x, In x bs -> b_ref x <> t) \/
              exists B1 b B2, bs = B1 ++ b :: B2 /\ b_ref b = t /\ off = acc + length (flat_map b_code B1) /\ (forall x, In x B2 -> b_ref x <> t)).
  { clear. induction bs as [|x r IH]; intros acc found off H; [left; split; [exact H|intros ? []]|].
    destruct (IH _ _ _ H) as [[Hf Hn]|(B1 & b & B2 & -> & Hb & Ho & Hn)].
    - destruct (Nat.eqb_spec (b_ref x) t) as [E|E].
      + inversion Hf; subst. right. exists [], x, r. cbn. rewrite Nat.add_0_r. auto.
      + left. split; [exact Hf|]. intros y [<-|Hy]; [exact E|apply Hn; exact Hy].
    - right. exists (x :: B1), b, B2. cbn [app flat_map]. rewrite app_length. split; [reflexivity|]. split; [exact Hb|]. split; [lia|exact Hn]. }
  unfold block_offset_last in H. destruct (G _ _ _ _ H) as [[Hf _]|(B1 & b & B2 & E & Hb & Ho & Hn)]; [discriminate|].
  exists B1, b, B2. auto.
Qed.

(** ** the code the pass emits for a block that may end in (or contain) branches *)
Lemma apply_block_las' : forall code prev m,
  NoDup (map i_ref code) -> (forall i, In i code -> ~ In (i_ref i) (keys m)) -> operands_earlier code ->
  (forall i t, In i code -> In t (brtargets (i_body i)) -> ~ In t (map i_ref code)) ->
  forall M d, M = las_map prev code m -> M = m ++ d -> (forall k, In k (keys d) -> In k (map i_ref code)) ->
  apply_block M code = las_code prev code m.
Proof.
  induction code as [|i r IH]; intros prev m Hnd Hfr Hop Hbt M d HM Hd Hk; [reflexivity|].
  inversion Hnd as [|? ? Hni Hndr]; subst. destruct Hop as [Hopi Hopr].
  assert (Hbtr : forall j t, In j r -> In t (brtargets (i_body j)) -> ~ In t (map i_ref r)).
  { intros j t Hj Ht X. apply (Hbt j t (or_intror Hj) Ht). right. exact X. }
  unfold apply_block. cbn [filter las_code las_map] in *.
  destruct (forwardable prev i) as [src|] eqn:Efw.
  - destruct (las_map_grows r (Some i) (m ++ [(i_ref i, resolve (length m) m src)])) as (d' & Hd' & Hk').
    assert (Hin : existsb (fun p => Nat.eqb (fst p) (i_ref i)) (las_map (Some i) r (m ++ [(i_ref i, resolve (length m) m src)])) = true).
    { rewrite Hd'. apply existsb_exists. exists (i_ref i, resolve (length m) m src). split; [apply in_or_app; left; apply in_or_app; right; left; reflexivity|apply Nat.eqb_refl]. }
    rewrite Hin. cbn [negb]. fold (apply_block (las_map (Some i) r (m ++ [(i_ref i, resolve (length m) m src)])) r).
    apply (IH (Some i) (m ++ [(i_ref i, resolve (length m) m src)]) Hndr) with (d := d'); auto.
    intros j Hj. unfold keys. rewrite map_app. cbn. intro X. apply in_app_or in X as [X|[X|[]]]; [apply (Hfr j (or_intror Hj)); exact X|].
    apply Hni. rewrite X. apply in_map. exact Hj.
  - destruct (las_map_grows r (Some i) m) as (d' & Hd' & Hk').
    assert (Hout : existsb (fun p => Nat.eqb (fst p) (i_ref i)) (las_map (Some i) r m) = false).
    { rewrite Hd'. apply not_true_is_false. intro X. apply existsb_exists in X as (p & Hp & Hpe). apply Nat.eqb_eq in Hpe.
      apply in_app_or in Hp as [Hp|Hp].
      - apply (Hfr i (or_introl eq_refl)). rewrite <- Hpe. apply in_map. exact Hp.
      - apply Hni. apply Hk'. rewrite <- Hpe. apply in_map. exact Hp. }
    rewrite Hout. cbn [negb map]. fold (apply_block (las_map (Some i) r m) r). f_equal.
    + unfold subst_instr. f_equal. rewrite Hd'. apply subst_body_ext'.
      * intros o Ho. apply subst_ref_app. intro X. apply (Hopi o Ho). right. apply Hk'. exact X.
      * intros o Ho. apply subst_ref_app. intro X. apply (Hbt i o (or_introl eq_refl) Ho). right. apply Hk'. exact X.
    + apply (IH (Some i) m Hndr) with (d := d'); auto. intros j Hj. apply Hfr. right. exact Hj.
Qed.

Lemma opt_code D b : Suf D None [] (b_code b) -> b_code (opt_block b) = las_code None (b_code b) [].
Proof.
  intros HS. unfold opt_block. cbn [b_code]. rewrite las_scan_map. destruct (las_map_grows (b_code b) None []) as (d & Hd & Hk).
  apply (apply_block_las' (b_code b) None [] (su_nd _ _ _ _ HS) (fun i _ (X : In (i_ref i) (keys [])) => X) (su_ops _ _ _ _ HS)
           (fun i t Hi Ht => proj2 (su_bt _ _ _ _ HS i t Hi Ht)) _ d eq_refl Hd Hk).
Qed.

Lemma Inv_reset m D fo fp : Inv m D fo fp -> (forall k, In k (keys m) -> In k D) -> Inv [] D fo fp.
Proof.
  intros I Hk. constructor; try apply I.
  - intros r _ HrD. apply (inv_same _ _ _ _ I); [|exact HrD]. intro X. apply HrD. apply Hk. exact X.
  - intros r [].
Qed.

Lemma nth_error_mid' {A} (pre : list A) x post : nth_error (pre ++ x :: post) (length pre) = Some x.
Proof. rewrite nth_error_app2 by lia. rewrite Nat.sub_diag. reflexivity. Qed.
Lemma nth_error_end {A} (pre : list A) : nth_error (pre ++ []) (length pre) = None.
Proof. apply nth_error_None. rewrite app_nil_r. lia. Qed.

Section Sim.
  Variable P : program.
  Variable F F' : ifunc.
  Variable D : list nat.
  Hypothesis HF' : fn_blocks F' = map opt_block (fn_blocks F).
  Hypothesis Hall : forall b, In b (fn_blocks F) -> Suf D None [] (b_code b).
  Hypothesis HDk : forall b, In b (fn_blocks F) -> forall k, In k (keys (las_map None (b_code b) [])) -> In k D.

  Definition sim_at (fuel : nat) : Prop :=
    forall pre r post pre' prev m fo fp vs w vs1,
      flat_code F = pre ++ r ++ flat_map b_code post ->
      flat_code F' = pre' ++ las_code prev r m ++ flat_map b_code (map opt_block post) ->
      Suf D prev m r -> incl post (fn_blocks F) -> (forall k, In k (keys (las_map prev r m)) -> In k D) ->
      Inv m D fo fp -> prev_ok F D prev m r fo vs ->
      run fuel P F (length pre) fo vs = Done w vs1 -> exists fuel', run fuel' P F' (length pre') fp vs = Done w vs1.

  Lemma keys_m_D prev r m : (forall k, In k (keys (las_map prev r m)) -> In k D) -> forall k, In k (keys m) -> In k D.
  Proof. intros H k Hk. apply H. destruct (las_map_grows r prev m) as (d & -> & _). unfold keys. rewrite map_app. apply in_or_app. left. exact Hk. Qed.

  Lemma flat_blocks_app (B1 : list block) b B2 : flat_map b_code (B1 ++ b :: B2) = flat_map b_code B1 ++ b_code b ++ flat_map b_code B2.
  Proof. rewrite flat_map_app. reflexivity. Qed.

  (** entering the block a branch names *)
  Lemma jump_sim fu : sim_at fu -> forall tb off m fo fp vs w vs1,
    block_offset_last (fn_blocks F) tb = Some off -> Inv m D fo fp -> (forall k, In k (keys m) -> In k D) ->
    run fu P F off fo vs = Done w vs1 ->
    exists off', block_offset_last (fn_blocks F') tb = Some off' /\ exists fuel', run fuel' P F' off' fp vs = Done w vs1.
  Proof.
    intros IH tb off m fo fp vs w vs1 Hoff I Hk Hrun.
    destruct (bol_split tb _ _ Hoff) as (B1 & b & B2 & Hbs & Hb & -> & Hn).
    exists (length (flat_map b_code (map opt_block B1))). split.
    - rewrite HF', Hbs, map_app. cbn [map]. apply bol_app; [exact Hb|]. intros x Hx. apply in_map_iff in Hx as (y & <- & Hy). exact (Hn y Hy).
    - assert (Hin : In b (fn_blocks F)) by (rewrite Hbs; apply in_or_app; right; left; reflexivity).
      apply (IH (flat_map b_code B1) (b_code b) B2 (flat_map b_code (map opt_block B1)) None [] fo fp vs w vs1).
      + unfold flat_code. rewrite Hbs. apply flat_blocks_app.
      + unfold flat_code. rewrite HF', Hbs, map_app. cbn [map]. rewrite flat_blocks_app. rewrite (opt_code D b (Hall b Hin)). reflexivity.
      + apply Hall. exact Hin.
      + intros x Hx. rewrite Hbs. apply in_or_app. right. right. exact Hx.
      + apply HDk. exact Hin.
      + apply (Inv_reset m); assumption.
      + intros p sc v src Hp. discriminate.
      + exact Hrun.
  Qed.

  Lemma plain_step_cases pc fr vs i : plain i = true ->
    match step F pc fr vs i with StRet _ _ | StCall _ _ _ => False | StNext pc1 _ _ => pc1 = S pc | _ => True end.
  Proof.
    intros Hp. destruct (step F pc fr vs i) as [pc1 fr1 vs1|v st|fn a d|e|] eqn:Es; try exact Logic.I.
    - apply (plain_step_next _ _ _ _ _ _ _ _ Hp Es).
    - unfold plain in Hp. unfold step in Es. destruct (i_body i) eqn:Eb; try discriminate;
        repeat match type of Es with
               | context [lift ?x _] => destruct x; cbn [lift] in Es; try discriminate
               | context [match ?x with _ => _ end] => destruct x; try discriminate
               end.
    - unfold plain in Hp. unfold step in Es. destruct (i_body i) eqn:Eb; try discriminate;
        repeat match type of Es with
               | context [lift ?x _] => destruct x; cbn [lift] in Es; try discriminate
               | context [match ?x with _ => _ end] => destruct x; try discriminate
               end.
  Qed.

  Lemma sim_step fuel : (forall fu, fu < fuel -> sim_at fu) ->
    forall pre i r post pre' prev m fo fp vs w vs1,
      flat_code F = pre ++ (i :: r) ++ flat_map b_code post ->
      flat_code F' = pre' ++ las_code prev (i :: r) m ++ flat_map b_code (map opt_block post) ->
      Suf D prev m (i :: r) -> incl post (fn_blocks F) -> (forall k, In k (keys (las_map prev (i :: r) m)) -> In k D) ->
      Inv m D fo fp -> prev_ok F D prev m (i :: r) fo vs ->
      run fuel P F (length pre) fo vs = Done w vs1 -> exists fuel', run fuel' P F' (length pre') fp vs = Done w vs1.
  Proof.
    intros IH pre i r post pre' prev m fo fp vs w vs1 Hc Hc' HS Hpost Hfin I Hprev Hrun.
    destruct fuel as [|fu]; [discriminate|]. cbn [run] in Hrun.
    assert (En : nth_error (flat_code F) (length pre) = Some i) by (rewrite Hc; apply nth_error_mid').
    rewrite En in Hrun.
    assert (Hc1 : flat_code F = (pre ++ [i]) ++ r ++ flat_map b_code post) by (rewrite Hc, <- app_assoc; reflexivity).
    assert (Hl1 : length (pre ++ [i]) = S (length pre)) by (rewrite app_length; cbn; lia).
    cbn [las_code las_map] in Hc', Hfin.
    destruct (forwardable prev i) as [src|] eqn:Efw.
    - (* a removed load *)
      assert (Hpl : plain i = true) by (unfold forwardable in Efw; unfold plain; destruct (i_body i); try discriminate; reflexivity).
      pose proof (plain_step_cases (length pre) fo vs i Hpl) as Hcase.
      destruct (step F (length pre) fo vs i) as [pc1 fo' vs'|v st|fn a d|e|] eqn:Es; try discriminate; try contradiction. subst pc1.
      destruct (suf_fwd F D prev m i r src (length pre) fo fp vs fo' vs' HS Efw I Hprev Es) as (HS' & I' & -> & Hprev').
      rewrite <- Hl1 in Hrun.
      apply (IH fu (Nat.lt_succ_diag_r fu) (pre ++ [i]) r post pre' (Some i) _ fo' fp vs w vs1 Hc1 Hc' HS' Hpost Hfin I' Hprev' Hrun).
    - (* an instruction that stays *)
      destruct (suf_kept D prev m i r HS Efw) as (HS' & Hk & Ht). pose proof (suf_read D prev m i r HS) as Hread.
      assert (En' : nth_error (flat_code F') (length pre') = Some (subst_instr m i)) by (rewrite Hc'; apply nth_error_mid').
      assert (Hc1' : flat_code F' = (pre' ++ [subst_instr m i]) ++ las_code (Some i) r m ++ flat_map b_code (map opt_block post)) by (rewrite Hc', <- app_assoc; reflexivity).
      assert (Hl1' : length (pre' ++ [subst_instr m i]) = S (length pre')) by (rewrite app_length; cbn; lia).
      destruct (plain i) eqn:Hpl.
      + pose proof (plain_step_cases (length pre) fo vs i Hpl) as Hcase.
        destruct (step F (length pre) fo vs i) as [pc1 fo' vs'|v st|fn a d|e|] eqn:Es; try discriminate; try contradiction. subst pc1.
        assert (Hnb : is_branch i = false) by (unfold plain in Hpl; unfold is_branch; destruct (i_body i); try reflexivity; discriminate).
        destruct (step_subst F F' (length pre) (length pre') m D fo fp vs i fo' vs' I Hnb Hk Ht Hread Es) as (fp' & Es' & I').
        rewrite <- Hl1 in Hrun.
        destruct (IH fu (Nat.lt_succ_diag_r fu) (pre ++ [i]) r post (pre' ++ [subst_instr m i]) (Some i) m fo' fp' vs' w vs1 Hc1 Hc1' HS' Hpost Hfin I'
                    (prev_ok_kept F D m i r (length pre) fo vs fo' vs' Hread (su_ops _ _ _ _ HS) Es) Hrun) as [fuel' Hr'].
        exists (S fuel'). cbn [run]. rewrite En', Es', <- Hl1'. exact Hr'.
      + unfold plain in Hpl. destruct (i_body i) as [| | | | | | | | |pred t f|rv|fn args| | | |] eqn:Eb; try discriminate.
        * (* branch *)
          assert (Hbt : forall x, In x (brtargets (IBranch pred t f)) -> subst_ref m x = x).
          { intros x Hx. apply subst_ref_notin. rewrite <- Eb in Hx. apply (su_bt _ _ _ _ HS i x (or_introl eq_refl) Hx). }
          assert (Hkm : forall k, In k (keys m) -> In k D) by (apply (keys_m_D (Some i) r m Hfin)).
          unfold step in Hrun. rewrite Eb in Hrun.
          assert (Hjump : forall tb off, block_offset_last (fn_blocks F) tb = Some off -> run fu P F off fo vs = Done w vs1 ->
                   exists fuel', match (match block_offset_last (fn_blocks F') tb with Some off' => StNext off' fp vs | None => StFail (EKey KBlock) end) with
                                 | StNext pc'' fr'' st'' => run fuel' P F' pc'' fr'' st''
                                 | StRet v st' => Done v st' | StFail e => Fail e | StUnmodelled => UnmodelledO
                                 | StCall _ _ _ => UnmodelledO end = Done w vs1).
          { intros tb off Hoff Hr. destruct (jump_sim fu (IH fu (Nat.lt_succ_diag_r fu)) tb off m fo fp vs w vs1 Hoff I Hkm Hr) as (off' & Ho' & fuel' & Hr'). exists fuel'. rewrite Ho'. exact Hr'. }
          destruct pred as [pr|].
          -- destruct (rget fo pr) as [pv| |] eqn:Epv; cbn [lift] in Hrun; try discriminate.
             destruct t as [tb|]; [|discriminate]. destruct f as [fb|]; [|discriminate].
             destruct (truthy (hp vs) pv) as [c| |] eqn:Ec; cbn [lift] in Hrun; try discriminate.
             destruct (block_offset_last (fn_blocks F) (if c then tb else fb)) as [off|] eqn:Hoff; [|discriminate].
             destruct (Hjump _ _ Hoff Hrun) as [fuel' Hr'].
             exists (S fuel'). cbn [run]. rewrite En'. unfold step. cbn [subst_instr i_body]. rewrite Eb. cbn [subst_body option_map].
             rewrite (rget_subst m D fo fp pr I) by (apply Hread; rewrite ?Eb; left; reflexivity). rewrite Epv. cbn [lift].
             rewrite (Hbt tb) by (left; reflexivity). rewrite (Hbt fb) by (right; left; reflexivity). rewrite Ec. cbn [lift].
             destruct (block_offset_last (fn_blocks F') (if c then tb else fb)); exact Hr'.
          -- destruct t as [tb|]; [|discriminate].
             destruct (block_offset_last (fn_blocks F) tb) as [off|] eqn:Hoff; [|discriminate].
             destruct (Hjump _ _ Hoff Hrun) as [fuel' Hr'].
             exists (S fuel'). cbn [run]. rewrite En'. unfold step. cbn [subst_instr i_body]. rewrite Eb. cbn [subst_body option_map].
             rewrite (Hbt tb) by (left; reflexivity).
             destruct (block_offset_last (fn_blocks F') tb); exact Hr'.
        * (* return *)
          unfold step in Hrun. rewrite Eb in Hrun. exists 1. cbn [run]. rewrite En'. unfold step. cbn [subst_instr i_body]. rewrite Eb. cbn [subst_body].
          destruct rv as [r0|]; cbn [option_map].
          -- rewrite (rget_subst m D fo fp r0 I) by (apply Hread; rewrite ?Eb; left; reflexivity). destruct (rget fo r0); cbn [lift] in *; try discriminate. exact Hrun.
          -- exact Hrun.
        * (* call *)
          unfold step in Hrun. rewrite Eb in Hrun.
          destruct (map_res (fun rv => match rv with VInt r0 => rget fo (Z.to_nat r0) | _ => Unmodelled end) (map (fun r0 => VInt (Z.of_nat r0)) args)) as [avs| |] eqn:Ea; cbn [lift] in Hrun; try discriminate.
          destruct (find_func P fn) as [G|] eqn:EG; [|discriminate].
          destruct (run fu P G 0 {| regs := init_regs G; vars := []; fargs := avs |} vs) as [v st'|e| |] eqn:Ecall; try discriminate.
          rewrite <- Hl1 in Hrun.
          assert (I' : Inv m D (rset fo (i_ref i) v) (rset fp (i_ref i) v)) by (apply Inv_rset; assumption).
          destruct (IH fu (Nat.lt_succ_diag_r fu) (pre ++ [i]) r post (pre' ++ [subst_instr m i]) (Some i) m _ _ st' w vs1 Hc1 Hc1' HS' Hpost Hfin I') with (2 := Hrun) as [fuel' Hr'].
          { intros p sc v0 src0 Hp Hb. inversion Hp; subst p. rewrite Eb in Hb. discriminate. }
          exists (S (Nat.max fu fuel')). cbn [run]. rewrite En'. unfold step. cbn [subst_instr i_body i_ref]. rewrite Eb. cbn [subst_body].
          rewrite (map_res_subst m D fo fp I args) by (intros r0 Hr0; apply Hread; rewrite ?Eb; exact Hr0). rewrite Ea. cbn [lift]. rewrite EG.
          rewrite (run_mono P _ _ _ _ _ _ _ Ecall (Nat.max fu fuel') (Nat.le_max_l _ _)). rewrite <- Hl1'.
          apply (run_mono P _ _ _ _ _ _ _ Hr' (Nat.max fu fuel') (Nat.le_max_r _ _)).
  Qed.

  Theorem sim_all : forall fuel, sim_at fuel.
  Proof.
    induction fuel as [fuel IH] using lt_wf_ind.
    intros pre r post pre' prev m fo fp vs w vs1 Hc Hc' HS Hpost Hfin I Hprev Hrun.
    destruct r as [|i r]; [|apply (sim_step fuel IH pre i r post pre' prev m fo fp vs w vs1); assumption].
    cbn [las_code app] in Hc, Hc'. clear HS Hprev.
    assert (Hkm : forall k, In k (keys m) -> In k D) by exact Hfin. clear Hfin.
    revert m I Hkm. induction post as [|b post IHp]; intros m I Hkm.
    - cbn [flat_map map] in Hc, Hc'. destruct fuel as [|fu]; [discriminate|]. cbn [run] in Hrun.
      assert (En : nth_error (flat_code F) (length pre) = None) by (rewrite Hc; apply nth_error_end). rewrite En in Hrun.
      exists 1. cbn [run]. assert (En' : nth_error (flat_code F') (length pre') = None) by (rewrite Hc'; apply nth_error_end). rewrite En'. exact Hrun.
    - cbn [flat_map map] in Hc, Hc'. assert (Hin : In b (fn_blocks F)) by (apply Hpost; left; reflexivity).
      rewrite (opt_code D b (Hall b Hin)) in Hc'.
      assert (Hpost' : incl post (fn_blocks F)) by (intros x Hx; apply Hpost; right; exact Hx).
      destruct (b_code b) as [|i r] eqn:Ecode.
      + cbn [las_code app] in Hc, Hc'. apply (IHp Hc Hc' Hpost' m I Hkm).
      + apply (sim_step fuel IH pre i r post pre' None [] fo fp vs w vs1 Hc Hc').
        * rewrite <- Ecode. apply Hall. exact Hin.
        * exact Hpost'.
        * rewrite <- Ecode. apply HDk. exact Hin.
        * apply (Inv_reset m); assumption.
        * intros p sc v src Hp. discriminate.
        * exact Hrun.
  Qed.
End Sim.

(** ** the hypotheses on a whole function, and the theorem *)
Record flow_hyps (F : ifunc) : Prop := {
  fh_nd : NoDup (instr_refs F);
  fh_ops : forall b, In b (fn_blocks F) -> operands_earlier (b_code b);
  fh_sc : forall b, In b (fn_blocks F) -> scopes_agree None (b_code b);
  fh_local : forall b i o, In b (fn_blocks F) -> In i (b_code b) -> In o (operands (i_body i)) -> In o (instr_refs F) -> In o (brefs b);
  fh_bt : forall b i t, In b (fn_blocks F) -> In i (b_code b) -> In t (brtargets (i_body i)) -> ~ In t (instr_refs F) }.

Lemma NoDup_app_l {A} (a b : list A) : NoDup (a ++ b) -> NoDup a.
Proof. induction a as [|x a IH]; cbn; intros H; [constructor|]. inversion H; subst. constructor; [intro X; match goal with H : ~ In x _ |- _ => apply H end; apply in_or_app; left; exact X|apply IH; assumption]. Qed.
Lemma NoDup_app_r {A} (a b : list A) : NoDup (a ++ b) -> NoDup b.
Proof. induction a as [|x a IH]; cbn; intros H; [exact H|]. inversion H; subst. apply IH. assumption. Qed.
Lemma NoDup_app_disj {A} (a b : list A) x : NoDup (a ++ b) -> In x a -> In x b -> False.
Proof.
  induction a as [|y a IH]; cbn; intros H Ha Hb; [destruct Ha|]. inversion H; subst. destruct Ha as [->|Ha].
  - match goal with H : ~ In x _ |- _ => apply H end. apply in_or_app. right. exact Hb.
  - apply IH; assumption.
Qed.

Section FlatMap.
  Context {A B : Type} (f : A -> list B).
  Lemma flat_in (l : list A) a q : In a l -> In q (f a) -> In q (flat_map f l).
  Proof. intros Ha Hq. apply in_flat_map. exists a. split; assumption. Qed.
  Lemma NoDup_flat_in (l : list A) a : NoDup (flat_map f l) -> In a l -> NoDup (f a).
  Proof.
    induction l as [|x l IH]; cbn; intros H Ha; [destruct Ha|]. destruct Ha as [->|Ha]; [apply (NoDup_app_l _ _ H)|apply IH; [apply (NoDup_app_r _ _ H)|exact Ha]].
  Qed.
  Lemma flat_disjoint (pre : list A) b post x q : NoDup (flat_map f (pre ++ b :: post)) -> In x (pre ++ post) -> In q (f x) -> In q (f b) -> False.
  Proof.
    rewrite flat_map_app. cbn [flat_map]. intros H Hx Hqx Hqb. apply in_app_or in Hx as [Hx|Hx].
    - apply (NoDup_app_disj _ _ q H); [apply (flat_in pre x q Hx Hqx)|apply in_or_app; left; exact Hqb].
    - apply NoDup_app_r in H. apply (NoDup_app_disj _ _ q H Hqb). apply (flat_in post x q Hx Hqx).
  Qed.
  Lemma flat_unique (l : list A) a b q : NoDup (flat_map f l) -> In a l -> In b l -> In q (f a) -> In q (f b) -> a = b.
  Proof.
    intros H Ha Hb Hqa Hqb. apply in_split in Ha as (pre & post & ->). apply in_app_or in Hb as [Hb|[Hb|Hb]]; [| exact Hb |].
    - exfalso. apply (flat_disjoint pre a post b q H); [apply in_or_app; left; exact Hb|exact Hqb|exact Hqa].
    - exfalso. apply (flat_disjoint pre a post b q H); [apply in_or_app; right; exact Hb|exact Hqb|exact Hqa].
  Qed.
End FlatMap.

Definition Dset (F : ifunc) : list nat := flat_map (fun b => keys (las_map None (b_code b) [])) (fn_blocks F).

Lemma instr_refs_brefs F : instr_refs F = flat_map brefs (fn_blocks F).
Proof. reflexivity. Qed.

Lemma Dset_refs F q : In q (Dset F) -> exists b, In b (fn_blocks F) /\ In q (keys (las_map None (b_code b) [])) /\ In q (brefs b).
Proof.
  intros H. apply in_flat_map in H as (b & Hb & Hq). exists b. split; [exact Hb|]. split; [exact Hq|].
  destruct (las_map_grows (b_code b) None []) as (d & Hd & Hk). rewrite Hd in Hq. apply Hk. exact Hq.
Qed.

Lemma flow_blk_ok F : flow_hyps F -> forall b, In b (fn_blocks F) -> Suf (Dset F) None [] (b_code b).
Proof.
  intros H b Hb. pose proof (fh_nd _ H) as Hnd. rewrite instr_refs_brefs in Hnd. constructor.
  - apply (NoDup_flat_in brefs _ b Hnd Hb).
  - intros i _. split; intros [].
  - apply (fh_ops _ H b Hb).
  - apply (fh_sc _ H b Hb).
  - split.
    + intros q HqD Hq. destruct (Dset_refs F q HqD) as (b' & Hb' & Hk & Hr).
      rewrite (flat_unique brefs _ b b' q Hnd Hb Hb' Hq Hr). exact Hk.
    + intros i o Hi Ho HoD. right. destruct (Dset_refs F o HoD) as (b' & Hb' & _ & Hr).
      apply (fh_local _ H b i o Hb Hi Ho). rewrite instr_refs_brefs. apply (flat_in brefs _ b' o Hb' Hr).
  - intros i t Hi Ht. split; [intros []|]. intro X. apply (fh_bt _ H b i t Hb Hi Ht). rewrite instr_refs_brefs. apply (flat_in brefs _ b t Hb X).
Qed.

Lemma flow_sep F : flow_hyps F -> sep (fn_blocks F).
Proof.
  intros H pre b post E x Hx i Hi. pose proof (fh_nd _ H) as Hnd. rewrite instr_refs_brefs, E in Hnd.
  assert (Hxin : In x (fn_blocks F)) by (rewrite E; apply in_app_or in Hx as [Hx|Hx]; apply in_or_app; [left; exact Hx|right; right; exact Hx]).
  assert (Hbin : In b (fn_blocks F)) by (rewrite E; apply in_or_app; right; left; reflexivity).
  split; [|split].
  - intro X. apply (flat_disjoint brefs pre b post x (i_ref i) Hnd Hx); [apply in_map; exact Hi|exact X].
  - intros o Ho X. assert (Hox : In o (brefs x)).
    { apply (fh_local _ H x i o Hxin Hi Ho). rewrite instr_refs_brefs. apply (flat_in brefs _ b o Hbin X). }
    apply (flat_disjoint brefs pre b post x o Hnd Hx Hox X).
  - intros t Ht X. apply (fh_bt _ H x i t Hxin Hi Ht). rewrite instr_refs_brefs. apply (flat_in brefs _ b t Hbin X).
Qed.

Lemma flow_opt_blocks F : flow_hyps F -> fn_blocks (opt_load_after_store F) = map opt_block (fn_blocks F).
Proof.
  intros H. unfold opt_load_after_store. cbn [fn_blocks]. rewrite (las_blocks_map (fn_blocks F) (length (fn_blocks F)) [] (le_n _)); [reflexivity| |apply flow_sep; exact H].
  intros b x _ [].
Qed.

Lemma Suf_nil D : Suf D None [] [].
Proof. constructor; [constructor | intros i [] | exact Logic.I | exact Logic.I | split; [intros q _ []|intros i o []] | intros i t []]. Qed.

Theorem forwarding_preserves_functions : forall (P : program) (F : ifunc), flow_hyps F ->
  forall fuel fr vs w vs1, run fuel P F 0 fr vs = Done w vs1 -> exists fuel', run fuel' P (opt_load_after_store F) 0 fr vs = Done w vs1.
Proof.
  intros P F H fuel fr vs w vs1 Hrun.
  apply (sim_all P F (opt_load_after_store F) (Dset F) (flow_opt_blocks F H) (flow_blk_ok F H)
           (fun b Hb k Hk => flat_in (fun b0 => keys (las_map None (b_code b0) [])) (fn_blocks F) b k Hb Hk)
           fuel [] [] (fn_blocks F) [] None [] fr fr vs w vs1).
  - reflexivity.
  - unfold flat_code. rewrite (flow_opt_blocks F H). reflexivity.
  - apply Suf_nil.
  - intros x Hx. exact Hx.
  - intros k [].
  - constructor; [reflexivity|reflexivity|reflexivity|intros r []].
  - intros p sc v src Hp. discriminate.
  - exact Hrun.
Qed.
