(** * NSL types (shared by specifications and models). *)
From Coq Require Import String ZArith List Bool Arith.
Import ListNotations.

Inductive comp := CFloat | CInt | CUInt.
Inductive pty := PScalar (c : comp) | PVec (c : comp) (n : nat) | PMat (c : comp) (r k : nat).
(** declared types: primitive, struct by name, array of (primitive or struct) with dimensions, void *)
Inductive ty := TPrim (p : pty) | TStruct (name : string) | TArr (elem : ty) (dims : list nat) | TVoid.

Inductive binop := OLor | OLand | OEq | ONe | OLt | OLe | OGt | OGe | OAdd | OSub | OMul | ODiv | OMod.

Definition comp_eqb (a b : comp) : bool :=
  match a, b with CFloat, CFloat | CInt, CInt | CUInt, CUInt => true | _, _ => false end.

Definition pty_eqb (a b : pty) : bool :=
  match a, b with
  | PScalar c, PScalar d => comp_eqb c d
  | PVec c n, PVec d m => comp_eqb c d && Nat.eqb n m
  | PMat c r k, PMat d r' k' => comp_eqb c d && Nat.eqb r r' && Nat.eqb k k'
  | _, _ => false
  end.

Fixpoint ty_eqb (a b : ty) : bool :=
  match a, b with
  | TPrim p, TPrim q => pty_eqb p q
  | TStruct n, TStruct m => String.eqb n m
  | TArr e d, TArr e' d' => ty_eqb e e' && (if list_eq_dec Nat.eq_dec d d' then true else false)
  | TVoid, TVoid => true
  | _, _ => false
  end.

Lemma comp_eqb_eq a b : comp_eqb a b = true <-> a = b.
Proof. destruct a, b; cbn; split; intros; congruence. Qed.

Lemma pty_eqb_eq a b : pty_eqb a b = true <-> a = b.
Proof.
  destruct a, b; cbn; split; intros H; try discriminate; try congruence.
  - apply comp_eqb_eq in H. congruence.
  - inversion H; subst. apply comp_eqb_eq. reflexivity.
  - apply andb_prop in H as [H1 H2]. apply comp_eqb_eq in H1. apply Nat.eqb_eq in H2. congruence.
  - inversion H; subst. rewrite Nat.eqb_refl. replace (comp_eqb c0 c0) with true by (symmetry; apply comp_eqb_eq; reflexivity). reflexivity.
  - apply andb_prop in H as [H12 H3]. apply andb_prop in H12 as [H1 H2].
    apply comp_eqb_eq in H1. apply Nat.eqb_eq in H2. apply Nat.eqb_eq in H3. congruence.
  - inversion H; subst. rewrite !Nat.eqb_refl. replace (comp_eqb c0 c0) with true by (symmetry; apply comp_eqb_eq; reflexivity). reflexivity.
Qed.

Definition comp_of (p : pty) : comp := match p with PScalar c | PVec c _ | PMat c _ _ => c end.
Definition with_comp (p : pty) (c : comp) : pty :=
  match p with PScalar _ => PScalar c | PVec _ n => PVec c n | PMat _ r k => PMat c r k end.

Definition is_comparison (o : binop) : bool :=
  match o with OEq | ONe | OLt | OLe | OGt | OGe => true | _ => false end.

(** sizes are positive in every type the front end can build *)
Definition wf_pty (p : pty) : bool :=
  match p with PScalar _ => true | PVec _ n => Nat.ltb 0 n | PMat _ r k => Nat.ltb 0 r && Nat.ltb 0 k end.
