(** * WebAssembly 1.0 for the part the compiler can emit: binary decoding (strict LEB128, sections in order with exact
    sizes), validation (index ranges, export names, one body per function, stack typing of every body against its
    signature) and execution of validated functions (i32 with wrap-around, f32 as binary64 values rounded to single
    after every operation).  This is the specification side of C06/C07: a conforming engine for this fragment. *)
From Coq Require Import String ZArith List Bool PrimFloat Uint63.
Import ListNotations.
Local Open Scope Z_scope.

Definition bytes := list Z.

Inductive valtype := I32 | I64 | F32 | F64.
Definition valtype_eqb (a b : valtype) : bool :=
  match a, b with I32, I32 | I64, I64 | F32, F32 | F64, F64 => true | _, _ => false end.
Record functype := { ft_params : list valtype; ft_results : list valtype }.

Inductive instr :=
  | Unreachable | Nop | Drop | Return
  | LocalGet (x : nat) | LocalSet (x : nat) | LocalTee (x : nat)
  | I32Const (z : Z) | F32Const (f : float)
  | I32Eqz
  | I32Rel (op : Z)        (* 0x46 .. 0x4F *)
  | F32Rel (op : Z)        (* 0x5B .. 0x60 *)
  | I32Bin (op : Z)        (* 0x6A .. 0x78 *)
  | F32Bin (op : Z).       (* 0x92 .. 0x98 *)

Record wmodule := {
  wm_types : list functype;
  wm_funcs : list nat;                (* type indices *)
  wm_tables : nat; wm_mems : nat;
  wm_exports : list (list Z * Z * nat);   (* name bytes, kind, index *)
  wm_codes : list (list valtype * list instr) }.

(** ** decoding *)
Inductive dres (A : Type) := DOk (a : A) (rest : bytes) | DMalformed (why : string) | DUnsupported (why : string).
Arguments DOk {A}. Arguments DMalformed {A}. Arguments DUnsupported {A}.
Definition dbind {A B} (r : dres A) (f : A -> bytes -> dres B) : dres B :=
  match r with DOk a rest => f a rest | DMalformed w => DMalformed w | DUnsupported w => DUnsupported w end.
Notation "'ddo' ( x , r ) <- e ; k" := (dbind e (fun x r => k)) (at level 200, x pattern, r name, e at level 100, k at level 200).

Definition byte (b : bytes) : dres Z := match b with x :: r => DOk x r | [] => DMalformed "unexpected end" end.

(** unsigned LEB128 of at most [bits] bits: at most ceil(bits/7) bytes, unused bits of the last byte zero *)
Fixpoint uleb (fuel : nat) (bits : Z) (b : bytes) : dres Z :=
  match fuel with
  | O => DMalformed "integer representation too long"
  | S fu =>
      match b with
      | [] => DMalformed "unexpected end"
      | x :: r =>
          if x <? 128 then (if (bits <? 7) && negb (x <? 2 ^ bits) then DMalformed "integer too large" else DOk x r)
          else ddo (hi, r2) <- uleb fu (bits - 7) r; DOk ((x - 128) + 128 * hi) r2
      end
  end.
Definition u32 (b : bytes) : dres Z := uleb 5 32 b.

(** signed LEB128 of at most [bits] bits *)
Fixpoint sleb (fuel : nat) (bits : Z) (b : bytes) : dres Z :=
  match fuel with
  | O => DMalformed "integer representation too long"
  | S fu =>
      match b with
      | [] => DMalformed "unexpected end"
      | x :: r =>
          if x <? 128 then
            (* last byte: sign bit is bit 6; with fewer than 7 bits left the unused bits must equal the sign *)
            let v := if x <? 64 then x else x - 128 in
            if (bits <? 7) && negb ((- 2 ^ (bits - 1) <=? v) && (v <? 2 ^ (bits - 1))) then DMalformed "integer too large" else DOk v r
          else ddo (hi, r2) <- sleb fu (bits - 7) r; DOk ((x - 128) + 128 * hi) r2
      end
  end.
Definition s32 (b : bytes) : dres Z := sleb 5 32 b.

Fixpoint take_n {A} (n : nat) (l : list A) : option (list A * list A) :=
  match n, l with
  | O, _ => Some ([], l)
  | S k, x :: r => match take_n k r with Some (a, b) => Some (x :: a, b) | None => None end
  | S _, [] => None
  end.

Definition vec {A} (elem : bytes -> dres A) (b : bytes) : dres (list A) :=
  ddo (n, r) <- u32 b;
  (fix go (k : nat) (b : bytes) : dres (list A) :=
     match k with
     | O => DOk [] b
     | S k' => ddo (x, r1) <- elem b; ddo (xs, r2) <- go k' r1; DOk (x :: xs) r2
     end) (Z.to_nat n) r.

Definition d_valtype (b : bytes) : dres valtype :=
  ddo (x, r) <- byte b;
  if x =? 127 then DOk I32 r else if x =? 126 then DOk I64 r else if x =? 125 then DOk F32 r else if x =? 124 then DOk F64 r
  else DMalformed "not a value type of WebAssembly 1.0".

Definition d_functype (b : bytes) : dres functype :=
  ddo (x, r) <- byte b;
  if negb (x =? 96) then DMalformed "function type must start with 0x60" else
  ddo (ps, r1) <- vec d_valtype r; ddo (rs, r2) <- vec d_valtype r1; DOk {| ft_params := ps; ft_results := rs |} r2.

Definition d_limits (b : bytes) : dres (Z * option Z) :=
  ddo (flag, r) <- byte b;
  if flag =? 0 then ddo (mn, r1) <- u32 r; DOk (mn, None) r1
  else if flag =? 1 then ddo (mn, r1) <- u32 r; ddo (mx, r2) <- u32 r1; DOk (mn, Some mx) r2
  else DMalformed "limits flag".
Definition d_table (b : bytes) : dres (Z * option Z) :=
  ddo (x, r) <- byte b; if x =? 112 then d_limits r else DMalformed "table element type".

Definition d_export (b : bytes) : dres (list Z * Z * nat) :=
  ddo (n, r) <- u32 b;
  match take_n (Z.to_nat n) r with
  | None => DMalformed "unexpected end in name"
  | Some (name, r1) => ddo (kind, r2) <- byte r1; ddo (idx, r3) <- u32 r2;
                       if (0 <=? kind) && (kind <=? 3) then DOk (name, kind, Z.to_nat idx) r3 else DMalformed "export kind"
  end.

(** binary32 bit pattern -> the value as a binary64 float *)
Definition pow2f (e : Z) : float := ldshiftexp one (Uint63.of_Z (e + 2101)).
Definition f32_of_bits (w : Z) : float :=
  let s := w / 2147483648 in let e := (w / 8388608) mod 256 in let m := w mod 8388608 in
  let mag := if e =? 255 then (if m =? 0 then infinity else nan)
             else if e =? 0 then PrimFloat.mul (of_uint63 (Uint63.of_Z m)) (pow2f (-149))
             else PrimFloat.mul (of_uint63 (Uint63.of_Z (m + 8388608))) (pow2f (e - 150)) in
  if s =? 1 then PrimFloat.opp mag else mag.

Definition d_instr (b : bytes) : dres (option instr) :=     (* None = the end opcode *)
  ddo (op, r) <- byte b;
  if op =? 11 then DOk None r
  else if op =? 0 then DOk (Some Unreachable) r
  else if op =? 1 then DOk (Some Nop) r
  else if op =? 26 then DOk (Some Drop) r
  else if op =? 15 then DOk (Some Return) r
  else if op =? 32 then ddo (x, r1) <- u32 r; DOk (Some (LocalGet (Z.to_nat x))) r1
  else if op =? 33 then ddo (x, r1) <- u32 r; DOk (Some (LocalSet (Z.to_nat x))) r1
  else if op =? 34 then ddo (x, r1) <- u32 r; DOk (Some (LocalTee (Z.to_nat x))) r1
  else if op =? 65 then ddo (z, r1) <- s32 r; DOk (Some (I32Const z)) r1
  else if op =? 67 then
    match r with
    | b0 :: b1 :: b2 :: b3 :: r1 => DOk (Some (F32Const (f32_of_bits (b0 + 256 * b1 + 65536 * b2 + 16777216 * b3)))) r1
    | _ => DMalformed "unexpected end in f32.const" end
  else if op =? 69 then DOk (Some I32Eqz) r
  else if (70 <=? op) && (op <=? 79) then DOk (Some (I32Rel op)) r
  else if (91 <=? op) && (op <=? 96) then DOk (Some (F32Rel op)) r
  else if (106 <=? op) && (op <=? 120) then DOk (Some (I32Bin op)) r
  else if (146 <=? op) && (op <=? 152) then DOk (Some (F32Bin op)) r
  else DUnsupported "opcode outside the modelled fragment".

Fixpoint d_expr (fuel : nat) (b : bytes) : dres (list instr) :=
  match fuel with
  | O => DMalformed "expression too long"
  | S fu => ddo (i, r) <- d_instr b;
            match i with None => DOk [] r | Some x => ddo (xs, r1) <- d_expr fu r; DOk (x :: xs) r1 end
  end.

Definition d_locals (b : bytes) : dres (list valtype) :=
  ddo (groups, r) <- vec (fun b => ddo (n, r1) <- u32 b; ddo (t, r2) <- d_valtype r1; DOk (n, t) r2) b;
  let total := fold_left (fun a g => a + fst g) groups 0 in
  if 4294967296 <=? total then DMalformed "too many locals"
  else if 100000 <? total then DUnsupported "more than 100000 locals"
  else DOk (flat_map (fun g => repeat (snd g) (Z.to_nat (fst g))) groups) r.

Definition d_code (b : bytes) : dres (list valtype * list instr) :=
  ddo (size, r) <- u32 b;
  match take_n (Z.to_nat size) r with
  | None => DMalformed "unexpected end in code entry"
  | Some (body, rest) =>
      match d_locals body with
      | DOk ls r1 =>
          match d_expr (S (length r1)) r1 with
          | DOk is [] => DOk (ls, is) rest
          | DOk _ _ => DMalformed "code entry size mismatch"
          | DMalformed w => DMalformed w | DUnsupported w => DUnsupported w
          end
      | DMalformed w => DMalformed w | DUnsupported w => DUnsupported w
      end
  end.

(** a section body must be consumed exactly *)
Definition exact {A} (r : dres A) : dres A :=
  match r with DOk a [] => DOk a [] | DOk _ _ => DMalformed "section size mismatch" | other => other end.

Definition empty_module : wmodule := {| wm_types := []; wm_funcs := []; wm_tables := 0; wm_mems := 0; wm_exports := []; wm_codes := [] |}.

Definition d_section (id : Z) (body : bytes) (m : wmodule) : dres wmodule :=
  let upd {A} (r : dres A) (f : A -> wmodule) : dres wmodule := match exact r with DOk a _ => DOk (f a) [] | DMalformed w => DMalformed w | DUnsupported w => DUnsupported w end in
  if id =? 0 then DOk m []      (* custom section: ignored *)
  else if id =? 1 then upd (vec d_functype body) (fun ts => {| wm_types := ts; wm_funcs := wm_funcs m; wm_tables := wm_tables m; wm_mems := wm_mems m; wm_exports := wm_exports m; wm_codes := wm_codes m |})
  else if id =? 3 then upd (vec u32 body) (fun fs => {| wm_types := wm_types m; wm_funcs := map Z.to_nat fs; wm_tables := wm_tables m; wm_mems := wm_mems m; wm_exports := wm_exports m; wm_codes := wm_codes m |})
  else if id =? 4 then upd (vec d_table body) (fun ts => {| wm_types := wm_types m; wm_funcs := wm_funcs m; wm_tables := length ts; wm_mems := wm_mems m; wm_exports := wm_exports m; wm_codes := wm_codes m |})
  else if id =? 5 then upd (vec d_limits body) (fun ms => {| wm_types := wm_types m; wm_funcs := wm_funcs m; wm_tables := wm_tables m; wm_mems := length ms; wm_exports := wm_exports m; wm_codes := wm_codes m |})
  else if id =? 7 then upd (vec d_export body) (fun es => {| wm_types := wm_types m; wm_funcs := wm_funcs m; wm_tables := wm_tables m; wm_mems := wm_mems m; wm_exports := es; wm_codes := wm_codes m |})
  else if id =? 10 then upd (vec d_code body) (fun cs => {| wm_types := wm_types m; wm_funcs := wm_funcs m; wm_tables := wm_tables m; wm_mems := wm_mems m; wm_exports := wm_exports m; wm_codes := cs |})
  else if (id =? 2) || (id =? 6) || (id =? 8) || (id =? 9) || (id =? 11) then DUnsupported "section kind outside the modelled fragment"
  else DMalformed "unknown section id".

Fixpoint d_sections (fuel : nat) (last : Z) (b : bytes) (m : wmodule) : dres wmodule :=
  match fuel with
  | O => DMalformed "too many sections"
  | S fu =>
      match b with
      | [] => DOk m []
      | _ =>
          ddo (id, r) <- byte b; ddo (size, r1) <- u32 r;
          if negb (id =? 0) && (id <=? last) then DMalformed "sections out of order or repeated" else
          match take_n (Z.to_nat size) r1 with
          | None => DMalformed "section extends past the end"
          | Some (body, rest) => ddo (m1, _) <- d_section id body m; d_sections fu (if id =? 0 then last else id) rest m1
          end
      end
  end.

Definition decode (b : bytes) : dres wmodule :=
  match b with
  | 0 :: 97 :: 115 :: 109 :: 1 :: 0 :: 0 :: 0 :: r => d_sections (S (length r)) 0 r empty_module
  | _ => DMalformed "magic / version"
  end.

(** ** validation *)
(** operand stack of types with the polymorphic bottom after return / unreachable *)
Record vstack := { vs_types : list valtype; vs_poly : bool }.
Definition pop (t : valtype) (s : vstack) : option vstack :=
  match vs_types s with
  | x :: r => if valtype_eqb x t then Some {| vs_types := r; vs_poly := vs_poly s |} else None
  | [] => if vs_poly s then Some s else None
  end.
Definition push (t : valtype) (s : vstack) : vstack := {| vs_types := t :: vs_types s; vs_poly := vs_poly s |}.
Definition pop_any (s : vstack) : option vstack :=
  match vs_types s with _ :: r => Some {| vs_types := r; vs_poly := vs_poly s |} | [] => if vs_poly s then Some s else None end.
Fixpoint pops (ts : list valtype) (s : vstack) : option vstack :=     (* ts: top of stack first *)
  match ts with [] => Some s | t :: r => match pop t s with Some s1 => pops r s1 | None => None end end.

Definition check_instr (locals : list valtype) (results : list valtype) (i : instr) (s : vstack) : option vstack :=
  let bin t s := match pop t s with Some s1 => match pop t s1 with Some s2 => Some (push t s2) | None => None end | None => None end in
  let rel t s := match pop t s with Some s1 => match pop t s1 with Some s2 => Some (push I32 s2) | None => None end | None => None end in
  match i with
  | Nop => Some s
  | Unreachable => Some {| vs_types := []; vs_poly := true |}
  | Drop => pop_any s
  | Return => match pops (rev results) s with Some _ => Some {| vs_types := []; vs_poly := true |} | None => None end
  | LocalGet x => match nth_error locals x with Some t => Some (push t s) | None => None end
  | LocalSet x => match nth_error locals x with Some t => pop t s | None => None end
  | LocalTee x => match nth_error locals x with Some t => match pop t s with Some s1 => Some (push t s1) | None => None end | None => None end
  | I32Const _ => Some (push I32 s)
  | F32Const _ => Some (push F32 s)
  | I32Eqz => match pop I32 s with Some s1 => Some (push I32 s1) | None => None end
  | I32Rel _ => rel I32 s
  | F32Rel _ => rel F32 s
  | I32Bin _ => bin I32 s
  | F32Bin _ => bin F32 s
  end.

Fixpoint check_instrs (locals results : list valtype) (is : list instr) (s : vstack) : option vstack :=
  match is with [] => Some s | i :: r => match check_instr locals results i s with Some s1 => check_instrs locals results r s1 | None => None end end.

(** a body is valid when its instructions type-check from the empty stack and leave exactly the results *)
Definition check_body (ft : functype) (locals : list valtype) (body : list instr) : bool :=
  match check_instrs (ft_params ft ++ locals) (ft_results ft) body {| vs_types := []; vs_poly := false |} with
  | Some s => match pops (rev (ft_results ft)) s with Some s1 => match vs_types s1 with [] => true | _ => false end | None => false end
  | None => false
  end.

Fixpoint nodup_names (l : list (list Z)) : bool :=
  match l with [] => true | x :: r => negb (existsb (fun y => if list_eq_dec Z.eq_dec x y then true else false) r) && nodup_names r end.

Definition validate (m : wmodule) : bool :=
  forallb (fun ft => Nat.leb (length (ft_results ft)) 1) (wm_types m) &&
  forallb (fun ti => Nat.ltb ti (length (wm_types m))) (wm_funcs m) &&
  Nat.leb (wm_tables m) 1 && Nat.leb (wm_mems m) 1 &&
  Nat.eqb (length (wm_funcs m)) (length (wm_codes m)) &&
  forallb (fun e => match e with (_, kind, idx) =>
                      if kind =? 0 then Nat.ltb idx (length (wm_funcs m)) else if kind =? 1 then Nat.ltb idx (wm_tables m)
                      else if kind =? 2 then Nat.ltb idx (wm_mems m) else false end) (wm_exports m) &&
  nodup_names (map (fun e => fst (fst e)) (wm_exports m)) &&
  forallb (fun p => match nth_error (wm_types m) (fst p) with Some ft => check_body ft (fst (snd p)) (snd (snd p)) | None => false end)
          (combine (wm_funcs m) (wm_codes m)).

(** 0 valid, 1 malformed, 2 invalid, 3 outside the modelled fragment *)
Definition valid_binary (b : bytes) : Z :=
  match decode b with
  | DOk m _ => if validate m then 0 else 2
  | DMalformed _ => 1
  | DUnsupported _ => 3
  end.

(** ** execution *)
Inductive wval := WI32 (z : Z) | WF32 (f : float).     (* i32 as 0 <= z < 2^32; f32 as a binary64 float holding a binary32 value *)
Definition wrap32 (z : Z) : Z := z mod 4294967296.
Definition signed32 (z : Z) : Z := if z <? 2147483648 then z else z - 4294967296.

(** round a binary64 value to the nearest binary32 value, ties to even *)
Definition f32_round (x : float) : float :=
  if negb (PrimFloat.eqb x x) then nan
  else if PrimFloat.eqb x zero then x
  else if negb (PrimFloat.ltb (PrimFloat.abs x) infinity) then x
  else
    let a := PrimFloat.abs x in
    let '(m, e) := frshiftexp a in
    let mant := Uint63.to_Z (normfr_mantissa m) in       (* a = mant * 2^e2, 2^52 <= mant < 2^53 (normal doubles) *)
    let e2 := Uint63.to_Z e - 2101 - 53 in
    let E := Z.max (e2 + 29) (-149) in
    let s := E - e2 in
    let d := 2 ^ s in
    let q := mant / d in let r := mant mod d in
    let M := if (2 * r <? d) then q else if (d <? 2 * r) then q + 1 else (if Z.even q then q else q + 1) in
    let mag := if 128 <=? (E + Z.log2 (Z.max M 1) + 1) - 0 then (if 340282366920938463463374607431768211456 <=? M * 2 ^ (Z.max E 0) then infinity else PrimFloat.mul (of_uint63 (Uint63.of_Z M)) (pow2f E))
               else PrimFloat.mul (of_uint63 (Uint63.of_Z M)) (pow2f E) in
    if PrimFloat.ltb x zero then PrimFloat.opp mag else mag.

Inductive xres := XVal (v : list wval) | XTrap | XStuck.

Definition i32_bin (op : Z) (a b : Z) : option Z :=      (* None = trap *)
  let sa := signed32 a in let sb := signed32 b in
  if op =? 106 then Some (wrap32 (a + b)) else if op =? 107 then Some (wrap32 (a - b)) else if op =? 108 then Some (wrap32 (a * b))
  else if op =? 109 then (if b =? 0 then None else if (sa =? -2147483648) && (sb =? -1) then None else Some (wrap32 (Z.quot sa sb)))
  else if op =? 110 then (if b =? 0 then None else Some (a / b))
  else if op =? 111 then (if b =? 0 then None else Some (wrap32 (Z.rem sa sb)))
  else if op =? 112 then (if b =? 0 then None else Some (a mod b))
  else if op =? 113 then Some (Z.land a b) else if op =? 114 then Some (Z.lor a b) else if op =? 115 then Some (Z.lxor a b)
  else if op =? 116 then Some (wrap32 (Z.shiftl a (b mod 32))) else if op =? 117 then Some (wrap32 (Z.shiftr sa (b mod 32)))
  else if op =? 118 then Some (Z.shiftr a (b mod 32))
  else if op =? 119 then Some (wrap32 (Z.lor (Z.shiftl a (b mod 32)) (Z.shiftr a (32 - b mod 32))))
  else Some (wrap32 (Z.lor (Z.shiftr a (b mod 32)) (Z.shiftl a (32 - b mod 32)))).
Definition b2z (b : bool) : Z := if b then 1 else 0.
Definition i32_rel (op : Z) (a b : Z) : Z :=
  let sa := signed32 a in let sb := signed32 b in
  b2z (if op =? 70 then a =? b else if op =? 71 then negb (a =? b) else if op =? 72 then sa <? sb else if op =? 73 then a <? b
       else if op =? 74 then sb <? sa else if op =? 75 then b <? a else if op =? 76 then sa <=? sb else if op =? 77 then a <=? b
       else if op =? 78 then sb <=? sa else b <=? a).
Definition f32_rel (op : Z) (a b : float) : Z :=
  b2z (if op =? 91 then PrimFloat.eqb a b else if op =? 92 then negb (PrimFloat.eqb a b) else if op =? 93 then PrimFloat.ltb a b
       else if op =? 94 then PrimFloat.ltb b a else if op =? 95 then PrimFloat.leb a b else PrimFloat.leb b a).
Definition f32_bin (op : Z) (a b : float) : option float :=
  if op =? 146 then Some (f32_round (a + b)%float) else if op =? 147 then Some (f32_round (a - b)%float)
  else if op =? 148 then Some (f32_round (a * b)%float) else if op =? 149 then Some (f32_round (a / b)%float)
  else None.      (* min / max / copysign: not modelled *)

Definition zero_of (t : valtype) : wval := match t with F32 | F64 => WF32 zero | _ => WI32 0 end.

Fixpoint set_nth {A} (l : list A) (n : nat) (x : A) : list A :=
  match l, n with [], _ => [] | _ :: r, O => x :: r | y :: r, S k => y :: set_nth r k x end.

(** executes a validated straight-line body; returns the top [nres] values at return / end *)
Fixpoint exec (is : list instr) (locals : list wval) (stack : list wval) (nres : nat) : xres :=
  match is with
  | [] => XVal (rev (firstn nres stack))
  | i :: r =>
      match i, stack with
      | Nop, _ => exec r locals stack nres
      | Unreachable, _ => XTrap
      | Return, _ => XVal (rev (firstn nres stack))
      | Drop, _ :: s => exec r locals s nres
      | LocalGet x, _ => match nth_error locals x with Some v => exec r locals (v :: stack) nres | None => XStuck end
      | LocalSet x, v :: s => exec r (set_nth locals x v) s nres
      | LocalTee x, v :: s => exec r (set_nth locals x v) (v :: s) nres
      | I32Const z, _ => exec r locals (WI32 (wrap32 z) :: stack) nres
      | F32Const f, _ => exec r locals (WF32 f :: stack) nres
      | I32Eqz, WI32 a :: s => exec r locals (WI32 (b2z (a =? 0)) :: s) nres
      | I32Rel op, WI32 b :: WI32 a :: s => exec r locals (WI32 (i32_rel op a b) :: s) nres
      | F32Rel op, WF32 b :: WF32 a :: s => exec r locals (WI32 (f32_rel op a b) :: s) nres
      | I32Bin op, WI32 b :: WI32 a :: s => match i32_bin op a b with Some v => exec r locals (WI32 v :: s) nres | None => XTrap end
      | F32Bin op, WF32 b :: WF32 a :: s => match f32_bin op a b with Some v => exec r locals (WF32 v :: s) nres | None => XStuck end
      | _, _ => XStuck
      end
  end.

(** call the function exported under [name] with host arguments (ints are wrapped, floats rounded to single) *)
Definition coerce_arg (t : valtype) (v : wval) : wval :=
  match t, v with
  | I32, WI32 z => WI32 (wrap32 z) | F32, WF32 f => WF32 (f32_round f)
  | F32, WI32 z => WF32 (f32_round (of_uint63 (Uint63.of_Z (Z.abs z)))) | _, _ => v end.
Definition invoke_export (m : wmodule) (name : list Z) (args : list wval) : xres :=
  match find (fun e => if list_eq_dec Z.eq_dec (fst (fst e)) name then (snd (fst e) =? 0) else false) (wm_exports m) with
  | None => XStuck
  | Some (_, _, idx) =>
      match nth_error (wm_funcs m) idx, nth_error (wm_codes m) idx with
      | Some ti, Some (ls, body) =>
          match nth_error (wm_types m) ti with
          | Some ft =>
              if negb (Nat.eqb (length args) (length (ft_params ft))) then XStuck else
              exec body (map (fun p => coerce_arg (fst p) (snd p)) (combine (ft_params ft) args) ++ map zero_of ls) [] (length (ft_results ft))
          | None => XStuck end
      | _, _ => XStuck
      end
  end.
