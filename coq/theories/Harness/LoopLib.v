(** Boolean membership test for the fragment of [loop_function_simulation] (C01, loops end to end), with its soundness lemma;
    evaluated on generated functions. *)
From Coq Require Import String ZArith List Bool PrimFloat Arith.
From NSL Require Import Base.Types Base.Syntax Model.PyNum Model.IR Model.VM Model.Elab Model.Lower Spec.RefSem
                        Proofs.LowerExprProofs Proofs.ElabExprProofs Proofs.LowerStmtProofs Proofs.ElabStmtProofs Proofs.ReturnExprProofs Proofs.CallAgreeProofs
                        Proofs.StraightLineProofs Proofs.FlowLowerProofs Proofs.FlowFuncProofs Proofs.FlowElabProofs Proofs.FlowTableProofs Proofs.FlowSimProofs
                        Proofs.LoopLowerProofs Proofs.LoopElabProofs Proofs.LoopSimProofs
                        Harness.FragLib Harness.FragLib2 Harness.FlowLib Harness.FlowLib2.
Import ListNotations.

Definition for_fresh_b (gl args : list string) (env : tenv) (s : stmt) : bool :=
  match s with
  | SFor (Some (_, x, _)) _ _ _ => negb (existsb (String.eqb x) gl) && negb (existsb (String.eqb x) args) && match tlookup env x with None => true | Some _ => false end
  | _ => true
  end.
Fixpoint fors_fresh_b (gl args : list string) (env : tenv) (l : list stmt) : bool :=
  match l with [] => true | s :: r => for_fresh_b gl args env s && fors_fresh_b gl args (env_step env s) r end.
Lemma fors_fresh_b_sound gl args : forall l env, fors_fresh_b gl args env l = true -> fors_fresh gl args env l.
Proof.
  induction l as [|s r IH]; intros env H; [exact I|]. cbn [fors_fresh_b] in H. apply andb_prop in H as [H1 H2]. split; [|apply IH; exact H2].
  destruct s as [| | | | |[[[t x] i]|] c n b| | | |]; try exact I. cbn [for_fresh_b] in H1. apply andb_prop in H1 as [H1 H3]. apply andb_prop in H1 as [H1 H4].
  apply negb_true_iff in H1, H4. cbn [for_fresh]. destruct (tlookup env x); [discriminate|]. auto.
Qed.

Definition loopsrc_in_fragment (M : module) (fn : func) : bool :=
  match straight_static M fn with
  | Some (l, e, tf, F, tl, te) =>
      forallb (wstop flow_depth) l && spure e && Nat.eqb (length tl) (length l) &&
      forallb tok (flat_map (wtopexprs flow_depth) tl ++ [te]) &&
      forallb (fun q => PrimFloat.eqb q q) (flat_map tflits (flat_map (wtopexprs flow_depth) tl ++ [te])) &&
      forallb (fresh_decl_b (glnames M) (argnames fn)) l &&
      forallb (fun p => negb (existsb (String.eqb (snd p)) (glnames M))) (f_args fn) &&
      fors_fresh_b (glnames M) (argnames fn) (fenv M fn) l
  | None => false
  end.

Lemma loopsrc_in_fragment_sound M fn : loopsrc_in_fragment M fn = true ->
  exists l e tf F tl te,
    f_body fn = l ++ [SRet (Some e)] /\ forallb (wstop flow_depth) l = true /\ spure e = true /\
    elab_func (genv_of M) (genvl M) fn = EOk tf /\ lower_func (m_structs M) (glnames M) tf = LOk F /\
    tf_body tf = tl ++ [TRet (Some te)] /\ length tl = length l /\ forallb tok (flat_map (wtopexprs flow_depth) tl ++ [te]) = true /\
    (forall q, In q (flat_map tflits (flat_map (wtopexprs flow_depth) tl ++ [te])) -> PrimFloat.eqb q q = true) /\
    Forall (fresh_decl (glnames M) (argnames fn)) l /\ (forall x, In x (map snd (f_args fn)) -> ~ In x (glnames M)) /\
    fors_fresh (glnames M) (argnames fn) (fenv M fn) l.
Proof.
  unfold loopsrc_in_fragment, straight_static. intros H.
  destruct (split_last_s (f_body fn)) as [[l [| | |[e|]| | | | | |]]|] eqn:Eb; try discriminate. apply split_last_s_spec in Eb.
  destruct (elab_func (genv_of M) (genvl M) fn) as [tf| |] eqn:Ef; try discriminate.
  destruct (split_last_s (tf_body tf)) as [[tl [| | |[te|]| | | | | |]]|] eqn:Et; try discriminate. apply split_last_s_spec in Et.
  destruct (lower_func (m_structs M) (glnames M) tf) as [F| |] eqn:El; try discriminate.
  apply andb_prop in H as [H Hff]. apply andb_prop in H as [H Hargs]. apply andb_prop in H as [H Hfresh]. apply andb_prop in H as [H Hnan]. apply andb_prop in H as [H Hk].
  apply andb_prop in H as [H Hlen]. apply andb_prop in H as [Hs Hp].
  exists l, e, tf, F, tl, te. split; [exact Eb|]. split; [exact Hs|]. split; [exact Hp|]. split; [reflexivity|]. split; [exact El|]. split; [exact Et|].
  split; [apply Nat.eqb_eq; exact Hlen|]. split; [exact Hk|]. split; [|split; [|split; [|apply fors_fresh_b_sound; exact Hff]]].
  - intros q Hq. rewrite forallb_forall in Hnan. apply Hnan. exact Hq.
  - rewrite forallb_forall in Hfresh. apply Forall_forall. intros s Hs'. specialize (Hfresh s Hs').
    destruct s; cbn in *; try exact I. apply andb_prop in Hfresh as [H1 H2]. apply negb_true_iff in H1, H2. auto.
  - intros x Hx Hg. rewrite forallb_forall in Hargs. apply in_map_iff in Hx as (p & <- & Hp'). specialize (Hargs p Hp').
    apply negb_true_iff in Hargs. rewrite (existsb_true_in _ _ Hg) in Hargs. discriminate.
Qed.

Definition has_while (l : list stmt) : bool := existsb (fun s => match s with SWhile _ _ | SDo _ _ | SFor _ _ _ _ => true | _ => false end) l.
Definition has_for (l : list stmt) : bool := existsb (fun s => match s with SFor _ _ _ _ => true | _ => false end) l.
Definition has_do (l : list stmt) : bool := existsb (fun s => match s with SDo _ _ => true | _ => false end) l.

(** 100000000 * functions + 1000000 * inside the end-to-end fragment with exact literals + 10000 * those among them with a loop + 100 * with a do loop + with a for loop *)
Definition loop_case (M : module) : Z :=
  let e2e := filter (fun fn => loopsrc_in_fragment M fn &&
                       match straight_static M fn with Some (_, _, _, _, tl, te) => lits_exact_b (flat_map tflits (flat_map (wtopexprs flow_depth) tl ++ [te])) | None => false end) (m_funcs M) in
  let withloop := filter (fun fn => match straight_static M fn with Some (l, _, _, _, _, _) => has_while l | None => false end) e2e in
  let withdo := filter (fun fn => match straight_static M fn with Some (l, _, _, _, _, _) => has_do l | None => false end) e2e in
  let withfor := filter (fun fn => match straight_static M fn with Some (l, _, _, _, _, _) => has_for l | None => false end) e2e in
  (Z.of_nat (length (m_funcs M)) * 100000000 + Z.of_nat (length e2e) * 1000000 + Z.of_nat (length withloop) * 10000 + Z.of_nat (length withdo) * 100 + Z.of_nat (length withfor))%Z.

(** the typed-level fragment of [loop_function_correct] (while, do and for loops at the top level):
    10000 * functions + 100 * inside + those among them with a for loop *)
Definition has_tfor (l : list tstmt) : bool := existsb (fun s => match s with TFor _ _ _ _ => true | _ => false end) l.
Definition loop_lower_case (M : module) : Z :=
  let inside := filter (fun fn => match straight_static M fn with Some (_, _, _, _, tl, te) => forallb (wtop_ok flow_depth) tl && tpure te | None => false end) (m_funcs M) in
  let withfor := filter (fun fn => match straight_static M fn with Some (_, _, _, _, tl, _) => has_tfor tl | None => false end) inside in
  (Z.of_nat (length (m_funcs M)) * 10000 + Z.of_nat (length inside) * 100 + Z.of_nat (length withfor))%Z.
