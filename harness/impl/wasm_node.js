// Runs emitted WebAssembly binaries on V8: validate, instantiate, call exported functions.
// input: JSON list of {hex, calls: [{fn, args: [numbers]}]} ; output: JSON list of {valid, error?, exports?, results: [...]}
const fs = require('fs');
const jobs = JSON.parse(fs.readFileSync(process.argv[2], 'utf8'));
function f64hex(x) { const b = Buffer.alloc(8); b.writeDoubleBE(x); return b.toString('hex'); }
const out = [];
for (const job of jobs) {
  const bytes = Uint8Array.from(Buffer.from(job.hex, 'hex'));
  const r = { valid: false, results: [] };
  try {
    r.valid = WebAssembly.validate(bytes);
  } catch (e) { r.error = String(e); }
  if (r.valid) {
    try {
      const mod = new WebAssembly.Module(bytes);
      r.exports = WebAssembly.Module.exports(mod).map(e => [e.name, e.kind]);
      const inst = new WebAssembly.Instance(mod, {});
      for (const c of job.calls || []) {
        try {
          const f = inst.exports[c.fn];
          if (typeof f !== 'function') { r.results.push({ missing: true }); continue; }
          const v = f(...c.args);
          r.results.push(v === undefined ? { none: true } : (Number.isInteger(v) && !c.float_result ? { i: v } : { f: f64hex(v) }));
        } catch (e) { r.results.push({ trap: String(e).slice(0, 80) }); }
      }
    } catch (e) { r.valid = false; r.error = 'instantiate: ' + String(e).slice(0, 200); }
  } else if (!r.error) {
    try { new WebAssembly.Module(bytes); } catch (e) { r.error = String(e).slice(0, 200); }
  }
  out.push(r);
}
fs.writeFileSync(process.argv[3], JSON.stringify(out));
