(** Support for the C08 lexer cases. *)
From Coq Require Import String Ascii ZArith List Bool.
From NSL Require Import Base.Util Base.Types Model.Lexer.
Import ListNotations.

Definition binop_eqb (a b : binop) : bool :=
  match a, b with
  | OLor, OLor | OLand, OLand | OEq, OEq | ONe, ONe | OLt, OLt | OLe, OLe | OGt, OGt | OGe, OGe
  | OAdd, OAdd | OSub, OSub | OMul, OMul | ODiv, ODiv | OMod, OMod => true
  | _, _ => false
  end.
Fixpoint chars_eqb (a b : list ascii) : bool :=
  match a, b with [], [] => true | x :: a', y :: b' => Ascii.eqb x y && chars_eqb a' b' | _, _ => false end.
Definition ltok_eqb (a b : ltok) : bool :=
  match a, b with
  | LId s, LId t => chars_eqb s t
  | LInt sg ds, LInt sg' ds' => (match sg, sg' with None, None => true | Some x, Some y => Bool.eqb x y | _, _ => false end) && chars_eqb ds ds'
  | LOp o, LOp o' => binop_eqb o o'
  | LAssign, LAssign | LParL, LParL | LParR, LParR => true
  | _, _ => false
  end.
Fixpoint ltoks_eqb (a b : list ltok) : bool :=
  match a, b with [], [] => true | x :: a', y :: b' => ltok_eqb x y && ltoks_eqb a' b' | _, _ => false end.

(** the real lexer's token list (None: it produced a token outside the model's alphabet) against the model:
    0 agree; 1 differ; where the model claims nothing (None) the real lexer must have left the alphabet too *)
Definition lchk (text : string) (impl : option (list ltok)) : Z :=
  let cs := list_ascii_of_string text in
  match lex (S (List.length cs)) cs, impl with
  | Some m, Some i => if ltoks_eqb m i then 0 else 1
  | None, None => 0
  | Some _, None => 1
  | None, Some _ => 1
  end%Z.
