(** * C15 on the VM model: an invocation starts with fresh locals; globals change only through global stores;
    the observations of one VM do not depend on what happens on another VM of the same program. *)
From Coq Require Import String ZArith List Bool Arith Lia.
From NSL Require Import Model.PyNum Model.IR Model.VM Model.PyTree Harness.RunLib.
Import ListNotations.

(** every activation -- top-level invocation or nested call -- starts with no named locals and only the
    function's constants as registers *)
Theorem invoke_fresh_locals : forall fuel P fn named st F,
    find_func P fn = Some F ->
    invoke fuel P fn named st =
    run fuel P F 0 {| regs := init_regs F; vars := [];
                      fargs := map (fun a => match slookup (fst a) named with Some v => v | None => VNone end) (fn_args F) |} st.
Proof. intros. unfold invoke. rewrite H. reflexivity. Qed.

(** the table of globals is only changed by a STORE to global scope *)
Definition global_store (i : instr) : bool := match i_body i with IStore SGlobal _ _ => true | _ => false end.

Theorem step_globals_unchanged : forall F pc fr st i pc' fr' st',
    global_store i = false -> step F pc fr st i = StNext pc' fr' st' -> globals st' = globals st.
Proof.
  intros F pc fr st i pc' fr' st' Hg Hs. unfold global_store in Hg. unfold step in Hs. unfold alloc in Hs.
  destruct (i_body i) eqn:Eb;
    repeat match type of Hs with
           | context [lift ?r _] => destruct r; cbn [lift] in Hs; try discriminate
           | context [let '(_, _) := ?x in _] => destruct x
           | context [match ?x with _ => _ end] => destruct x; cbn [lift] in Hs; try discriminate
           | context [if ?x then _ else _] => destruct x; cbn [lift] in Hs; try discriminate
           end; try discriminate; try (inversion Hs; subst; reflexivity).
Qed.

(** the states of different VMs are separate: an operation on VM k leaves the state of every other VM as it was *)
Definition vm_state (P : program) (sts : list (nat * vmstate)) (k : nat) : vmstate :=
  match find (fun p => Nat.eqb (fst p) k) sts with Some p => snd p | None => vm_init P end.

Theorem other_vm_untouched : forall P sts k st' j, j <> k ->
    vm_state P ((k, st') :: filter (fun p => negb (Nat.eqb (fst p) k)) sts) j = vm_state P sts j.
Proof.
  intros P sts k st' j N. unfold vm_state. cbn [find fst]. destruct (Nat.eqb_spec k j); [congruence|].
  induction sts as [|[x s] sts IH]; cbn; [reflexivity|].
  destruct (Nat.eqb_spec x k); cbn.
  - subst. destruct (Nat.eqb_spec k j); [congruence|]. exact IH.
  - destruct (Nat.eqb_spec x j); [reflexivity|exact IH].
Qed.
