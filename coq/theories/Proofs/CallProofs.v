(** * C03 / C04 on the VM model: a call runs in a fresh frame and leaves the caller's frame untouched except for
    the call's own result; every instruction other than the in-place stores STORE_ARRAY / STORE_MEMBER leaves all
    existing heap objects unchanged (vectors and matrices are copied before they are updated). *)
From Coq Require Import String ZArith List Bool Arith Lia.
From NSL Require Import Model.PyNum Model.IR Model.VM Model.WfIR.
Import ListNotations.

(** ** calls *)
Theorem call_frame : forall fu P F pc fr st i fn args vs G,
    nth_error (flat_code F) pc = Some i -> i_body i = ICall fn args ->
    map_res (fun rv => match rv with VInt r => rget fr (Z.to_nat r) | _ => Unmodelled end) (map (fun r => VInt (Z.of_nat r)) args) = Ok vs ->
    find_func P fn = Some G ->
    run (S fu) P F pc fr st =
    match run fu P G 0 {| regs := init_regs G; vars := []; fargs := vs |} st with
    | Done v st' => run fu P F (S pc) (rset fr (i_ref i) v) st'
    | other => other
    end.
Proof.
  intros fu P F pc fr st i fn args vs G Hn Hb Hvs Hf.
  cbn [run]. rewrite Hn. unfold step. rewrite Hb. rewrite Hvs. cbn [lift]. rewrite Hf. reflexivity.
Qed.

(** the caller's frame after the call: parameters and named locals exactly as before; registers changed only at
    the call's result *)
Theorem call_preserves_caller_frame : forall fr dst v,
    fargs (rset fr dst v) = fargs fr /\ vars (rset fr dst v) = vars fr /\
    (forall r, r <> dst -> rlookup r (regs (rset fr dst v)) = rlookup r (regs fr)).
Proof.
  intros fr dst v. unfold rset. cbn. repeat split; auto.
  intros r N. unfold rlookup, rupdate. induction (regs fr) as [|[k w] d IH]; cbn.
  - destruct (Nat.eqb_spec r dst); [contradiction|reflexivity].
  - destruct (Nat.eqb_spec dst k); cbn.
    + subst. destruct (Nat.eqb_spec r k); [contradiction|reflexivity].
    + destruct (Nat.eqb_spec r k); [reflexivity|exact IH].
Qed.

(** the callee starts with its constants as the only registers, no named locals, and the evaluated arguments *)
Theorem callee_frame_fresh : forall G vs,
    let fr0 := {| regs := init_regs G; vars := []; fargs := vs |} in vars fr0 = [] /\ fargs fr0 = vs.
Proof. intros. split; reflexivity. Qed.

(** ** the heap only grows, except at in-place stores *)
Definition extends (h h' : heap) : Prop := exists e, h' = h ++ e.
Lemma extends_refl h : extends h h. Proof. exists []. rewrite app_nil_r. reflexivity. Qed.
Lemma extends_trans a b c : extends a b -> extends b c -> extends a c.
Proof. intros [e ->] [e' ->]. exists (e ++ e'). rewrite app_assoc. reflexivity. Qed.
Lemma extends_alloc h o : extends h (fst (alloc h o)). Proof. exists [o]. reflexivity. Qed.

Definition mono {A} (r : res (heap * A)) (h : heap) : Prop := forall h' a, r = Ok (h', a) -> extends h h'.

Lemma mono_fold_list {B} (f : nat -> heap -> B -> res (heap * B)) (fu : nat) :
  (forall h x, mono (f fu h x) h) ->
  forall (l : list B) h0 acc h' out,
    fold_left (fun acc x => do p <- acc; let '(h1, o) := p in do q <- f fu h1 x; let '(h2, x') := q in Ok (h2, o ++ [x'])) l (Ok (h0, acc)) = Ok (h', out) ->
    extends h0 h'.
Proof.
  intros Hf. induction l as [|x l IH]; intros h0 acc h' out H; cbn in H.
  - inversion H; subst. apply extends_refl.
  - destruct (f fu h0 x) as [[h2 x']|e|] eqn:E; cbn in H.
    + eapply extends_trans; [eapply Hf; exact E|eapply IH; exact H].
    + exfalso. clear -H. induction l as [|y l IH]; cbn in H; [discriminate|exact (IH H)].
    + exfalso. clear -H. induction l as [|y l IH]; cbn in H; [discriminate|exact (IH H)].
Qed.

Lemma mono_fold_dict (fu : nat) :
  (forall h x, mono (deepcopy fu h x) h) ->
  forall (d : list (string * val)) h0 acc h' out,
    fold_left (fun acc kx => do p <- acc; let '(h1, o) := p in do q <- deepcopy fu h1 (snd kx); let '(h2, x') := q in Ok (h2, o ++ [(fst kx, x')])) d (Ok (h0, acc)) = Ok (h', out) ->
    extends h0 h'.
Proof.
  intros Hf. induction d as [|kx d IH]; intros h0 acc h' out H; cbn in H.
  - inversion H; subst. apply extends_refl.
  - destruct (deepcopy fu h0 (snd kx)) as [[h2 x']|e|] eqn:E; cbn in H.
    + eapply extends_trans; [eapply Hf; exact E|eapply IH; exact H].
    + exfalso. clear -H. induction d as [|y d IH]; cbn in H; [discriminate|exact (IH H)].
    + exfalso. clear -H. induction d as [|y d IH]; cbn in H; [discriminate|exact (IH H)].
Qed.

Lemma mono_deepcopy : forall fuel h v, mono (deepcopy fuel h v) h.
Proof.
  induction fuel as [|fu IH]; intros h v h' a H; destruct v; cbn in H; try (inversion H; subst; apply extends_refl); try discriminate.
  destruct (hget h a0) as [[l|d]|]; try discriminate.
  - destruct (fold_left _ l (Ok (h, []))) as [[h1 l']|e|] eqn:E; cbn in H; try discriminate.
    inversion H; subst. eapply extends_trans; [|apply extends_alloc].
    eapply (mono_fold_list (fun fu h x => deepcopy fu h x) fu IH l h [] h1 l'). exact E.
  - destruct (fold_left _ d (Ok (h, []))) as [[h1 d']|e|] eqn:E; cbn in H; try discriminate.
    inversion H; subst. eapply extends_trans; [|apply extends_alloc].
    eapply (mono_fold_dict fu IH d h [] h1 d'). exact E.
Qed.

(** a deep copy of a reference is a fresh object *)
Lemma deepcopy_fresh : forall fuel h a h' c, deepcopy fuel h (VRef a) = Ok (h', c) -> exists a', c = VRef a' /\ length h <= a'.
Proof.
  intros [|fu] h a h' c H; cbn in H; [discriminate|].
  destruct (hget h a) as [[l|d]|]; try discriminate.
  - destruct (fold_left _ l (Ok (h, []))) as [[h1 l']|e|] eqn:E; cbn in H; try discriminate.
    inversion H; subst. eexists; split; [reflexivity|].
    pose proof (mono_fold_list (fun fu h x => deepcopy fu h x) fu (mono_deepcopy fu) l h [] h1 l' E) as [e ->].
    rewrite app_length. lia.
  - destruct (fold_left _ d (Ok (h, []))) as [[h1 d']|e|] eqn:E; cbn in H; try discriminate.
    inversion H; subst. eexists; split; [reflexivity|].
    pose proof (mono_fold_dict fu (mono_deepcopy fu) d h [] h1 d' E) as [e ->].
    rewrite app_length. lia.
Qed.

(** updating a fresh object leaves the old part of the heap alone *)
Lemma list_set_app {A} (l e : list A) n x : length l <= n -> list_set (l ++ e) n x = l ++ list_set e (n - length l) x.
Proof.
  revert n. induction l as [|y l IH]; intros n H; cbn.
  - rewrite Nat.sub_0_r. reflexivity.
  - destruct n as [|n]; [cbn in H; lia|]. cbn in H. cbn. f_equal. apply IH. lia.
Qed.

Definition keeps (h h' : heap) : Prop := forall a, a < length h -> nth_error h' a = nth_error h a.

Lemma keeps_refl h : keeps h h. Proof. intros a H. reflexivity. Qed.
Lemma keeps_extends h h' : extends h h' -> keeps h h'.
Proof. intros [e ->] a H. rewrite nth_error_app1 by exact H. reflexivity. Qed.
Lemma keeps_trans a b c : keeps a b -> length a <= length b -> keeps b c -> keeps a c.
Proof. intros H1 L H2 x Hx. rewrite H2 by lia. apply H1. exact Hx. Qed.

Lemma nth_list_set_other {A} (l : list A) n m x : n <> m -> nth_error (list_set l m x) n = nth_error l n.
Proof.
  revert n m. induction l as [|y l IH]; intros n m N; cbn; [reflexivity|].
  destruct m as [|m]; destruct n as [|n]; cbn; try reflexivity; try lia. apply IH. lia.
Qed.
Lemma length_list_set {A} (l : list A) n x : length (list_set l n x) = length l.
Proof. revert n. induction l as [|y l IH]; intros [|n]; cbn; auto. Qed.

(** ** default instances only allocate *)
Section IrtyInd.
  Variable P : irty -> Prop.
  Hypothesis HInt : forall u, P (ITInt u).
  Hypothesis HFloat : P ITFloat.
  Hypothesis HVec : forall e n, P e -> P (ITVec e n).
  Hypothesis HMat : forall e r c, P e -> P (ITMat e r c).
  Hypothesis HStruct : forall n fs, Forall (fun f => P (snd f)) fs -> P (ITStruct n fs).
  Hypothesis HArr : forall e d, P e -> P (ITArr e d).
  Hypothesis HVoid : P ITVoid.
  Fixpoint irty_ind2 (t : irty) : P t :=
    match t with
    | ITInt u => HInt u
    | ITFloat => HFloat
    | ITVec e n => HVec e n (irty_ind2 e)
    | ITMat e r c => HMat e r c (irty_ind2 e)
    | ITStruct n fs => HStruct n fs ((fix go (l : list (string * irty)) : Forall (fun f => P (snd f)) l :=
                                        match l with [] => Forall_nil _ | f :: r => Forall_cons f (irty_ind2 (snd f)) (go r) end) fs)
    | ITArr e d => HArr e d (irty_ind2 e)
    | ITVoid => HVoid
    end.
End IrtyInd.

Lemma alloc_n_extends n mk : (forall h, extends h (fst (mk h))) -> forall h, extends h (fst (alloc_n n mk h)).
Proof.
  intros Hmk. induction n as [|n IH]; intros h; cbn; [apply extends_refl|].
  specialize (Hmk h). destruct (mk h) as [h1 v]. cbn in Hmk. specialize (IH h1). destruct (alloc_n n mk h1) as [h2 vs]. cbn in *.
  eapply extends_trans; eauto.
Qed.

Lemma create_instance_extends : forall t h, extends h (fst (create_instance t h)).
Proof.
  induction t using irty_ind2; intros h; cbn; try apply extends_refl.
  - exists [OList (repeat (zero_elem t) n)]. reflexivity.
  - exists [OList (repeat (zero_elem t) c); OList (repeat (VRef (length h)) r)]. cbn. rewrite <- app_assoc. reflexivity.
  - (* struct *)
    assert (G : forall fs0 h0, Forall (fun f => forall h, extends h (fst (create_instance (snd f) h))) fs0 ->
              extends h0 (fst ((fix go (fs : list (string * irty)) (h : heap) : heap * list (string * val) :=
                                   match fs with
                                   | [] => (h, [])
                                   | (n, ft) :: rest => let '(h1, v) := create_instance ft h in let '(h2, vs) := go rest h1 in (h2, (n, v) :: vs)
                                   end) fs0 h0))).
    { induction fs0 as [|[n0 ft] rest IHf]; intros h0 HF; [apply extends_refl|].
      inversion HF as [|? ? Hh Ht]; subst. cbn in Hh. specialize (Hh h0).
      destruct (create_instance ft h0) as [h1 v]. cbn in Hh. specialize (IHf h1 Ht).
      destruct ((fix go (fs : list (string * irty)) (h : heap) : heap * list (string * val) := _) rest h1) as [h2 vs]. cbn in *.
      eapply extends_trans; eauto. }
    specialize (G fs h H). destruct ((fix go (fs : list (string * irty)) (h : heap) : heap * list (string * val) := _) fs h) as [h1 d0]. cbn in G.
    cbn. eapply extends_trans; [exact G|]. exists [ODict d0]. reflexivity.
  - (* array *)
    revert h. induction d as [|d0 ds IHd]; intros h; [apply IHt|].
    pose proof (alloc_n_extends d0 _ IHd h) as X.
    destruct (alloc_n d0 _ h) as [h1 vs]. cbn in X. cbn. eapply extends_trans; [exact X|]. exists [OList vs]. reflexivity.
Qed.

Lemma mono_matmul_rows m1 n : forall l h, mono (matmul_rows m1 n l h) h.
Proof.
  induction l as [|row rest IH]; intros h h' a H; cbn in H.
  - inversion H; subst. apply extends_refl.
  - destruct (map_res _ _) as [vs|e|]; cbn in H; try discriminate.
    destruct (matmul_rows m1 n rest (h ++ [OList vs])) as [[h2 out]|e|] eqn:E; cbn in H; try discriminate.
    inversion H; subst. eapply extends_trans; [exists [OList vs]; reflexivity|]. eapply IH. exact E.
Qed.

Lemma mono_binary_op o t h a b : mono (binary_op o t h a b) h.
Proof.
  intros h' w H. unfold binary_op in H.
  destruct o; cbn [vec_elem_op] in H; unfold bind in H;
    repeat match type of H with
           | context [match ?x with _ => _ end] => destruct x eqn:?; try discriminate
           | context [if ?x then _ else _] => destruct x eqn:?; try discriminate
           end;
    cbn [bind] in H;
    try (inversion H; subst; first [apply extends_refl | (eexists; reflexivity)]).
  all: try match goal with
       | E : matmul_rows _ _ _ _ = Ok (_, _) |- _ =>
           inversion H; subst; eapply extends_trans; [eapply mono_matmul_rows; exact E|eexists; reflexivity]
       end.
  all: try (repeat match goal with E : alloc _ _ = (_, _) |- _ => unfold alloc in E; inversion E; subst; clear E end;
            inversion H; subst; first [apply extends_refl | (eexists; reflexivity)]).
  unfold alloc in Heqp0. inversion Heqp0; subst. inversion H; subst.
  eapply extends_trans; [eapply mono_matmul_rows; exact Heqr1|eexists; reflexivity].
Qed.

Lemma mono_cast_value : forall fuel e h v, mono (cast_value fuel e h v) h.
Proof.
  induction fuel as [|fu IH]; intros e h v h' a H; destruct v; cbn in H;
    try (destruct (cast_scalar e _); cbn in H; try discriminate; inversion H; subst; apply extends_refl); try discriminate.
  destruct (hget h a0) as [[l|d]|]; try discriminate.
  destruct (fold_left _ l (Ok (h, []))) as [[h1 l']|er|] eqn:E; cbn in H; try discriminate.
  inversion H; subst. eapply extends_trans; [|apply extends_alloc].
  eapply (mono_fold_list (fun fu h x => cast_value fu e h x) fu (fun h x => IH e h x) l h [] h1 l'). exact E.
Qed.

Definition inplace_free (i : instr) : bool :=
  match i_body i with IStoreArray _ _ _ | IStoreMember _ _ _ => false | _ => true end.

Definition grows (h h' : heap) : Prop := keeps h h' /\ length h <= length h'.
Lemma grows_refl h : grows h h. Proof. split; [apply keeps_refl|lia]. Qed.
Lemma grows_extends h h' : extends h h' -> grows h h'.
Proof. intros E. split; [apply keeps_extends; exact E|]. destruct E as [e ->]. rewrite app_length. lia. Qed.
Lemma grows_trans a b c : grows a b -> grows b c -> grows a c.
Proof. intros [K1 L1] [K2 L2]. split; [eapply keeps_trans; eauto|lia]. Qed.

(** every instruction other than the two in-place stores leaves all existing heap objects as they were *)
Ltac rg Hs x := match type of Hs with context [lift (rget ?f ?r) _] => destruct (rget f r) as [x| |]; cbn [lift] in Hs; try discriminate end.

Theorem step_keeps_heap : forall F pc fr st i pc' fr' st',
    inplace_free i = true -> step F pc fr st i = StNext pc' fr' st' -> grows (hp st) (hp st').
Proof.
  intros F pc fr st i pc' fr' st' Hf Hs. unfold inplace_free in Hf. unfold step in Hs.
  destruct (i_body i) eqn:Eb; try discriminate Hf.
  - (* load *) destruct sc, v; try discriminate;
      repeat match type of Hs with context [match ?x with _ => _ end] => destruct x; try discriminate end;
      inversion Hs; subst; apply grows_refl.
  - (* store *) rg Hs w. destruct sc, v; try discriminate;
      repeat match type of Hs with context [if ?x then _ else _] => destruct x; try discriminate end;
      inversion Hs; subst; apply grows_refl.
  - (* load idx *) rg Hs a. rg Hs ix. destruct (py_getitem (hp st) a ix); cbn [lift] in Hs; try discriminate. inversion Hs; subst. apply grows_refl.
  - (* set idx: the object is copied, the copy is updated *)
    rg Hs w. rg Hs a.
    destruct (deepcopy 8 (hp st) a) as [[h1 c]|e|] eqn:Ed; cbn [lift] in Hs; try discriminate.
    rg Hs ix.
    destruct (py_setitem h1 c ix w) as [h2|e|] eqn:Es; cbn [lift] in Hs; try discriminate.
    inversion Hs; subst. cbn [hp with_heap].
    pose proof (mono_deepcopy 8 (hp st) a h1 c Ed) as X.
    unfold py_setitem in Es. destruct c as [| | |ac]; try discriminate.
    destruct a as [| | |ar]; [cbn in Ed; inversion Ed| cbn in Ed; inversion Ed | cbn in Ed; inversion Ed|].
    destruct (deepcopy_fresh 8 (hp st) ar h1 (VRef ac) Ed) as (a' & Ea & La). inversion Ea; subst a'.
    destruct (hget h1 ac) as [[l|d]|]; try discriminate. destruct ix; try discriminate.
    destruct (norm_index (length l) z); cbn [bind] in Es; try discriminate. inversion Es; subst.
    destruct X as [e ->]. split.
    + intros x Hx. unfold hset. rewrite nth_list_set_other by lia. rewrite nth_error_app1 by exact Hx. reflexivity.
    + unfold hset. rewrite length_list_set, app_length. lia.
  - (* load member *) rg Hs ov. destruct ov; try discriminate.
    repeat match type of Hs with context [match ?x with _ => _ end] => destruct x; try discriminate end.
    inversion Hs; subst. apply grows_refl.
  - (* shuffle *) rg Hs av. rg Hs bv. unfold alloc in Hs.
    repeat match type of Hs with
           | context [lift ?r _] => destruct r; cbn [lift] in Hs; try discriminate
           | context [match ?x with _ => _ end] => destruct x; cbn [lift] in Hs; try discriminate
           | context [if ?x then _ else _] => destruct x; cbn [lift] in Hs; try discriminate
           end;
      unfold alloc in Hs; cbn [lift] in Hs;
      inversion Hs; subst; cbn [hp with_heap]; first [apply grows_refl | (apply grows_extends; eexists; reflexivity)].
  - (* binary *) rg Hs av. rg Hs bv.
    destruct (binary_op o (i_ty i) (hp st) av bv) as [[h1 w]|e|] eqn:E; cbn [lift] in Hs; try discriminate.
    inversion Hs; subst. cbn. apply grows_extends. eapply mono_binary_op. exact E.
  - (* branch *)
    destruct pred; [rg Hs pv|];
    repeat match type of Hs with
           | context [lift ?r _] => destruct r; cbn [lift] in Hs; try discriminate
           | context [match ?x with _ => _ end] => destruct x; cbn [lift] in Hs; try discriminate
           end; inversion Hs; subst; apply grows_refl.
  - (* ret *) destruct v; [rg Hs w|]; discriminate.
  - (* call *) destruct (map_res _ _); cbn [lift] in Hs; discriminate.
  - (* new var *) pose proof (create_instance_extends (i_ty i) (hp st)) as X.
    destruct (create_instance (i_ty i) (hp st)) as [h1 w]. inversion Hs; subst. cbn in *. apply grows_extends. exact X.
  - (* cast *) rg Hs w. destruct (negb (ty_is_primitive (i_ty i))); try discriminate.
    destruct (cast_value 4 _ (hp st) w) as [[h1 c]|e|] eqn:E; cbn [lift] in Hs; try discriminate.
    inversion Hs; subst. cbn. apply grows_extends. eapply mono_cast_value. exact E.
  - (* construct *) destruct (map_res _ _); cbn [lift] in Hs; try discriminate. unfold alloc in Hs.
    repeat match type of Hs with
           | context [match ?x with _ => _ end] => destruct x; try discriminate
           | context [if ?x then _ else _] => destruct x; try discriminate
           end;
      unfold alloc in Hs; inversion Hs; subst; cbn [hp with_heap]; first [apply grows_refl | apply grows_extends; eexists; reflexivity].
  - (* unknown opcode *) discriminate.
Qed.

Lemma step_ret_state : forall F pc fr st i v st', step F pc fr st i = StRet v st' -> st' = st.
Proof.
  intros F pc fr st i v st' Hs. unfold step in Hs. unfold alloc in Hs.
  destruct (i_body i);
    repeat match type of Hs with
           | context [lift ?r _] => destruct r; cbn [lift] in Hs; try discriminate
           | context [match ?x with _ => _ end] => destruct x; cbn [lift] in Hs; try discriminate
           | context [if ?x then _ else _] => destruct x; cbn [lift] in Hs; try discriminate
           end; try discriminate; inversion Hs; reflexivity.
Qed.

(** In a program without in-place stores (no array element / structure member assignment: every program over
    scalars, vectors and matrices), no execution -- through any nesting of calls -- changes an existing heap
    object: what a caller holds (its vectors and matrices, the values it passed) is as it was. *)
Theorem run_keeps_heap : forall fuel P,
    (forall F, In F (p_funcs P) -> forallb inplace_free (flat_code F) = true) ->
    forall F pc fr st v st', In F (p_funcs P) -> run fuel P F pc fr st = Done v st' -> grows (hp st) (hp st').
Proof.
  induction fuel as [|fu IH]; intros P HP F pc fr st v st' HF Hr; cbn [run] in Hr; [discriminate|].
  destruct (nth_error (flat_code F) pc) as [i|] eqn:En; [|inversion Hr; subst; apply grows_refl].
  assert (Hi : inplace_free i = true).
  { pose proof (HP F HF) as H. rewrite forallb_forall in H. apply H. eapply nth_error_In; eauto. }
  destruct (step F pc fr st i) as [pc1 fr1 st1|w st1|fn vs dst|e|] eqn:Es; try discriminate.
  - eapply grows_trans; [eapply step_keeps_heap; eauto|eapply IH; eauto].
  - inversion Hr; subst. apply step_ret_state in Es. subst. apply grows_refl.
  - destruct (find_func P fn) as [G|] eqn:Ef; [|discriminate].
    destruct (run fu P G 0 _ st) as [w st1| | |] eqn:Ec; try discriminate.
    eapply grows_trans; [eapply IH; [exact HP| |exact Ec]|eapply IH; eauto].
    unfold find_func in Ef. apply find_some in Ef. tauto.
Qed.
