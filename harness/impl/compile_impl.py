"""Generic implementation runner: compile sources (accept/reject + how), optionally dump AST/IR and run on the VM.
job: {"src": text, "opts": {...}, "want": ["ast","ir","run"], "calls": [{"fn":..,"args":{..}, "globals": {...}}]}"""
import sys, json, io, contextlib, traceback, os
sys.path.insert(0, os.path.dirname(os.path.abspath(__file__)))
from nsl import Compiler, LinearIR, VM, Errors

def classify_exc(e):
    tb = traceback.extract_tb(e.__traceback__)
    files = [f.filename.split("/")[-1] for f in tb]
    funcs = [f.name for f in tb]
    stage = "other"
    for name, key in (("lower", "LowerToIR.py"), ("casts", "AddImplicitCasts.py"), ("types", "ComputeTypes.py"), ("parser", "parser.py"),
                      ("opt", "OptimizeLoadAfterStore.py"), ("opt", "OptimizeConstantCasts.py"), ("wasm", "GenerateWasm.py")):
        if key in files:
            stage = name; break
    passname = None
    if stage == "other" and "__RunPass" in funcs and isinstance(e, AttributeError) and "GetName" in str(e):
        stage = "pass-returned-false"
        t = e.__traceback__
        while t is not None:
            if t.tb_frame.f_code.co_name == "__RunPass" and "p" in t.tb_frame.f_locals:
                try:
                    passname = t.tb_frame.f_locals["p"].Name
                except BaseException:
                    pass
            t = t.tb_next
    code = e.message.code if isinstance(e, Errors.CompileException) else None
    return {"exc": type(e).__name__, "stage": stage, "where": funcs[-1] if funcs else "?", "code": code, "msg": str(e)[:160], "pass": passname}

sys.set_int_max_str_digits(0)
def jsonable(v):
    if isinstance(v, int) and not isinstance(v, bool) and abs(v) > (1 << 80):
        return {"big": 1}
    if isinstance(v, float):
        return {"f": v.hex()} if v == v and v not in (float("inf"), float("-inf")) else {"f": str(v)}
    if isinstance(v, bool):
        return int(v)
    if isinstance(v, list):
        return [jsonable(x) for x in v]
    if isinstance(v, dict):
        return {"d": {k: jsonable(x) for k, x in v.items()}}
    return v

def unjson(v):
    if isinstance(v, dict) and "f" in v:
        return float.fromhex(v["f"])
    if isinstance(v, dict) and "d" in v:
        return {k: unjson(x) for k, x in v["d"].items()}
    if isinstance(v, list):
        return [unjson(x) for x in v]
    return v

import signal
class _Timeout(BaseException):
    pass
def _alarm(signum, frame):
    raise _Timeout()
signal.signal(signal.SIGALRM, _alarm)
sys.setrecursionlimit(3000)

def run(job):
    out = io.StringIO()
    res = {}
    try:
        signal.setitimer(signal.ITIMER_REAL, 20.0)
        with contextlib.redirect_stdout(out), contextlib.redirect_stderr(out):
            r = Compiler.Compiler().Compile(job["src"], dict(job.get("opts", {})))
        signal.setitimer(signal.ITIMER_REAL, 0)
        if r is None:
            return {"accept": False, "how": {"exc": None, "stage": "returned-none"}}
    except _Timeout:
        return {"accept": False, "how": {"exc": "Timeout", "stage": "compile"}}
    except BaseException as e:
        signal.setitimer(signal.ITIMER_REAL, 0)
        return {"accept": False, "how": classify_exc(e), "stdout": out.getvalue()[-200:]}
    res["accept"] = True
    want = job.get("want", [])
    if "ir" in want:
        import irdump
        try:
            res["ir"] = irdump.module(r.IRModule)
        except BaseException as e:
            res["ir_error"] = type(e).__name__ + ": " + str(e)[:200]
    if job.get("calls"):
        res["calls"] = []
        try:
            l = LinearIR.Linker(); l.AddModule(r.IRModule); prog = l.Link()
            vms = {0: VM.VirtualMachine(prog)}
        except BaseException as e:
            res["link_error"] = classify_exc(e); return res
        for c in job["calls"]:
            try:
                k = c.get("vm", 0)
                if k not in vms:
                    vms[k] = VM.VirtualMachine(prog)       # another VM of the same linked program
                vm = vms[k]
                signal.setitimer(signal.ITIMER_REAL, float(job.get("call_timeout", 3.0)))
                with contextlib.redirect_stdout(out):
                    for g, v in c.get("globals", {}).items():
                        vm.SetGlobal(g, unjson(v))
                    rv = vm.Invoke(c["fn"], **{k: unjson(v) for k, v in c.get("args", {}).items()})
                    gl = {g: jsonable(vm.GetGlobal(g)) for g in c.get("read_globals", [])}
                signal.setitimer(signal.ITIMER_REAL, 0)
                res["calls"].append({"ret": jsonable(rv), "globals": gl})
            except _Timeout:
                res["calls"].append({"fail": {"exc": "Timeout", "stage": "run", "msg": "no result within the time limit"}})
                break
            except BaseException as e:
                signal.setitimer(signal.ITIMER_REAL, 0)
                res["calls"].append({"fail": classify_exc(e)})
                if not job.get("continue_after_failure"):
                    break
    return res

if __name__ == "__main__":
    jobs = json.load(open(sys.argv[1]))
    json.dump([run(j) for j in jobs], open(sys.argv[2], "w"))
