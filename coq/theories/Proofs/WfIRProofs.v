(** * C14: a well-formed IR program never reads an undefined operand, never branches to a missing block and
    never calls a missing function -- in any execution of the VM model, of any length, from any input. *)
From Coq Require Import String ZArith List Bool Arith Lia.
From NSL Require Import Model.PyNum Model.IR Model.VM Model.WfIR.
Import ListNotations.

(** ** registers *)
Definition has (fr : frame) (r : nat) : Prop := rlookup r (regs fr) <> None.

Lemma rlookup_update_same r v d : rlookup r (rupdate r v d) = Some v.
Proof.
  unfold rlookup, rupdate. induction d as [|[k w] d IH]; cbn; [rewrite Nat.eqb_refl; reflexivity|].
  destruct (Nat.eqb_spec r k); cbn; [rewrite Nat.eqb_refl; reflexivity|].
  destruct (Nat.eqb_spec r k); [contradiction|]. exact IH.
Qed.

Lemma rlookup_update_other r r' v d : r <> r' -> rlookup r (rupdate r' v d) = rlookup r d.
Proof.
  intros N. unfold rlookup, rupdate. induction d as [|[k w] d IH]; cbn.
  - destruct (Nat.eqb_spec r r'); [contradiction|reflexivity].
  - destruct (Nat.eqb_spec r' k); cbn.
    + subst. destruct (Nat.eqb_spec r k); [contradiction|]. reflexivity.
    + destruct (Nat.eqb_spec r k); [reflexivity|]. exact IH.
Qed.

Lemma has_rset fr r v r' : has fr r' \/ r' = r -> has (rset fr r v) r'.
Proof.
  unfold has, rset. cbn [regs]. intros [H| ->].
  - destruct (Nat.eq_dec r' r) as [->|N]; [rewrite rlookup_update_same; discriminate|rewrite rlookup_update_other by exact N; exact H].
  - rewrite rlookup_update_same. discriminate.
Qed.

Lemma rget_has fr r : has fr r -> exists v, rget fr r = Ok v.
Proof. unfold has, rget. destruct (rlookup r (regs fr)); [eauto|congruence]. Qed.

(** a frame extends another on registers *)
Definition ext (fr fr' : frame) : Prop := forall r, has fr r -> has fr' r.
Lemma ext_refl fr : ext fr fr. Proof. intros r H. exact H. Qed.
Lemma ext_rset fr r v : ext fr (rset fr r v). Proof. intros r' H. apply has_rset. left. exact H. Qed.
Lemma ext_trans a b c : ext a b -> ext b c -> ext a c. Proof. intros H1 H2 r H. apply H2, H1, H. Qed.

(** ** availability along the marked code *)
Fixpoint avail_at (acc : list nat) (code : list (bool * instr)) (pc : nat) : list nat :=
  match pc, code with
  | O, (true, _) :: _ => []
  | O, _ => acc
  | S pc', (flag, i) :: r => let acc0 := if flag then [] else acc in
                            avail_at (if defines i then i_ref i :: acc0 else acc0) r pc'
  | S _, [] => acc
  end.

Lemma scan_ok_at : forall code consts acc pc flag i,
    scan_ok consts acc code = true -> nth_error code pc = Some (flag, i) ->
    forallb (fun o => memn o consts || memn o (avail_at acc code pc)) (operands (i_body i)) = true.
Proof.
  induction code as [|[fl j] code IH]; intros consts acc pc flag i Hs Hn; [destruct pc; discriminate|].
  cbn [scan_ok] in Hs. apply andb_prop in Hs as [H1 H2].
  destruct pc as [|pc]; cbn [nth_error] in Hn.
  - inversion Hn; subst. cbn [avail_at]. destruct flag; exact H1.
  - cbn [avail_at]. eapply IH; eauto.
Qed.

Lemma avail_succ : forall code acc pc flag i,
    nth_error code pc = Some (flag, i) ->
    avail_at acc code (S pc) =
    match nth_error code (S pc) with
    | Some (true, _) => []
    | _ => if defines i then i_ref i :: avail_at acc code pc else avail_at acc code pc
    end.
Proof.
  induction code as [|[fl j] code IH]; intros acc pc flag i Hn; [destruct pc; discriminate|].
  destruct pc as [|pc]; cbn [nth_error] in Hn.
  - inversion Hn; subst. cbn [avail_at nth_error]. destruct code as [|[f2 k] code]; cbn; [destruct flag; reflexivity|].
    destruct f2; [reflexivity|]. destruct flag; reflexivity.
  - cbn [avail_at]. rewrite (IH _ pc flag i Hn). cbn [nth_error]. reflexivity.
Qed.

Lemma marked_flat F : map snd (marked F) = flat_code F.
Proof.
  unfold marked, flat_code. induction (fn_blocks F) as [|b bs IH]; cbn; [reflexivity|].
  rewrite map_app, IH. f_equal. unfold mark_block. destruct (b_code b) as [|i r]; cbn; [reflexivity|].
  f_equal. rewrite map_map. cbn. apply map_id.
Qed.

Lemma nth_marked F pc i : nth_error (flat_code F) pc = Some i -> exists flag, nth_error (marked F) pc = Some (flag, i).
Proof.
  rewrite <- marked_flat. rewrite nth_error_map. destruct (nth_error (marked F) pc) as [[fl j]|]; cbn; [|discriminate].
  intros H. inversion H; subst. eauto.
Qed.

(** a block offset is the end of the code or the position of a marked instruction *)
Lemma marked_head : forall bs,
    nth_error (flat_map mark_block bs) 0 = None \/ exists i, nth_error (flat_map mark_block bs) 0 = Some (true, i).
Proof.
  induction bs as [|c cs IH]; cbn [flat_map]; [left; reflexivity|].
  assert (Hm : mark_block c = [] \/ exists j r, mark_block c = (true, j) :: r) by (unfold mark_block; destruct (b_code c); eauto).
  destruct Hm as [->|(j & r & ->)]; cbn [app]; [exact IH|right; cbn; eauto].
Qed.

Lemma block_offset_marked : forall bs ref acc found off,
    (fix go (bs : list block) (acc : nat) (found : option nat) : option nat :=
       match bs with
       | [] => found
       | b :: r => go r (acc + length (b_code b))%nat (if Nat.eqb (b_ref b) ref then Some acc else found)
       end) bs acc found = Some off ->
    forall pre, length pre = acc ->
    (match found with Some o => nth_error (pre ++ flat_map mark_block bs) o = None \/ exists i, nth_error (pre ++ flat_map mark_block bs) o = Some (true, i) | None => True end) ->
    nth_error (pre ++ flat_map mark_block bs) off = None \/ exists i, nth_error (pre ++ flat_map mark_block bs) off = Some (true, i).
Proof.
  induction bs as [|b bs IH]; intros ref acc found off H pre Hlen Hf.
  - subst found. exact Hf.
  - cbn [flat_map]. rewrite app_assoc. eapply IH; [exact H| |].
    + rewrite app_length. unfold mark_block. destruct (b_code b); cbn [length]; [lia|]. rewrite map_length. lia.
    + destruct (Nat.eqb (b_ref b) ref).
      * rewrite <- app_assoc. rewrite nth_error_app2 by lia. rewrite Hlen, Nat.sub_diag.
        exact (marked_head (b :: bs)).
      * destruct found as [o|]; [|exact I]. rewrite <- app_assoc. exact Hf.
Qed.

Lemma block_offset_last_marked F ref off :
  block_offset_last (fn_blocks F) ref = Some off ->
  nth_error (marked F) off = None \/ exists i, nth_error (marked F) off = Some (true, i).
Proof.
  unfold block_offset_last, marked. intros H.
  exact (block_offset_marked (fn_blocks F) ref 0 None off H [] eq_refl I).
Qed.

Lemma block_offset_last_some F ref : memn ref (block_refs F) = true -> exists off, block_offset_last (fn_blocks F) ref = Some off.
Proof.
  unfold block_offset_last, block_refs.
  assert (G : forall bs acc found, (memn ref (map b_ref bs) = true \/ found <> None) ->
              exists off, (fix go (bs : list block) (acc : nat) (found : option nat) : option nat :=
                 match bs with [] => found | b :: r => go r (acc + length (b_code b))%nat (if Nat.eqb (b_ref b) ref then Some acc else found) end) bs acc found = Some off).
  { induction bs as [|b bs IH]; intros acc found H; cbn.
    - destruct H as [H|H]; [discriminate|]. destruct found; [eauto|congruence].
    - apply IH. cbn in H. destruct H as [H|H].
      + apply orb_prop in H as [H|H].
        * right. rewrite Nat.eqb_sym. rewrite H. discriminate.
        * left. exact H.
      + right. destruct (Nat.eqb (b_ref b) ref); [discriminate|exact H]. }
  intros H. apply G. left. exact H.
Qed.

(** ** the invariant and its preservation *)
Definition inv (F : ifunc) (pc : nat) (fr : frame) : Prop :=
  forall r, memn r (const_refs F) || memn r (avail_at [] (marked F) pc) = true -> has fr r.

Lemma init_regs_has F r : memn r (const_refs F) = true -> rlookup r (init_regs F) <> None.
Proof.
  unfold init_regs, const_refs.
  assert (G : forall (cs : list (nat * irty * cval)) d, (memn r (map (fun c => fst (fst c)) cs) = true \/ rlookup r d <> None) ->
              rlookup r (fold_left (fun d c => rupdate (fst (fst c)) (const_val (snd c)) d) cs d) <> None).
  { induction cs as [|c cs IH]; intros d H; cbn.
    - destruct H as [H|H]; [discriminate|exact H].
    - apply IH. cbn in H. destruct H as [H|H].
      + apply orb_prop in H as [H|H].
        * apply Nat.eqb_eq in H. subst. right. rewrite rlookup_update_same. discriminate.
        * left. exact H.
      + right. destruct (Nat.eq_dec r (fst (fst c))) as [->|N]; [rewrite rlookup_update_same; discriminate|].
        rewrite rlookup_update_other by exact N. exact H. }
  intros H. apply G. left. exact H.
Qed.

Definition bad (o : outcome) : Prop := o = Fail (EKey KReg) \/ o = Fail (EKey KBlock) \/ o = Fail (EKey KFunc).

Lemma map_res_rget fr (l : list nat) :
  (forall r, In r l -> has fr r) ->
  exists vs, map_res (fun rv => match rv with VInt r => rget fr (Z.to_nat r) | _ => Unmodelled end) (map (fun r => VInt (Z.of_nat r)) l) = Ok vs.
Proof.
  induction l as [|x l IH]; intros H; cbn; [eauto|].
  rewrite Nat2Z.id. destruct (rget_has fr x (H x (or_introl eq_refl))) as [v ->]. cbn.
  destruct (IH (fun r Hr => H r (or_intror Hr))) as [vs ->]. cbn. eauto.
Qed.

(** ** the helper operations of the VM never raise KeyError *)
Definition nokey {A} (r : res A) : Prop := forall e, r = Err e -> forall k, e <> EKey k.

Lemma nokey_ok {A} (a : A) : nokey (Ok a). Proof. intros e H. discriminate. Qed.
Lemma nokey_unm {A} : nokey (@Unmodelled A). Proof. intros e H. discriminate. Qed.
Lemma nokey_err {A} e : (forall k, e <> EKey k) -> nokey (@Err A e). Proof. intros H e' E. inversion E; subst. exact H. Qed.
Lemma nokey_bind {A B} (r : res A) (f : A -> res B) : nokey r -> (forall a, nokey (f a)) -> nokey (bind r f).
Proof. intros Hr Hf. destruct r as [a|e|]; cbn; [apply Hf| |apply nokey_unm]. apply nokey_err. apply (Hr e eq_refl). Qed.

Create HintDb nk.
Ltac nk := repeat first [ assumption | solve [auto 1 with nk] | apply nokey_ok | apply nokey_unm | (apply nokey_err; intros; discriminate)
                        | (apply nokey_bind; [|intros]) | match goal with |- nokey (match ?x with _ => _ end) => destruct x end
                        | match goal with |- nokey (if ?x then _ else _) => destruct x end
                        | match goal with |- nokey (let '(_, _) := ?x in _) => destruct x end ].

Lemma nokey_norm_index n i : nokey (norm_index n i). Proof. unfold norm_index. nk. Qed.
#[export] Hint Resolve nokey_norm_index : nk.
Lemma nokey_getitem h x i : nokey (py_getitem h x i). Proof. unfold py_getitem. nk. Qed.
#[export] Hint Resolve nokey_getitem : nk.
Lemma nokey_setitem h x i v : nokey (py_setitem h x i v). Proof. unfold py_setitem. nk. Qed.
#[export] Hint Resolve nokey_setitem : nk.
Lemma nokey_float_of_Z z : nokey (float_of_Z z). Proof. unfold float_of_Z. nk. Qed.
#[export] Hint Resolve nokey_float_of_Z : nk.
Lemma nokey_to_float n : nokey (to_float n). Proof. destruct n; cbn; nk. Qed.
#[export] Hint Resolve nokey_to_float : nk.
Lemma nokey_floor f : nokey (floor_float f). Proof. unfold floor_float. nk. Qed.
#[export] Hint Resolve nokey_floor : nk.

Lemma nokey_scalar_op o b x y : nokey (scalar_op o b x y).
Proof.
  unfold scalar_op, num2. nk;
    unfold py_add, py_sub, py_mul, py_intdiv, py_truediv, py_mod, py_cmp, arith; nk.
Qed.
#[export] Hint Resolve nokey_scalar_op : nk.

Lemma nokey_fold {A B} (f : res A -> B -> res A) (l : list B) (init : res A) :
  (forall acc x, nokey acc -> nokey (f acc x)) -> nokey init -> nokey (fold_left f l init).
Proof. revert init. induction l as [|x l IH]; intros init Hf Hi; cbn; [exact Hi|]. apply IH; [exact Hf|apply Hf; exact Hi]. Qed.

Lemma nokey_deepcopy : forall fuel h v, nokey (deepcopy fuel h v).
Proof.
  induction fuel as [|fu IH]; intros h v; destruct v; cbn; nk;
    (apply nokey_fold; [intros; nk; apply IH|nk]).
Qed.
#[export] Hint Resolve nokey_deepcopy : nk.

Lemma nokey_zip_with f l1 : (forall x y, nokey (f x y)) -> forall l2, nokey (zip_with f l1 l2).
Proof. intros Hf. induction l1 as [|x l1 IH]; intros [|y l2]; cbn; nk; try apply Hf; try apply IH. Qed.
Lemma nokey_map_res f l : (forall x, nokey (f x)) -> nokey (map_res f l).
Proof. intros Hf. induction l as [|x l IH]; cbn; nk; try apply Hf; try exact IH. Qed.

Lemma nokey_rows_of h v : nokey (rows_of h v).
Proof.
  unfold rows_of. destruct (get_list h v) as [rows|]; [|nk].
  induction rows as [|r rest IH]; nk.
Qed.
#[export] Hint Resolve nokey_rows_of : nk.

Lemma nokey_dot h row m1 j : nokey (dot h row m1 j).
Proof. unfold dot. apply nokey_fold; [|nk]. intros acc [x r] Ha. nk. Qed.
#[export] Hint Resolve nokey_dot : nk.

Lemma nokey_matmul_rows m1 n : forall l h, nokey (matmul_rows m1 n l h).
Proof. induction l as [|row rest IH]; intros h; cbn; nk; try (apply nokey_map_res; intros; nk). Qed.
#[export] Hint Resolve nokey_matmul_rows : nk.

Lemma nokey_binary_op o t h a b : nokey (binary_op o t h a b).
Proof.
  unfold binary_op. destruct o; try (destruct (vec_elem_op _) eqn:E; cbn in E; try discriminate); nk;
    try (apply nokey_zip_with; intros; nk); try (apply nokey_map_res; intros; nk).
Qed.
#[export] Hint Resolve nokey_binary_op : nk.

Lemma nokey_cast_scalar e v : nokey (cast_scalar e v).
Proof. unfold cast_scalar. nk. Qed.
#[export] Hint Resolve nokey_cast_scalar : nk.
Lemma nokey_cast_value : forall fuel e h v, nokey (cast_value fuel e h v).
Proof.
  induction fuel as [|fu IH]; intros e h v; destruct v; cbn; nk;
    try (apply nokey_fold; [intros; nk; apply IH|nk]).
Qed.
#[export] Hint Resolve nokey_cast_value : nk.
Lemma nokey_truthy h v : nokey (truthy h v). Proof. unfold truthy. nk. Qed.
#[export] Hint Resolve nokey_truthy : nk.

(** ** one step *)
Definition hasd (d : list (nat * val)) (r : nat) : Prop := rlookup r d <> None.
Lemma hasd_update d r v r' : hasd d r' \/ r' = r -> hasd (rupdate r v d) r'.
Proof.
  unfold hasd. intros [H| ->].
  - destruct (Nat.eq_dec r' r) as [->|N]; [rewrite rlookup_update_same; discriminate|rewrite rlookup_update_other by exact N; exact H].
  - rewrite rlookup_update_same. discriminate.
Qed.

(** the shape of a good step result *)
Definition good_step (F : ifunc) (P : program) (pc : nat) (fr : frame) (i : instr) (s : step_res) : Prop :=
  match s with
  | StNext pc' fr' st' =>
      (forall r, hasd (regs fr) r -> hasd (regs fr') r) /\ (defines i = true -> hasd (regs fr') (i_ref i)) /\
      (pc' = S pc \/ nth_error (marked F) pc' = None \/ exists j, nth_error (marked F) pc' = Some (true, j))
  | StRet _ _ => True
  | StCall fn vs dst => dst = i_ref i /\ defines i = true /\ find_func P fn <> None
  | StFail e => forall k, e = EKey k -> k <> KReg /\ k <> KBlock /\ k <> KFunc
  | StUnmodelled => True
  end.

Lemma good_lift {A} F P pc fr i (r : res A) (k : A -> step_res) :
  nokey r -> (forall a, good_step F P pc fr i (k a)) -> good_step F P pc fr i (lift r k).
Proof.
  intros Hr Hk. destruct r as [a|e|]; cbn; [apply Hk| |exact I]. intros k0 E. exfalso. exact (Hr e eq_refl k0 E).
Qed.

Lemma good_rget F P pc fr i r (k : val -> step_res) :
  hasd (regs fr) r -> (forall v, good_step F P pc fr i (k v)) -> good_step F P pc fr i (lift (rget fr r) k).
Proof. intros H Hk. unfold rget. unfold hasd, rlookup in *. destruct (lookup Nat.eqb r (regs fr)); [apply Hk|congruence]. Qed.

Lemma good_fail F P pc fr i e : (forall k, e = EKey k -> k <> KReg /\ k <> KBlock /\ k <> KFunc) -> good_step F P pc fr i (StFail e).
Proof. intros H. exact H. Qed.

Ltac nokeyfail := apply good_fail; intros ? ?; try discriminate;
                  match goal with H : _ = EKey _ |- _ => inversion H; subst; repeat split; discriminate end.

Lemma good_next F P pc fr i fr' st' :
  (forall r, hasd (regs fr) r -> hasd (regs fr') r) -> (defines i = true -> hasd (regs fr') (i_ref i)) ->
  good_step F P pc fr i (StNext (S pc) fr' st').
Proof. intros H1 H2. cbn. auto. Qed.

Lemma step_sound F P pc fr st i :
  (forall r, In r (operands (i_body i)) -> hasd (regs fr) r) -> branch_ok F i = true -> call_ok P i = true ->
  good_step F P pc fr i (step F pc fr st i).
Proof.
  intros Hop Hbr Hcall. unfold step.
  unfold defines, branch_ok, call_ok in *.
  assert (U : forall r v, (forall r0, hasd (regs fr) r0 -> hasd (rupdate r v (regs fr)) r0)) by (intros; apply hasd_update; auto).
  assert (U2 : forall r v, hasd (rupdate r v (regs fr)) r) by (intros; apply hasd_update; auto).
  destruct (i_body i) eqn:Eb; cbn [operands opt_list defines_b] in *.
  - (* load *) destruct sc, v; try exact I;
      repeat match goal with |- context [match ?x with _ => _ end] => destruct x end;
      try (apply good_next; cbn; auto); try nokeyfail.
  - (* store *) apply good_rget; [apply Hop; cbn; auto|intros w].
    destruct sc, v; try exact I;
      repeat match goal with |- context [if ?x then _ else _] => destruct x end;
      try (apply good_next; cbn; auto); try nokeyfail.
  - (* load idx *) apply good_rget; [apply Hop; cbn; auto|intros a]. apply good_rget; [apply Hop; cbn; auto|intros ix].
    apply good_lift; [apply nokey_getitem|intros w]. apply good_next; cbn; auto.
  - (* store array *) apply good_rget; [apply Hop; cbn; auto|intros w]. apply good_rget; [apply Hop; cbn; auto|intros a].
    apply good_rget; [apply Hop; cbn; auto|intros ix]. apply good_lift; [apply nokey_setitem|intros h']. apply good_next; cbn; auto.
  - (* set idx *) apply good_rget; [apply Hop; cbn; auto|intros w]. apply good_rget; [apply Hop; cbn; auto|intros a].
    apply good_lift; [apply nokey_deepcopy|intros [h1 c]]. apply good_rget; [apply Hop; cbn; auto|intros ix].
    apply good_lift; [apply nokey_setitem|intros h2]. apply good_next; cbn; auto.
  - (* load member *) apply good_rget; [apply Hop; cbn; auto|intros ov].
    repeat match goal with |- context [match ?x with _ => _ end] => destruct x end;
      try exact I; try (apply good_next; cbn; auto); try nokeyfail.
  - (* store member *) apply good_rget; [apply Hop; cbn; auto|intros ov]. apply good_rget; [apply Hop; cbn; auto|intros w].
    repeat match goal with |- context [match ?x with _ => _ end] => destruct x end;
      try exact I; try (apply good_next; cbn; auto); try nokeyfail.
  - (* shuffle *) apply good_rget; [apply Hop; cbn; auto|intros av]. apply good_rget; [apply Hop; cbn; auto|intros bv].
    apply good_lift; [nk|intros l1]. apply good_lift; [nk|intros l2].
    apply good_lift; [apply nokey_map_res; intros; nk|intros out].
    repeat match goal with |- context [match ?x with _ => _ end] => destruct x | |- context [if ?x then _ else _] => destruct x end;
      try (apply good_next; cbn; auto); try nokeyfail.
  - (* binary *) apply good_rget; [apply Hop; cbn; auto|intros av]. apply good_rget; [apply Hop; cbn; auto|intros bv].
    apply good_lift; [apply nokey_binary_op|intros [h1 w]]. apply good_next; cbn; auto.
  - (* branch *)
    destruct pred as [pr|].
    + apply good_rget; [apply Hop; cbn; auto|intros pv].
      destruct t as [tb|]; [|discriminate]. destruct f as [fb|]; [|discriminate].
      apply andb_prop in Hbr as [Ht Hf].
      apply good_lift; [apply nokey_truthy|intros c].
      destruct (block_offset_last_some F (if c then tb else fb) ltac:(destruct c; assumption)) as [off Eo]. rewrite Eo.
      cbn. split; [auto|]. split; [intros Hd; unfold defines in Hd; rewrite Eb in Hd; discriminate|]. right. apply (block_offset_last_marked F _ off Eo).
    + destruct t as [tb|]; [|discriminate].
      destruct (block_offset_last_some F tb Hbr) as [off Eo]. rewrite Eo.
      cbn. split; [auto|]. split; [intros Hd; unfold defines in Hd; rewrite Eb in Hd; discriminate|]. right. apply (block_offset_last_marked F _ off Eo).
  - (* ret *) destruct v as [r|]; [|exact I]. apply good_rget; [apply Hop; cbn; auto|intros w]. exact I.
  - (* call *)
    destruct (map_res_rget fr args) as [vs Evs].
    { intros r Hr. unfold has. apply Hop. exact Hr. }
    rewrite Evs. cbn [lift good_step]. split; [reflexivity|]. split; [unfold defines; rewrite Eb; reflexivity|].
    destruct (find_func P fn); [discriminate|discriminate Hcall].
  - (* new var *) destruct (create_instance (i_ty i) (hp st)) as [h1 w]. apply good_next; cbn; auto.
  - (* cast *) apply good_rget; [apply Hop; cbn; auto|intros w].
    destruct (negb (ty_is_primitive (i_ty i))); [nokeyfail|].
    apply good_lift; [apply nokey_cast_value|intros [h1 c]]. apply good_next; cbn; auto.
  - (* construct *)
    destruct (map_res_rget fr vals) as [vs Evs].
    { intros r Hr. unfold has. apply Hop. exact Hr. }
    rewrite Evs. cbn [lift].
    repeat match goal with |- context [match ?x with _ => _ end] => destruct x | |- context [if ?x then _ else _] => destruct x end;
      try exact I; try (apply good_next; cbn; auto); try nokeyfail.
  - (* unknown *) nokeyfail.
Qed.

(** ** the theorem *)
Lemma avail_marked : forall code acc pc i, nth_error code pc = Some (true, i) -> avail_at acc code pc = [].
Proof.
  induction code as [|[fl j] code IH]; intros acc pc i H; [destruct pc; discriminate|].
  destruct pc as [|pc]; cbn in H.
  - inversion H; subst. reflexivity.
  - cbn [avail_at]. eapply IH. exact H.
Qed.

Lemma avail_zero code : avail_at [] code 0 = [].
Proof. destruct code as [|[[|] i] r]; reflexivity. Qed.

Lemma find_func_in P fn G : find_func P fn = Some G -> In G (p_funcs P).
Proof. unfold find_func. intros H. apply find_some in H. tauto. Qed.

Lemma wf_func_parts P F : wf_func_b P F = true ->
  scan_ok (const_refs F) [] (marked F) = true /\
  forall flag i, In (flag, i) (marked F) -> branch_ok F i = true /\ call_ok P i = true.
Proof.
  unfold wf_func_b. intros H. apply andb_prop in H as [H12 H3]. apply andb_prop in H12 as [_ H2].
  split; [exact H2|]. intros flag i Hin. rewrite forallb_forall in H3. specialize (H3 (flag, i) Hin). cbn in H3.
  apply andb_prop in H3. exact H3.
Qed.

Theorem wf_run_sound : forall fuel P, wf_program_b P = true ->
    forall F pc fr st, In F (p_funcs P) ->
      (nth_error (marked F) pc = None \/ inv F pc fr) ->
      ~ bad (run fuel P F pc fr st).
Proof.
  induction fuel as [|fu IH]; intros P HP F pc fr st HF Hinv; cbn [run].
  - intros [H|[H|H]]; discriminate.
  - destruct (nth_error (flat_code F) pc) as [i|] eqn:En; [|intros [H|[H|H]]; discriminate].
    destruct (nth_marked F pc i En) as [flag Em].
    destruct Hinv as [Hn|Hinv]; [congruence|].
    unfold wf_program_b in HP. pose proof HP as HP'. rewrite forallb_forall in HP'.
    destruct (wf_func_parts P F (HP' F HF)) as [Hscan Hbc].
    destruct (Hbc flag i (nth_error_In _ _ Em)) as [Hbr Hcall].
    pose proof (scan_ok_at _ _ _ _ _ _ Hscan Em) as Hops. rewrite forallb_forall in Hops.
    assert (Hop : forall r, In r (operands (i_body i)) -> hasd (regs fr) r).
    { intros r Hr. apply Hinv. apply Hops. exact Hr. }
    pose proof (step_sound F P pc fr st i Hop Hbr Hcall) as G.
    (* the invariant after moving to the next instruction *)
    assert (Hnext : forall fr', (forall r, hasd (regs fr) r -> hasd (regs fr') r) -> (defines i = true -> hasd (regs fr') (i_ref i)) ->
                                nth_error (marked F) (S pc) = None \/ inv F (S pc) fr').
    { intros fr' Hext Hdef. right. intros r Hr. rewrite (avail_succ _ _ _ _ _ Em) in Hr.
      apply orb_prop in Hr as [Hr|Hr]; [apply Hext, Hinv; apply orb_true_iff; left; exact Hr|].
      destruct (nth_error (marked F) (S pc)) as [[[|] j]|]; [discriminate| |].
      - destruct (defines i) eqn:Ed.
        + cbn in Hr. apply orb_prop in Hr as [Hr|Hr]; [apply Nat.eqb_eq in Hr; subst; apply Hdef; reflexivity|].
          apply Hext, Hinv. apply orb_true_iff. right. exact Hr.
        + apply Hext, Hinv. apply orb_true_iff. right. exact Hr.
      - destruct (defines i) eqn:Ed.
        + cbn in Hr. apply orb_prop in Hr as [Hr|Hr]; [apply Nat.eqb_eq in Hr; subst; apply Hdef; reflexivity|].
          apply Hext, Hinv. apply orb_true_iff. right. exact Hr.
        + apply Hext, Hinv. apply orb_true_iff. right. exact Hr. }
    destruct (step F pc fr st i) as [pc' fr' st'|v st'|fn vs dst|e|] eqn:Es; cbn [good_step] in G.
    + destruct G as (Hext & Hdef & Hpc). apply IH; auto.
      destruct Hpc as [->|[Hn|(j & Hj)]]; [apply Hnext; assumption|left; exact Hn|].
      right. intros r Hr. rewrite (avail_marked _ _ _ _ Hj) in Hr. cbn in Hr. rewrite orb_false_r in Hr.
      apply Hext, Hinv. apply orb_true_iff. left. exact Hr.
    + intros [H|[H|H]]; discriminate.
    + destruct G as (-> & Hdef & Hfind). destruct (find_func P fn) as [Gf|] eqn:Ef; [|congruence].
      pose proof (find_func_in P fn Gf Ef) as HG.
      assert (HinvG : nth_error (marked Gf) 0 = None \/ inv Gf 0 {| regs := init_regs Gf; vars := []; fargs := vs |}).
      { right. intros r Hr. rewrite avail_zero in Hr. cbn in Hr. rewrite orb_false_r in Hr. cbn. apply init_regs_has. exact Hr. }
      pose proof (IH P HP Gf 0 {| regs := init_regs Gf; vars := []; fargs := vs |} st HG HinvG) as Hcallee.
      destruct (run fu P Gf 0 {| regs := init_regs Gf; vars := []; fargs := vs |} st) as [v st'| | |] eqn:Er; try exact Hcallee.
      apply IH; auto. apply Hnext.
      * intros r Hr. cbn. apply hasd_update. left. exact Hr.
      * intros _. cbn. apply hasd_update. right. reflexivity.
    + intros [H|[H|H]]; inversion H as [E]; destruct (G _ E) as (A & B & C); congruence.
    + intros [H|[H|H]]; discriminate.
Qed.

(** entry point: invoking any function of a well-formed program *)
Corollary wf_invoke_sound : forall fuel P fn named st, wf_program_b P = true ->
    find_func P fn <> None -> ~ bad (invoke fuel P fn named st).
Proof.
  intros fuel P fn named st HP Hf. unfold invoke. destruct (find_func P fn) as [F|] eqn:Ef; [|congruence].
  apply wf_run_sound; [exact HP|eapply find_func_in; eauto|].
  right. intros r Hr. rewrite avail_zero in Hr. cbn in Hr. rewrite orb_false_r in Hr. cbn. apply init_regs_has. exact Hr.
Qed.
