(** * Tree-shaped Python values: what the host passes to / reads from the VM (Invoke arguments and results,
    SetGlobal / GetGlobal). [inject] builds them on a heap, [reify] reads them back. *)
From Coq Require Import String ZArith List Bool PrimFloat.
From NSL Require Import Model.PyNum Model.VM.
Import ListNotations.

Inductive pv := PInt (z : Z) | PFloat (f : float) | PNone | PList (l : list pv) | PDict (d : list (string * pv)).

Fixpoint inject (h : heap) (p : pv) : heap * val :=
  match p with
  | PInt z => (h, VInt z)
  | PFloat f => (h, VFloat f)
  | PNone => (h, VNone)
  | PList l =>
      let '(h1, vs) := fold_left (fun acc x => let '(h', out) := acc in let '(h'', v) := inject h' x in (h'', out ++ [v])) l (h, []) in
      let '(h2, a) := alloc h1 (OList vs) in (h2, VRef a)
  | PDict d =>
      let '(h1, vs) := fold_left (fun acc kx => let '(h', out) := acc in let '(h'', v) := inject h' (snd kx) in (h'', out ++ [(fst kx, v)])) d (h, []) in
      let '(h2, a) := alloc h1 (ODict vs) in (h2, VRef a)
  end.

Fixpoint reify (fuel : nat) (h : heap) (v : val) : option pv :=
  match v with
  | VInt z => Some (PInt z)
  | VFloat f => Some (PFloat f)
  | VNone => Some PNone
  | VRef a =>
      match fuel with
      | O => None
      | S fu =>
          match hget h a with
          | Some (OList l) =>
              option_map PList (fold_right (fun x acc => match reify fu h x, acc with Some p, Some r => Some (p :: r) | _, _ => None end) (Some []) l)
          | Some (ODict d) =>
              option_map PDict (fold_right (fun kx acc => match reify fu h (snd kx), acc with Some p, Some r => Some ((fst kx, p) :: r) | _, _ => None end) (Some []) d)
          | None => None
          end
      end
  end.

(** bit-for-bit equality of floats (all NaNs identified; +0.0 and -0.0 distinguished) *)
Definition float_same (a b : float) : bool :=
  if PrimFloat.eqb a a then PrimFloat.eqb a b && PrimFloat.eqb (PrimFloat.div one a) (PrimFloat.div one b)
  else negb (PrimFloat.eqb b b).

(** exact equality: same Python types, floats bit for bit *)
Fixpoint pv_same (a b : pv) : bool :=
  match a, b with
  | PInt x, PInt y => Z.eqb x y
  | PFloat x, PFloat y => float_same x y
  | PNone, PNone => true
  | PList l, PList m => (fix go (l m : list pv) : bool :=
                           match l, m with [], [] => true | x :: l', y :: m' => pv_same x y && go l' m' | _, _ => false end) l m
  | PDict d, PDict e => (fix go (d e : list (string * pv)) : bool :=
                           match d, e with [], [] => true | (k, x) :: d', (k', y) :: e' => String.eqb k k' && pv_same x y && go d' e' | _, _ => false end) d e
  | _, _ => false
  end.

(** Python's == on results: ints and floats compare numerically *)
Definition num_eq (a b : pv) : bool :=
  match a, b with
  | PInt x, PInt y => Z.eqb x y
  | PFloat x, PFloat y => PrimFloat.eqb x y || (negb (PrimFloat.eqb x x) && negb (PrimFloat.eqb y y))    (* a NaN result is the same NaN result *)
  | PInt x, PFloat y | PFloat y, PInt x => match float_of_Z x with Ok f => PrimFloat.eqb f y | _ => false end
  | _, _ => false
  end.
Fixpoint pv_pyeq (a b : pv) : bool :=
  match a, b with
  | PNone, PNone => true
  | PList l, PList m => (fix go (l m : list pv) : bool :=
                           match l, m with [], [] => true | x :: l', y :: m' => pv_pyeq x y && go l' m' | _, _ => false end) l m
  | PDict d, PDict e => (fix go (d e : list (string * pv)) : bool :=
                           match d, e with [], [] => true | (k, x) :: d', (k', y) :: e' => String.eqb k k' && pv_pyeq x y && go d' e' | _, _ => false end) d e
  | _, _ => num_eq a b
  end.
