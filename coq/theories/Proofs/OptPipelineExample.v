(** Non-vacuity of [optimiser_check_sound]: a function with three casts of constants (two fold to one new constant) and a
    conditional; the planned optimised function is what the optimiser model produces, and both return the same. *)
From Coq Require Import String ZArith List Bool PrimFloat.
From NSL Require Import Base.Types Base.Syntax Model.PyNum Model.IR Model.VM Model.Elab Model.Lower Model.Opt Model.IREq Spec.RefSem Proofs.ElabExprProofs
                        Proofs.ForwardFlowProofs Proofs.ForwardFlowFailProofs Proofs.ConstCastFlowProofs Harness.FragLib Harness.FragLib2 Harness.FwdFlowLib Harness.CCLib.
Import ListNotations.
Local Open Scope string_scope.

(** export function f(float x, int a) -> float { float y = x * 2; if (a > 1) { y = y + 2; } return y + 3; } *)
Definition op_fn : func := {| f_name := "f"; f_export := true; f_args := [(tfloat, "x"); (tint, "a")]; f_ret := tfloat;
   f_body := [SDecl tfloat "y" (Some (EBin OMul (EVar "x") (EInt 2)));
              SIf (EBin OGt (EVar "a") (EInt 1)) (SBlock [SExpr (EAssign AAssign (EVar "y") (EBin OAdd (EVar "y") (EInt 2)))]) None;
              SRet (Some (EBin OAdd (EVar "y") (EInt 3)))] |}.
Definition op_M : module := {| m_structs := []; m_globals := []; m_funcs := [op_fn] |}.
Definition op_static := Eval vm_compute in straight_static op_M op_fn.
Definition op_F : ifunc := match op_static with Some (_, _, _, F, _, _) => F | None => {| fn_name := ""; fn_args := []; fn_ret := ITVoid; fn_consts := []; fn_blocks := [] |} end.
Definition op_plan := Eval vm_compute in plan op_F.
Definition op_T : list (nat * nat) := match op_plan with Some (T, _) => T | None => [] end.
Definition op_N : list (nat * irty * cval) := match op_plan with Some (_, N) => N | None => [] end.

Example op_plan_shape : length op_T = 3 /\ length op_N = 2 /\ length (fn_blocks op_F) = 3.
Proof. vm_compute. repeat split; reflexivity. Qed.
Example op_checks : cc_hyps_b op_F op_T op_N = true /\ flow_hyps_b (cc_apply op_T (fn_consts op_F ++ op_N) op_F) = true /\
                    match optimise_func op_F with OOk F'' => ifunc_eqb (opt_load_after_store (cc_apply op_T (fn_consts op_F ++ op_N) op_F)) F'' | _ => false end = true.
Proof. vm_compute. repeat split; reflexivity. Qed.
Example op_exact : vals_exact (fold_vals op_F (fn_consts op_F ++ op_N)).
Proof.
  intros a b Ha Hb Ht Hp. vm_compute in Ha, Hb.
  repeat (destruct Ha as [<-|Ha]; [repeat (destruct Hb as [<-|Hb]; [first [reflexivity|vm_compute in Ht; discriminate|vm_compute in Hp; discriminate]|]); destruct Hb|]); destruct Ha.
Qed.

Example op_theorem_applies : forall P fuel args vs out,
  run fuel P op_F 0 (entry op_F args) vs = out -> final out ->
  exists fuel', run fuel' P (opt_load_after_store (cc_apply op_T (fn_consts op_F ++ op_N) op_F)) 0 (entry (opt_load_after_store (cc_apply op_T (fn_consts op_F ++ op_N) op_F)) args) vs = out.
Proof. intros P. exact (optimiser_check_sound P op_F op_T op_N (proj1 op_checks) op_exact (proj1 (proj2 op_checks))). Qed.

Example op_values :
  run 60 {| p_funcs := [op_F]; p_globals := [] |} op_F 0 (entry op_F [VFloat 1.5%float; VInt 4]) {| globals := []; hp := [] |} = Done (VFloat 8%float) {| globals := []; hp := [] |} /\
  (let F'' := opt_load_after_store (cc_apply op_T (fn_consts op_F ++ op_N) op_F) in
   run 60 {| p_funcs := [op_F]; p_globals := [] |} F'' 0 (entry F'' [VFloat 1.5%float; VInt 4]) {| globals := []; hp := [] |}) = Done (VFloat 8%float) {| globals := []; hp := [] |}.
Proof. split; vm_compute; reflexivity. Qed.
