"""C03 -- Calls pass arguments by value into isolated frames and reach the chosen overload."""
import os, json
import shapes, nslgen, gentyped, vmcases, ircoq
from common import TranslatorAbort, coq_list
from nslgen import *

STATIC = ["Model/IR.v", "Model/VM.v", "Proofs/CallProofs.v", "Proofs/OverloadProofs.v"]


def scalar_programs(rng):
    """hand-shaped call graphs over scalars; the reference semantics is the oracle"""
    out = []
    a, b, n = V("a"), V("b"), V("n")
    def mod(items):
        return Module(items)
    # the caller reads its own parameters and locals after the call
    g = Func("g", [Arg("int", "p")], "int", Block([ES(A(V("p"), B("+", V("p"), I(100)))), Decl("int", "t", B("*", V("p"), I(2))), Ret(V("t"))]))
    out.append(("caller-param-after-call", mod([g, Func("f", [Arg("int", "a"), Arg("int", "b")], "int",
               Block([Decl("int", "r", Call("g", [B("+", a, I(1))])), Ret(B("+", B("*", a, I(1000)), B("+", B("*", b, I(10)), B("%", V("r"), I(7)))))]), export=True)])))
    out.append(("loop-bounded-by-param", mod([g, Func("f", [Arg("int", "a"), Arg("int", "b")], "int",
               Block([Decl("int", "s", I(0)), For(Decl("int", "i", I(0)), B("<", V("i"), a), Pre("++", "i"), Block([ES(A(V("s"), B("+", V("s"), B("%", Call("g", [V("i")]), I(5)))))])), Ret(B("+", V("s"), B("*", a, I(100))))]), export=True)])))
    # chain of depth 6, each level reads its parameter and a local after the call
    items = []
    for k in range(6, 0, -1):
        body = [Decl("int", "loc", B("+", V("p"), I(k)))]
        if k < 6:
            body.append(Decl("int", "r", Call("c%d" % (k + 1), [B("*", V("p"), I(2))])))
            body.append(Ret(B("+", B("+", V("r"), V("loc")), V("p"))))
        else:
            body.append(ES(A(V("p"), I(0)))); body.append(Ret(V("loc")))
        items.append(Func("c%d" % k, [Arg("int", "p")], "int", Block(body)))
    out.append(("chain6", mod(items + [Func("f", [Arg("int", "a"), Arg("int", "b")], "int", Block([Ret(B("+", Call("c1", [a]), b))]), export=True)])))
    # recursion
    fact = Func("fact", [Arg("int", "n")], "int", Block([If(B("<=", n, I(1)), Block([Ret(I(1))])), Ret(B("*", n, Call("fact", [B("-", n, I(1))])))]))
    out.append(("factorial", mod([fact, Func("f", [Arg("int", "a"), Arg("int", "b")], "int", Block([Ret(Call("fact", [B("%", B("+", B("*", a, a), I(3)), I(8))]))]), export=True)])))
    fib = Func("fib", [Arg("int", "n")], "int", Block([If(B("<", n, I(2)), Block([Ret(n)])), Decl("int", "x", Call("fib", [B("-", n, I(1))])), Decl("int", "y", Call("fib", [B("-", n, I(2))])), Ret(B("+", B("+", V("x"), V("y")), B("*", n, I(0))))]))
    out.append(("fibonacci", mod([fib, Func("f", [Arg("int", "a"), Arg("int", "b")], "int", Block([Ret(Call("fib", [B("%", B("+", B("*", a, a), I(2)), I(11))]))]), export=True)])))
    even = Func("even", [Arg("int", "n")], "int", Block([If(B("==", n, I(0)), Block([Ret(I(1))])), Decl("int", "keep", B("*", n, I(3))), Decl("int", "r", Call("odd", [B("-", n, I(1))])), Ret(B("+", V("r"), B("-", V("keep"), B("*", n, I(3)))))]))
    odd = Func("odd", [Arg("int", "n")], "int", Block([If(B("==", n, I(0)), Block([Ret(I(0))])), Ret(Call("even", [B("-", n, I(1))]))]))
    out.append(("even-odd", mod([even, odd, Func("f", [Arg("int", "a"), Arg("int", "b")], "int", Block([Ret(Call("even", [B("%", B("+", B("*", a, a), b), I(9))]))]), export=True)])))
    ack = Func("ack", [Arg("int", "m"), Arg("int", "n")], "int", Block([
        If(B("==", V("m"), I(0)), Block([Ret(B("+", n, I(1)))])),
        If(B("==", n, I(0)), Block([Ret(Call("ack", [B("-", V("m"), I(1)), I(1)]))])),
        Ret(Call("ack", [B("-", V("m"), I(1)), Call("ack", [V("m"), B("-", n, I(1))])]))]))
    out.append(("ackermann", mod([ack, Func("f", [Arg("int", "a"), Arg("int", "b")], "int", Block([Ret(Call("ack", [B("%", B("*", a, a), I(3)), B("%", B("*", b, b), I(3))]))]), export=True)])))
    # sum with a local computed before the call and read after it
    sm = Func("sum", [Arg("int", "n"), Arg("float", "w")], "float", Block([If(B("<=", n, I(0)), Block([Ret(F("0.0"))])), Decl("float", "mine", B("*", n, V("w"))), Decl("float", "rest", Call("sum", [B("-", n, I(1)), B("+", V("w"), F("0.5"))])), Ret(B("+", V("mine"), V("rest")))]))
    out.append(("recursive-sum-locals", mod([sm, Func("f", [Arg("int", "a"), Arg("float", "b")], "float", Block([Ret(Call("sum", [B("%", B("*", a, a), I(6)), b]))]), export=True)])))
    # locals of aggregate type (nested arrays, a structure holding an array) in caller and callee, in every activation of a recursion and in a callee
    # called twice: each activation owns its own, zero-initialised storage -- the inner rows / members too
    T = Struct("T", [{"t": "int", "n": "cnt", "dims": [2]}, {"t": "int", "n": "k"}])
    for nm, decl, cell, cell2, structs in (
            ("array2", lambda x: Decl("int", x, None, dims=[2, 2]), lambda x: Idx(Idx(V(x), I(0)), I(1)), lambda x: Idx(Idx(V(x), I(1)), I(0)), []),
            ("array3", lambda x: Decl("int", x, None, dims=[2, 2, 2]), lambda x: Idx(Idx(Idx(V(x), I(1)), I(0)), I(1)), lambda x: Idx(Idx(Idx(V(x), I(0)), I(1)), I(1)), []),
            ("struct-array", lambda x: Decl("T", x, None), lambda x: Idx(Mem(V(x), "cnt"), I(1)), lambda x: Mem(V(x), "k"), [T])):
        scratch = Func("scratch", [Arg("int", "k")], "int", Block([decl("t"), ES(A(cell("t"), B("+", cell("t"), B("*", V("k"), I(7))))), ES(A(cell2("t"), B("+", cell2("t"), B("+", V("k"), I(1))))),
                                                                   Ret(B("+", cell("t"), cell2("t")))]))
        out.append(("aggregate-local-caller-callee-" + nm, mod(structs + [scratch, Func("f", [Arg("int", "a"), Arg("int", "b")], "int",
                   Block([decl("m"), ES(A(cell("m"), a)), ES(A(cell2("m"), B("*", b, I(2)))), Decl("int", "r", Call("scratch", [a])), Decl("int", "r2", Call("scratch", [b])),
                          Ret(B("+", B("+", B("*", cell("m"), I(10000)), B("*", cell2("m"), I(100))), B("%", B("+", V("r"), V("r2")), I(97))))]), export=True)])))
        rec = Func("rec", [Arg("int", "n")], "int", Block([decl("m"), ES(A(cell("m"), B("+", cell("m"), n))), Decl("int", "below", I(0)), If(B(">", n, I(0)), Block([ES(A(V("below"), Call("rec", [B("-", n, I(1))])))])),
                                                          Ret(B("+", cell("m"), B("*", V("below"), I(10))))]))
        out.append(("aggregate-local-recursion-" + nm, mod(structs + [rec, Func("f", [Arg("int", "a"), Arg("int", "b")], "int", Block([Ret(B("+", Call("rec", [B("%", a, I(5))]), Call("rec", [B("%", b, I(4))])))]), export=True)])))
    # names are per function: the parameters of a later function are named like the locals of an earlier one (and the other way round), callee
    # and caller use the same names for different things -- each call still binds its own arguments
    h1 = Func("h1", [Arg("int", "p")], "int", Block([Decl("int", "v", B("*", V("p"), I(2))), Decl("int", "i", B("+", V("v"), I(1))), Ret(V("i"))]))
    h2 = Func("h2", [Arg("int", "v"), Arg("int", "i")], "int", Block([Decl("int", "p", B("-", V("v"), V("i"))), Ret(B("+", B("*", V("v"), I(10)), B("+", V("i"), B("*", V("p"), I(1000)))))]))
    h3 = Func("h3", [Arg("float", "r"), Arg("int", "p")], "float", Block([Decl("float", "i", B("*", V("r"), F("0.5"))), Ret(B("+", V("i"), V("p")))]))
    out.append(("parameter-named-like-earlier-local", mod([h1, h2, Func("f", [Arg("int", "a"), Arg("int", "b")], "int",
               Block([Decl("int", "r", Call("h1", [a])), Decl("int", "v", Call("h2", [V("r"), b])), Ret(B("+", V("v"), Call("h2", [b, a])))]), export=True)])))
    out.append(("parameter-named-like-callers-local", mod([h1, h2, h3, Func("f", [Arg("int", "a"), Arg("float", "b")], "float",
               Block([Decl("int", "i", Call("h1", [a])), Decl("int", "p", Call("h2", [V("i"), a])), Decl("float", "r", Call("h3", [b, V("p")])), Ret(B("+", V("r"), B("+", V("i"), V("p"))))]), export=True)])))
    # overloads by int / float, argument conversion
    o1 = Func("o", [Arg("int", "p")], "int", Block([Ret(I(1))]))
    o2 = Func("o", [Arg("float", "p")], "int", Block([Ret(I(2))]))
    o3 = Func("o", [Arg("int", "p"), Arg("float", "q")], "int", Block([Ret(I(3))]))
    out.append(("overloads", mod([o1, o2, o3, Func("f", [Arg("int", "a"), Arg("float", "b")], "int",
               Block([Ret(B("+", B("+", B("*", Call("o", [a]), I(100)), B("*", Call("o", [b]), I(10))), B("+", Call("o", [a, b]), B("*", Call("o", [a, a]), I(1000)))))]), export=True)])))
    return out


def vector_programs():
    """callees that overwrite their parameters; expected = what by-value semantics prescribes (computed here)"""
    T = []
    def add(name, src, args, expected):
        T.append((name, src, args, expected))
    v = [1.0, 2.0, 3.0, 4.0]
    rd = "v.x + 10.0 * v.y + 100.0 * v.z + 1000.0 * v.w"
    add("vector-element", "function g(float4 p) -> float { p[1] = 9.0; p[3] = 7.0; return p[1]; }\nexport function f(float4 v) -> float { float r = g(v); return %s; }" % rd, {"v": v}, 4321.0)
    add("vector-swizzle", "function g(float4 p) -> float { p.xy = p.zw; p.w = 0.0; return p.x; }\nexport function f(float4 v) -> float { float r = g(v); return %s; }" % rd, {"v": v}, 4321.0)
    add("vector-whole", "function g(float4 p) -> float { p = p + p; return p.x; }\nexport function f(float4 v) -> float { float r = g(v); return %s; }" % rd, {"v": v}, 4321.0)
    add("vector-local-copy", "function g(float4 p) -> float { p[0] = 5.0; return p[0]; }\nexport function f(float4 v) -> float { float4 w = v; float r = g(w); return w.x + 10.0 * w.y + r * 0.0 + 100.0 * v.x; }", {"v": v}, 121.0)
    add("scalar-param", "function g(int p) -> int { p = p * 2; p++; return p; }\nexport function f(int a) -> int { int r = g(a); int s = g(a); return a * 100 + r - s; }", {"a": 7}, 700)
    m = [[1.0, 2.0, 3.0], [4.0, 5.0, 6.0], [7.0, 8.0, 9.0]]
    add("matrix-element", "function g(float3x3 p) -> float { p[1][2] = 0.5; p[0] = p[2]; return p[1][2]; }\nexport function f(float3x3 m) -> float { float r = g(m); return m[1][2] + 10.0 * m[0][0] + 100.0 * m[2][1]; }", {"m": m}, 816.0)
    add("nested-callee-modifies", "function h(float4 q) -> float { q.x = 0.0; return q.x; }\nfunction g(float4 p) -> float { float r = h(p); p.y = r; return p.x; }\nexport function f(float4 v) -> float { float r = g(v); return r + %s; }" % rd, {"v": v}, 4322.0)
    add("vector-twice", "function g(float4 p) -> float { p.x = p.x + 1.0; return p.x; }\nexport function f(float4 v) -> float { float a = g(v); float b = g(v); return a + b + v.x; }", {"v": v}, 5.0)
    add("int-vector-overload", "function g(int2 p) -> int { p[0] = 9; return 1; }\nfunction g(float2 p) -> int { p[0] = 9.0; return 2; }\nexport function f(int2 a, float2 b) -> int { return g(a) * 1000 + g(b) * 100 + a[0] * 10 + (b[0] == 0.5); }", {"a": [3, 4], "b": [0.5, 1.5]}, 1231)
    return T


def run(ctx):
    ctx.static_obligations(STATIC)
    repo = ctx.sync_repo(1)[0]
    shapes.write(ctx, repo, ["argrewrite", "compiler", "pass", "visitor"])
    try:
        from translate import t_vm
        open(os.path.join(ctx.dyn, "Gen_VM.v"), "w").write(t_vm.generate(repo))
        ctx.compile_dyn(["Gen_Shapes", "Gen_VM", "Agree_VM", "Props_C03"])
    except TranslatorAbort as e:
        ctx.broken.append("translator T4 (VM arms) aborted: %s" % e)
        ctx.obligations.append({"name": "T4.translate", "ok": False})
    rng = ctx.rng
    jobs, cases = [], []
    ins = [(0, 0), (1, 2), (2, 5), (3, 1), (5, 3), (7, 4)]
    for name, m in scalar_programs(rng):
        f = [it for it in m["items"] if it["k"] == "func" and it["export"]][0]
        calls = []
        for (x, y) in (ins if ctx.tier != "quick" else ins[:4]):
            vals = [x, y]
            calls.append({"fn": "f", "args": {a_["n"]: (vals[k] if a_["t"] == "int" else vals[k] + 0.5) for k, a_ in enumerate(f["args"])}, "globals": {}, "read_globals": []})
        for opt in (False, True):
            text, _ = nslgen.render(m, "canonical", rng)
            jobs.append(vmcases.job(text, calls, optimize=opt)); cases.append(("spec", name, m, calls, text, opt, None))
    for name, src, args, expected in vector_programs():
        calls = [{"fn": "f", "args": args, "globals": {}, "read_globals": []}] * 2      # twice on one VM
        for opt in (False, True):
            jobs.append(vmcases.job(src, calls, optimize=opt)); cases.append(("expect", name, None, calls, src, opt, expected))
    # random call-heavy programs
    nrand = 80 if ctx.tier == "quick" else 2000
    for k in range(nrand):
        g = gentyped.TGen(rng, floats=True, arrays=(k % 3 == 0), structs=False, calls=True, max_depth=2)
        m, exported, globs = g.module()
        if not g.funcs:
            continue
        calls = g.calls(exported, globs, 3)
        text, _ = nslgen.render(m, "canonical", rng)
        jobs.append(vmcases.job(text, calls, optimize=bool(k % 2))); cases.append(("spec", "random", m, calls, text, bool(k % 2), None))
    res = ctx.run_impl("compile_impl.py", jobs, nworkers=16)
    blocks, meta, direct_bad = [], [], []
    for k, ((kind, name, m, calls, text, opt, expected), r) in enumerate(zip(cases, res)):
        if not r["accept"] or "ir" not in r:
            direct_bad.append((name, text, r)); continue
        if kind == "spec":
            blocks.append(vmcases.case_block(k, m, r, calls, with_spec=True, with_ir=not opt))
        else:
            prog = ircoq.program({"functions": r["ir"]["functions"], "globals": r["ir"]["globals"]})
            obs = [vmcases.coq_obs(x, []) for x in r["calls"]]
            exp = ["(ORet %s [])" % ircoq.pyval(expected) for _ in calls]
            defs = "Definition P_%d : program := %s.\n" % (k, prog)
            blocks.append((defs, "run_case_expect fuel P_%d %s %s %s" % (k, coq_list([vmcases.coq_call(c) for c in calls]), coq_list(obs), coq_list(exp))))
        meta.append((name, text, calls, r, opt))
    files = vmcases.write_case_files(ctx, "C03", blocks)
    outs = ctx.eval_cases(files, timeout=900)
    codes = vmcases.collect_codes(ctx, files, outs, len(blocks))
    bad_spec = [x for x, c in zip(meta, codes) if c is not None and c & 2]
    bad_model = [x for x, c in zip(meta, codes) if c is not None and (c & 1 or (c & 16 and not c & 64))]
    names = {}
    for (name, *_), c in zip(meta, codes):
        names[name] = names.get(name, 0) + 1
    ctx.cov["evaluations"] = sum(len(c[3]) for c in cases)
    ctx.cov["distinct_nontrivial"] = len({c[4] + str(c[5]) for c in cases})
    ctx.cov["programs"] = len(cases)
    ctx.cov["rule"] = ("hand-shaped call graphs (caller reads every parameter and local after the call, loop bounded by a parameter, chain of depth 6, factorial, Fibonacci, even/odd mutual "
                       "recursion with a local kept across the call, Ackermann, recursive sum with locals, int/float overloads with argument conversion) on several inputs at both optimisation "
                       "settings, with the reference semantics as oracle; callees that overwrite their parameters (scalar, vector element, swizzle, whole vector, matrix element and row, "
                       "nested callee, repeated call, overloaded vector types) with the by-value result as expectation; plus random call-heavy programs with recursion. All compared inside Coq "
                       "with the heap VM model and the oracle. Distinct by (text, setting); every program contains calls.")
    ctx.cov["samples"] = [{"name": n, "source": t[:300], "impl": r["calls"][:2]} for n, t, c, r, o in meta[:3]]
    ctx.extra["input_distribution"] = {"by_kind": names, "spec_skipped": sum(1 for c in codes if c is not None and c & 8), "model_skipped": sum(1 for c in codes if c is not None and c & 4)}
    ctx.extra["disagreements_checked"] = len(codes)
    if bad_spec or direct_bad:
        if bad_spec:
            n_, t, c, r, o = min(bad_spec, key=lambda x: len(x[1]))
            ctx.violation("failing-input", {"what": "a call changed what the caller sees, or the wrong function ran (result differs from by-value / reference semantics)", "case": n_, "source": t, "optimize": o, "calls": c, "observed": r["calls"], "count": len(bad_spec)})
        else:
            n_, t, r = direct_bad[0]
            ctx.violation("failing-input", {"what": "a program of the call corpus was rejected", "case": n_, "source": t, "observed": {k: v for k, v in r.items() if k != "ir"}, "count": len(direct_bad)})
    elif bad_model:
        n_, t, c, r, o = bad_model[0]
        ctx.broken.append("correspondence (VM/lowering model): differs from the implementation on %d program(s), e.g. [%s] %s" % (len(bad_model), n_, t[:300]))
