(** * C01, for loops, source side: the elaboration of [for (t x = i; c; y = e) body] preserves the reference semantics.  The loop
    variable lives in a frame of its own that holds nothing else; it must not be visible outside ([tlookup env x = None], which
    the name validator guarantees for accepted programs: C12). *)
From Coq Require Import String ZArith List Bool PrimFloat Arith Lia.
From NSL Require Import Base.Types Base.Syntax Spec.Overload Model.PyNum Model.IR Model.VM Model.TypesBin Model.Elab Model.Lower Spec.RefSem
                        Proofs.OpsAgree Proofs.OptProofs Proofs.LowerExprProofs Proofs.ElabExprProofs Proofs.ReturnExprProofs Proofs.CallAgreeProofs
                        Proofs.LowerStmtProofs Proofs.ElabStmtProofs Proofs.StraightLineProofs Proofs.HistoryRefineProofs Proofs.FlowLowerProofs Proofs.FlowFuncProofs
                        Proofs.FlowElabProofs Proofs.FlowTableProofs Proofs.FlowSimProofs Proofs.LoopLowerProofs Proofs.LoopElabProofs.
Import ListNotations.

Lemma exec_for_unfold M fu t x i c n body st :
  exec M (S fu) (SFor (Some (t, x, i)) c n body) st =
  (let st0 := push_frame st in
   rdo st1 <- (rdo r <- exec M fu (SDecl t x i) st0; RefSem.ROk (snd r));
   rdo r <- for_loop M fu c n body st1; let '(fl, st2) := r in RefSem.ROk (fl, pop_frame st2)).
Proof. reflexivity. Qed.

Lemma forloop_unfold M fu c e' body st :
  for_loop M (S fu) (Some c) (Some e') body st =
  (rdo p <- (rdo p <- eval M fu c st; let '(v, st1) := p in rdo x <- scalar v; RefSem.ROk (truth x, st1)); let '(b, st1) := p in
   if negb b then RefSem.ROk (ONormal, st1) else
   rdo r <- exec M fu body st1; let '(fl, st2) := r in
   match fl with
   | OBreak => RefSem.ROk (ONormal, st2)
   | OReturn v => RefSem.ROk (OReturn v, st2)
   | _ => rdo st3 <- (rdo q <- eval M fu e' st2; RefSem.ROk (snd q)); for_loop M fu (Some c) (Some e') body st3
   end).
Proof. reflexivity. Qed.

Lemma elab_for_unfold G env t x i c n b :
  elab_stmt G env (SFor (Some (t, x, i)) c n b) =
  (let env1 := [] :: env in
   edo r <- (let env2 := tdeclare env1 x t in
             edo i' <- elab_opt G env2 i;
             match i' with
             | Some i0 => if ty_eqb (type_of i0) t then EOk (Some (t, x, i'), env2) else EUnmodelled
             | None => EOk (Some (t, x, None), env2)
             end);
   let '(init', env2) := r in
   edo c' <- elab_opt G env2 c; edo n' <- elab_opt G env2 n;
   edo p <- elab_stmt G env2 b;
   EOk (TFor init' c' n' (fst p), env)).
Proof. reflexivity. Qed.

(** popping a frame that holds one variable which is not visible outside *)
Lemma var_get_pop1 st x r y : shape st = [x] :: r -> y <> x -> var_get (pop_frame st) y = var_get st y.
Proof.
  unfold shape, var_get, pop_frame. destruct (locals st) as [|f fs]; [discriminate|]. cbn [map tl locals]. intros H Hne. inversion H as [[Hf Hr]].
  destruct f as [|[k w] [|q f']]; try discriminate. cbn in Hf. inversion Hf; subst k. cbn [frames_get]. cbn. destruct (String.eqb_spec x y) as [E|E]; [congruence|]. reflexivity.
Qed.
Lemma shape_pop1 st f r : shape st = f :: r -> shape (pop_frame st) = r.
Proof. unfold shape, pop_frame. destruct (locals st) as [|f0 fs]; [discriminate|]. cbn. intros H. inversion H. reflexivity. Qed.

Lemma exec_decl_unfold M fu t x init st :
  exec M (S fu) (SDecl t x init) st =
  (let st1 := declare st x (zero_of (m_structs M) 8 t) in
   match init with
   | None => RefSem.ROk (ONormal, st1)
   | Some e => rdo p <- eval M fu e st1; let '(v, st2) := p in rdo st3 <- var_set st2 x v; RefSem.ROk (ONormal, st3)
   end).
Proof. reflexivity. Qed.
Lemma exec_sexpr_unfold M fu e st : exec M (S fu) (SExpr e) st = (rdo p <- eval M fu e st; RefSem.ROk (ONormal, snd p)).
Proof. reflexivity. Qed.

Section SrcFor.
  Variable M : module.
  Variable G : genv.
  Variable structs : list sdef.
  Variable gl args : list string.
  Variable cs : list (nat * irty * cval).

  Lemma Agree_pop1 env st x t r locals V A vs : shape st = [x] :: r -> tlookup env x = None ->
    Agree gl args ([(x, t)] :: env) st locals V A vs -> Agree gl args env (pop_frame st) locals V A vs.
  Proof.
    intros Hs Hx H y ty Hy. assert (Hne : y <> x) by (intros ->; congruence).
    assert (Hl : tlookup ([(x, t)] :: env) y = Some ty).
    { cbn [tlookup find fst]. destruct (String.eqb_spec x y) as [E|E]; [congruence|]. exact Hy. }
    destruct (H y ty Hl) as (Hn & w & Hg & Hw & Hv). split; [exact Hn|]. exists w. rewrite (var_get_pop1 _ _ _ _ Hs Hne). auto.
  Qed.

  (** a declaration executed in a freshly pushed frame leaves exactly its name there *)
  Lemma decl_shape t x i fuel st fl st1 : ssimple0 (SDecl t x i) = true -> exec M fuel (SDecl t x i) (push_frame st) = RefSem.ROk (fl, st1) -> shape st1 = [x] :: shape st.
  Proof.
    intros Hs H. destruct fuel as [|fu]; [discriminate|]. rewrite exec_decl_unfold in H. cbn zeta in H.
    assert (Hd : shape (declare (push_frame st) x (zero_of (m_structs M) 8 t)) = [x] :: shape st) by reflexivity.
    destruct i as [e|]; [|inversion H; subst; exact Hd].
    cbn [ssimple0] in Hs. apply andb_prop in Hs as [_ Hp].
    destruct (eval M fu e (declare (push_frame st) x (zero_of (m_structs M) 8 t))) as [[v st2]| | |] eqn:Ev; cbn [rbind] in H; try discriminate.
    apply (eval_pure_state M e fu _ _ _ Hp) in Ev. subst st2.
    destruct (var_set (declare (push_frame st) x (zero_of (m_structs M) 8 t)) x v) as [st3| | |] eqn:Es; cbn [rbind] in H; try discriminate.
    assert (E3 : st3 = st1) by (inversion H; reflexivity). rewrite <- E3, (var_set_shape _ _ _ _ Es). exact Hd.
  Qed.

  Lemma src_forloop n c y r b c' nx b' env2 :
    spure c = true -> ssimple (SExpr (EAssign AAssign (EVar y) r)) = true -> bsrc n b = true ->
    elab G COn env2 c = EOk c' -> elab_stmt G env2 (SExpr (EAssign AAssign (EVar y) r)) = EOk (TExpr nx, env2) -> elab_stmt G env2 b = EOk (b', env2) ->
    tok c' = true -> lit_ok cs c' -> bgood cs 1 (TExpr nx) -> bgood cs n b' ->
    forall fuel st fl st1 locals V A vs,
      for_loop M fuel (Some c) (Some (EAssign AAssign (EVar y) r)) b st = RefSem.ROk (fl, st1) -> Agree gl args env2 st locals V A vs ->
      fl = ONormal /\ shape st1 = shape st /\
      exists V' A' vs', floop structs gl args n fuel cs locals c' nx b' V A vs = Some (V', A', vs') /\ Agree gl args env2 st1 locals V' A' vs'.
  Proof.
    intros Hpc Hsn Hbb Ec En Eb Hkc Hlc Hgn Hgb. induction fuel as [|fu IH]; intros st fl st1 locals V A vs Hex Hag; [discriminate|].
    rewrite forloop_unfold in Hex.
    destruct (eval M fu c st) as [[v st0]| | |] eqn:Ev; cbn [rbind] in Hex; try discriminate.
    destruct (lit_teval structs gl args cs c' locals (mkfr V A) vs Hlc) as [Hli Hlf].
    destruct (elab_pure_correct M G structs gl args cs locals (mkfr V A) vs env2 st Hag c c' Hpc Ec Hkc Hli Hlf) as (Hpt & Hsemc).
    destruct (Hsemc _ _ _ Ev) as (-> & w & -> & _ & Hvc). cbn [scalar rbind] in Hex.
    destruct (truth w) eqn:Etr; cbn [negb] in Hex.
    - destruct (exec M fu b st) as [[fl2 st2]| | |] eqn:Exb; cbn [rbind] in Hex; try discriminate.
      destruct (src_all M G structs gl args cs n b Hbb b' env2 env2 fu st fl2 st2 locals V A vs Eb Hgb Exb Hag) as (-> & Hsh & V1 & A1 & vs1 & Hx & Hag2).
      destruct (eval M fu (EAssign AAssign (EVar y) r) st2) as [[q1 st3]| | |] eqn:Eq; cbn [rbind snd] in Hex; try discriminate.
      assert (Hxn : exec M (S fu) (SExpr (EAssign AAssign (EVar y) r)) st2 = RefSem.ROk (ONormal, st3)) by (rewrite exec_sexpr_unfold, Eq; reflexivity).
      destruct (src_assign M G structs gl args cs 0 AAssign y r Hsn (TExpr nx) env2 env2 (S fu) st2 ONormal st3 locals V1 A1 vs1 En Hgn Hxn Hag2) as (_ & Hsh3 & V2 & A2 & vs2 & Hx2 & Hag3).
      destruct (IH st3 fl st1 locals V2 A2 vs2 Hex Hag3) as (Hfl & Hsh1 & V' & A' & vs' & Hw & Hag').
      split; [exact Hfl|]. split; [congruence|].
      exists V', A', vs'. split; [|exact Hag']. cbn [floop]. rewrite Hvc, truthy_v_of, Etr, Hx, Hx2. exact Hw.
    - inversion Hex; subst fl st1; clear Hex. split; [reflexivity|]. split; [reflexivity|].
      exists V, A, vs. split; [cbn [floop]; rewrite Hvc, truthy_v_of, Etr; reflexivity|exact Hag].
  Qed.
End SrcFor.

(** ** the shape of the elaborated loop, static facts *)
Definition forexprs (n : nat) (t : ty) (x : string) (i' : option texpr) (c' nx : texpr) (b' : tstmt) : list texpr :=
  stexprs (TDecl t x i') ++ c' :: bexprs 1 (TExpr nx) ++ bexprs n b'.

Section ForStatic.
  Variable G : genv.

  Lemma for_elab_inv n env t x i c y r b ts env' :
    ssimple0 (SDecl t x i) = true -> spure c = true -> ssimple (SExpr (EAssign AAssign (EVar y) r)) = true -> bsrc n b = true -> env_num env ->
    elab_stmt G env (SFor (Some (t, x, i)) (Some c) (Some (EAssign AAssign (EVar y) r)) b) = EOk (ts, env') ->
    (forall i' c' nx b', ts = TFor (Some (t, x, i')) (Some c') (Some nx) b' -> forall e, In e (forexprs n t x i' c' nx b') -> forall f, In f (tflits e) -> PrimFloat.eqb f f = true) ->
    exists i' c' nx b', ts = TFor (Some (t, x, i')) (Some c') (Some nx) b' /\ env' = env /\
      elab_stmt G ([] :: env) (SDecl t x i) = EOk (TDecl t x i', tdeclare ([] :: env) x t) /\
      elab G COn (tdeclare ([] :: env) x t) c = EOk c' /\
      elab_stmt G (tdeclare ([] :: env) x t) (SExpr (EAssign AAssign (EVar y) r)) = EOk (TExpr nx, tdeclare ([] :: env) x t) /\
      elab_stmt G (tdeclare ([] :: env) x t) b = EOk (b', tdeclare ([] :: env) x t) /\
      env_num (tdeclare ([] :: env) x t) /\
      simple (TDecl t x i') = true /\ tpure c' = true /\ bstmt 1 (TExpr nx) = true /\ bstmt n b' = true.
  Proof.
    intros Hd Hpc Hsn Hbb Hn He Hnan. rewrite elab_for_unfold in He. cbn zeta in He.
    set (env2 := tdeclare ([] :: env) x t) in *.
    assert (Hdecl : exists i', (edo i' <- elab_opt G env2 i;
                                 match i' with Some i0 => if ty_eqb (type_of i0) t then EOk (Some (t, x, i'), env2) else EUnmodelled | None => EOk (Some (t, x, None), env2) end)
                               = EOk (Some (t, x, i'), env2) /\ elab_stmt G ([] :: env) (SDecl t x i) = EOk (TDecl t x i', env2)).
    { cbn [elab_stmt]. fold env2. destruct (elab_opt G env2 i) as [[i0|]| |]; cbn [ebind] in *; try discriminate.
      - destruct (ty_eqb (type_of i0) t); [|cbn [ebind] in He; discriminate]. exists (Some i0). split; reflexivity.
      - exists None. split; reflexivity. }
    destruct Hdecl as (i' & Hi & Ed). rewrite Hi in He. cbn [ebind] in He.
    cbn [elab_opt] in He.
    destruct (elab G COn env2 c) as [c'| |] eqn:Ec; cbn [ebind] in He; try discriminate.
    destruct (elab G COn env2 (EAssign AAssign (EVar y) r)) as [nx| |] eqn:En; cbn [ebind] in He; try discriminate.
    destruct (elab_stmt G env2 b) as [[b' env3]| |] eqn:Eb; cbn [ebind fst] in He; try discriminate.
    inversion He; subst ts env'; clear He.
    specialize (Hnan i' c' nx b' eq_refl). unfold forexprs in Hnan.
    assert (Es : elab_stmt G env2 (SExpr (EAssign AAssign (EVar y) r)) = EOk (TExpr nx, env2)) by (cbn [elab_stmt]; rewrite En; reflexivity).
    assert (Hdstop : stop n (SDecl t x i) = true) by (unfold stop, ssimple; cbn [desugar]; rewrite Hd; reflexivity).
    destruct (top_stmt_static G n (SDecl t x i) (TDecl t x i') ([] :: env) env2 (env_num_push env Hn) Hdstop Ed) as [Hok Hn2].
    { intros e He f Hf. apply (Hnan e); [|exact Hf]. apply in_or_app. left. unfold topexprs in He. apply in_app_or in He as [He|He]; [exact He|].
      destruct n; [destruct He|]. cbn [bexprs] in He. destruct He. }
    assert (Hsd : simple (TDecl t x i') = true).
    { unfold top_ok in Hok. destruct (simple (TDecl t x i')); [reflexivity|]. cbn [orb] in Hok. destruct n; discriminate. }
    assert (Hbn : bstmt 1 (TExpr nx) = true /\ env2 = env2).
    { apply (bsrc_static G 1 (SExpr (EAssign AAssign (EVar y) r)) (TExpr nx) env2 env2 Hsn Es Hn2).
      intros e He f Hf. apply (Hnan e); [|exact Hf]. apply in_or_app. right. right. apply in_or_app. left. exact He. }
    assert (Hbs : bstmt n b' = true /\ env3 = env2).
    { apply (bsrc_static G n b b' env2 env3 Hbb Eb Hn2). intros e He f Hf. apply (Hnan e); [|exact Hf]. apply in_or_app. right. right. apply in_or_app. right. exact He. }
    destruct Hbs as [Hbs ->].
    exists i', c', nx, b'. split; [reflexivity|]. split; [reflexivity|]. split; [exact Ed|]. split; [reflexivity|]. split; [exact Es|]. split; [reflexivity|]. split; [exact Hn2|].
    split; [exact Hsd|]. split; [|split; [exact (proj1 Hbn)|exact Hbs]].
    apply (elab_tpure_static G env2 Hn2 c c' Hpc Ec). intros f Hf. apply (Hnan c'); [apply in_or_app; right; left; reflexivity|exact Hf].
  Qed.
End ForStatic.

Section SrcFor2.
  Variable M : module.
  Variable G : genv.
  Variable structs : list sdef.
  Variable gl args : list string.
  Variable cs : list (nat * irty * cval).

  Lemma src_for n t x i c y r b i' c' nx b' env fuel st fl st1 locals V A vs :
    ssimple0 (SDecl t x i) = true -> spure c = true -> ssimple (SExpr (EAssign AAssign (EVar y) r)) = true -> bsrc n b = true ->
    existsb (String.eqb x) gl = false -> existsb (String.eqb x) args = false -> tlookup env x = None ->
    elab_stmt G ([] :: env) (SDecl t x i) = EOk (TDecl t x i', tdeclare ([] :: env) x t) ->
    elab G COn (tdeclare ([] :: env) x t) c = EOk c' ->
    elab_stmt G (tdeclare ([] :: env) x t) (SExpr (EAssign AAssign (EVar y) r)) = EOk (TExpr nx, tdeclare ([] :: env) x t) ->
    elab_stmt G (tdeclare ([] :: env) x t) b = EOk (b', tdeclare ([] :: env) x t) ->
    (forall e, In e (forexprs n t x i' c' nx b') -> tok e = true /\ lit_ok cs e) ->
    exec M fuel (SFor (Some (t, x, i)) (Some c) (Some (EAssign AAssign (EVar y) r)) b) st = RefSem.ROk (fl, st1) -> Agree gl args env st locals V A vs ->
    fl = ONormal /\ shape st1 = shape st /\
    exists locals' V' A' vs', forspec structs gl args n fuel t x i' c' nx b' cs locals V A vs = Some (locals', V', A', vs') /\ Agree gl args env st1 locals' V' A' vs'.
  Proof.
    intros Hd Hpc Hsn Hbb Hxg Hxa Hxe Ed Ec En Eb Hg Hex Hag. unfold forexprs in Hg.
    destruct fuel as [|fu]; [discriminate|]. rewrite exec_for_unfold in Hex. cbn zeta in Hex.
    destruct (exec M fu (SDecl t x i) (push_frame st)) as [[fld st0]| | |] eqn:Exd; cbn [rbind snd] in Hex; try discriminate.
    assert (Hdstop : stop n (SDecl t x i) = true) by (unfold stop, ssimple; cbn [desugar]; rewrite Hd; reflexivity).
    assert (Hgd : tgood cs n (TDecl t x i')).
    { intros e He. apply Hg. apply in_or_app. left. unfold topexprs in He. apply in_app_or in He as [He|He]; [exact He|]. destruct n; [destruct He|]. cbn [bexprs] in He. destruct He. }
    destruct (top_stmt_preserved M G structs gl args cs n (SDecl t x i) (TDecl t x i') ([] :: env) (tdeclare ([] :: env) x t) fu (push_frame st) fld st0 locals V A vs
                Hdstop Ed Hgd (conj Hxg Hxa) Exd (Agree_push gl args env st locals V A vs Hag)) as (_ & _ & _ & locals1 & V1 & A1 & vs1 & Ht1 & Hag1).
    pose proof (decl_shape M t x i fu st fld st0 Hd Exd) as Hsh0.
    destruct (for_loop M fu (Some c) (Some (EAssign AAssign (EVar y) r)) b st0) as [[fl2 st2]| | |] eqn:Exl; cbn [rbind] in Hex; try discriminate.
    inversion Hex; subst fl st1; clear Hex.
    assert (Hinc : In c' (stexprs (TDecl t x i') ++ c' :: bexprs 1 (TExpr nx) ++ bexprs n b')) by (apply in_or_app; right; left; reflexivity).
    destruct (Hg c' Hinc) as [Hkc Hlc].
    assert (Hgn : bgood cs 1 (TExpr nx)) by (intros e He; apply Hg; apply in_or_app; right; right; apply in_or_app; left; exact He).
    assert (Hgb : bgood cs n b') by (intros e He; apply Hg; apply in_or_app; right; right; apply in_or_app; right; exact He).
    destruct (src_forloop M G structs gl args cs n c y r b c' nx b' (tdeclare ([] :: env) x t) Hpc Hsn Hbb Ec En Eb Hkc Hlc Hgn Hgb fu st0 fl2 st2 locals1 V1 A1 vs1 Exl Hag1)
      as (-> & Hsh2 & V' & A' & vs' & Hw & Hag2).
    rewrite Hsh0 in Hsh2.
    split; [reflexivity|]. split; [apply (shape_pop1 _ _ _ Hsh2)|].
    exists locals1, V', A', vs'. split.
    - unfold forspec. rewrite Ht1. unfold fspec. rewrite (floop_mono structs gl args n cs locals1 c' nx b' fu V1 A1 vs1 _ Hw (S fu) (Nat.le_succ_diag_r fu)). reflexivity.
    - apply (Agree_pop1 gl args env st2 x t (shape st) locals1 V' A' vs' Hsh2 Hxe). exact Hag2.
  Qed.
End SrcFor2.
