(** * C04: swizzle reads and writes, element writes, component-wise arithmetic -- theorems on the lowering's index
    computation, on the VM model's arms, and their agreement with the reference semantics, for vectors of ANY size. *)
From Coq Require Import String Ascii ZArith List Arith Bool Lia PrimFloat.
From NSL Require Import Base.Types Base.Syntax Model.PyNum Model.IR Model.VM Model.Elab Model.Lower Model.Swizzle Spec.RefSem Proofs.OpsAgree.
Import ListNotations.

(** ** SHUFFLE as a list function *)
Lemma shuffle_list_nth {A} (comb : list A) : forall idxs out, shuffle_list comb idxs = Some out ->
  length out = length idxs /\ forall k i, nth_error idxs k = Some i -> nth_error out k = nth_error comb i /\ i < length comb.
Proof.
  induction idxs as [|i r IH]; intros out H; cbn in H.
  - inversion H; subst. split; [reflexivity|]. intros k j Hk. destruct k; discriminate.
  - destruct (nth_error comb i) as [x|] eqn:Ex; [|discriminate]. destruct (shuffle_list comb r) as [xs|] eqn:Er; [|discriminate].
    inversion H; subst. destruct (IH xs eq_refl) as [Hl Hn]. split; [cbn; congruence|].
    intros k j Hk. destruct k as [|k]; cbn in *.
    + inversion Hk; subst. split; [congruence|]. apply nth_error_Some. congruence.
    + apply Hn. exact Hk.
Qed.

Lemma shuffle_list_total {A} (comb : list A) : forall idxs, Forall (fun i => i < length comb) idxs -> exists out, shuffle_list comb idxs = Some out.
Proof.
  induction idxs as [|i r IH]; intros H; [exists []; reflexivity|].
  inversion H as [|? ? Hi Hr]; subst. destruct (IH Hr) as [xs Hx].
  destruct (nth_error comb i) as [x|] eqn:Ex; [|apply nth_error_None in Ex; lia].
  exists (x :: xs). cbn. rewrite Ex, Hx. reflexivity.
Qed.

(** ** swizzle read: any mask (any length, order, repetition) over existing components *)
Theorem swizzle_read_exact {A} (v : list A) (ws : list nat) : Forall (fun i => i < length v) ws ->
  exists out, shuffle_list (v ++ v) (read_indices ws) = Some out /\ length out = length ws /\
              forall k i, nth_error ws k = Some i -> nth_error out k = nth_error v i.
Proof.
  intros H. destruct (shuffle_list_total (v ++ v) ws) as [out Ho].
  - eapply Forall_impl; [|exact H]. intros i Hi. cbn in Hi. rewrite app_length. lia.
  - exists out. split; [exact Ho|]. destruct (shuffle_list_nth _ _ _ Ho) as [Hl Hn]. split; [exact Hl|].
    intros k i Hk. destruct (Hn k i Hk) as [E _]. rewrite E. apply nth_error_app1.
    rewrite Forall_forall in H. apply H. eapply nth_error_In; eauto.
Qed.

(** ** swizzle write: the index list built by the lowering *)
Lemma length_list_set' {A} (l : list A) n x : length (list_set l n x) = length l.
Proof. revert n; induction l; intros [|n]; cbn; auto. Qed.
Lemma nth_list_set_same {A} (l : list A) n x : n < length l -> nth_error (list_set l n x) n = Some x.
Proof. revert n; induction l; intros [|n] H; cbn in *; try lia; auto. apply IHl. lia. Qed.
Lemma nth_list_set_diff {A} (l : list A) n m x : n <> m -> nth_error (list_set l m x) n = nth_error l n.
Proof. revert n m; induction l; intros [|n] [|m] H; cbn; auto; try congruence. Qed.

Lemma write_loop_spec : forall ws acc n off, NoDup ws -> Forall (fun w => w < length acc) ws ->
  length (write_loop acc n off ws) = length acc /\
  (forall k w, nth_error ws k = Some w -> nth_error (write_loop acc n off ws) w = Some (n + off + k)) /\
  (forall j, ~ In j ws -> nth_error (write_loop acc n off ws) j = nth_error acc j).
Proof.
  induction ws as [|w r IH]; intros acc n off Hnd Hlt; cbn [write_loop].
  - split; [reflexivity|]. split; [intros k w Hk; destruct k; discriminate|reflexivity].
  - inversion Hnd as [|? ? Hnin Hnd']; subst. inversion Hlt as [|? ? Hw Hr]; subst.
    destruct (IH (list_set acc w (n + off)) n (S off) Hnd') as (L & W & O).
    { rewrite length_list_set'. exact Hr. }
    rewrite length_list_set' in L. split; [exact L|]. split.
    + intros k w' Hk. destruct k as [|k]; cbn in Hk.
      * inversion Hk; subst. rewrite (O w' Hnin). rewrite nth_list_set_same by exact Hw. f_equal. lia.
      * rewrite (W k w' Hk). f_equal. lia.
    + intros j Hj. rewrite O by (intro; apply Hj; right; assumption).
      apply nth_list_set_diff. intro; subst; apply Hj; left; reflexivity.
Qed.

(** Assigning through a swizzle changes exactly the selected components: component ws[k] receives new[k], every
    component the mask does not name keeps its old value -- for vectors of any size and any non-repeating mask. *)
Theorem swizzle_write_exact {A} (old new : list A) (ws : list nat) :
  NoDup ws -> Forall (fun w => w < length old) ws -> length new = length ws ->
  exists out, shuffle_list (old ++ new) (write_indices (length old) ws) = Some out /\ length out = length old /\
              (forall k w, nth_error ws k = Some w -> nth_error out w = nth_error new k) /\
              (forall j, j < length old -> ~ In j ws -> nth_error out j = nth_error old j).
Proof.
  intros Hnd Hlt Hlen. set (n := length old). unfold write_indices.
  destruct (write_loop_spec ws (seq 0 n) n 0 Hnd) as (L & W & O).
  { rewrite seq_length. exact Hlt. }
  rewrite seq_length in L.
  assert (Hin : Forall (fun i => i < length (old ++ new)) (write_loop (seq 0 n) n 0 ws)).
  { apply Forall_forall. intros i Hi. apply In_nth_error in Hi as [j Hj]. rewrite app_length. fold n.
    destruct (in_dec Nat.eq_dec j ws) as [Hjw|Hjw].
    - apply In_nth_error in Hjw as [k Hk]. rewrite (W k j Hk) in Hj. inversion Hj; subst.
      assert (k < length ws) by (apply nth_error_Some; congruence). lia.
    - rewrite (O j Hjw) in Hj. assert (j < n) by (rewrite <- (seq_length n 0); apply nth_error_Some; congruence).
      rewrite nth_error_nth' with (d := 0) in Hj by (rewrite seq_length; lia). rewrite seq_nth in Hj by lia. inversion Hj; subst. lia. }
  destruct (shuffle_list_total _ _ Hin) as [out Ho]. exists out. split; [exact Ho|].
  destruct (shuffle_list_nth _ _ _ Ho) as [Hl Hn]. split; [lia|]. split.
  - intros k w Hk. destruct (Hn w (n + 0 + k) (W k w Hk)) as [E _]. rewrite E.
    replace (n + 0 + k) with (length old + k) by (unfold n; lia). rewrite nth_error_app2 by lia. f_equal. lia.
  - intros j Hj Hnj. assert (Ej : nth_error (write_loop (seq 0 n) n 0 ws) j = Some j).
    { rewrite (O j Hnj). rewrite nth_error_nth' with (d := 0) by (rewrite seq_length; exact Hj). rewrite seq_nth by exact Hj. reflexivity. }
    destruct (Hn j j Ej) as [E _]. rewrite E. apply nth_error_app1. exact Hj.
Qed.

(** ** the VM model's SHUFFLE arm computes [shuffle_list] *)
Lemma shuffle_map_res (comb : list val) : forall idxs,
  map_res (fun jv => match jv with VInt j => match nth_error comb (Z.to_nat j) with Some x => Ok x | None => Err EIndex end | _ => Unmodelled end)
          (map (fun j => VInt (Z.of_nat j)) idxs)
  = match shuffle_list comb idxs with Some out => Ok out | None => Err EIndex end.
Proof.
  induction idxs as [|i r IH]; [reflexivity|]. cbn [map map_res shuffle_list]. rewrite Nat2Z.id.
  destruct (nth_error comb i) as [x|]; cbn [bind]; [|reflexivity].
  rewrite IH. destruct (shuffle_list comb r); reflexivity.
Qed.

Theorem step_shuffle_vector : forall F pc fr st i a b idxs pa pb l1 l2 out,
  i_body i = IShuffle a b idxs -> ty_is_scalar (i_ty i) = false ->
  rget fr a = Ok (VRef pa) -> rget fr b = Ok (VRef pb) ->
  hget (hp st) pa = Some (OList l1) -> hget (hp st) pb = Some (OList l2) ->
  shuffle_list (l1 ++ l2) idxs = Some out ->
  step F pc fr st i = StNext (S pc) (rset fr (i_ref i) (VRef (length (hp st)))) (with_heap st (hp st ++ [OList out])).
Proof.
  intros F pc fr st i a b idxs pa pb l1 l2 out Hb Hty Ha Hbb Hpa Hpb Hs.
  unfold step. rewrite Hb. rewrite Ha, Hbb. cbn [lift]. unfold get_list. rewrite Hpa, Hpb. cbn [lift].
  rewrite shuffle_map_res, Hs. cbn [lift]. rewrite Hty. reflexivity.
Qed.

(** ** component-wise arithmetic: the VM's vector arms compute what the reference semantics prescribes *)
Lemma zip_with_agrees (o : binop) : forall l1 l2 r,
  zip_r (eval_binop o) l1 l2 = ROk r ->
  Forall2 (fun a b => both_int a b = false \/ o <> ODiv) l1 l2 ->
  zip_with (scalar_op (scalar_opc o) false) (map v_of l1) (map v_of l2) = Ok (map v_of r).
Proof.
  induction l1 as [|x r1 IH]; intros [|y r2] r H HF; cbn in H; try discriminate.
  - inversion H; subst. reflexivity.
  - destruct (eval_binop o x y) as [z| | |] eqn:Ez; cbn in H; try discriminate.
    destruct (zip_r (eval_binop o) r1 r2) as [zs| | |] eqn:Ezs; cbn in H; try discriminate.
    inversion H; subst. inversion HF as [|? ? ? ? Hxy HF']; subst.
    cbn [map zip_with]. pose proof (scalar_op_agrees o x y z Ez) as Hs.
    assert (Hs' : scalar_op (scalar_opc o) false (v_of x) (v_of y) = Ok (v_of z)).
    { destruct Hxy as [Hb|Ho]; [rewrite Hb in Hs; exact Hs|].
      destruct (both_int x y); [|exact Hs]. destruct o; try congruence; exact Hs. }
    rewrite Hs'. cbn [bind]. rewrite (IH r2 zs Ezs HF'). reflexivity.
Qed.
