(** * Model of the LALR parser's behaviour on operator expressions: a shift-reduce machine whose only free choice
    -- reduce the operator on the stack or shift the lookahead operator -- is a table [decide] regenerated from the
    PLY tables on every run (translator T2). *)
From Coq Require Import List Arith Bool.
From NSL Require Import Base.Types Spec.Prec.
Import ListNotations.

Section SR.
Variable decide : binop -> binop -> bool.   (* operator on the stack, lookahead operator; true = reduce *)

(** a stack entry: [l o .] waiting for its right operand, or [a = .] *)
Inductive sentry := StkBin (l : ptree) (o : binop) | StkAsg (a : nat).
Definition stack := list sentry.

Fixpoint reduce_while (la : binop) (st : stack) (cur : ptree) : stack * ptree :=
  match st with
  | StkBin l o1 :: st' => if decide o1 la then reduce_while la st' (PNode o1 l cur) else (st, cur)
  | _ => (st, cur)      (* the assignment rule carries no precedence: PLY shifts *)
  end.
Fixpoint unwind (st : stack) (cur : ptree) : ptree :=
  match st with
  | StkBin l o1 :: st' => unwind st' (PNode o1 l cur)
  | StkAsg a :: st' => unwind st' (PAsg a cur)
  | [] => cur
  end.
Definition par_ok_b (t : ptree) : bool := match t with PNode _ _ _ | PPar _ => true | _ => false end.

Definition frame := (stack * option ptree)%type.

Fixpoint run (toks : list token) (fs : list frame) : option ptree :=
  match toks, fs with
  | [], [(st, Some cur)] => Some (unwind st cur)
  | KAtom a :: rest, (st, None) :: fs' => run rest ((st, Some (PLeaf a)) :: fs')
  | KAsg :: rest, (st, Some (PLeaf a)) :: fs' => run rest ((StkAsg a :: st, None) :: fs')
  | KL :: rest, (st, None) :: fs' => run rest (([], None) :: (st, None) :: fs')
  | KR :: rest, (st, Some cur) :: (st2, None) :: fs' =>
      let t := unwind st cur in
      if par_ok_b t then run rest ((st2, Some (PPar t)) :: fs') else None
  | KOp o :: rest, (st, Some cur) :: fs' =>
      let '(st', cur') := reduce_while o st cur in
      run rest ((StkBin cur' o :: st', None) :: fs')
  | _, _ => None
  end.

Definition parse (toks : list token) : option ptree := run toks [([], None)].
End SR.
