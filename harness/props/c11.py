"""C11 -- break and continue are accepted exactly inside loops."""
import os, json, itertools
from common import coq_list, parse_coq_values
import shapes, nslgen
from nslgen import *

STATIC = ["Base/Syntax.v", "Base/SyntaxInd.v", "Spec/Flow.v", "Model/Flow.v", "Proofs/FlowProofs.v"]

HEADER = """From Coq Require Import String ZArith List Bool Arith PrimFloat.
From NSL Require Import Base.Util Base.Types Base.Syntax Spec.Flow Model.Flow.
Import ListNotations.
Open Scope Z_scope.
(* impl: true = rejected with the break/continue diagnostic, false = accepted *)
Definition chk (m : module) (impl_rejected : bool) : Z :=
  verdict (Bool.eqb (negb (flow_ok_module m)) impl_rejected) (Bool.eqb (negb (spec_flow_ok_module m)) impl_rejected).
"""

COND = lambda: B("<", V("a"), I(3))
LEAF = lambda: ES(A(V("t"), B("+", V("t"), I(1))))


def shapes_upto(d, maxblock=2):
    """statement skeletons without flow statements; leaves are 'L'"""
    if d == 0:
        return ["L"]
    sub = shapes_upto(d - 1, maxblock)
    out = ["L"]
    for s in sub:
        out += [("blk", [s]), ("if", s), ("for", s), ("while", s), ("do", s)]
    for s1 in sub:
        for s2 in sub:
            out.append(("ifelse", s1, s2))
            if maxblock >= 2:
                out.append(("blk", [s1, s2]))
    return out


def leaves(s, path=()):
    if s == "L":
        return [path]
    k = s[0]
    if k == "blk":
        return [p for i, c in enumerate(s[1]) for p in leaves(c, path + (i,))]
    if k == "ifelse":
        return leaves(s[1], path + (0,)) + leaves(s[2], path + (1,))
    return leaves(s[1], path + (0,))


def build(s, repl, path=(), counter=[0]):
    """skeleton -> NSL-JSON statement; repl maps leaf paths to 'break'/'continue'"""
    if s == "L":
        r = repl.get(path)
        return Break() if r == "break" else Continue() if r == "continue" else LEAF()
    k = s[0]
    if k == "blk":
        return Block([build(c, repl, path + (i,), counter) for i, c in enumerate(s[1])])
    if k == "if":
        return If(COND(), build(s[1], repl, path + (0,), counter))
    if k == "ifelse":
        t = build(s[1], repl, path + (0,), counter)
        return If(COND(), t, build(s[2], repl, path + (1,), counter))
    if k == "for":
        counter[0] += 1
        n = "i%d" % counter[0]
        return For(Decl("int", n, I(0)), B("<", V(n), I(2)), Pre("++", n), build(s[1], repl, path + (0,), counter))
    if k == "while":
        return While(COND(), build(s[1], repl, path + (0,), counter))
    if k == "do":
        b = build(s[1], repl, path + (0,), counter)
        return Do(b if b["k"] == "block" else Block([b]), COND())


def build_rt(s, repl, rng, path=(), st=None, cnt=None):
    """terminating variant: every loop has its own counter (2 iterations), leaves add distinct weights to the
    trace t, break/continue are guarded by the innermost counter half of the time"""
    if st is None:
        st = {"n": 0, "w": 0}
    if s == "L":
        r = repl.get(path)
        if r in ("break", "continue"):
            fl = Break() if r == "break" else Continue()
            if cnt is not None and rng.random() < 0.6:
                return If(B("==", V(cnt), I(1)), fl)
            return fl
        st["w"] += 1
        return ES(A(V("t"), B("+", V("t"), I(st["w"] * st["w"] + 1))))
    k = s[0]
    if k == "blk":
        return Block([build_rt(c, repl, rng, path + (i,), st, cnt) for i, c in enumerate(s[1])])
    if k == "if":
        return If(B("<", V("t"), I(40)), build_rt(s[1], repl, rng, path + (0,), st, cnt))
    if k == "ifelse":
        return If(B("==", B("%", V("t"), I(2)), I(0)), build_rt(s[1], repl, rng, path + (0,), st, cnt), build_rt(s[2], repl, rng, path + (1,), st, cnt))
    st["n"] += 1
    n = "c%d" % st["n"]
    if k == "for":
        return For(Decl("int", n, I(0)), B("<", V(n), I(3)), Pre("++", n), build_rt(s[1], repl, rng, path + (0,), st, n))
    body = build_rt(s[1], repl, rng, path + (0,), st, n)
    body = body if body["k"] == "block" else Block([body])
    body["b"].insert(0, ES(A(V(n), B("+", V(n), I(1)))))
    if k == "while":
        return Block([Decl("int", n, I(0)), While(B("<", V(n), I(3)), body)])
    return Block([Decl("int", n, I(0)), Do(body, B("<", V(n), I(3)))])


def program_rt(s, repl, rng):
    body = [Decl("int", "t", V("a")), build_rt(s, repl, rng), Ret(V("t"))]
    return Module([Func("f", [Arg("int", "a")], "int", Block(body), export=True)])


def program(s, repl):
    body = [Decl("int", "t", I(0)), build(s, repl, (), [0]), Ret(V("t"))]
    return Module([Func("f", [Arg("int", "a")], "int", Block(body), export=True)])


def run(ctx):
    ctx.static_obligations(STATIC)
    repo = ctx.sync_repo(1)[0]
    shapes.write(ctx, repo, ["flow", "compiler", "pass", "visitor"])
    ctx.compile_dyn(["Gen_Shapes", "Props_C11"])
    rng = ctx.rng
    quick = ctx.tier == "quick"
    progs = []
    # exhaustive: every skeleton up to depth 2 (blocks of one or two statements) x every leaf position x {break, continue}
    base = shapes_upto(2, 2)
    for s in base:
        progs.append((s, {}))
        for p in leaves(s):
            for w in ("break", "continue"):
                progs.append((s, {p: w}))
    n_ex = len(progs)
    deep = shapes_upto(3, 1)
    pick = deep if not quick else rng.sample(deep, 150)
    for s in pick:
        ls = leaves(s)
        if quick:
            p = rng.choice(ls); progs.append((s, {p: rng.choice(["break", "continue"])}))
        else:
            for p in ls:
                for w in ("break", "continue"):
                    progs.append((s, {p: w}))
    # several flow statements at once
    deep2 = shapes_upto(3, 2)
    for _ in range(200 if quick else 5000):
        s = rng.choice(deep2)
        ls = leaves(s)
        repl = {p: rng.choice(["break", "continue"]) for p in rng.sample(ls, min(len(ls), rng.choice([1, 2, 3])))}
        progs.append((s, repl))
    jobs, mods = [], []
    for k, (s, repl) in enumerate(progs):
        m = program(s, repl)
        text, _ = nslgen.render(m, ["canonical", "dense", "lines"][k % 3], rng)
        jobs.append({"src": text, "opts": {"optimize": bool(k % 2)}})
        mods.append(m)
    res = ctx.run_impl("compile_impl.py", jobs, nworkers=16)
    lines, meta, direct_bad = [], [], []
    dist = {"accepted": 0, "rejected_flow": 0, "rejected_other": 0, "with_flow_stmt": 0}
    for j, m, r, (s, repl) in zip(jobs, mods, res, progs):
        dist["with_flow_stmt"] += 1 if repl else 0
        if r["accept"]:
            rej = False; dist["accepted"] += 1
        elif r["how"].get("code") in (2201, 2202):
            rej = True; dist["rejected_flow"] += 1
        else:
            dist["rejected_other"] += 1
            direct_bad.append((j, r)); continue
        lines.append("chk %s %s" % (nslgen.coq_module(m), "true" if rej else "false")); meta.append((j, r))
    files, per = [], 300
    for k in range(0, len(lines), per):
        f = os.path.join(ctx.dyn, "cases_C11_%d.v" % (k // per))
        open(f, "w").write(HEADER + "Definition cases : list Z := [\n  " + ";\n  ".join(lines[k:k + per]) + "].\nEval vm_compute in cases.\n")
        files.append(f)
    outs = ctx.eval_cases(files)
    codes = []
    for f in files:
        ok, out, err = outs[f]
        vals = parse_coq_values(out) if ok else []
        if not ok or not vals or not isinstance(vals[0], list):
            ctx.broken.append("correspondence: %s did not evaluate: %s" % (os.path.basename(f), err[-300:]))
            codes.extend([None] * min(per, len(lines) - len(codes)))
        else:
            codes.extend(vals[0])
    bad_model = [x for x, c in zip(meta, codes) if c is not None and c & 1]
    bad_spec = [x for x, c in zip(meta, codes) if c is not None and c & 2]
    # ---- second half: an accepted break/continue refers to the innermost enclosing loop (run-time effect)
    import vmcases
    rt = []
    accepted = [(s_, repl) for (s_, repl), r in zip(progs, res) if r["accept"] and repl]
    for (s_, repl) in rng.sample(accepted, min(len(accepted), 160 if quick else 2000)):
        m = program_rt(s_, repl, rng)
        text, _ = nslgen.render(m, "canonical", rng)
        calls = [{"fn": "f", "args": {"a": a}, "globals": {}, "read_globals": []} for a in (0, 1, 50)]
        rt.append((m, calls, text))
    res2 = ctx.run_impl("compile_impl.py", [vmcases.job(t, c, optimize=bool(k % 2)) for k, (m, c, t) in enumerate(rt)], nworkers=16)
    blocks, meta2 = [], []
    for k, ((m, calls, text), r) in enumerate(zip(rt, res2)):
        if not r["accept"] or "ir" not in r:
            direct_bad.append(({"src": text, "opts": {}}, r)); continue
        blocks.append(vmcases.case_block(k, m, r, calls, with_ir=(k % 2 == 0))); meta2.append(({"src": text, "opts": {"optimize": bool(k % 2)}}, r))
    files2 = vmcases.write_case_files(ctx, "C11rt", blocks)
    outs2 = ctx.eval_cases(files2, timeout=900)
    codes2 = vmcases.collect_codes(ctx, files2, outs2, len(blocks))
    rt_bad_spec = [x for x, c in zip(meta2, codes2) if c is not None and c & 2]
    rt_bad_model = [x for x, c in zip(meta2, codes2) if c is not None and (c & 1 or (c & 16 and not c & 64))]
    dist["runtime_programs"] = len(rt)
    dist["runtime_spec_skipped"] = sum(1 for c in codes2 if c is not None and c & 8)
    bad_spec = bad_spec + [({"src": j["src"], "opts": j["opts"]}, {"calls": r.get("calls")}) for j, r in rt_bad_spec]
    bad_model = bad_model + rt_bad_model
    ctx.cov["evaluations"] = len(jobs) + 3 * len(rt)
    ctx.cov["distinct_nontrivial"] = len({j["src"] for j in jobs if ("break" in j["src"] or "continue" in j["src"])})
    ctx.cov["rule"] = ("every statement skeleton up to depth 2 over {block(1-2 statements), if, if/else, for, while, do} with a break or a continue at every "
                       "leaf position (exhaustive, %d programs), depth-3 skeletons (thorough: all positions; quick: sampled) and random skeletons with up to three "
                       "flow statements; compiled by the real compiler at both optimisation settings in three layouts; accept / rejection-by-flow-diagnostic compared "
                       "inside Coq with the model (depth counter) and the specification (path based). Second half: the accepted programs are rebuilt with one counter per "
                       "loop and weighted trace leaves, run on the real VM on three inputs and compared inside Coq with the reference semantics (break leaves / continue re-tests "
                       "the innermost loop) and the VM model. Non-trivial: contains a break or continue; distinct by text." % n_ex)
    ctx.cov["samples"] = [{"source": j["src"], "impl": r} for j, r in (meta[40:42] + meta[-1:])]
    ctx.extra["input_distribution"] = dist
    ctx.extra["disagreements_checked"] = len(codes)
    if bad_spec or direct_bad:
        j, r = min(bad_spec or direct_bad, key=lambda x: len(x[0]["src"]))
        ctx.violation("failing-input", {"what": "accept/reject differs from 'rejected exactly when a break/continue is outside every loop', or the run-time effect of an accepted break/continue differs from leaving / re-testing the innermost enclosing loop",
                                        "source": j["src"], "options": j["opts"], "observed": r, "count": len(bad_spec) + len(direct_bad)})
    elif bad_model:
        j, r = bad_model[0]
        ctx.broken.append("correspondence: compiler differs from NSL.Model.Flow on %d program(s), e.g. %s" % (len(bad_model), j["src"][:200]))
