"""C09 -- Operator typing: accepted operand combinations, result type, conversions."""
import os, json, itertools
from common import TranslatorAbort, coq_list, parse_coq_values
from translate import t_types

STATIC = ["Base/Types.v", "Spec/Typing.v", "Model/TypesBin.v", "Proofs/TypesBinProofs.v"]
OPS = ["||", "&&", "==", "!=", "<", "<=", ">", ">=", "+", "-", "*", "/", "%"]
OPC = dict(zip(OPS, ["OLor", "OLand", "OEq", "ONe", "OLt", "OLe", "OGt", "OGe", "OAdd", "OSub", "OMul", "ODiv", "OMod"]))
CC = {"f": "CFloat", "i": "CInt", "u": "CUInt"}
SPELL = {"f": "float", "i": "int", "u": "uint"}

HEADER = """From Coq Require Import String ZArith List Bool Arith.
From NSL Require Import Base.Util Base.Types Spec.Typing Model.TypesBin.
Import ListNotations.
Open Scope Z_scope.
Inductive impl_res := IOk (res l r : pty) | ICompile | IAssert | IOther | IBogus.  (* IBogus: returned normally, but not three well-formed types *)
Definition model_eqb (m : resolved) (i : impl_res) : bool :=
  match m, i with
  | ROk a b c, IOk a' b' c' => pty_eqb a a' && pty_eqb b b' && pty_eqb c c'
  | RFail RCompile, ICompile => true
  | RFail RAssert, IAssert => true
  | _, _ => false end.
Definition spec_okb (s : typing) (i : impl_res) : bool :=
  match s, i with
  | Undefined, _ => true
  | Rejected, (ICompile | IAssert | IOther) => true
  | Typed rs L R, IOk a b c => existsb (pty_eqb a) rs && pty_eqb b L && pty_eqb c R
  | _, _ => false end.
Definition chk (o : binop) (l r : pty) (i : impl_res) : Z :=
  verdict (model_eqb (resolve_binop o l r) i) (spec_okb (spec_binop o l r) i).
(* end to end: what the language defines for a spellable triple *)
Definition e2e (o : binop) (l r : pty) : Z * list pty :=
  match spec_binop o l r with Rejected => (0, []) | Undefined => (2, []) | Typed rs _ _ => (1, rs) end.
"""


def cty(t):
    if t[0] == "S": return "(PScalar %s)" % CC[t[1]]
    if t[0] == "V": return "(PVec %s %d)" % (CC[t[1]], t[2])
    if t[0] == "M": return "(PMat %s %d %d)" % (CC[t[1]], t[2], t[3])
    return "(PScalar CFloat)"


def universe():
    u = []
    for c in "fiu":
        u.append(["S", c])
        for n in range(1, 5):
            u.append(["V", c, n])
        for r in range(1, 5):
            for k in range(1, 5):
                u.append(["M", c, r, k])
    return u


SPELLABLE = ([["S", c] for c in "fiu"] + [["V", c, n] for c in "fiu" for n in (2, 3, 4)] + [["M", "f", 3, 3], ["M", "f", 4, 4]])


def spell(t):
    if t[0] == "S": return SPELL[t[1]]
    if t[0] == "V": return "%s%d" % (SPELL[t[1]], t[2])
    return "%s%dx%d" % (SPELL[t[1]], t[2], t[3])


def irstr(t):
    e = SPELL[t[1]]
    if t[0] == "S": return e
    if t[0] == "V": return "<%d × %s>" % (t[2], e)
    return "<%d × <%d × %s>>" % (t[2], t[3], e)


def run(ctx):
    ctx.static_obligations(STATIC)
    repo = ctx.sync_repo(1)[0]
    try:
        open(os.path.join(ctx.dyn, "Gen_Types.v"), "w").write(t_types.generate(repo))
        ctx.compile_dyn(["Gen_Types", "Agree_Types", "Props_C09"])
    except TranslatorAbort as e:
        ctx.broken.append("translator T1/T6 (op.py, types.py) aborted: %s" % e)
        ctx.obligations.append({"name": "T1T6.translate", "ok": False})
    U = universe()
    triples = [(o, l, r) for o in OPS for l in U for r in U]          # 13 * 63 * 63 = 51597, exhaustive
    jobs = [{"k": "iface", "triples": triples[i:i + 1500]} for i in range(0, len(triples), 1500)]
    # end to end over the spellable types (exhaustive: 13 * 14 * 14 = 2548 triples, two programs each)
    e2e_triples = [(o, l, r) for o in OPS for l in SPELLABLE for r in SPELLABLE]
    ejobs = []
    for i in range(0, len(e2e_triples), 80):
        chunk = []
        for (o, l, r) in e2e_triples[i:i + 80]:
            chunk.append((o, spell(l), spell(r), None, None))
        ejobs.append(chunk)
    res = ctx.run_impl("c09_impl.py", jobs, nworkers=16)
    flat = [x for chunk in res for x in chunk]
    lines = []
    for (o, l, r), x in zip(triples, flat):
        if x[0] == "ok" and all(t is not None and t[0] != "?" for t in x[1:]):
            i = "(IOk %s %s %s)" % (cty(x[1]), cty(x[2]), cty(x[3]))
        elif x[0] == "ok":
            i = "IBogus"
        elif x[0] == "compile":
            i = "ICompile"
        elif x[0] == "assert":
            i = "IAssert"
        else:
            i = "IOther"
        lines.append("chk %s %s %s %s" % (OPC[o], cty(l), cty(r), i))
    files, per = [], 2600
    for k in range(0, len(lines), per):
        f = os.path.join(ctx.dyn, "cases_C09_%d.v" % (k // per))
        open(f, "w").write(HEADER + "Definition cases : list Z := [\n  " + ";\n  ".join(lines[k:k + per]) + "].\nEval vm_compute in cases.\n")
        files.append(f)
    # expectations for the end-to-end part are computed by the specification inside Coq
    f2 = os.path.join(ctx.dyn, "cases_C09_e2e.v")
    open(f2, "w").write(HEADER + "Definition cases := [\n  " + ";\n  ".join(
        "e2e %s %s %s" % (OPC[o], cty(l), cty(r)) for (o, l, r) in e2e_triples) + "].\n"
        "Definition enc (p : pty) : list Z := match p with PScalar c => [0; match c with CFloat => 0 | CInt => 1 | CUInt => 2 end; 0; 0]"
        " | PVec c n => [1; match c with CFloat => 0 | CInt => 1 | CUInt => 2 end; Z.of_nat n; 0]"
        " | PMat c r k => [2; match c with CFloat => 0 | CInt => 1 | CUInt => 2 end; Z.of_nat r; Z.of_nat k] end.\n"
        "Eval vm_compute in map (fun x => (fst x, map enc (snd x))) cases.\n")
    outs = ctx.eval_cases(files + [f2])
    codes = []
    for f in files:
        ok, out, err = outs[f]
        vals = parse_coq_values(out) if ok else []
        if not ok or not vals or not isinstance(vals[0], list):
            ctx.broken.append("correspondence: %s did not evaluate: %s" % (os.path.basename(f), err[-300:]))
            codes.extend([None] * min(per, len(lines) - len(codes)))
        else:
            codes.extend(vals[0])
    bad_model = [(t, x) for (t, x, c) in zip(triples, flat, codes) if c is not None and c & 1]
    bad_spec = [(t, x) for (t, x, c) in zip(triples, flat, codes) if c is not None and c & 2]
    # ---- end to end
    ok, out, err = outs[f2]
    expect = parse_coq_values(out)[0] if ok else None
    e2e_bad, known_hits, e2e_n = [], {}, 0
    if expect is None or len(expect) != len(e2e_triples):
        ctx.broken.append("correspondence: end-to-end expectations did not evaluate: %s" % err[-300:])
    else:
        dec = {0: "S", 1: "V", 2: "M"}
        cdec = {0: "f", 1: "i", 2: "u"}
        def dect(e):
            k = dec[e[0]]
            return [k, cdec[e[1]]] + ([e[2]] if k == "V" else [e[2], e[3]] if k == "M" else [])
        ejobs2, plan = [], []
        for (o, l, r), (status, rs) in zip(e2e_triples, expect):
            rts = [dect(e) for e in rs]
            spellable_rts = [t for t in rts if t in SPELLABLE]
            T = spell(spellable_rts[0]) if spellable_rts else "float"
            gts = None
            if status == 1 and spellable_rts:
                base = spellable_rts[0]
                gts = [spell([base[0], c] + base[2:]) for c in "fiu" if ([base[0], c] + base[2:]) in SPELLABLE]
            ejobs2.append((o, spell(l), spell(r), T, gts)); plan.append((status, rts, gts))
        jobs2 = [{"k": "e2e", "triples": ejobs2[i:i + 40]} for i in range(0, len(ejobs2), 40)]
        res2 = [x for chunk in ctx.run_impl("c09_impl.py", jobs2, nworkers=16) for x in chunk]
        kf = ctx.known_findings()
        for (o, l, r), (status, rts, gts), x in zip(e2e_triples, plan, res2):
            e2e_n += 1
            src = "function f(%s a, %s b) -> T { return a %s b; }" % (spell(l), spell(r), o)
            problem = None
            if status == 2:
                continue
            rej = "reject" in x["ret"]
            if status == 0 and not rej:
                problem = "accepted although the language rejects this combination"
            elif status == 1 and rej:
                problem = "rejected although the language defines this combination: %s" % x["ret"]["reject"]
            elif status == 1:
                if x["ret"]["type"] not in [irstr(t) for t in rts]:
                    problem = "static type of the result is %s, expected one of %s" % (x["ret"]["type"], [irstr(t) for t in rts])
                elif gts and "call" in x:
                    if "reject" in x["call"]:
                        problem = "g(a %s b) rejected: %s" % (o, x["call"]["reject"])
                    else:
                        want = "`" + spell([t for t in rts if t in SPELLABLE][0])
                        if not (x["call"]["callee"] or "").endswith(want):
                            problem = "g(a %s b) resolved to %s, expected the overload taking %s" % (o, x["call"]["callee"], want[1:])
            if problem:
                case = {"source": src, "op": o, "left": spell(l), "right": spell(r), "problem": problem, "observed": x}
                hit = None
                for e in kf:
                    if classify(e["classifier"], o, l, r, x):
                        hit = e; break
                if hit:
                    known_hits.setdefault(hit["id"], []).append(case)
                else:
                    e2e_bad.append(case)
        for e in kf:
            if e["id"] in known_hits:
                ctx.report_known(e, "%d spellable triples" % len(known_hits[e["id"]]))
    ctx.cov["evaluations"] = len(triples) + 2 * e2e_n
    ctx.cov["distinct_nontrivial"] = len(triples) + e2e_n
    ctx.cov["exhaustive"] = True
    ctx.cov["rule"] = ("exhaustive: all 13 x 63 x 63 = 51597 (operator, left, right) triples of the internal type universe through "
                       "nsl.types.ResolveBinaryExpressionType, compared inside Coq with the model (result, both operand types, kind of rejection) "
                       "and with the specification; all 13 x 14 x 14 = 2548 spellable triples end to end (accept/reject of "
                       "`function f(L a, R b) -> T { return a OP b; }`, static type of the returned IR value, overload selected by g(a OP b)). "
                       "Every triple is distinct; all are counted non-trivial.")
    ctx.cov["samples"] = [{"triple": t, "impl": x} for t, x in list(zip(triples, flat))[20000:20003]] + [{"e2e": e2e_triples[700]}]
    ctx.extra["input_distribution"] = {"interface_triples": len(triples), "e2e_triples": e2e_n,
                                       "impl_accepts": sum(1 for x in flat if x[0] == "ok"), "impl_compile_rejects": sum(1 for x in flat if x[0] == "compile"),
                                       "impl_assert_rejects": sum(1 for x in flat if x[0] == "assert"), "impl_other": sum(1 for x in flat if x[0] == "other"),
                                       "known_finding_triples": {k: len(v) for k, v in known_hits.items()}}
    ctx.extra["disagreements_checked"] = len(codes) + e2e_n
    if bad_spec:
        t, x = bad_spec[0]
        ctx.violation("failing-input", {"what": "ResolveBinaryExpressionType disagrees with the language definition", "operator": t[0], "left": t[1], "right": t[2],
                                        "observed": x, "count": len(bad_spec), "call": "nsl.types.ResolveBinaryExpressionType(op.StrToOp(operator), left, right)"})
    elif e2e_bad:
        classes = {}
        for c in e2e_bad:
            key = "%s %s %s : %s" % (c["left"].rstrip("234x"), c["op"], c["right"].rstrip("234x"), c["problem"][:70])
            classes[key] = classes.get(key, 0) + 1
        ctx.violation("failing-input", dict(e2e_bad[0], what="end-to-end typing differs from the language definition", count=len(e2e_bad), classes=classes))
    elif bad_model:
        t, x = bad_model[0]
        ctx.broken.append("correspondence: ResolveBinaryExpressionType differs from NSL.Model.TypesBin on %d triple(s), e.g. %s -> %s" % (len(bad_model), t, x))


def classify(name, o, l, r, x):
    """deterministic predicates on a failing end-to-end case (known_findings.json 'classifier')"""
    rej = x["ret"].get("reject")
    nonscalar_same = l[0] == r[0] and l[0] in ("V", "M")
    if name == "c09_vector_matrix_mod_logic_unlowered":
        return bool(rej) and o in ("%", "&&", "||") and nonscalar_same and rej[2] == "lower"
    if name == "c09_scalar_times_matrix_unlowered":
        return bool(rej) and o == "*" and l[0] == "S" and r[0] == "M" and rej[2] == "lower"
    if name == "c09_matrix_div_mul_scalar_overload_probe":
        return False
    return False
