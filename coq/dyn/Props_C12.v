(** * C12 -- No two visible variables share a name; references bind lexically.  Statements only. *)
From Coq Require Import String ZArith List Bool Arith.
From NSL Require Import Base.Types Base.Syntax Spec.Scope Model.Names Proofs.ScopeProofs Proofs.UsesProofs.
From NSLDyn Require Gen_Shapes.
Import ListNotations.
Open Scope string_scope.

(** For every program: the chain-of-tables check of ValidateVariableNames passes exactly when no declaration
    (global, parameter, local, loop header, unbraced branch) names something visible at its point in the flat
    lexical specification; disjoint sibling scopes may reuse names. *)
Theorem C12_redeclaration_exact : forall m, pok (vn_module m) = decl_module m.
Proof. exact vn_module_decl. Qed.

(** statement level, for any chain representing any visible set (the form the C01 simulation uses) *)
Theorem C12_redeclaration_exact_stmt : forall s c vis, rep c vis ->
    pok (fst (vn_stmt c s)) = fst (decl_stmt vis s) /\
    (fst (decl_stmt vis s) = true -> rep (snd (vn_stmt c s)) (snd (decl_stmt vis s))).
Proof. exact vn_stmt_decl. Qed.

(** a name used in an expression is accepted by the typing scopes exactly when it is in the visible set *)
Theorem C12_use_lookup_exact : forall c vis e, rep c vis -> pok (ct_expr c e) = bound vis e.
Proof. exact ct_expr_bound. Qed.

(** Uses, whole programs: in a program without redeclarations the typing scopes of ComputeTypes (a stack of tables pushed
    per block / loop / if / function, looked up innermost first, stopping at the first unknown name) accept exactly
    the programs in which every used name -- in initialisers, conditions, loop headers, unbraced branches, after a
    scope has closed -- is visible where it stands in the flat lexical specification. *)
Theorem C12_uses_exact : forall m, decl_module m = true -> pok (ct_module m) = use_module m.
Proof. exact ct_module_use. Qed.

Theorem C12_same_scope_is_visible : forall c vis x, rep c vis ->
    pok (fst (ct_register c x)) = false -> mem x vis = true.
Proof. exact ct_register_implies_visible. Qed.

Theorem C12_validator_shape : Gen_Shapes.shape_names_checked = true.
Proof. reflexivity. Qed.

Definition tint := TPrim (PScalar CInt).
Example C12_examples :
  let f b := {| f_name := "f"; f_export := true; f_args := [(tint, "a")]; f_ret := tint; f_body := b |} in
  let m b := {| m_structs := []; m_globals := [(tint, "g")]; m_funcs := [f b] |} in
  (* sibling scopes may reuse a name *)
  names_ok (m [SBlock [SDecl tint "x" None]; SBlock [SDecl tint "x" None]; SRet (Some (EVar "a"))]) = true /\
  (* a parameter, a global, an enclosing block's variable are visible *)
  names_ok (m [SBlock [SDecl tint "a" None]]) = false /\
  names_ok (m [SFor (Some (tint, "i", None)) None None (SBlock [SDecl tint "g" None])]) = false /\
  scope_accepts (m [SBlock [SDecl tint "x" None]; SExpr (EVar "x")]) = false.
Proof. vm_compute. repeat split; reflexivity. Qed.

Eval compute in "ASSUMPTIONS C12_redeclaration_exact"%string. Print Assumptions C12_redeclaration_exact.
Eval compute in "ASSUMPTIONS C12_use_lookup_exact"%string. Print Assumptions C12_use_lookup_exact.
Eval compute in "ASSUMPTIONS C12_uses_exact"%string. Print Assumptions C12_uses_exact.
Eval compute in "END"%string.
