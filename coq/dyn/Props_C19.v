(** * C19 -- Wasm writer: integers, names and section sizes decode to what was written.
    Statements only; each is closed by [exact]/rewriting with a lemma proved elsewhere.
    The packers are the ones regenerated from nsl/WebAssembly.py on this run. *)
From Coq Require Import String ZArith List Bool Lia.
From NSL Require Import Spec.Leb128 Model.WasmPack Proofs.Leb128Proofs.
From NSLDyn Require Gen_WasmPack Agree_WasmPack.
Import ListNotations.
Open Scope Z_scope.

(** counts, sizes, indices: unsigned LEB128, whole u32 range (indeed every v >= 0) *)
Theorem C19_unsigned_roundtrip : forall v rest, 0 <= v < 2 ^ 32 ->
    uleb_decode (Gen_WasmPack.pack_integer v ++ rest) = Some (v, rest).
Proof. intros v rest H. rewrite Agree_WasmPack.agree_pack_integer. apply unsigned_roundtrip. apply H. Qed.

(** i32.const immediates: signed LEB128, whole i32 range (indeed every v) *)
Theorem C19_signed_roundtrip : forall v rest, - 2 ^ 31 <= v < 2 ^ 31 ->
    sleb_decode (Gen_WasmPack.pack_signed v ++ rest) = Some (v, rest).
Proof. intros v rest _. rewrite Agree_WasmPack.agree_pack_signed. apply signed_roundtrip. Qed.

(** the writer uses the signed packer exactly for i32.const *)
Theorem C19_const_uses_signed : forall opc,
    Gen_WasmPack.imm_writer opc = Gen_WasmPack.ImmSigned <-> opc = 65.
Proof.
  intros opc. rewrite Agree_WasmPack.agree_imm_writer.
  destruct (Z.eqb_spec opc 67); destruct (Z.eqb_spec opc 65); split; intros; subst; try discriminate; try lia; auto.
Qed.

(** length-prefixed byte strings (names after UTF-8 encoding) and their UTF-8 reading *)
Theorem C19_bytes_vec_roundtrip : forall bs rest,
    decode_vec_bytes (Gen_WasmPack.write_bytes_vec bs ++ rest) = Some (bs, rest).
Proof. intros. rewrite Agree_WasmPack.agree_write_bytes_vec. apply vec_bytes_roundtrip. Qed.

Theorem C19_name_roundtrip : forall cs rest, forallb is_scalar_value cs = true ->
    decode_name (Gen_WasmPack.write_bytes_vec (utf8_encode cs) ++ rest) = Some (cs, rest).
Proof. intros. rewrite Agree_WasmPack.agree_write_bytes_vec. apply name_roundtrip. assumption. Qed.

(** section sizes: one section, and a whole module of any number of sections of any sizes, are framed exactly
    (the size field is the regenerated unsigned packer; the id/size/payload layout of [write_section] is the
    hand-written model of <X>Section.WriteTo, tied to the code by the whole-module cases of the correspondence) *)
Theorem C19_section_roundtrip : forall id payload rest,
    decode_section (id :: Gen_WasmPack.pack_integer (Z.of_nat (length payload)) ++ payload ++ rest) = Some (id, payload, rest).
Proof.
  intros. rewrite Agree_WasmPack.agree_pack_integer.
  change (id :: pack_integer (Z.of_nat (length payload)) ++ payload ++ rest) with
         (id :: (pack_integer (Z.of_nat (length payload)) ++ payload ++ rest)).
  rewrite app_assoc. exact (section_roundtrip id payload rest).
Qed.

Theorem C19_module_framing : forall secs,
    split_module (wasm_preamble ++ write_sections secs) = Some secs.
Proof. exact module_framing_roundtrip. Qed.

(** body sizes and export entries: the payload of a code section (count, then every body behind its size) and of an
    export section (count, then name / kind byte / index) are recovered for any number of bodies and exports;
    the correspondence requires every emitted code / export payload to EQUAL these writers applied to what was decoded *)
Theorem C19_code_section_roundtrip : forall bodies,
    decode_code_section (write_code_payload bodies) = Some bodies.
Proof. exact code_section_roundtrip. Qed.

Theorem C19_export_section_roundtrip : forall es, forallb export_ok es = true ->
    decode_export_section (write_export_payload es) = Some es.
Proof. exact export_section_roundtrip. Qed.

Example C19_export_premise_met : forallb export_ok [([102; 228; 8364], 0, 3); ([], 0, 0)] = true.
Proof. reflexivity. Qed.

(** non-vacuity: concrete values at group and sign boundaries *)
Example C19_examples :
  Gen_WasmPack.pack_integer 624485 = [229; 142; 38] /\ Gen_WasmPack.pack_signed (-123456) = [192; 187; 120] /\
  Gen_WasmPack.pack_signed 64 = [192; 0] /\ Gen_WasmPack.pack_signed (-65) = [191; 127] /\
  sleb_decode (Gen_WasmPack.pack_signed (- 2 ^ 31)) = Some (- 2 ^ 31, []).
Proof. vm_compute. repeat split; reflexivity. Qed.

Eval compute in "ASSUMPTIONS C19_unsigned_roundtrip"%string. Print Assumptions C19_unsigned_roundtrip.
Eval compute in "ASSUMPTIONS C19_signed_roundtrip"%string. Print Assumptions C19_signed_roundtrip.
Eval compute in "ASSUMPTIONS C19_const_uses_signed"%string. Print Assumptions C19_const_uses_signed.
Eval compute in "ASSUMPTIONS C19_bytes_vec_roundtrip"%string. Print Assumptions C19_bytes_vec_roundtrip.
Eval compute in "ASSUMPTIONS C19_name_roundtrip"%string. Print Assumptions C19_name_roundtrip.
Eval compute in "ASSUMPTIONS C19_section_roundtrip"%string. Print Assumptions C19_section_roundtrip.
Eval compute in "ASSUMPTIONS C19_module_framing"%string. Print Assumptions C19_module_framing.
Eval compute in "ASSUMPTIONS C19_code_section_roundtrip"%string. Print Assumptions C19_code_section_roundtrip.
Eval compute in "ASSUMPTIONS C19_export_section_roundtrip"%string. Print Assumptions C19_export_section_roundtrip.
Eval compute in "END"%string.
