"""Implementation side of C09: nsl.types.ResolveBinaryExpressionType on type triples, and end-to-end compiles."""
import sys, json, io, contextlib, traceback
from nsl import types, op, Errors, Compiler, LinearIR

COMP = {"f": types.Float, "i": types.Integer, "u": types.UnsignedInteger}
RCOMP = {types.Float: "f", types.Integer: "i", types.UnsignedInteger: "u"}

def mk(t):
    if t[0] == "S": return COMP[t[1]]()
    if t[0] == "V": return types.VectorType(COMP[t[1]](), t[2])
    return types.MatrixType(COMP[t[1]](), t[2], t[3])

def enc(t):
    if t is None: return None
    if isinstance(t, types.VectorType): return ["V", RCOMP[type(t.GetComponentType())], t.GetComponentCount()]
    if isinstance(t, types.MatrixType): return ["M", RCOMP[type(t.GetComponentType())], t.GetRowCount(), t.GetColumnCount()]
    if type(t) in RCOMP: return ["S", RCOMP[type(t)]]
    return ["?", repr(t)]

def iface(o, l, r):
    try:
        e = types.ResolveBinaryExpressionType(op.StrToOp(o), mk(l), mk(r))
        return ["ok", enc(e.GetReturnType()), enc(e.GetOperandType(0)), enc(e.GetOperandType(1))]
    except Errors.CompileException:
        return ["compile"]
    except AssertionError:
        return ["assert"]
    except BaseException as ex:
        return ["other", type(ex).__name__]

def compile_src(src):
    out = io.StringIO()
    try:
        with contextlib.redirect_stdout(out), contextlib.redirect_stderr(out):
            r = Compiler.Compiler().Compile(src, {})
        if r is None:
            return None, ["none"]
        return r, None
    except BaseException as ex:
        tb = traceback.extract_tb(ex.__traceback__)
        where = tb[-1].name if tb else "?"
        files = [f.filename.split("/")[-1] for f in tb]
        stage = "lower" if "LowerToIR.py" in files else ("casts" if "AddImplicitCasts.py" in files else ("types" if "ComputeTypes.py" in files else "other"))
        return None, [type(ex).__name__, where, stage, str(ex)[:120]]

def irtype(t):
    return str(t)

def e2e(o, L, R, T, gts):
    res = {}
    r, err = compile_src("function f(%s a, %s b) -> %s { return a %s b; }" % (L, R, T, o))
    if r is None:
        res["ret"] = {"reject": err}
    else:
        f = list(r.IRModule.Functions.values())[0]
        rets = [i for bb in f.BasicBlocks for i in bb.Instructions if i.OpCode == LinearIR.OpCode.RETURN]
        res["ret"] = {"type": irtype(rets[0].Value.Type) if rets and rets[0].Value is not None else None}
    if gts:
        gs = "".join("function g(%s x) -> int { return %d; }\n" % (g, k + 1) for k, g in enumerate(gts))
        r, err = compile_src(gs + "function f(%s a, %s b) -> int { return g(a %s b); }" % (L, R, o))
        if r is None:
            res["call"] = {"reject": err}
        else:
            f = [fn for n, fn in r.IRModule.Functions.items() if n.startswith("@f")][0]
            calls = [i for bb in f.BasicBlocks for i in bb.Instructions if i.OpCode == LinearIR.OpCode.CALL]
            res["call"] = {"callee": calls[0].Function if calls else None}
    return res

def run(job):
    if job["k"] == "iface":
        return [iface(o, l, r) for (o, l, r) in job["triples"]]
    if job["k"] == "e2e":
        return [e2e(*t) for t in job["triples"]]

jobs = json.load(open(sys.argv[1]))
json.dump([run(j) for j in jobs], open(sys.argv[2], "w"))
