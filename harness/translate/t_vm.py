"""T3 + T4 + T5: regenerate as data
   - the opcode-semantics table of ExecutionContext.__Execute (nsl/VM.py): for every arm of `match operation:` the
     right-hand side assigned to localScope[ref] (normalised source text), and which outer arms write args /
     localScope / globalScope;
   - the two dict literals and the special cases of BinaryInstruction.FromOperation (nsl/LinearIR.py);
   - the small operator/letter maps of LowerToIR.py, ComputeTypes.py, RewriteAssignEqualOperations.py."""
import ast, sys
from common import TranslatorAbort
from translate.pyx import abort, find_def, strip_doc, read_source, dict_literal


def s(x):
    return '"%s"%%string' % x.replace('"', '""')


def gen_vm(repo):
    tree, _ = read_source(repo, "nsl/VM.py")
    f = find_def(tree, "_ExecutionContext__Execute", "ExecutionContext") if False else find_def(tree, "__Execute", "ExecutionContext")
    loops = [n for n in f.body if isinstance(n, ast.While)]
    if len(loops) != 1:
        abort("__Execute: expected one while loop", f)
    outer = [n for n in loops[0].body if isinstance(n, ast.Match)]
    if len(outer) != 1:
        abort("__Execute: expected one `match opCode`", loops[0])
    arms, writes, binary = [], [], None
    for case in outer[0].cases:
        pat = ast.unparse(case.pattern)
        targets = sorted({ast.unparse(t).split("[")[0] for n in ast.walk(ast.Module(body=case.body, type_ignores=[]))
                          if isinstance(n, (ast.Assign, ast.AugAssign)) for t in (n.targets if isinstance(n, ast.Assign) else [n.target])
                          if isinstance(t, ast.Subscript)} |
                         {ast.unparse(t) for n in ast.walk(ast.Module(body=case.body, type_ignores=[]))
                          if isinstance(n, ast.Assign) for t in n.targets if isinstance(t, ast.Name) and t.id == "args"})
        name = pat.replace("LinearIR.OpCode.", "")
        writes.append((name if case.guard is None else "BINARY_FAMILY", targets))
        if case.guard is not None:
            if ast.unparse(case.guard) != "opCode.value >> 16 == 1":
                abort("__Execute: guard of the binary family changed", case)
            inner = [n for n in case.body if isinstance(n, ast.Match)]
            if len(inner) != 1 or ast.unparse(inner[0].subject) != "operation":
                abort("__Execute: inner `match operation` not found", case)
            binary = inner[0]
            pre = "\n".join(ast.unparse(x) for x in case.body if not isinstance(x, ast.Match))
            if pre != ("operation = instruction.OpCode\nop1 = localScope[instruction.Values[0].Reference]\n"
                       "op2 = localScope[instruction.Values[1].Reference]\nref = instruction.Reference"):
                abort("__Execute: operand fetch of the binary family changed", case)
    if binary is None:
        abort("__Execute: binary family arm missing")
    for case in binary.cases:
        pat = ast.unparse(case.pattern)
        if pat == "_":
            arms.append(("_", "\n".join(ast.unparse(x) for x in case.body))); continue
        name = pat.replace("LinearIR.OpCode.", "")
        if len(case.body) == 1 and isinstance(case.body[0], ast.Assign) and ast.unparse(case.body[0].targets[0]) == "localScope[ref]":
            arms.append((name, ast.unparse(case.body[0].value)))
        else:
            arms.append((name, "STMT: " + " ;; ".join(ast.unparse(x).replace("\n", " ") for x in case.body)))
    out = "Definition vm_binary_arms : list (string * string) :=\n  [" + ";\n   ".join("(%s, %s)" % (s(a), s(b)) for a, b in arms) + "].\n"
    out += "Definition vm_arm_writes : list (string * list string) :=\n  [" + ";\n   ".join(
        "(%s, [%s])" % (s(a), "; ".join(s(t) for t in ts)) for a, ts in writes) + "].\n"
    return out


def gen_from_operation(repo):
    tree, _ = read_source(repo, "nsl/LinearIR.py")
    f = find_def(tree, "FromOperation", "BinaryInstruction")
    dicts = [n for n in ast.walk(f) if isinstance(n, ast.Assign) and ast.unparse(n.targets[0]) == "mapping" and isinstance(n.value, ast.Dict)]
    if len(dicts) != 2:
        abort("FromOperation: expected two mapping literals", f)
    out = ""
    for nm, d in zip(("from_operation_scalar", "from_operation_vector"), dicts):
        rows = [(ast.unparse(k).replace("op.Operation.", ""), ast.unparse(v).replace("OpCode.", "")) for k, v in zip(d.value.keys, d.value.values)]
        out += "Definition %s : list (string * string) :=\n  [%s].\n" % (nm, "; ".join("(%s, %s)" % (s(a), s(b)) for a, b in rows))
    specials = [ast.unparse(n.test).replace("\n", " ") + " => " + ast.unparse(n.body[0].value.args[0]) + " swapped=" + str(ast.unparse(n.body[0].value.args[2]) == "v2")
                for n in ast.walk(f) if isinstance(n, ast.If) and n.body and isinstance(n.body[0], ast.Return)
                and isinstance(n.body[0].value, ast.Call) and ast.unparse(n.body[0].value.func) == "BinaryInstruction"]
    out += "Definition from_operation_special : list string :=\n  [%s].\n" % "; ".join(s(x) for x in specials)
    cls = [n for n in tree.body if isinstance(n, ast.ClassDef) and n.name == "OpCode"][0]
    vals = [(x.targets[0].id, x.value.value) for x in cls.body if isinstance(x, ast.Assign) and isinstance(x.value, ast.Constant)]
    out += "Definition opcode_values : list (string * Z) :=\n  [%s].\n" % "; ".join("(%s, %d)" % (s(a), b) for a, b in vals)
    return out


def gen_maps(repo):
    out = ""
    tree, _ = read_source(repo, "nsl/passes/LowerToIR.py")
    f = find_def(tree, "v_MemberAccessExpression", "LowerToIRVisitor")
    d = dict_literal(tree, "swizzleComponentToIndex", scope=f)
    out += "Definition swizzle_index_lower : list (string * Z) := [%s].\n" % "; ".join("(%s, %d)" % (s(k.value), v.value) for k, v in zip(d.keys, d.values))
    f = find_def(tree, "v_AffixExpression", "LowerToIRVisitor")
    d = dict_literal(tree, "opMap", scope=f)
    out += "Definition affix_op_map : list (string * string) := [%s].\n" % "; ".join(
        "(%s, %s)" % (s(ast.unparse(k).replace("op.Operation.", "")), s(ast.unparse(v).replace("LinearIR.OpCode.", ""))) for k, v in zip(d.keys, d.values))
    tree, _ = read_source(repo, "nsl/passes/ComputeTypes.py")
    f = find_def(tree, "ParseSwizzleMask")
    d = dict_literal(tree, "mapping", scope=f)
    out += "Definition swizzle_index_types : list (string * Z) := [%s].\n" % "; ".join("(%s, %d)" % (s(k.value), v.value) for k, v in zip(d.keys, d.values))
    tree, _ = read_source(repo, "nsl/passes/RewriteAssignEqualOperations.py")
    f = find_def(tree, "v_AssignmentExpression", "RewriteAssignEqualVisitor")
    d = dict_literal(tree, "opMap", scope=f)
    out += "Definition assign_op_map : list (string * string) := [%s].\n" % "; ".join(
        "(%s, %s)" % (s(ast.unparse(k).replace("op.Operation.", "")), s(ast.unparse(v).replace("op.Operation.", ""))) for k, v in zip(d.keys, d.values))
    return out


def generate(repo):
    return ("(* GENERATED by harness/translate/t_vm.py from nsl/VM.py, nsl/LinearIR.py, nsl/passes/*.py -- do not edit *)\n"
            "From Coq Require Import String ZArith List.\nImport ListNotations.\nOpen Scope Z_scope.\n\n" + gen_vm(repo) + gen_from_operation(repo) + gen_maps(repo))


if __name__ == "__main__":
    sys.stdout.write(generate(sys.argv[1]))
