(** * C01, conditionals: infrastructure.  Flat code with patched branch targets, block offsets, executions with jumps. *)
From Coq Require Import String ZArith List Bool PrimFloat Arith Lia.
From NSL Require Import Base.Types Base.Syntax Model.PyNum Model.IR Model.VM Model.WfIR Model.Elab Model.Lower Model.Opt
                        Proofs.WfIRProofs Proofs.OptProofs Proofs.LowerExprProofs Proofs.ForwardProofs Proofs.LowerStmtProofs Proofs.CallAgreeProofs
                        Proofs.LowerWfProofs Proofs.LowerAllocProofs.
Import ListNotations.

(** ** executions that may jump *)
Inductive jruns (F : ifunc) : nat -> frame -> vmstate -> nat -> frame -> vmstate -> Prop :=
  | jruns_refl pc fr vs : jruns F pc fr vs pc fr vs
  | jruns_step pc fr vs i pc1 fr1 vs1 pc2 fr2 vs2 :
      nth_error (flat_code F) pc = Some i -> step F pc fr vs i = StNext pc1 fr1 vs1 -> jruns F pc1 fr1 vs1 pc2 fr2 vs2 -> jruns F pc fr vs pc2 fr2 vs2.

Lemma jruns_trans F a fa va b fb vb c fc vc : jruns F a fa va b fb vb -> jruns F b fb vb c fc vc -> jruns F a fa va c fc vc.
Proof. induction 1; intros; [assumption|]. econstructor; eauto. Qed.

Lemma run_jruns P F : forall pc fr vs pc' fr' vs', jruns F pc fr vs pc' fr' vs' -> exists k, forall fuel, run (k + fuel) P F pc fr vs = run fuel P F pc' fr' vs'.
Proof.
  induction 1 as [|pc fr vs i pc1 fr1 vs1 pc2 fr2 vs2 Hn Hs _ IH]; [exists 0; reflexivity|].
  destruct IH as [k Hk]. exists (S k). intros fuel. cbn [Nat.add run]. rewrite Hn, Hs. apply Hk.
Qed.

Lemma sruns_jruns F code : forall pre post fr vs fr' vs', flat_code F = pre ++ code ++ post -> sruns F (length pre) code fr vs fr' vs' ->
  jruns F (length pre) fr vs (length pre + length code) fr' vs'.
Proof.
  induction code as [|i r IH]; intros pre post fr vs fr' vs' Hc H; inversion H; subst.
  - rewrite Nat.add_0_r. constructor.
  - assert (En : nth_error (flat_code F) (length pre) = Some i) by (rewrite Hc, nth_error_app2 by lia; rewrite Nat.sub_diag; reflexivity).
    econstructor; [exact En|eassumption|]. cbn [length]. replace (length pre + S (length r)) with (length (pre ++ [i]) + length r) by (rewrite app_length; cbn; lia).
    replace (S (length pre)) with (length (pre ++ [i])) in * by (rewrite app_length; cbn; lia).
    apply (IH (pre ++ [i]) post); [rewrite Hc, <- app_assoc; reflexivity|assumption].
Qed.

(** ** patched branch targets in the flat code *)
Definition upd_targets (ref : nat) (t f : option ltarget) (i : linstr) : linstr :=
  match i with
  | LBr r p t0 f0 => if Nat.eqb r ref then LBr r p (match t with Some x => x | None => t0 end) (match f with Some x => x | None => f0 end) else i
  | _ => i
  end.
Lemma set_targets_lcode st ref t f : lcode (set_targets st ref t f) = map (upd_targets ref t f) (lcode st).
Proof. unfold lcode, set_targets. cbn [l_blocks]. induction (l_blocks st) as [|b bs IH]; cbn; [reflexivity|]. rewrite map_app, IH. reflexivity. Qed.
Lemma upd_targets_other ref t f i : lref i <> ref -> upd_targets ref t f i = i.
Proof. destruct i; cbn; intros H; [reflexivity|]. destruct (Nat.eqb_spec ref0 ref); [contradiction|reflexivity]. Qed.
Lemma map_upd_other ref t f l : (forall i, In i l -> lref i <> ref) -> map (upd_targets ref t f) l = l.
Proof. induction l as [|a l IH]; cbn; intros H; [reflexivity|]. rewrite (upd_targets_other _ _ _ a (H a (or_introl eq_refl))), IH; [reflexivity|]. intros i Hi. apply H. right. exact Hi. Qed.

(** ** block offsets *)
Fixpoint boffs_aux (bs : list (nat * list linstr)) (acc : nat) : list (nat * nat) :=
  match bs with [] => [] | b :: r => (fst b, acc) :: boffs_aux r (acc + length (snd b)) end.
Definition boffs (st : lstate) : list (nat * nat) := boffs_aux (l_blocks st) 0.

Lemma boffs_aux_app bs1 : forall bs2 acc, boffs_aux (bs1 ++ bs2) acc = boffs_aux bs1 acc ++ boffs_aux bs2 (acc + length (flat_map snd bs1)).
Proof.
  induction bs1 as [|b r IH]; intros bs2 acc; cbn; [rewrite Nat.add_0_r; reflexivity|]. rewrite IH, app_length. f_equal. f_equal. f_equal. lia.
Qed.

Definition fin_blocks (args : list string) (bs : list (nat * list linstr)) : list block :=
  map (fun b => {| b_ref := fst b; b_code := map (finish_instr args) (snd b) |}) bs.

(** [block_offset_last] on the finished blocks reads the last entry of the offset table *)
Fixpoint last_assoc (b : nat) (l : list (nat * nat)) (found : option nat) : option nat :=
  match l with [] => found | (k, v) :: r => last_assoc b r (if Nat.eqb k b then Some v else found) end.
Lemma block_offset_last_boffs args bs b : block_offset_last (fin_blocks args bs) b = last_assoc b (boffs_aux bs 0) None.
Proof.
  unfold block_offset_last. generalize 0 (@None nat). induction bs as [|x r IH]; intros acc found; cbn; [reflexivity|].
  rewrite map_length. apply IH.
Qed.
Lemma last_assoc_app b l1 l2 found : last_assoc b (l1 ++ l2) found = last_assoc b l2 (last_assoc b l1 found).
Proof. revert found. induction l1 as [|[k v] r IH]; intros found; cbn; [reflexivity|]. apply IH. Qed.
Lemma last_assoc_notin b l found : ~ In b (map fst l) -> last_assoc b l found = found.
Proof. revert found. induction l as [|[k v] r IH]; intros found H; cbn; [reflexivity|]. destruct (Nat.eqb_spec k b); [exfalso; apply H; left; assumption|]. apply IH. intro; apply H; right; assumption. Qed.

(** ** the moves of the lowering state, now with explicit blocks and target patches *)
Inductive fstep : lstate -> lstate -> Prop :=
  | fs_old st st' : lstep st st' -> fstep st st'
  | fs_block st st' b : create_block st = (st', b) -> fstep st st'
  | fs_targets st ref t f : fstep st (set_targets st ref t f).
Inductive fsteps : lstate -> lstate -> Prop :=
  | fss_refl st : fsteps st st
  | fss_step st st1 st2 : fstep st st1 -> fsteps st1 st2 -> fsteps st st2.
Lemma fsteps_trans a b c : fsteps a b -> fsteps b c -> fsteps a c.
Proof. induction 1; intros; [assumption|econstructor; eauto]. Qed.
Lemma fsteps_one a b : fstep a b -> fsteps a b.
Proof. intros. econstructor; [eassumption|constructor]. Qed.
Lemma lsteps_fsteps a b : lsteps a b -> fsteps a b.
Proof. induction 1; [constructor|econstructor; [apply fs_old; eassumption|assumption]]. Qed.

(** what every move preserves: references below the counter and pairwise distinct; the offset table only grows, by blocks
    with fresh references placed at the current end of the code *)
Record fok (st : lstate) : Prop := {
  fo_linv : linv st;
  fo_irefs : NoDup (irefs st);
  fo_brefs : NoDup (brefs st);
  fo_bound : forall q, In q (crefs st) \/ In q (brefs st) \/ In q (irefs st) -> q < l_next st;
  fo_cc : forall q, In q (crefs st) -> ~ In q (irefs st);
  fo_bc : forall b, In b (brefs st) -> ~ In b (crefs st) /\ ~ In b (irefs st) }.

Lemma brefs_boffs st : map fst (boffs st) = brefs st.
Proof. unfold boffs, brefs. generalize 0. induction (l_blocks st) as [|b r IH]; intros acc; cbn; [reflexivity|]. rewrite IH. reflexivity. Qed.

Definition grows (st st' : lstate) : Prop :=
  exists nb, boffs st' = boffs st ++ nb /\ (forall e, In e nb -> l_next st <= fst e < l_next st' /\ length (lcode st) <= snd e <= length (lcode st')) /\
             l_next st <= l_next st' /\ length (lcode st) <= length (lcode st').

Lemma grows_refl st : grows st st.
Proof. exists []. rewrite app_nil_r. split; [reflexivity|]. split; [intros ? []|]. split; lia. Qed.
Lemma grows_trans a b c : grows a b -> grows b c -> grows a c.
Proof.
  intros (n1 & H1 & B1 & L1 & C1) (n2 & H2 & B2 & L2 & C2). exists (n1 ++ n2). rewrite H2, H1, app_assoc. split; [reflexivity|]. split; [|split; lia].
  intros e He. apply in_app_or in He as [He|He]; [destruct (B1 e He); lia|destruct (B2 e He); lia].
Qed.

Lemma boffs_append_last bs i : bs <> [] -> forall acc, boffs_aux (append_last bs i) acc = boffs_aux bs acc.
Proof.
  intros Hne. unfold append_last. destruct (rev bs) as [|[r code] rest] eqn:E; [exfalso; apply Hne; rewrite <- (rev_involutive bs), E; reflexivity|].
  assert (Hb : bs = rev rest ++ [(r, code)]) by (rewrite <- (rev_involutive bs), E; reflexivity). intros acc. rewrite Hb, !boffs_aux_app. cbn. reflexivity.
Qed.

Lemma irefs_app_one st st' li : lcode st' = lcode st ++ [li] -> irefs st' = irefs st ++ [lref li].
Proof. unfold irefs. intros ->. rewrite map_app. reflexivity. Qed.

Lemma fok_const st t v st' r : create_const st t v = (st', r) -> fok st -> fok st' /\ grows st st' /\ lcode st' = lcode st.
Proof.
  intros E A. pose proof (create_const_spec _ _ _ _ _ (fo_linv _ A) E) as (I' & Hb & _ & _ & Hle & _ & (new & Hnew & Hrng) & _).
  assert (Hlc : lcode st' = lcode st) by (unfold lcode; rewrite Hb; reflexivity).
  assert (Hir : irefs st' = irefs st) by (unfold irefs; rewrite Hlc; reflexivity).
  assert (Hbr : brefs st' = brefs st) by (unfold brefs; rewrite Hb; reflexivity).
  assert (Hcr : crefs st' = crefs st ++ map cref new) by (unfold crefs; rewrite Hnew, map_app; reflexivity).
  split; [|split; [|exact Hlc]].
  - constructor; rewrite ?Hir, ?Hbr.
    + exact I'.
    + apply A.
    + apply A.
    + intros q [Hq|[Hq|Hq]].
      * rewrite Hcr in Hq. apply in_app_or in Hq as [Hq|Hq]; [pose proof (fo_bound _ A q (or_introl Hq)); lia|]. apply in_map_iff in Hq as (c & <- & Hc). apply Hrng. exact Hc.
      * pose proof (fo_bound _ A q (or_intror (or_introl Hq))). lia.
      * pose proof (fo_bound _ A q (or_intror (or_intror Hq))). lia.
    + intros q Hq X. rewrite Hcr in Hq. apply in_app_or in Hq as [Hq|Hq]; [exact (fo_cc _ A q Hq X)|]. apply in_map_iff in Hq as (c & <- & Hc). destruct (Hrng c Hc). pose proof (fo_bound _ A _ (or_intror (or_intror X))). lia.
    + intros b Hb'. destruct (fo_bc _ A b Hb') as [H1 H2]. split; [|exact H2]. rewrite Hcr. intro X. apply in_app_or in X as [X|X]; [exact (H1 X)|].
      apply in_map_iff in X as (c & <- & Hc). destruct (Hrng c Hc). pose proof (fo_bound _ A _ (or_intror (or_introl Hb'))). lia.
  - exists []. unfold boffs. rewrite Hb, app_nil_r, Hlc. split; [reflexivity|]. split; [intros ? []|]. split; lia.
Qed.

Lemma fok_block st st' b : create_block st = (st', b) -> fok st ->
  fok st' /\ grows st st' /\ lcode st' = lcode st /\ boffs st' = boffs st ++ [(b, length (lcode st))] /\ b = l_next st /\ l_next st' = S (l_next st) /\ l_newblock st' = false /\ l_consts st' = l_consts st /\ l_locals st' = l_locals st.
Proof.
  unfold create_block. intros E A. inversion E; subst; clear E.
  assert (Hlc : lcode {| l_next := S (l_next st); l_consts := l_consts st; l_blocks := l_blocks st ++ [(l_next st, [])]; l_newblock := false; l_locals := l_locals st; l_depth := l_depth st |} = lcode st)
    by (unfold lcode; cbn; rewrite flat_map_app; cbn; rewrite app_nil_r; reflexivity).
  assert (Hbo : boffs {| l_next := S (l_next st); l_consts := l_consts st; l_blocks := l_blocks st ++ [(l_next st, [])]; l_newblock := false; l_locals := l_locals st; l_depth := l_depth st |} = boffs st ++ [(l_next st, length (lcode st))])
    by (unfold boffs; cbn; rewrite boffs_aux_app; cbn; reflexivity).
  split; [|split; [|repeat split; auto]].
  - constructor; unfold irefs, brefs, crefs in *; rewrite ?Hlc; cbn [l_blocks l_consts l_next].
    + constructor; cbn; [intros c Hc; pose proof (inv_consts_below _ (fo_linv _ A) c Hc); lia|right; intro X; apply app_eq_nil in X as [_ X]; discriminate|apply (fo_linv _ A)].
    + apply A.
    + rewrite map_app. cbn. apply NoDup_app_single; [apply A|]. intro X. pose proof (fo_bound _ A _ (or_intror (or_introl X))). lia.
    + intros q [Hq|[Hq|Hq]]; [pose proof (fo_bound _ A q (or_introl Hq)); lia| |pose proof (fo_bound _ A q (or_intror (or_intror Hq))); lia].
      rewrite map_app in Hq. apply in_app_or in Hq as [Hq|[<-|[]]]; [pose proof (fo_bound _ A q (or_intror (or_introl Hq))); lia|cbn; lia].
    + apply A.
    + intros b Hb. rewrite map_app in Hb. apply in_app_or in Hb as [Hb|[<-|[]]]; [apply (fo_bc _ A b Hb)|]. cbn. split; intro X; [pose proof (fo_bound _ A _ (or_introl X))|pose proof (fo_bound _ A _ (or_intror (or_intror X)))]; lia.
  - exists [(l_next st, length (lcode st))]. rewrite Hbo, Hlc. split; [reflexivity|]. split; [intros e [<-|[]]; cbn; lia|]. cbn. split; lia.
Qed.

Lemma fok_targets st ref t f : fok st -> fok (set_targets st ref t f) /\ grows st (set_targets st ref t f) /\ boffs (set_targets st ref t f) = boffs st.
Proof.
  intros A.
  assert (Hir : irefs (set_targets st ref t f) = irefs st).
  { unfold irefs. rewrite set_targets_lcode, map_map. apply map_ext. intros i. destruct i; cbn; [reflexivity|]. destruct (Nat.eqb ref0 ref); reflexivity. }
  assert (Hbr : brefs (set_targets st ref t f) = brefs st) by (unfold brefs, set_targets; cbn; rewrite map_map; reflexivity).
  assert (Hbo : boffs (set_targets st ref t f) = boffs st).
  { unfold boffs, set_targets. cbn [l_blocks]. generalize 0. induction (l_blocks st) as [|b r IH]; intros acc; cbn; [reflexivity|]. rewrite map_length, IH. reflexivity. }
  assert (Hlen : length (lcode (set_targets st ref t f)) = length (lcode st)) by (rewrite set_targets_lcode, map_length; reflexivity).
  split; [|split; [|exact Hbo]].
  - constructor; rewrite ?Hir, ?Hbr; try apply A.
    constructor; cbn; [apply (fo_linv _ A)| |apply (fo_linv _ A)]. destruct (inv_blocks _ (fo_linv _ A)) as [X|X]; [left; exact X|right]. intro Y. apply X. destruct (l_blocks st); [reflexivity|discriminate].
  - exists []. rewrite Hbo, app_nil_r, Hlen. split; [reflexivity|]. split; [intros ? []|]. cbn. split; lia.
Qed.

Lemma fok_emit st mk st' r : (forall q, lref (mk q) = q) -> emit_raw st mk = (st', r) -> fok st ->
  fok st' /\ grows st st' /\ lcode st' = lcode st ++ [mk r] /\ l_consts st' = l_consts st /\ l_locals st' = l_locals st /\ l_newblock st' = false /\ l_next st <= r < l_next st'.
Proof.
  intros Hmk E A. pose proof (emit_raw_spec _ _ _ _ (fo_linv _ A) E) as (I' & Hcode & Hcs & Hl & _ & Hnb & Hlo & Hhi).
  assert (Hir : irefs st' = irefs st ++ [r]) by (rewrite (irefs_app_one _ _ _ Hcode), Hmk; reflexivity).
  unfold emit_raw in E. destruct (l_newblock st) eqn:En.
  - (* a block is started first *)
    destruct (create_block st) as [st1 b] eqn:Eb. cbn [fst] in E.
    destruct (fok_block _ _ _ Eb A) as (A1 & G1 & Hlc1 & Hbo1 & -> & Hn1 & _ & Hc1 & _).
    assert (Hbr : brefs st' = brefs st ++ [l_next st]).
    { inversion E; subst. unfold brefs. cbn [l_blocks]. unfold create_block in Eb. inversion Eb; subst. cbn [l_blocks].
      unfold append_last. rewrite rev_app_distr. cbn. rewrite rev_involutive, map_app. reflexivity. }
    assert (Hbo : boffs st' = boffs st ++ [(l_next st, length (lcode st))]).
    { inversion E; subst. unfold boffs at 1. cbn [l_blocks]. rewrite boffs_append_last by (unfold create_block in Eb; inversion Eb; subst; cbn; intro X; apply app_eq_nil in X as [_ X]; discriminate). exact Hbo1. }
    assert (Hr : r = S (l_next st)) by (inversion E; subst; exact Hn1).
    assert (Hnx : l_next st' = S (S (l_next st))) by (inversion E; subst; cbn; rewrite Hn1; reflexivity).
    split; [|split; [|repeat split; auto; lia]].
    + constructor; rewrite ?Hir, ?Hbr; unfold crefs; rewrite ?Hcs.
      * exact I'.
      * apply NoDup_app_single; [apply A|]. intro X. pose proof (fo_bound _ A _ (or_intror (or_intror X))). lia.
      * apply NoDup_app_single; [apply A|]. intro X. pose proof (fo_bound _ A _ (or_intror (or_introl X))). lia.
      * intros q [Hq|[Hq|Hq]]; [pose proof (fo_bound _ A q (or_introl Hq)); lia| |].
        -- apply in_app_or in Hq as [Hq|[<-|[]]]; [pose proof (fo_bound _ A q (or_intror (or_introl Hq))); lia|lia].
        -- apply in_app_or in Hq as [Hq|[<-|[]]]; [pose proof (fo_bound _ A q (or_intror (or_intror Hq))); lia|lia].
      * intros q Hq X. apply in_app_or in X as [X|[<-|[]]]; [exact (fo_cc _ A q Hq X)|]. pose proof (fo_bound _ A _ (or_introl Hq)). lia.
      * intros b Hb. apply in_app_or in Hb as [Hb|[<-|[]]].
        -- destruct (fo_bc _ A b Hb) as [H1 H2]. split; [exact H1|]. intro X. apply in_app_or in X as [X|[<-|[]]]; [exact (H2 X)|]. pose proof (fo_bound _ A _ (or_intror (or_introl Hb))). lia.
        -- split; intro X; [pose proof (fo_bound _ A _ (or_introl X)); lia|]. apply in_app_or in X as [X|[X|[]]]; [pose proof (fo_bound _ A _ (or_intror (or_intror X))); lia|lia].
    + exists [(l_next st, length (lcode st))]. rewrite Hbo, Hcode, app_length. split; [reflexivity|]. split; [intros e [<-|[]]; cbn; lia|]. cbn. split; lia.
  - assert (Hne : l_blocks st <> []) by (destruct (inv_blocks _ (fo_linv _ A)) as [X|X]; [congruence|exact X]).
    assert (Hbr : brefs st' = brefs st).
    { inversion E; subst. unfold brefs. cbn [l_blocks]. unfold append_last. destruct (rev (l_blocks st)) as [|[b0 c0] rest] eqn:Er; [exfalso; apply Hne; rewrite <- (rev_involutive (l_blocks st)), Er; reflexivity|].
      rewrite map_app. cbn. rewrite <- (rev_involutive (l_blocks st)), Er. cbn. rewrite map_app. reflexivity. }
    assert (Hbo : boffs st' = boffs st) by (inversion E; subst; unfold boffs; cbn [l_blocks]; apply boffs_append_last; exact Hne).
    assert (Hr : r = l_next st) by (inversion E; subst; reflexivity).
    assert (Hnx : l_next st' = S (l_next st)) by (inversion E; subst; reflexivity).
    split; [|split; [|repeat split; auto; lia]].
    + constructor; rewrite ?Hir, ?Hbr; unfold crefs; rewrite ?Hcs.
      * exact I'.
      * apply NoDup_app_single; [apply A|]. intro X. pose proof (fo_bound _ A _ (or_intror (or_intror X))). lia.
      * apply A.
      * intros q [Hq|[Hq|Hq]]; [pose proof (fo_bound _ A q (or_introl Hq)); lia|pose proof (fo_bound _ A q (or_intror (or_introl Hq))); lia|].
        apply in_app_or in Hq as [Hq|[<-|[]]]; [pose proof (fo_bound _ A q (or_intror (or_intror Hq))); lia|lia].
      * intros q Hq X. apply in_app_or in X as [X|[<-|[]]]; [exact (fo_cc _ A q Hq X)|]. pose proof (fo_bound _ A _ (or_introl Hq)). lia.
      * intros b Hb. destruct (fo_bc _ A b Hb) as [H1 H2]. split; [exact H1|]. intro X. apply in_app_or in X as [X|[<-|[]]]; [exact (H2 X)|]. pose proof (fo_bound _ A _ (or_intror (or_introl Hb))). lia.
    + exists []. rewrite Hbo, app_nil_r, Hcode, app_length. split; [reflexivity|]. split; [intros ? []|]. cbn. split; lia.
Qed.

Lemma lstep_fok st st' : lstep st st' -> fok st -> fok st' /\ grows st st'.
Proof.
  intros Hs A. destruct Hs as [st t v st' r E|st mk st' r Hmk E|st x].
  - destruct (fok_const _ _ _ _ _ E A) as (H1 & H2 & _). auto.
  - destruct (fok_emit _ _ _ _ Hmk E A) as (H1 & H2 & _). auto.
  - split; [|exists []; unfold boffs, lcode; cbn; rewrite app_nil_r; split; [reflexivity|split; [intros ? []|split; lia]]].
    constructor; try apply A. constructor; cbn; apply (fo_linv _ A).
Qed.
Lemma lsteps_fok st st' : lsteps st st' -> fok st -> fok st' /\ grows st st'.
Proof.
  induction 1 as [|st st1 st2 H1 _ IH]; intros A; [split; [exact A|apply grows_refl]|].
  destruct (lstep_fok _ _ H1 A) as [A1 G1]. destruct (IH A1) as [A2 G2]. split; [exact A2|eapply grows_trans; eassumption].
Qed.

(** ** the fragment: assignments, blocks and conditionals (nesting depth at most n) *)
Fixpoint bstmt (n : nat) (s : tstmt) : bool :=
  match n with
  | O => false
  | S m =>
      match s with
      | TExpr (XAssign (XVar _ (TPrim (PScalar _))) e) => tpure e
      | TBlock l => forallb (bstmt m) l
      | TIf c t f => tpure c && bstmt m t && match f with Some f' => bstmt m f' | None => true end
      | _ => false
      end
  end.

Section Flow.
  Variable structs : list sdef.
  Variable gl args : list string.
  Notation tev := (teval structs gl args).

  Fixpoint bexec (n : nat) (cs : list (nat * irty * cval)) (locals : list string) (s : tstmt) (V : list (string * val)) (A : list val) (vs : vmstate)
    : option (list (string * val) * list val * vmstate) :=
    match n with
    | O => None
    | S m =>
        match s with
        | TExpr (XAssign (XVar x _) e) =>
            match tev cs locals (mkfr V A) vs e with Ok w => store_var gl args locals V A vs x w | _ => None end
        | TBlock l =>
            (fix go (l : list tstmt) V A vs := match l with
                                               | [] => Some (V, A, vs)
                                               | s1 :: r => match bexec m cs locals s1 V A vs with Some (V1, A1, vs1) => go r V1 A1 vs1 | None => None end
                                               end) l V A vs
        | TIf c t f =>
            match tev cs locals (mkfr V A) vs c with
            | Ok w => match truthy (hp vs) w with
                      | Ok true => bexec m cs locals t V A vs
                      | Ok false => match f with Some f' => bexec m cs locals f' V A vs | None => Some (V, A, vs) end
                      | _ => None
                      end
            | _ => None
            end
        | _ => None
        end
    end.

  Definition bsem (st st' : lstate) (n : nat) (s : tstmt) (new : list linstr) (nb : list (nat * nat)) : Prop :=
    forall F pre post fr vs cs V' A' vs',
      flat_code F = pre ++ map (finish_instr args) new ++ post -> length pre = length (lcode st) ->
      (forall e, In e nb -> block_offset_last (fn_blocks F) (fst e) = Some (snd e)) ->
      (exists more, cs = l_consts st' ++ more) ->
      (forall c, In c cs -> rlookup (cref c) (regs fr) = Some (const_val (snd c))) ->
      (forall c i, In c cs -> In i new -> cref c <> lref i) ->
      bexec n cs (l_locals st) s (vars fr) (fargs fr) vs = Some (V', A', vs') ->
      exists fr', jruns F (length pre) fr vs (length pre + length new) fr' vs' /\ vars fr' = V' /\ fargs fr' = A' /\
                  (forall q, (forall i, In i new -> lref i <> q) -> rlookup q (regs fr') = rlookup q (regs fr)).

  Definition bres (st st' : lstate) (n : nat) (s : tstmt) : Prop :=
    fok st' /\ l_locals st' = l_locals st /\ l_next st <= l_next st' /\
    (exists newc, l_consts st' = l_consts st ++ newc /\ forall c, In c newc -> l_next st <= cref c) /\
    exists new nb, lcode st' = lcode st ++ new /\ boffs st' = boffs st ++ nb /\
      (forall i, In i new -> l_next st <= lref i < l_next st') /\
      (forall e, In e nb -> l_next st <= fst e < l_next st' /\ length (lcode st) <= snd e <= length (lcode st')) /\
      bsem st st' n s new nb.
End Flow.

Section Flow2.
  Variable structs : list sdef.
  Variable gl args : list string.

  Lemma bres_assign m x c e st st' :
    tpure e = true -> fok st -> lower_stmt structs gl args (TExpr (XAssign (XVar x (TPrim (PScalar c))) e)) st = LOk st' ->
    bres structs gl args st st' (S m) (TExpr (XAssign (XVar x (TPrim (PScalar c))) e)).
  Proof.
    intros Hp A H. set (s := TExpr (XAssign (XVar x (TPrim (PScalar c))) e)) in *.
    assert (Hs : simple s = true) by exact Hp.
    destruct (lower_simple_correct structs gl args s st st' Hs (fo_linv _ A) H) as (I' & Hn & (newc & Hc & Hg) & is & Hcode & Hr & Hd & Hsem).
    destruct (lsteps_fok _ _ (lower_simple_steps structs gl args s st st' Hs H) A) as [A' (nb & Hbo & Hnb & _ & _)].
    assert (Hloc : l_locals st' = l_locals st).
    { unfold s in H. cbn [lower_stmt lower_expr lbind] in H.
      destruct (lower_expr structs gl args e st) as [[v st1]| |] eqn:Ee; cbn [lbind] in H; try discriminate.
      destruct (scope_of gl args st1 x) as [sc| |]; cbn [lbind] in H; try discriminate.
      match type of H with context [emit st1 ?t ?b] => destruct (emit st1 t b) as [st2 r2] eqn:E2 end. cbn [lbind snd] in H. inversion H; subst st2.
      destruct (lower_pure_correct structs gl args e st v st1 Hp (fo_linv _ A) Ee) as (I1 & Hl1 & _).
      destruct (emit_spec _ _ _ _ _ I1 E2) as (_ & _ & _ & Hl2 & _). congruence. }
    split; [exact A'|]. split; [exact Hloc|]. split; [exact Hn|]. split; [exists newc; auto|].
    exists (map LI is), nb. split; [exact Hcode|]. split; [exact Hbo|].
    split; [intros i Hi; apply in_map_iff in Hi as (j & <- & Hj); cbn; apply Hr; exact Hj|]. split; [exact Hnb|].
    intros F pre post fr vs cs V' A0 vs' Hflat Hlen Hoff Hcs Hregs Hdisj Hex.
    unfold s in Hex. cbn [bexec] in Hex.
    destruct (teval structs gl args cs (l_locals st) (mkfr (vars fr) (fargs fr)) vs e) as [w| |] eqn:Ew; try discriminate.
    destruct (Hsem F (length pre) fr vs cs (l_locals st) V' A0 vs') as (_ & fr' & Hruns & Hv & Ha & Hf); auto.
    { intros c0 i Hc0 Hi. apply (Hdisj c0 (LI i) Hc0). apply in_map. exact Hi. }
    { unfold s. cbn [texec]. rewrite Ew, Hex. reflexivity. }
    exists fr'. split; [|split; [exact Hv|split; [exact Ha|]]].
    - replace (length (map LI is)) with (length (map (finish_instr args) (map LI is))) by (rewrite !map_length; reflexivity). apply (sruns_jruns F _ pre post); assumption.
    - intros q Hq. apply Hf. intros i Hi. apply (Hq (LI i)). apply in_map. exact Hi.
  Qed.
End Flow2.

Section Flow3.
  Variable structs : list sdef.
  Variable gl args : list string.

  Fixpoint bexec_list (m : nat) (cs : list (nat * irty * cval)) (locals : list string) (l : list tstmt) (V : list (string * val)) (A : list val) (vs : vmstate)
    : option (list (string * val) * list val * vmstate) :=
    match l with
    | [] => Some (V, A, vs)
    | s1 :: r => match bexec structs gl args m cs locals s1 V A vs with Some (V1, A1, vs1) => bexec_list m cs locals r V1 A1 vs1 | None => None end
    end.
  Lemma bexec_block m cs locals l : forall V A vs, bexec structs gl args (S m) cs locals (TBlock l) V A vs = bexec_list m cs locals l V A vs.
  Proof. induction l as [|s r IH]; intros V A vs; cbn; [reflexivity|]. destruct (bexec structs gl args m cs locals s V A vs) as [[[V1 A1] vs1]|]; [apply IH|reflexivity]. Qed.
  Lemma lower_block l : forall st, lower_stmt structs gl args (TBlock l) st = lower_body structs gl args l st.
  Proof. induction l as [|s r IH]; intros st; cbn; [reflexivity|]. destruct (lower_stmt structs gl args s st); cbn; [apply IH|reflexivity|reflexivity]. Qed.

  Definition bsem_list (st st' : lstate) (m : nat) (l : list tstmt) (new : list linstr) (nb : list (nat * nat)) : Prop :=
    forall F pre post fr vs cs V' A' vs',
      flat_code F = pre ++ map (finish_instr args) new ++ post -> length pre = length (lcode st) ->
      (forall e, In e nb -> block_offset_last (fn_blocks F) (fst e) = Some (snd e)) ->
      (exists more, cs = l_consts st' ++ more) ->
      (forall c, In c cs -> rlookup (cref c) (regs fr) = Some (const_val (snd c))) ->
      (forall c i, In c cs -> In i new -> cref c <> lref i) ->
      bexec_list m cs (l_locals st) l (vars fr) (fargs fr) vs = Some (V', A', vs') ->
      exists fr', jruns F (length pre) fr vs (length pre + length new) fr' vs' /\ vars fr' = V' /\ fargs fr' = A' /\
                  (forall q, (forall i, In i new -> lref i <> q) -> rlookup q (regs fr') = rlookup q (regs fr)).
  Definition bres_list (st st' : lstate) (m : nat) (l : list tstmt) : Prop :=
    fok st' /\ l_locals st' = l_locals st /\ l_next st <= l_next st' /\
    (exists newc, l_consts st' = l_consts st ++ newc /\ forall c, In c newc -> l_next st <= cref c) /\
    exists new nb, lcode st' = lcode st ++ new /\ boffs st' = boffs st ++ nb /\
      (forall i, In i new -> l_next st <= lref i < l_next st') /\
      (forall e, In e nb -> l_next st <= fst e < l_next st' /\ length (lcode st) <= snd e <= length (lcode st')) /\
      bsem_list st st' m l new nb.

  Lemma bres_list_of m :
    (forall s st st', bstmt m s = true -> fok st -> lower_stmt structs gl args s st = LOk st' -> bres structs gl args st st' m s) ->
    forall l st st', forallb (bstmt m) l = true -> fok st -> lower_body structs gl args l st = LOk st' -> bres_list st st' m l.
  Proof.
    intros IHm. induction l as [|s r IH]; intros st st' Hs A H.
    - cbn in H. inversion H; subst st'. split; [exact A|]. split; [reflexivity|]. split; [lia|]. split; [exists []; split; [rewrite app_nil_r; reflexivity|intros ? []]|].
      exists [], []. rewrite !app_nil_r. split; [reflexivity|]. split; [reflexivity|]. split; [intros ? []|]. split; [intros ? []|].
      intros F pre post fr vs cs V' A' vs' _ _ _ _ _ _ Hex. cbn in Hex. inversion Hex; subst. exists fr. rewrite Nat.add_0_r. split; [constructor|auto].
    - cbn [forallb] in Hs. apply andb_prop in Hs as [Hs1 Hsr]. cbn [lower_body lbind] in H.
      destruct (lower_stmt structs gl args s st) as [st1| |] eqn:E1; cbn [lbind] in H; try discriminate.
      destruct (IHm s st st1 Hs1 A E1) as (A1 & Hl1 & Hn1 & (nc1 & Hc1 & Hg1) & new1 & nb1 & Hcode1 & Hbo1 & Hr1 & Hb1 & Hsem1).
      destruct (IH st1 st' Hsr A1 H) as (A2 & Hl2 & Hn2 & (nc2 & Hc2 & Hg2) & new2 & nb2 & Hcode2 & Hbo2 & Hr2 & Hb2 & Hsem2).
      assert (Hlen1 : length (lcode st) <= length (lcode st1)) by (rewrite Hcode1, app_length; lia).
      assert (Hlen2 : length (lcode st1) <= length (lcode st')) by (rewrite Hcode2, app_length; lia).
      split; [exact A2|]. split; [congruence|]. split; [lia|].
      split; [exists (nc1 ++ nc2); split; [rewrite Hc2, Hc1, app_assoc; reflexivity|intros c Hc; apply in_app_or in Hc as [Hc|Hc]; [apply Hg1; exact Hc|specialize (Hg2 c Hc); lia]]|].
      exists (new1 ++ new2), (nb1 ++ nb2). split; [rewrite Hcode2, Hcode1, app_assoc; reflexivity|]. split; [rewrite Hbo2, Hbo1, app_assoc; reflexivity|].
      split; [intros i Hi; apply in_app_or in Hi as [Hi|Hi]; [specialize (Hr1 i Hi); lia|specialize (Hr2 i Hi); lia]|].
      split; [intros e He; apply in_app_or in He as [He|He]; [destruct (Hb1 e He); lia|destruct (Hb2 e He); lia]|].
      intros F pre post fr vs cs V' A' vs' Hflat Hlen Hoff [more Hcs] Hregs Hdisj Hex. cbn [bexec_list] in Hex.
      destruct (bexec structs gl args m cs (l_locals st) s (vars fr) (fargs fr) vs) as [[[V1 A1'] vs1]|] eqn:Ex1; [|discriminate].
      destruct (Hsem1 F pre (map (finish_instr args) new2 ++ post) fr vs cs V1 A1' vs1) as (fr1 & Hj1 & Hv1 & Ha1 & Hf1).
      { rewrite Hflat, map_app, <- app_assoc. reflexivity. }
      { exact Hlen. }
      { intros e He. apply Hoff. apply in_or_app. left. exact He. }
      { exists (nc2 ++ more). rewrite Hcs, Hc2, <- app_assoc. reflexivity. }
      { exact Hregs. }
      { intros c i Hc Hi. apply Hdisj; [exact Hc|apply in_or_app; left; exact Hi]. }
      { exact Ex1. }
      destruct (Hsem2 F (pre ++ map (finish_instr args) new1) post fr1 vs1 cs V' A' vs') as (fr2 & Hj2 & Hv2 & Ha2 & Hf2).
      { rewrite Hflat, map_app, <- !app_assoc. reflexivity. }
      { rewrite app_length, map_length, Hcode1, app_length. lia. }
      { intros e He. apply Hoff. apply in_or_app. right. exact He. }
      { exists more. exact Hcs. }
      { intros c Hc. rewrite Hf1; [apply Hregs; exact Hc|]. intros i Hi E. apply (Hdisj c i Hc); [apply in_or_app; left; exact Hi|congruence]. }
      { intros c i Hc Hi. apply Hdisj; [exact Hc|apply in_or_app; right; exact Hi]. }
      { rewrite Hl1, Hv1, Ha1. exact Hex. }
      exists fr2. split; [|split; [exact Hv2|split; [exact Ha2|]]].
      + eapply jruns_trans; [exact Hj1|]. rewrite app_length, map_length in Hj2. rewrite app_length. replace (length pre + (length new1 + length new2)) with (length pre + length new1 + length new2) by lia. exact Hj2.
      + intros q Hq. rewrite Hf2 by (intros i Hi; apply Hq; apply in_or_app; right; exact Hi). apply Hf1. intros i Hi. apply Hq. apply in_or_app. left. exact Hi.
  Qed.
End Flow3.

(** ** helpers for the conditional *)
Lemma set_targets_fields st ref t f :
  l_next (set_targets st ref t f) = l_next st /\ l_consts (set_targets st ref t f) = l_consts st /\ l_locals (set_targets st ref t f) = l_locals st /\
  l_newblock (set_targets st ref t f) = l_newblock st.
Proof. repeat split. Qed.

Lemma upd_layout ref p t0 f0 t f a b :
  (forall i, In i a -> lref i <> ref) -> (forall i, In i b -> lref i <> ref) ->
  map (upd_targets ref t f) (a ++ [LBr ref p t0 f0] ++ b) =
  a ++ [LBr ref p (match t with Some x => x | None => t0 end) (match f with Some x => x | None => f0 end)] ++ b.
Proof. intros Ha Hb. rewrite !map_app, (map_upd_other _ _ _ a Ha), (map_upd_other _ _ _ b Hb). cbn. rewrite Nat.eqb_refl. reflexivity. Qed.

Lemma finish_br args r p t f : finish_instr args (LBr r p t f) = {| i_ref := r; i_ty := ITVoid; i_body := IBranch p (tgt t) (tgt f) |}.
Proof. reflexivity. Qed.

Lemma nth_error_mid {A} (a : list A) x b : nth_error (a ++ x :: b) (length a) = Some x.
Proof. rewrite nth_error_app2 by lia. rewrite Nat.sub_diag. reflexivity. Qed.

Lemma irefs_bound st : fok st -> forall i, In i (lcode st) -> lref i < l_next st.
Proof. intros A i Hi. apply (fo_bound _ A). right. right. unfold irefs. apply in_map. exact Hi. Qed.

Lemma jruns_branch F pc fr vs i pc' : nth_error (flat_code F) pc = Some i -> step F pc fr vs i = StNext pc' fr vs -> jruns F pc fr vs pc' fr vs.
Proof. intros Hn Hs. econstructor; [exact Hn|exact Hs|constructor]. Qed.

Lemma emit_branch_fok st p t f st' r : emit_branch st p t f = (st', r) -> fok st ->
  fok st' /\ grows st st' /\ lcode st' = lcode st ++ [LBr r p t f] /\ l_consts st' = l_consts st /\ l_locals st' = l_locals st /\ l_newblock st' = false /\ l_next st <= r < l_next st'.
Proof. unfold emit_branch. intros E A. apply (fok_emit st (fun r0 => LBr r0 p t f) st' r); auto. Qed.

Section FlowIf.
  Variable structs : list sdef.
  Variable gl args : list string.
  Notation lowers := (lower_stmt structs gl args).

  (** facts about the lowered condition *)
  Lemma cond_facts c st cv st1 : tpure c = true -> fok st -> lower_expr structs gl args c st = LOk (cv, st1) ->
    fok st1 /\ l_locals st1 = l_locals st /\ l_next st <= l_next st1 /\ cv < l_next st1 /\
    (exists newc, l_consts st1 = l_consts st ++ newc /\ forall c0, In c0 newc -> l_next st <= cref c0) /\
    exists isc nbc, lcode st1 = lcode st ++ map LI isc /\ boffs st1 = boffs st ++ nbc /\
      (forall i, In i isc -> l_next st <= i_ref i < l_next st1) /\
      (forall e, In e nbc -> l_next st <= fst e < l_next st1 /\ length (lcode st) <= snd e <= length (lcode st1)) /\
      sem_ok structs gl args st st1 c cv isc.
  Proof.
    intros Hp A H. destruct (lower_pure_correct structs gl args c st cv st1 Hp (fo_linv _ A) H) as (I1 & Hl1 & Hn1 & Hcv & Hnc & isc & Hcode & Hr & _ & Hsem).
    destruct (lsteps_fok _ _ (lower_pure_steps structs gl args c st cv st1 Hp H) A) as [A1 (nbc & Hbo & Hnb & _ & _)].
    split; [exact A1|]. split; [exact Hl1|]. split; [exact Hn1|]. split; [exact Hcv|]. split; [exact Hnc|]. exists isc, nbc. auto.
  Qed.

  Lemma bres_if_noelse m c t st st' :
    (forall s st st', bstmt m s = true -> fok st -> lowers s st = LOk st' -> bres structs gl args st st' m s) ->
    tpure c = true -> bstmt m t = true -> fok st -> lowers (TIf c t None) st = LOk st' -> bres structs gl args st st' (S m) (TIf c t None).
  Proof.
    intros IHm Hpc Hbt A H. cbn [lower_stmt lbind] in H.
    destruct (lower_expr structs gl args c st) as [[cv st1]| |] eqn:Ec; cbn [lbind] in H; try discriminate.
    destruct (emit_branch st1 (Some cv) LNone LNone) as [st2 br] eqn:Eb.
    destruct (create_block st2) as [st3 tb] eqn:Etb.
    destruct (lowers t st3) as [st4| |] eqn:Et; cbn [lbind] in H; try discriminate.
    destruct (create_block (set_targets st4 br (Some (LRef tb)) None)) as [st6 bb] eqn:Ebb. inversion H; subst st'; clear H.
    set (st5 := set_targets st4 br (Some (LRef tb)) None) in *.
    destruct (cond_facts c st cv st1 Hpc A Ec) as (A1 & Hl1 & Hn1 & Hcv & (nc1 & Hc1 & Hg1) & isc & nbc & Hcode1 & Hbo1 & Hr1 & Hb1 & Hsemc).
    destruct (emit_branch_fok _ _ _ _ _ _ Eb A1) as (A2 & (nb2 & Hbo2 & Hb2 & _ & _) & Hcode2 & Hc2 & Hl2 & Hnb2 & Hbr).
    destruct (fok_block _ _ _ Etb A2) as (A3 & _ & Hcode3 & Hbo3 & Htb & Hn3 & _ & Hc3 & Hl3).
    destruct (IHm t st3 st4 Hbt A3 Et) as (A4 & Hl4 & Hn4 & (nc4 & Hc4 & Hg4) & newt & nbt & Hcode4 & Hbo4 & Hr4 & Hb4 & Hsemt).
    destruct (fok_targets st4 br (Some (LRef tb)) None A4) as (A5 & _ & Hbo5). fold st5 in A5, Hbo5.
    destruct (fok_block _ _ _ Ebb A5) as (A6 & _ & Hcode6 & Hbo6 & Hbb & Hn6 & _ & Hc6 & Hl6).
    destruct (fok_targets st6 br None (Some (LRef bb)) A6) as (A7 & _ & Hbo7).
    set (st7 := set_targets st6 br None (Some (LRef bb))) in *.
    (* the code *)
    assert (Hlc4 : lcode st4 = lcode st ++ map LI isc ++ [LBr br (Some cv) LNone LNone] ++ newt) by (rewrite Hcode4, Hcode3, Hcode2, Hcode1, <- !app_assoc; reflexivity).
    assert (Hpre_ne : forall i, In i (lcode st ++ map LI isc) -> lref i <> br).
    { intros i Hi. apply in_app_or in Hi as [Hi|Hi]; [pose proof (irefs_bound _ A i Hi); lia|]. apply in_map_iff in Hi as (j & <- & Hj). cbn. specialize (Hr1 j Hj). lia. }
    assert (Hnewt_ne : forall i, In i newt -> lref i <> br) by (intros i Hi; specialize (Hr4 i Hi); lia).
    assert (Hlc5 : lcode st5 = lcode st ++ map LI isc ++ [LBr br (Some cv) (LRef tb) LNone] ++ newt).
    { unfold st5. rewrite set_targets_lcode, Hlc4. rewrite (app_assoc (lcode st)). rewrite (upd_layout br (Some cv) LNone LNone (Some (LRef tb)) None _ newt Hpre_ne Hnewt_ne). rewrite <- app_assoc. reflexivity. }
    assert (Hlc7 : lcode st7 = lcode st ++ map LI isc ++ [LBr br (Some cv) (LRef tb) (LRef bb)] ++ newt).
    { unfold st7. rewrite set_targets_lcode, Hcode6, Hlc5. rewrite (app_assoc (lcode st)). rewrite (upd_layout br (Some cv) (LRef tb) LNone None (Some (LRef bb)) _ newt Hpre_ne Hnewt_ne). rewrite <- app_assoc. reflexivity. }
    set (BR := LBr br (Some cv) (LRef tb) (LRef bb)) in *.
    set (new := map LI isc ++ [BR] ++ newt).
    set (nb := nbc ++ nb2 ++ [(tb, length (lcode st2))] ++ nbt ++ [(bb, length (lcode st5))]).
    assert (Hbo : boffs st7 = boffs st ++ nb) by (unfold nb; rewrite Hbo7, Hbo6, Hbo5, Hbo4, Hbo3, Hbo2, Hbo1, <- !app_assoc; reflexivity).
    assert (Hnx7 : l_next st7 = S (l_next st4)) by (unfold st7; cbn; rewrite Hn6; reflexivity).
    assert (Hnx5 : l_next st5 = l_next st4) by reflexivity.
    assert (Hlen5 : length (lcode st5) = length (lcode st) + length new) by (rewrite Hlc5; unfold new; rewrite !app_length; reflexivity).
    assert (Hlen2 : length (lcode st2) = length (lcode st) + length isc + 1) by (rewrite Hcode2, Hcode1, !app_length, map_length; cbn; lia).
    split; [exact A7|]. split; [unfold st7; cbn; rewrite Hl6; unfold st5; cbn; congruence|]. split; [lia|].
    split; [exists (nc1 ++ nc4); split; [unfold st7; cbn; rewrite Hc6; unfold st5; cbn; rewrite Hc4, Hc3, Hc2, Hc1, app_assoc; reflexivity|
                                          intros c0 Hc0; apply in_app_or in Hc0 as [Hc0|Hc0]; [apply Hg1; exact Hc0|specialize (Hg4 c0 Hc0); lia]]|].
    exists new, nb. split; [rewrite Hlc7; reflexivity|]. split; [exact Hbo|].
    split.
    { intros i Hi. unfold new in Hi. apply in_app_or in Hi as [Hi|[Hi|Hi]].
      - apply in_map_iff in Hi as (j & <- & Hj). cbn. specialize (Hr1 j Hj). lia.
      - subst i. cbn. lia.
      - specialize (Hr4 i Hi). lia. }
    split.
    { assert (HL1 : length (lcode st1) = length (lcode st) + length isc) by (rewrite Hcode1, app_length, map_length; reflexivity).
      assert (HL3 : length (lcode st3) = length (lcode st) + length isc + 1) by (rewrite Hcode3; exact Hlen2).
      assert (HL4 : length (lcode st4) = length (lcode st) + length isc + 1 + length newt) by (rewrite Hcode4, app_length, HL3; reflexivity).
      assert (HLnew : length new = length isc + 1 + length newt) by (unfold new; rewrite !app_length, map_length; cbn; lia).
      assert (HL7 : length (lcode st7) = length (lcode st) + length new) by (rewrite Hlc7; fold new; apply app_length).
      intros e He. unfold nb in He. rewrite HL7.
      apply in_app_or in He as [He|He]; [destruct (Hb1 e He); lia|].
      apply in_app_or in He as [He|He]; [destruct (Hb2 e He); lia|].
      apply in_app_or in He as [He|He]; [destruct He as [<-|[]]; cbn [fst snd]; lia|].
      apply in_app_or in He as [He|He].
      { destruct (Hb4 e He) as [Hx1 Hx2]. lia. }
      destruct He as [<-|[]]. cbn [fst snd]. lia. }
    (* the execution *)
    intros F pre post fr vs cs V' A' vs' Hflat Hlen Hoff [more Hcs] Hregs Hdisj Hex. cbn [bexec] in Hex.
    destruct (teval structs gl args cs (l_locals st) (mkfr (vars fr) (fargs fr)) vs c) as [w| |] eqn:Ew; try discriminate.
    destruct (Hsemc F (length pre) fr vs cs w) as (frc & Hrunc & Hgc & Hvc & Hac & Hfc).
    { exists (nc4 ++ more). rewrite Hcs. unfold st7. cbn. rewrite Hc6. unfold st5. cbn. rewrite Hc4, Hc3, Hc2, <- app_assoc. reflexivity. }
    { exact Hregs. }
    { intros c0 i Hc0 Hi. apply (Hdisj c0 (LI i) Hc0). unfold new. apply in_or_app. left. apply in_map. exact Hi. }
    { rewrite <- Ew. apply teval_frame; reflexivity. }
    assert (Hflat' : flat_code F = (pre ++ map (finish_instr args) (map LI isc)) ++ finish_instr args BR :: map (finish_instr args) newt ++ post).
    { rewrite Hflat. unfold new. rewrite !map_app. cbn [map]. rewrite <- !app_assoc. reflexivity. }
    assert (HnBR : nth_error (flat_code F) (length pre + length isc) = Some (finish_instr args BR)).
    { rewrite Hflat'. replace (length pre + length isc) with (length (pre ++ map (finish_instr args) (map LI isc))) by (rewrite app_length, !map_length; reflexivity). apply nth_error_mid. }
    assert (Hj1 : jruns F (length pre) fr vs (length pre + length isc) frc vs).
    { replace (length isc) with (length (map (finish_instr args) (map LI isc))) by (rewrite !map_length; reflexivity).
      apply (sruns_jruns F _ pre (finish_instr args BR :: map (finish_instr args) newt ++ post)); [rewrite Hflat', <- app_assoc; reflexivity|apply runs_sruns; exact Hrunc]. }
    assert (Hregsc : forall c0, In c0 cs -> rlookup (cref c0) (regs frc) = Some (const_val (snd c0))).
    { intros c0 Hc0. rewrite Hfc; [apply Hregs; exact Hc0|]. intros i Hi E. apply (Hdisj c0 (LI i) Hc0); [unfold new; apply in_or_app; left; apply in_map; exact Hi|cbn; congruence]. }
    assert (Hofftb : block_offset_last (fn_blocks F) tb = Some (length pre + length isc + 1)).
    { assert (Hin : In (tb, length (lcode st2)) nb) by (unfold nb; rewrite !in_app_iff; cbn [In]; right; right; left; left; reflexivity).
      pose proof (Hoff _ Hin) as X. cbn [fst snd] in X. rewrite X, Hlen2, Hlen. reflexivity. }
    assert (Hoffbb : block_offset_last (fn_blocks F) bb = Some (length pre + length new)).
    { assert (Hin : In (bb, length (lcode st5)) nb) by (unfold nb; rewrite !in_app_iff; cbn [In]; right; right; right; right; left; reflexivity).
      pose proof (Hoff _ Hin) as X. cbn [fst snd] in X. rewrite X, Hlen5, Hlen. reflexivity. }
    destruct (truthy (hp vs) w) as [[|]| |] eqn:Etr; try discriminate.
    - (* the condition holds: jump to the block of the branch, run it, fall into the next block *)
      assert (HstepBR : step F (length pre + length isc) frc vs (finish_instr args BR) = StNext (length pre + length isc + 1) frc vs).
      { unfold BR. rewrite finish_br. unfold step. cbn [i_body tgt]. rewrite Hgc. cbn [lift]. rewrite Etr. cbn [lift]. rewrite Hofftb. reflexivity. }
      destruct (Hsemt F (pre ++ map (finish_instr args) (map LI isc) ++ [finish_instr args BR]) post frc vs cs V' A' vs') as (frt & Hjt & Hvt & Hat & Hft).
      { rewrite Hflat'. rewrite <- !app_assoc. reflexivity. }
      { rewrite !app_length, !map_length. cbn. rewrite Hcode3, Hlen2. lia. }
      { intros e He. apply Hoff. unfold nb. rewrite !in_app_iff. cbn [In]. right. right. right. left. exact He. }
      { exists more. rewrite Hcs. unfold st7. cbn. rewrite Hc6. reflexivity. }
      { exact Hregsc. }
      { intros c0 i Hc0 Hi. apply Hdisj; [exact Hc0|]. unfold new. apply in_or_app. right. right. exact Hi. }
      { rewrite Hl3, Hl2, Hl1, Hvc, Hac. exact Hex. }
      exists frt. split; [|split; [exact Hvt|split; [exact Hat|]]].
      + eapply jruns_trans; [exact Hj1|]. eapply jruns_trans; [apply (jruns_branch F _ frc vs _ _ HnBR HstepBR)|].
        rewrite !app_length, !map_length in Hjt. cbn [length] in Hjt. unfold new. rewrite !app_length, map_length. cbn [length].
        replace (length pre + (length isc + 1)) with (length pre + length isc + 1) in Hjt by lia.
        match goal with |- jruns _ _ _ _ ?n _ _ => replace n with (length pre + length isc + 1 + length newt) by lia end. exact Hjt.
      + intros q Hq. rewrite Hft by (intros i Hi; apply Hq; unfold new; apply in_or_app; right; right; exact Hi).
        apply Hfc. intros i Hi. apply (Hq (LI i)). unfold new. apply in_or_app. left. apply in_map. exact Hi.
    - (* the condition fails: jump past the branch *)
      inversion Hex; subst V' A' vs'; clear Hex.
      assert (HstepBR : step F (length pre + length isc) frc vs (finish_instr args BR) = StNext (length pre + length new) frc vs).
      { unfold BR. rewrite finish_br. unfold step. cbn [i_body tgt]. rewrite Hgc. cbn [lift]. rewrite Etr. cbn [lift]. rewrite Hoffbb. reflexivity. }
      exists frc. split; [|split; [exact Hvc|split; [exact Hac|]]].
      + eapply jruns_trans; [exact Hj1|]. apply (jruns_branch F _ frc vs _ _ HnBR HstepBR).
      + intros q Hq. apply Hfc. intros i Hi. apply (Hq (LI i)). unfold new. apply in_or_app. left. apply in_map. exact Hi.
  Qed.

  Lemma bres_if_else m c t f' st st' :
    (forall s st st', bstmt m s = true -> fok st -> lowers s st = LOk st' -> bres structs gl args st st' m s) ->
    tpure c = true -> bstmt m t = true -> bstmt m f' = true -> fok st -> lowers (TIf c t (Some f')) st = LOk st' -> bres structs gl args st st' (S m) (TIf c t (Some f')).
  Proof.
    intros IHm Hpc Hbt Hbf A H. cbn [lower_stmt lbind] in H.
    destruct (lower_expr structs gl args c st) as [[cv st1]| |] eqn:Ec; cbn [lbind] in H; try discriminate.
    destruct (emit_branch st1 (Some cv) LNone LNone) as [st2 br] eqn:Eb.
    destruct (create_block st2) as [st3 tb] eqn:Etb.
    destruct (lowers t st3) as [st4| |] eqn:Et; cbn [lbind] in H; try discriminate.
    set (st5 := set_targets st4 br (Some (LRef tb)) None) in *.
    destruct (emit_branch st5 None (LRef tb) LNone) as [st6 ex] eqn:Eex.
    destruct (create_block st6) as [st7 fb] eqn:Efb.
    destruct (lowers f' st7) as [st8| |] eqn:Ef; cbn [lbind] in H; try discriminate.
    set (st9 := set_targets st8 br None (Some (LRef fb))) in *.
    destruct (create_block st9) as [st10 bb] eqn:Ebb. inversion H; subst st'; clear H.
    set (st11 := set_targets st10 ex (Some (LRef bb)) None) in *.
    destruct (cond_facts c st cv st1 Hpc A Ec) as (A1 & Hl1 & Hn1 & Hcv & (nc1 & Hc1 & Hg1) & isc & nbc & Hcode1 & Hbo1 & Hr1 & Hb1 & Hsemc).
    destruct (emit_branch_fok _ _ _ _ _ _ Eb A1) as (A2 & (nb2 & Hbo2 & Hb2 & _ & _) & Hcode2 & Hc2 & Hl2 & _ & Hbr).
    destruct (fok_block _ _ _ Etb A2) as (A3 & _ & Hcode3 & Hbo3 & Htb & Hn3 & _ & Hc3 & Hl3).
    destruct (IHm t st3 st4 Hbt A3 Et) as (A4 & Hl4 & Hn4 & (nc4 & Hc4 & Hg4) & newt & nbt & Hcode4 & Hbo4 & Hr4 & Hb4 & Hsemt).
    destruct (fok_targets st4 br (Some (LRef tb)) None A4) as (A5 & _ & Hbo5). fold st5 in A5, Hbo5.
    destruct (emit_branch_fok _ _ _ _ _ _ Eex A5) as (A6 & (nb6 & Hbo6 & Hb6 & _ & _) & Hcode6 & Hc6 & Hl6 & _ & Hex).
    destruct (fok_block _ _ _ Efb A6) as (A7 & _ & Hcode7 & Hbo7 & Hfb & Hn7 & _ & Hc7 & Hl7).
    destruct (IHm f' st7 st8 Hbf A7 Ef) as (A8 & Hl8 & Hn8 & (nc8 & Hc8 & Hg8) & newf & nbf & Hcode8 & Hbo8 & Hr8 & Hb8 & Hsemf).
    destruct (fok_targets st8 br None (Some (LRef fb)) A8) as (A9 & _ & Hbo9). fold st9 in A9, Hbo9.
    destruct (fok_block _ _ _ Ebb A9) as (A10 & _ & Hcode10 & Hbo10 & Hbb & Hn10 & _ & Hc10 & Hl10).
    destruct (fok_targets st10 ex (Some (LRef bb)) None A10) as (A11 & _ & Hbo11). fold st11 in A11, Hbo11.
    assert (Hnx5 : l_next st5 = l_next st4) by reflexivity. assert (Hnx9 : l_next st9 = l_next st8) by reflexivity. assert (Hnx11 : l_next st11 = l_next st10) by reflexivity.
    (* the code *)
    assert (Hpre_ne : forall i, In i (lcode st ++ map LI isc) -> lref i <> br).
    { intros i Hi. apply in_app_or in Hi as [Hi|Hi]; [pose proof (irefs_bound _ A i Hi); lia|]. apply in_map_iff in Hi as (j & <- & Hj). cbn. specialize (Hr1 j Hj). lia. }
    assert (Hnewt_ne : forall i, In i newt -> lref i <> br) by (intros i Hi; specialize (Hr4 i Hi); lia).
    assert (Hlc5 : lcode st5 = lcode st ++ map LI isc ++ [LBr br (Some cv) (LRef tb) LNone] ++ newt).
    { unfold st5. rewrite set_targets_lcode, Hcode4, Hcode3, Hcode2, Hcode1. rewrite <- !app_assoc. rewrite (app_assoc (lcode st)).
      rewrite (upd_layout br (Some cv) LNone LNone (Some (LRef tb)) None _ newt Hpre_ne Hnewt_ne). rewrite <- app_assoc. reflexivity. }
    assert (Hlc8 : lcode st8 = lcode st ++ map LI isc ++ [LBr br (Some cv) (LRef tb) LNone] ++ (newt ++ [LBr ex None (LRef tb) LNone] ++ newf)).
    { rewrite Hcode8, Hcode7, Hcode6, Hlc5, <- !app_assoc. reflexivity. }
    assert (Hrest_ne : forall i, In i (newt ++ [LBr ex None (LRef tb) LNone] ++ newf) -> lref i <> br).
    { intros i Hi. apply in_app_or in Hi as [Hi|[Hi|Hi]]; [apply Hnewt_ne; exact Hi|subst i; cbn; lia|specialize (Hr8 i Hi); lia]. }
    assert (Hlc9 : lcode st9 = lcode st ++ map LI isc ++ [LBr br (Some cv) (LRef tb) (LRef fb)] ++ (newt ++ [LBr ex None (LRef tb) LNone] ++ newf)).
    { unfold st9. rewrite set_targets_lcode, Hlc8. rewrite (app_assoc (lcode st)).
      rewrite (upd_layout br (Some cv) (LRef tb) LNone None (Some (LRef fb)) _ _ Hpre_ne Hrest_ne). rewrite <- app_assoc. reflexivity. }
    set (BR := LBr br (Some cv) (LRef tb) (LRef fb)) in *. set (EX := LBr ex None (LRef bb) LNone).
    assert (Hlc11 : lcode st11 = lcode st ++ map LI isc ++ [BR] ++ newt ++ [EX] ++ newf).
    { unfold st11. rewrite set_targets_lcode, Hcode10, Hlc9.
      replace (lcode st ++ map LI isc ++ [BR] ++ newt ++ [LBr ex None (LRef tb) LNone] ++ newf) with ((lcode st ++ map LI isc ++ [BR] ++ newt) ++ [LBr ex None (LRef tb) LNone] ++ newf) by (rewrite <- !app_assoc; reflexivity).
      rewrite (upd_layout ex None (LRef tb) LNone (Some (LRef bb)) None).
      - rewrite <- !app_assoc. reflexivity.
      - intros i Hi. apply in_app_or in Hi as [Hi|Hi]; [pose proof (irefs_bound _ A i Hi); lia|]. apply in_app_or in Hi as [Hi|[Hi|Hi]].
        + apply in_map_iff in Hi as (j & <- & Hj). cbn. specialize (Hr1 j Hj). lia.
        + subst i. cbn. lia.
        + specialize (Hr4 i Hi). lia.
      - intros i Hi. specialize (Hr8 i Hi). lia. }
    set (new := map LI isc ++ [BR] ++ newt ++ [EX] ++ newf).
    set (nb := nbc ++ nb2 ++ [(tb, length (lcode st2))] ++ nbt ++ nb6 ++ [(fb, length (lcode st6))] ++ nbf ++ [(bb, length (lcode st9))]).
    assert (Hbo : boffs st11 = boffs st ++ nb) by (unfold nb; rewrite Hbo11, Hbo10, Hbo9, Hbo8, Hbo7, Hbo6, Hbo5, Hbo4, Hbo3, Hbo2, Hbo1, <- !app_assoc; reflexivity).
    assert (HL1 : length (lcode st1) = length (lcode st) + length isc) by (rewrite Hcode1, app_length, map_length; reflexivity).
    assert (HL2 : length (lcode st2) = length (lcode st) + length isc + 1) by (rewrite Hcode2, app_length, HL1; cbn; lia).
    assert (HL3 : length (lcode st3) = length (lcode st) + length isc + 1) by (rewrite Hcode3; exact HL2).
    assert (HL4 : length (lcode st4) = length (lcode st) + length isc + 1 + length newt) by (rewrite Hcode4, app_length, HL3; reflexivity).
    assert (HL5 : length (lcode st5) = length (lcode st4)) by (unfold st5; rewrite set_targets_lcode, map_length; reflexivity).
    assert (HL6 : length (lcode st6) = length (lcode st) + length isc + 1 + length newt + 1) by (rewrite Hcode6, app_length, HL5, HL4; cbn; lia).
    assert (HL7 : length (lcode st7) = length (lcode st6)) by (rewrite Hcode7; reflexivity).
    assert (HL8 : length (lcode st8) = length (lcode st6) + length newf) by (rewrite Hcode8, app_length, HL7; reflexivity).
    assert (HL9 : length (lcode st9) = length (lcode st8)) by (unfold st9; rewrite set_targets_lcode, map_length; reflexivity).
    assert (HLnew : length new = length isc + 1 + length newt + 1 + length newf) by (unfold new; rewrite !app_length, map_length; cbn; lia).
    assert (HL11 : length (lcode st11) = length (lcode st) + length new) by (rewrite Hlc11; fold new; apply app_length).
    split; [exact A11|]. split; [unfold st11; cbn; rewrite Hl10; unfold st9; cbn; rewrite Hl8, Hl7, Hl6; unfold st5; cbn; congruence|]. split; [lia|].
    split; [exists (nc1 ++ nc4 ++ nc8); split; [unfold st11; cbn; rewrite Hc10; unfold st9; cbn; rewrite Hc8, Hc7, Hc6; unfold st5; cbn; rewrite Hc4, Hc3, Hc2, Hc1, <- !app_assoc; reflexivity|
              intros c0 Hc0; apply in_app_or in Hc0 as [Hc0|Hc0]; [apply Hg1; exact Hc0|apply in_app_or in Hc0 as [Hc0|Hc0]; [specialize (Hg4 c0 Hc0); lia|specialize (Hg8 c0 Hc0); lia]]]|].
    exists new, nb. split; [rewrite Hlc11; reflexivity|]. split; [exact Hbo|].
    split.
    { intros i Hi. unfold new in Hi. rewrite !in_app_iff in Hi. cbn [In] in Hi. destruct Hi as [Hi|[[Hi|[]]|[Hi|[[Hi|[]]|Hi]]]].
      - apply in_map_iff in Hi as (j & <- & Hj). cbn. specialize (Hr1 j Hj). lia.
      - subst i. cbn. lia.
      - specialize (Hr4 i Hi). lia.
      - subst i. cbn. lia.
      - specialize (Hr8 i Hi). lia. }
    split.
    { intros e He. unfold nb in He. rewrite HL11. rewrite !in_app_iff in He. cbn [In] in He.
      destruct He as [He|[He|[[He|[]]|[He|[He|[[He|[]]|[He|[He|[]]]]]]]]].
      - destruct (Hb1 e He). lia.
      - destruct (Hb2 e He). lia.
      - subst e. cbn [fst snd]. lia.
      - destruct (Hb4 e He). lia.
      - destruct (Hb6 e He). lia.
      - subst e. cbn [fst snd]. lia.
      - destruct (Hb8 e He). lia.
      - subst e. cbn [fst snd]. lia. }
    (* the execution *)
    intros F pre post fr vs cs V' A' vs' Hflat Hlen Hoff [more Hcs] Hregs Hdisj Hexe. cbn [bexec] in Hexe.
    destruct (teval structs gl args cs (l_locals st) (mkfr (vars fr) (fargs fr)) vs c) as [w| |] eqn:Ew; try discriminate.
    assert (Hcs11 : l_consts st11 = l_consts st1 ++ nc4 ++ nc8) by (unfold st11; cbn; rewrite Hc10; unfold st9; cbn; rewrite Hc8, Hc7, Hc6; unfold st5; cbn; rewrite Hc4, Hc3, Hc2, <- !app_assoc; reflexivity).
    destruct (Hsemc F (length pre) fr vs cs w) as (frc & Hrunc & Hgc & Hvc & Hac & Hfc).
    { exists (nc4 ++ nc8 ++ more). rewrite Hcs, Hcs11, <- !app_assoc. reflexivity. }
    { exact Hregs. }
    { intros c0 i Hc0 Hi. apply (Hdisj c0 (LI i) Hc0). unfold new. apply in_or_app. left. apply in_map. exact Hi. }
    { rewrite <- Ew. apply teval_frame; reflexivity. }
    set (fin := finish_instr args) in *.
    assert (Hflat' : flat_code F = (pre ++ map fin (map LI isc)) ++ fin BR :: (map fin newt ++ fin EX :: map fin newf ++ post)).
    { rewrite Hflat. unfold new. rewrite !map_app. cbn [map]. rewrite <- !app_assoc. reflexivity. }
    assert (HnBR : nth_error (flat_code F) (length pre + length isc) = Some (fin BR)).
    { rewrite Hflat'. replace (length pre + length isc) with (length (pre ++ map fin (map LI isc))) by (rewrite app_length, !map_length; reflexivity). apply nth_error_mid. }
    assert (Hflat'' : flat_code F = (pre ++ map fin (map LI isc) ++ [fin BR] ++ map fin newt) ++ fin EX :: (map fin newf ++ post)).
    { rewrite Hflat'. rewrite <- !app_assoc. reflexivity. }
    assert (HnEX : nth_error (flat_code F) (length pre + length isc + 1 + length newt) = Some (fin EX)).
    { rewrite Hflat''. replace (length pre + length isc + 1 + length newt) with (length (pre ++ map fin (map LI isc) ++ [fin BR] ++ map fin newt)) by (rewrite !app_length, !map_length; cbn; lia). apply nth_error_mid. }
    assert (Hj1 : jruns F (length pre) fr vs (length pre + length isc) frc vs).
    { replace (length isc) with (length (map fin (map LI isc))) by (rewrite !map_length; reflexivity).
      apply (sruns_jruns F _ pre (fin BR :: (map fin newt ++ fin EX :: map fin newf ++ post))); [rewrite Hflat', <- app_assoc; reflexivity|apply runs_sruns; exact Hrunc]. }
    assert (Hregsc : forall c0, In c0 cs -> rlookup (cref c0) (regs frc) = Some (const_val (snd c0))).
    { intros c0 Hc0. rewrite Hfc; [apply Hregs; exact Hc0|]. intros i Hi E. apply (Hdisj c0 (LI i) Hc0); [unfold new; apply in_or_app; left; apply in_map; exact Hi|cbn; congruence]. }
    assert (Hofftb : block_offset_last (fn_blocks F) tb = Some (length pre + length isc + 1)).
    { assert (Hin : In (tb, length (lcode st2)) nb) by (unfold nb; rewrite !in_app_iff; cbn [In]; right; right; left; left; reflexivity).
      pose proof (Hoff _ Hin) as X. cbn [fst snd] in X. rewrite X, HL2, Hlen. reflexivity. }
    assert (Hofffb : block_offset_last (fn_blocks F) fb = Some (length pre + length isc + 1 + length newt + 1)).
    { assert (Hin : In (fb, length (lcode st6)) nb) by (unfold nb; rewrite !in_app_iff; cbn [In]; right; right; right; right; right; left; left; reflexivity).
      pose proof (Hoff _ Hin) as X. cbn [fst snd] in X. rewrite X, HL6, Hlen. reflexivity. }
    assert (Hoffbb : block_offset_last (fn_blocks F) bb = Some (length pre + length new)).
    { assert (Hin : In (bb, length (lcode st9)) nb) by (unfold nb; rewrite !in_app_iff; cbn [In]; right; right; right; right; right; right; right; left; reflexivity).
      pose proof (Hoff _ Hin) as X. cbn [fst snd] in X. rewrite X, HL9, HL8, HL6, HLnew, Hlen. f_equal. lia. }
    destruct (truthy (hp vs) w) as [[|]| |] eqn:Etr; try discriminate.
    - (* then: jump to tb, run the branch, jump over the else part *)
      assert (HstepBR : step F (length pre + length isc) frc vs (fin BR) = StNext (length pre + length isc + 1) frc vs).
      { unfold fin, BR. rewrite finish_br. unfold step. cbn [i_body tgt]. rewrite Hgc. cbn [lift]. rewrite Etr. cbn [lift]. rewrite Hofftb. reflexivity. }
      destruct (Hsemt F (pre ++ map fin (map LI isc) ++ [fin BR]) (fin EX :: map fin newf ++ post) frc vs cs V' A' vs') as (frt & Hjt & Hvt & Hat & Hft).
      { rewrite Hflat'. rewrite <- !app_assoc. reflexivity. }
      { rewrite !app_length, !map_length. cbn. rewrite HL3. lia. }
      { intros e He. apply Hoff. unfold nb. rewrite !in_app_iff. cbn [In]. right. right. right. left. exact He. }
      { exists (nc8 ++ more). rewrite Hcs, Hcs11. rewrite Hc4, Hc3, Hc2, <- !app_assoc. reflexivity. }
      { exact Hregsc. }
      { intros c0 i Hc0 Hi. apply Hdisj; [exact Hc0|]. unfold new. rewrite !in_app_iff. right. right. left. exact Hi. }
      { rewrite Hl3, Hl2, Hl1, Hvc, Hac. exact Hexe. }
      assert (HstepEX : step F (length pre + length isc + 1 + length newt) frt vs' (fin EX) = StNext (length pre + length new) frt vs').
      { unfold fin, EX. rewrite finish_br. unfold step. cbn [i_body tgt]. rewrite Hoffbb. reflexivity. }
      exists frt. split; [|split; [exact Hvt|split; [exact Hat|]]].
      + eapply jruns_trans; [exact Hj1|]. eapply jruns_trans; [apply (jruns_branch F _ frc vs _ _ HnBR HstepBR)|].
        rewrite !app_length, !map_length in Hjt. cbn [length] in Hjt.
        eapply jruns_trans; [|apply (jruns_branch F _ frt vs' _ _ HnEX HstepEX)].
        match type of Hjt with jruns _ ?a _ _ _ _ _ => replace a with (length pre + length isc + 1) in Hjt by lia end.
        match type of Hjt with jruns _ _ _ _ ?b _ _ => match goal with |- jruns _ _ _ _ ?n _ _ => replace n with b by lia end end. exact Hjt.
      + intros q Hq. rewrite Hft by (intros i Hi; apply Hq; unfold new; rewrite !in_app_iff; right; right; left; exact Hi).
        apply Hfc. intros i Hi. apply (Hq (LI i)). unfold new. apply in_or_app. left. apply in_map. exact Hi.
    - (* else: jump to fb, run the else part, fall into the next block *)
      assert (HstepBR : step F (length pre + length isc) frc vs (fin BR) = StNext (length pre + length isc + 1 + length newt + 1) frc vs).
      { unfold fin, BR. rewrite finish_br. unfold step. cbn [i_body tgt]. rewrite Hgc. cbn [lift]. rewrite Etr. cbn [lift]. rewrite Hofffb. reflexivity. }
      destruct (Hsemf F (pre ++ map fin (map LI isc) ++ [fin BR] ++ map fin newt ++ [fin EX]) post frc vs cs V' A' vs') as (frf & Hjf & Hvf & Haf & Hff).
      { rewrite Hflat'. rewrite <- !app_assoc. reflexivity. }
      { rewrite !app_length, !map_length. cbn. rewrite HL7, HL6. lia. }
      { intros e He. apply Hoff. unfold nb. rewrite !in_app_iff. cbn [In]. right. right. right. right. right. right. left. exact He. }
      { exists more. rewrite Hcs, Hcs11. rewrite Hc8, Hc7, Hc6. unfold st5. cbn. rewrite Hc4, Hc3, Hc2, <- !app_assoc. reflexivity. }
      { exact Hregsc. }
      { intros c0 i Hc0 Hi. apply Hdisj; [exact Hc0|]. unfold new. rewrite !in_app_iff. right. right. right. right. exact Hi. }
      { rewrite Hl7, Hl6. unfold st5. cbn [set_targets l_locals]. rewrite Hl4, Hl3, Hl2, Hl1, Hvc, Hac. exact Hexe. }
      exists frf. split; [|split; [exact Hvf|split; [exact Haf|]]].
      + eapply jruns_trans; [exact Hj1|]. eapply jruns_trans; [apply (jruns_branch F _ frc vs _ _ HnBR HstepBR)|].
        rewrite !app_length, !map_length in Hjf. cbn [length] in Hjf.
        match type of Hjf with jruns _ ?a _ _ _ _ _ => replace a with (length pre + length isc + 1 + length newt + 1) in Hjf by lia end.
        match type of Hjf with jruns _ _ _ _ ?b _ _ => match goal with |- jruns _ _ _ _ ?n _ _ => replace n with b by (rewrite HLnew; lia) end end. exact Hjf.
      + intros q Hq. rewrite Hff by (intros i Hi; apply Hq; unfold new; rewrite !in_app_iff; right; right; right; right; exact Hi).
        apply Hfc. intros i Hi. apply (Hq (LI i)). unfold new. apply in_or_app. left. apply in_map. exact Hi.
  Qed.
End FlowIf.

(** ** every statement of the fragment *)
Theorem bres_all structs gl args : forall n s st st', bstmt n s = true -> fok st -> lower_stmt structs gl args s st = LOk st' -> bres structs gl args st st' n s.
Proof.
  induction n as [|n IHn]; intros s st st' Hs A H; [discriminate|].
  destruct s as [| e | l | | c t f | | | | |]; cbn [bstmt] in Hs; try discriminate.
  - destruct e as [| | | | |lhs e'| | | | |]; try discriminate. destruct lhs as [| |x ty| | | | | | | |]; try discriminate. destruct ty as [[c0| |]| | |]; try discriminate.
    apply bres_assign; assumption.
  - rewrite lower_block in H.
    destruct (bres_list_of structs gl args n IHn l st st' Hs A H) as (A' & Hl & Hn & Hc & new & nb & Hcode & Hbo & Hr & Hb & Hsem).
    split; [exact A'|]. split; [exact Hl|]. split; [exact Hn|]. split; [exact Hc|]. exists new, nb.
    split; [exact Hcode|]. split; [exact Hbo|]. split; [exact Hr|]. split; [exact Hb|].
    intros F pre post fr vs cs V' A0 vs' Hflat Hlen Hoff Hcs Hregs Hdisj Hex. rewrite bexec_block in Hex.
    apply (Hsem F pre post fr vs cs V' A0 vs'); assumption.
  - apply andb_prop in Hs as [Hs Hf]. apply andb_prop in Hs as [Hpc Hbt]. destruct f as [f'|].
    + apply bres_if_else; assumption.
    + apply bres_if_noelse; assumption.
Qed.
