(** * C14 / C02 for straight-line functions: what the lowering model emits is well-formed.
    References are handed out in increasing order, every operand is a pooled constant or the result of an earlier
    instruction, all code goes to one block that ends in the return.  Consequences: the lowered function passes the
    verified well-formedness check of C14 and satisfies the hypotheses of C02's forwarding theorem. *)
From Coq Require Import String ZArith List Bool PrimFloat Arith Lia.
From NSL Require Import Base.Types Base.Syntax Model.PyNum Model.IR Model.VM Model.WfIR Model.Elab Model.Lower Model.Opt
                        Proofs.WfIRProofs Proofs.OptProofs Proofs.LowerExprProofs Proofs.ForwardProofs Proofs.LowerStmtProofs Proofs.CallAgreeProofs.
Import ListNotations.

(** instructions [is] appended after a state with counter [lo]: increasing references, operands among the constants
    [cs] and the results of earlier instructions (those already present, [old], or in [is]) *)
Fixpoint code_ok (cs old : list nat) (lo : nat) (is : list instr) : Prop :=
  match is with
  | [] => True
  | i :: r => lo <= i_ref i /\ defines i = true /\ (forall o, In o (operands (i_body i)) -> In o cs \/ In o old) /\ code_ok cs (i_ref i :: old) (S (i_ref i)) r
  end.

Definition hi (lo : nat) (is : list instr) : nat := fold_left (fun _ i => S (i_ref i)) is lo.
Definition olds (old : list nat) (is : list instr) : list nat := rev (map i_ref is) ++ old.

Lemma code_ok_app cs : forall is1 old lo is2, code_ok cs old lo is1 -> code_ok cs (olds old is1) (hi lo is1) is2 -> code_ok cs old lo (is1 ++ is2).
Proof.
  induction is1 as [|i r IH]; intros old lo is2 H1 H2; cbn in *; [exact H2|]. destruct H1 as (Ha & Hd & Hb & Hc). repeat split; auto.
  apply IH; [exact Hc|]. unfold olds, hi in *. cbn in H2. rewrite <- app_assoc in H2. exact H2.
Qed.
Lemma hi_app lo is1 is2 : hi lo (is1 ++ is2) = hi (hi lo is1) is2.
Proof. unfold hi. apply fold_left_app. Qed.
Lemma olds_app old is1 is2 : olds old (is1 ++ is2) = olds (olds old is1) is2.
Proof. unfold olds. rewrite map_app, rev_app_distr, app_assoc. reflexivity. Qed.
Lemma code_ok_hi cs : forall is old lo, code_ok cs old lo is -> lo <= hi lo is.
Proof. induction is as [|i r IH]; intros old lo H; cbn in *; [lia|]. destruct H as (Ha & _ & _ & Hr). specialize (IH _ _ Hr). unfold hi in *. cbn. lia. Qed.
Lemma code_ok_refs cs : forall is old lo, code_ok cs old lo is -> forall i, In i is -> lo <= i_ref i < hi lo is.
Proof.
  induction is as [|j r IH]; intros old lo H i Hi; cbn in *; [destruct Hi|]. destruct H as (Ha & _ & _ & Hr). unfold hi. cbn. fold (hi (S (i_ref j)) r).
  destruct Hi as [<-|Hi]; [pose proof (code_ok_hi cs r _ _ Hr); lia|]. specialize (IH _ _ Hr i Hi). lia.
Qed.

Lemma code_ok_weaken cs cs' : (forall c, In c cs -> In c cs') -> forall is old old' lo lo', (forall o, In o old -> In o old') -> lo' <= lo ->
  code_ok cs old lo is -> code_ok cs' old' lo' is.
Proof.
  intros Hc. induction is as [|i r IH]; intros old old' lo lo' Ho Hl H; cbn in *; [exact I|]. destruct H as (Ha & Hd & Hb & Hr). repeat split; [lia|exact Hd| |].
  - intros o Hin. destruct (Hb o Hin) as [X|X]; [left; apply Hc; exact X|right; apply Ho; exact X].
  - apply (IH (i_ref i :: old) (i_ref i :: old') (S (i_ref i)) (S (i_ref i))); [|lia|exact Hr]. intros o [->|X]; [left; reflexivity|right; apply Ho; exact X].
Qed.

Definition crefs (st : lstate) : list nat := map cref (l_consts st).

Lemma hi_cons lo i r : hi lo (i :: r) = hi (S (i_ref i)) r.
Proof. reflexivity. Qed.
Lemma hi_mono : forall is lo lo', lo <= lo' -> hi lo is <= hi lo' is.
Proof. intros is. unfold hi. destruct is as [|i r]; cbn; intros; [lia|]. generalize (S (i_ref i)). intros n. lia. Qed.

Lemma in_olds old is o : In o (olds old is) <-> In o (map i_ref is) \/ In o old.
Proof. unfold olds. rewrite in_app_iff, <- in_rev. tauto. Qed.

Section Struct.
  Variable structs : list sdef.
  Variable gl args : list string.

  Lemma lower_pure_struct : forall te st r st', tpure te = true -> linv st -> lower_expr structs gl args te st = LOk (r, st') ->
    forall old, (forall o, In o old -> o < l_next st) ->
    exists is, lcode st' = lcode st ++ map LI is /\ code_ok (crefs st') old (l_next st) is /\ hi (l_next st) is <= l_next st' /\
               (In r (crefs st') \/ In r (map i_ref is)) /\ (forall c, In c (crefs st) -> In c (crefs st')) /\ linv st' /\ l_next st <= l_next st' /\
               forallb plain is = true.
  Proof.
    induction te as [z|f|x t|o rt l IHl r0 IHr|t a IHa| | | | | | ]; intros st r st' Hp I H old Hold; try discriminate.
    - cbn [lower_expr] in H. destruct (create_const st (ITInt false) (KInt z)) as [st1 r1] eqn:E. inversion H; subst; clear H.
      destruct (create_const_spec _ _ _ _ _ I E) as (I' & Hb & _ & _ & Hle & _ & (new & Hnew & _) & Hfind).
      exists []. split; [unfold lcode; rewrite Hb, app_nil_r; reflexivity|]. split; [exact Logic.I|]. split; [exact Hle|]. split.
      { left. destruct (Hfind eq_refl (Z.eqb_refl z) []) as (c & Hc & <-). rewrite app_nil_r in Hc. apply in_map. apply (find_some _ _ Hc). }
      split; [intros c Hc; unfold crefs in *; rewrite Hnew, map_app; apply in_or_app; left; exact Hc|]. auto.
    - cbn [lower_expr] in H. destruct (create_const st ITFloat (KFloat f)) as [st1 r1] eqn:E. inversion H; subst; clear H.
      destruct (create_const_spec _ _ _ _ _ I E) as (I' & Hb & _ & _ & Hle & _ & (new & Hnew & _) & Hfind).
      exists []. split; [unfold lcode; rewrite Hb, app_nil_r; reflexivity|]. split; [exact Logic.I|]. split; [exact Hle|]. split.
      { left. cbn in Hp. destruct (Hfind eq_refl Hp []) as (c & Hc & <-). rewrite app_nil_r in Hc. apply in_map. apply (find_some _ _ Hc). }
      split; [intros c Hc; unfold crefs in *; rewrite Hnew, map_app; apply in_or_app; left; exact Hc|]. auto.
    - cbn [lower_expr lbind] in H. destruct t as [[c| |]| | |]; try discriminate.
      destruct (scope_of gl args st x) as [sc| |]; cbn [lbind] in H; try discriminate.
      match type of H with context [emit st ?t ?b] => destruct (emit st t b) as [st1 r1] eqn:E end. inversion H; subst; clear H.
      destruct (emit_spec _ _ _ _ _ I E) as (I' & Hcode & Hcs & _ & _ & _ & Hlo & Hhi).
      eexists [_]. split; [exact Hcode|]. split; [cbn; repeat split; auto; intros ? []|]. split; [unfold hi; cbn; lia|]. split; [right; left; reflexivity|].
      split; [unfold crefs; rewrite Hcs; auto|]. split; [exact I'|]. split; [lia|reflexivity].
    - destruct rt as [c| |]; try discriminate. cbn [tpure] in Hp. apply andb_prop in Hp as [Hpl Hpr]. cbn [lower_expr lbind] in H.
      destruct (lower_expr structs gl args l st) as [[a st1]| |] eqn:El; cbn [lbind] in H; try discriminate.
      destruct (lower_expr structs gl args r0 st1) as [[b st2]| |] eqn:Er; cbn [lbind] in H; try discriminate.
      match type of H with context [emit st2 ?t ?bd] => destruct (emit st2 t bd) as [st3 ref] eqn:Ee end. inversion H; subst; clear H.
      destruct (IHl _ _ _ Hpl I El old Hold) as (is1 & Hc1 & Hok1 & Hh1 & Ha & Hs1 & I1 & Hn1 & Hpl1).
      assert (Hold1 : forall o, In o (olds old is1) -> o < l_next st1).
      { intros q Ho. apply in_olds in Ho as [Ho|Ho]; [|specialize (Hold q Ho); lia]. apply in_map_iff in Ho as (i & <- & Hi). pose proof (code_ok_refs _ _ _ _ Hok1 i Hi). lia. }
      destruct (IHr _ _ _ Hpr I1 Er (olds old is1) Hold1) as (is2 & Hc2 & Hok2 & Hh2 & Hb & Hs2 & I2 & Hn2 & Hpl2).
      destruct (emit_spec _ _ _ _ _ I2 Ee) as (I3 & Hc3 & Hcs3 & _ & _ & _ & Hlo & Hhi).
      set (bin := {| i_ref := r; i_ty := adapt structs 8 (TPrim (PScalar c)); i_body := IBin (scalar_opc o) a b |}) in *.
      assert (Hsub : forall c0, In c0 (crefs st2) -> In c0 (crefs st')) by (unfold crefs; rewrite Hcs3; auto).
      exists (is1 ++ is2 ++ [bin]). split; [rewrite Hc3, Hc2, Hc1, !map_app, <- !app_assoc; reflexivity|].
      split.
      { apply code_ok_app; [apply (code_ok_weaken (crefs st1) (crefs st')) with (old := old) (lo := l_next st); auto; intros; apply Hsub, Hs2; assumption|].
        apply code_ok_app; [apply (code_ok_weaken (crefs st2) (crefs st')) with (old := olds old is1) (lo := l_next st1); auto|].
        cbn. split; [pose proof (hi_mono is2 _ _ Hh1); lia|]. split; [reflexivity|]. split; [|exact Logic.I].
        intros o0 [<-|[<-|[]]].
        - destruct Ha as [Ha|Ha]; [left; apply Hsub, Hs2; exact Ha|right; apply in_olds; right; apply in_olds; left; exact Ha].
        - destruct Hb as [Hb|Hb]; [left; apply Hsub; exact Hb|right; apply in_olds; left; exact Hb]. }
      split; [rewrite !hi_app; unfold hi at 1; cbn; lia|].
      split; [right; rewrite !map_app; apply in_or_app; right; apply in_or_app; right; left; reflexivity|].
      split; [intros c0 Hc0; apply Hsub, Hs2, Hs1; exact Hc0|]. split; [exact I3|]. split; [lia|].
      rewrite !forallb_app, Hpl1, Hpl2. reflexivity.
    - destruct t as [c| |]; try discriminate. cbn [tpure] in Hp. cbn [lower_expr lbind] in H.
      destruct (lower_expr structs gl args a st) as [[v0 st1]| |] eqn:Ea; cbn [lbind] in H; try discriminate.
      match type of H with context [emit st1 ?t ?bd] => destruct (emit st1 t bd) as [st2 ref] eqn:Ee end. inversion H; subst; clear H.
      destruct (IHa _ _ _ Hp I Ea old Hold) as (is1 & Hc1 & Hok1 & Hh1 & Hv & Hs1 & I1 & Hn1 & Hpl1).
      destruct (emit_spec _ _ _ _ _ I1 Ee) as (I2 & Hc2 & Hcs2 & _ & _ & _ & Hlo & Hhi).
      set (cst := {| i_ref := r; i_ty := adapt structs 8 (TPrim (PScalar c)); i_body := ICast v0 |}) in *.
      assert (Hsub : forall c0, In c0 (crefs st1) -> In c0 (crefs st')) by (unfold crefs; rewrite Hcs2; auto).
      exists (is1 ++ [cst]). split; [rewrite Hc2, Hc1, map_app, <- app_assoc; reflexivity|].
      split.
      { apply code_ok_app; [apply (code_ok_weaken (crefs st1) (crefs st')) with (old := old) (lo := l_next st); auto|].
        cbn. split; [lia|]. split; [reflexivity|]. split; [|exact Logic.I]. intros o0 [<-|[]].
        destruct Hv as [Hv|Hv]; [left; apply Hsub; exact Hv|right; apply in_olds; left; exact Hv]. }
      split; [rewrite hi_app; unfold hi at 1; cbn; lia|]. split; [right; rewrite map_app; apply in_or_app; right; left; reflexivity|].
      split; [intros c0 Hc0; apply Hsub, Hs1; exact Hc0|]. split; [exact I2|]. split; [lia|]. rewrite forallb_app, Hpl1. reflexivity.
  Qed.
End Struct.

(** ** one block *)
Definition one_block (st : lstate) : Prop :=
  (l_blocks st = [] /\ l_newblock st = true) \/ (exists b code, l_blocks st = [(b, code)] /\ l_newblock st = false /\ b < l_next st).

Lemma create_const_one st t v st' r : create_const st t v = (st', r) -> one_block st -> one_block st'.
Proof.
  unfold create_const. destruct (find _ (l_consts st)); intros H Ho; inversion H; subst; [exact Ho|].
  destruct Ho as [[H1 H2]|(b & code & H1 & H2 & H3)]; [left; cbn; auto|right; exists b, code; cbn; repeat split; auto].
Qed.
Lemma emit_raw_one st mk st' r : emit_raw st mk = (st', r) -> one_block st -> exists b code, l_blocks st' = [(b, code)] /\ l_newblock st' = false /\ b < l_next st' /\ b <> r /\
  (l_blocks st = [] -> b = l_next st) /\ (forall b0 c0, l_blocks st = [(b0, c0)] -> b = b0).
Proof.
  unfold emit_raw. intros H Ho. destruct Ho as [[H1 H2]|(b & code & H1 & H2 & H3)].
  - rewrite H2 in H. cbn in H. rewrite H1 in H. cbn in H. inversion H; subst; clear H. exists (l_next st), [mk (S (l_next st))]. cbn. repeat split; auto; try lia.
    intros b0 c0 X. rewrite H1 in X. discriminate.
  - rewrite H2 in H. rewrite H1 in H. cbn in H. inversion H; subst; clear H. exists b, (code ++ [mk (l_next st)]). cbn. repeat split; auto; try lia.
    + intros X. rewrite H1 in X. discriminate.
    + intros b0 c0 X. rewrite H1 in X. inversion X. reflexivity.
Qed.
Lemma emit_one st t bd st' r : emit st t bd = (st', r) -> one_block st -> one_block st'.
Proof. unfold emit. intros H Ho. destruct (emit_raw_one _ _ _ _ H Ho) as (b & code & H1 & H2 & H3 & _). right. exists b, code. auto. Qed.

Section Struct2.
  Variable structs : list sdef.
  Variable gl args : list string.

  Lemma lower_pure_one : forall te st r st', tpure te = true -> lower_expr structs gl args te st = LOk (r, st') -> one_block st -> one_block st'.
  Proof.
    induction te as [z|f|x t|o rt l IHl r0 IHr|t a IHa| | | | | | ]; intros st r st' Hp H Ho; try discriminate.
    - cbn [lower_expr] in H. destruct (create_const st (ITInt false) (KInt z)) eqn:E. inversion H; subst. eapply create_const_one; eauto.
    - cbn [lower_expr] in H. destruct (create_const st ITFloat (KFloat f)) eqn:E. inversion H; subst. eapply create_const_one; eauto.
    - cbn [lower_expr lbind] in H. destruct (scope_of gl args st x); cbn [lbind] in H; try discriminate.
      match type of H with context [emit st ?t ?b] => destruct (emit st t b) eqn:E end. inversion H; subst. eapply emit_one; eauto.
    - destruct rt as [c| |]; try discriminate. cbn [tpure] in Hp. apply andb_prop in Hp as [Hpl Hpr]. cbn [lower_expr lbind] in H.
      destruct (lower_expr structs gl args l st) as [[a st1]| |] eqn:El; cbn [lbind] in H; try discriminate.
      destruct (lower_expr structs gl args r0 st1) as [[b st2]| |] eqn:Er; cbn [lbind] in H; try discriminate.
      match type of H with context [emit st2 ?t ?bd] => destruct (emit st2 t bd) eqn:Ee end. inversion H; subst.
      eapply emit_one; [eassumption|]. eapply IHr; [eassumption|eassumption|]. eapply IHl; eassumption.
    - destruct t as [c| |]; try discriminate. cbn [tpure] in Hp. cbn [lower_expr lbind] in H.
      destruct (lower_expr structs gl args a st) as [[v0 st1]| |] eqn:Ea; cbn [lbind] in H; try discriminate.
      match type of H with context [emit st1 ?t ?bd] => destruct (emit st1 t bd) eqn:Ee end. inversion H; subst.
      eapply emit_one; [eassumption|]. eapply IHa; eassumption.
  Qed.

  Lemma lower_simple_one s st st' : simple s = true -> lower_stmt structs gl args s st = LOk st' -> one_block st -> one_block st'.
  Proof.
    intros Hs H Ho. destruct s as [t x init|e| | | | | | | | ]; try discriminate.
    - destruct t as [[c| |]| | |]; try discriminate. cbn [lower_stmt] in H. unfold lower_decl in H.
      match type of H with context [emit ?s0 ?t ?b] => destruct (emit s0 t b) as [st1 r1] eqn:E1 end.
      assert (Ho1 : one_block st1) by (eapply emit_one; [exact E1|]; destruct Ho as [[H1 H2]|(b & code & H1 & H2 & H3)]; [left|right; exists b, code]; cbn; auto).
      destruct init as [e|].
      + cbn [simple] in Hs. cbn [lbind] in H. destruct (lower_expr structs gl args e st1) as [[v st2]| |] eqn:Ee; cbn [lbind] in H; try discriminate.
        match type of H with context [emit st2 ?t ?b] => destruct (emit st2 t b) as [st3 r3] eqn:E3 end. inversion H; subst.
        eapply emit_one; [exact E3|]. eapply lower_pure_one; eassumption.
      + inversion H; subst. exact Ho1.
    - destruct e as [| | | | |l r0| | | | |]; try discriminate. destruct l as [| |x t| | | | | | | |]; try discriminate.
      destruct t as [[c| |]| | |]; try discriminate. cbn [simple] in Hs. cbn [lower_stmt lower_expr lbind] in H.
      destruct (lower_expr structs gl args r0 st) as [[v st1]| |] eqn:Ee; cbn [lbind] in H; try discriminate.
      destruct (scope_of gl args st1 x) as [sc| |]; cbn [lbind] in H; try discriminate.
      match type of H with context [emit st1 ?t ?b] => destruct (emit st1 t b) as [st2 r2] eqn:E2 end. cbn [lbind snd] in H. inversion H; subst.
      eapply emit_one; [exact E2|]. eapply lower_pure_one; eassumption.
  Qed.

  Lemma lower_body_one : forall l st st', forallb simple l = true -> lower_body structs gl args l st = LOk st' -> one_block st -> one_block st'.
  Proof.
    induction l as [|s r IH]; intros st st' Hs H Ho; [cbn in H; inversion H; subst; exact Ho|].
    cbn [forallb] in Hs. apply andb_prop in Hs as [Hs1 Hsr]. cbn [lower_body lbind] in H.
    destruct (lower_stmt structs gl args s st) as [st1| |] eqn:E1; cbn [lbind] in H; try discriminate.
    eapply IH; [exact Hsr|exact H|]. eapply lower_simple_one; eassumption.
  Qed.
End Struct2.

(** ** every access names its variable in the scope the name determines *)
Section Acc.
  Variable structs : list sdef.
  Variable gl args : list string.
  Definition sc_of (x : string) : vscope := if existsb (String.eqb x) gl then SGlobal else if existsb (String.eqb x) args then SArg else SLocal.
  Definition acc_ok (i : instr) : Prop :=
    match i_body i with ILoad sc v | IStore sc v _ => match v with VName x => sc = sc_of x | VIndex _ => False end | _ => True end.

  Lemma scope_of_sc st x sc : scope_of gl args st x = LOk sc -> sc = sc_of x.
  Proof.
    unfold scope_of, sc_of. destruct (existsb (String.eqb x) gl); [intros H; inversion H; reflexivity|].
    destruct (existsb (String.eqb x) args); [intros H; inversion H; reflexivity|]. destruct (existsb (String.eqb x) (l_locals st)); [intros H; inversion H; reflexivity|discriminate].
  Qed.

  (** the instructions a lowering step appended *)
  Definition appended (st st' : lstate) (is : list instr) : Prop := lcode st' = lcode st ++ map LI is.

  Lemma lower_pure_acc : forall te st r st' is, tpure te = true -> linv st -> lower_expr structs gl args te st = LOk (r, st') -> appended st st' is -> Forall acc_ok is.
  Proof.
    intros te st r st' is Hp I H Happ.
    destruct (lower_pure_struct structs gl args te st r st' Hp I H [] (fun _ F => match F with end)) as (is' & Hc & _).
    assert (is = is'). { unfold appended in Happ. rewrite Hc in Happ. apply app_inv_head in Happ. clear -Happ. revert is' Happ. induction is as [|a l IH]; intros [|b m] E; cbn in E; try discriminate; [reflexivity|]. inversion E; subst. f_equal. apply IH. assumption. }
    subst is'. clear Happ. revert st r st' is Hp I H Hc.
    induction te as [z|f|x t|o rt l IHl r0 IHr|t a IHa| | | | | | ]; intros st r st' is Hp I H Hc; try discriminate.
    - cbn [lower_expr] in H. destruct (create_const st (ITInt false) (KInt z)) as [st1 r1] eqn:E. inversion H; subst.
      destruct (create_const_spec _ _ _ _ _ I E) as (_ & Hb & _). unfold lcode in Hc. rewrite Hb in Hc. rewrite <- (app_nil_r (flat_map snd (l_blocks st))) in Hc at 1.
      apply app_inv_head in Hc. destruct is; [constructor|discriminate].
    - cbn [lower_expr] in H. destruct (create_const st ITFloat (KFloat f)) as [st1 r1] eqn:E. inversion H; subst.
      destruct (create_const_spec _ _ _ _ _ I E) as (_ & Hb & _). unfold lcode in Hc. rewrite Hb in Hc. rewrite <- (app_nil_r (flat_map snd (l_blocks st))) in Hc at 1.
      apply app_inv_head in Hc. destruct is; [constructor|discriminate].
    - cbn [lower_expr lbind] in H. destruct t as [[c| |]| | |]; try discriminate.
      destruct (scope_of gl args st x) as [sc| |] eqn:Esc; cbn [lbind] in H; try discriminate.
      match type of H with context [emit st ?t ?b] => destruct (emit st t b) as [st1 r1] eqn:E end. inversion H; subst.
      destruct (emit_spec _ _ _ _ _ I E) as (_ & Hcode & _). rewrite Hcode in Hc. apply app_inv_head in Hc. destruct is as [|i [|]]; try discriminate. cbn in Hc. inversion Hc; subst i.
      constructor; [|constructor]. unfold acc_ok. cbn. apply (scope_of_sc _ _ _ Esc).
    - destruct rt as [c| |]; try discriminate. cbn [tpure] in Hp. apply andb_prop in Hp as [Hpl Hpr]. cbn [lower_expr lbind] in H.
      destruct (lower_expr structs gl args l st) as [[a st1]| |] eqn:El; cbn [lbind] in H; try discriminate.
      destruct (lower_expr structs gl args r0 st1) as [[b st2]| |] eqn:Er; cbn [lbind] in H; try discriminate.
      match type of H with context [emit st2 ?t ?bd] => destruct (emit st2 t bd) as [st3 ref] eqn:Ee end. inversion H; subst.
      destruct (lower_pure_struct structs gl args l st a st1 Hpl I El [] (fun _ F => match F with end)) as (is1 & Hc1 & _ & _ & _ & _ & I1 & _).
      destruct (lower_pure_struct structs gl args r0 st1 b st2 Hpr I1 Er [] (fun _ F => match F with end)) as (is2 & Hc2 & _ & _ & _ & _ & I2 & _).
      destruct (emit_spec _ _ _ _ _ I2 Ee) as (_ & Hc3 & _). rewrite Hc3, Hc2, Hc1, <- !app_assoc in Hc. apply app_inv_head in Hc.
      assert (His : map LI is = map LI (is1 ++ is2 ++ [{| i_ref := r; i_ty := ad structs (TPrim (PScalar c)); i_body := IBin (scalar_opc o) a b |}])) by (rewrite !map_app; symmetry; exact Hc).
      assert (is = is1 ++ is2 ++ [{| i_ref := r; i_ty := ad structs (TPrim (PScalar c)); i_body := IBin (scalar_opc o) a b |}]).
      { clear -His. revert His. generalize (is1 ++ is2 ++ [{| i_ref := r; i_ty := ad structs (TPrim (PScalar c)); i_body := IBin (scalar_opc o) a b |}]). induction is as [|x l IH]; intros [|y m] E; cbn in E; try discriminate; [reflexivity|]. inversion E; subst. f_equal. apply IH. assumption. }
      subst is. apply Forall_app. split; [apply (IHl st a st1 is1 Hpl I El Hc1)|]. apply Forall_app. split; [apply (IHr st1 b st2 is2 Hpr I1 Er Hc2)|]. constructor; [exact Logic.I|constructor].
    - destruct t as [c| |]; try discriminate. cbn [tpure] in Hp. cbn [lower_expr lbind] in H.
      destruct (lower_expr structs gl args a st) as [[v0 st1]| |] eqn:Ea; cbn [lbind] in H; try discriminate.
      match type of H with context [emit st1 ?t ?bd] => destruct (emit st1 t bd) as [st2 ref] eqn:Ee end. inversion H; subst.
      destruct (lower_pure_struct structs gl args a st v0 st1 Hp I Ea [] (fun _ F => match F with end)) as (is1 & Hc1 & _ & _ & _ & _ & I1 & _).
      destruct (emit_spec _ _ _ _ _ I1 Ee) as (_ & Hc2 & _). rewrite Hc2, Hc1, <- !app_assoc in Hc. apply app_inv_head in Hc.
      assert (is = is1 ++ [{| i_ref := r; i_ty := ad structs (TPrim (PScalar c)); i_body := ICast v0 |}]).
      { assert (His : map LI is = map LI (is1 ++ [{| i_ref := r; i_ty := ad structs (TPrim (PScalar c)); i_body := ICast v0 |}])) by (rewrite map_app; symmetry; exact Hc).
        clear -His. revert His. generalize (is1 ++ [{| i_ref := r; i_ty := ad structs (TPrim (PScalar c)); i_body := ICast v0 |}]). induction is as [|x l IH]; intros [|y m] E; cbn in E; try discriminate; [reflexivity|]. inversion E; subst. f_equal. apply IH. assumption. }
      subst is. apply Forall_app. split; [apply (IHa st v0 st1 is1 Hp I Ea Hc1)|]. constructor; [exact Logic.I|constructor].
  Qed.
End Acc.

Section Struct3.
  Variable structs : list sdef.
  Variable gl args : list string.

  Definition fresh_tdecl (s : tstmt) : Prop := match s with TDecl _ x _ => existsb (String.eqb x) gl = false /\ existsb (String.eqb x) args = false | _ => True end.

  Definition struct_ok (st st' : lstate) (old : list nat) (is : list instr) : Prop :=
    lcode st' = lcode st ++ map LI is /\ code_ok (crefs st') old (l_next st) is /\ hi (l_next st) is <= l_next st' /\
    (forall c, In c (crefs st) -> In c (crefs st')) /\ linv st' /\ l_next st <= l_next st' /\ forallb plain is = true /\ Forall (acc_ok gl args) is.

  Lemma lower_simple_struct s st st' : simple s = true -> fresh_tdecl s -> linv st -> lower_stmt structs gl args s st = LOk st' ->
    forall old, (forall o, In o old -> o < l_next st) -> exists is, struct_ok st st' old is.
  Proof.
    intros Hs Hfr I H old Hold. destruct s as [t x init|e| | | | | | | | ]; try discriminate.
    - destruct t as [[c| |]| | |]; try discriminate. cbn [lower_stmt] in H. unfold lower_decl in H. cbn [fresh_tdecl] in Hfr. destruct Hfr as [Hg Ha].
      pose proof (register_local_inv st x I) as I0.
      match type of H with context [emit ?s0 ?t ?b] => destruct (emit s0 t b) as [st1 r1] eqn:E1 end.
      destruct (emit_spec _ _ _ _ _ I0 E1) as (I1 & Hcode1 & Hcs1 & _ & _ & _ & Hlo1 & Hhi1). cbn [register_local l_next l_consts] in *.
      set (nv := {| i_ref := r1; i_ty := adapt structs 8 (TPrim (PScalar c)); i_body := INewVar x |}) in *.
      assert (Hcode1' : lcode st1 = lcode st ++ [LI nv]) by exact Hcode1.
      destruct init as [e|].
      + cbn [simple] in Hs. cbn [lbind] in H.
        destruct (lower_expr structs gl args e st1) as [[v st2]| |] eqn:Ee; cbn [lbind] in H; try discriminate.
        match type of H with context [emit st2 ?t ?b] => destruct (emit st2 t b) as [st3 r3] eqn:E3 end. inversion H; subst st'; clear H.
        assert (Hold1 : forall o, In o (r1 :: old) -> o < l_next st1) by (intros o [<-|Ho]; [lia|specialize (Hold o Ho); lia]).
        destruct (lower_pure_struct structs gl args e st1 v st2 Hs I1 Ee (r1 :: old) Hold1) as (is2 & Hc2 & Hok2 & Hh2 & Hv & Hs2 & I2 & Hn2 & Hpl2).
        pose proof (lower_pure_acc structs gl args e st1 v st2 is2 Hs I1 Ee Hc2) as Hacc2.
        destruct (emit_spec _ _ _ _ _ I2 E3) as (I3 & Hcode3 & Hcs3 & _ & _ & _ & Hlo3 & Hhi3).
        set (sto := {| i_ref := r3; i_ty := adapt structs 8 (TPrim (PScalar c)); i_body := IStore SLocal (VName x) v |}) in *.
        assert (Hsub : forall c0, In c0 (crefs st2) -> In c0 (crefs st3)) by (unfold crefs; rewrite Hcs3; auto).
        exists (nv :: is2 ++ [sto]). unfold struct_ok. split; [rewrite Hcode3, Hc2, Hcode1'; cbn [map]; rewrite map_app, <- !app_assoc; reflexivity|].
        split.
        { cbn [code_ok]. split; [exact Hlo1|]. split; [reflexivity|]. split; [intros ? []|].
          apply code_ok_app; [apply (code_ok_weaken (crefs st2) (crefs st3)) with (old := r1 :: old) (lo := l_next st1); auto; lia|].
          cbn. split; [pose proof (hi_mono is2 (S r1) (l_next st1) ltac:(lia)); lia|]. split; [reflexivity|]. split; [|exact Logic.I].
          intros o0 [<-|[]]. destruct Hv as [Hv|Hv]; [left; apply Hsub; exact Hv|right; apply in_olds; left; exact Hv]. }
        split; [rewrite hi_cons, hi_app; unfold hi at 1; cbn; lia|].
        split; [intros c0 Hc0; apply Hsub, Hs2; unfold crefs in *; rewrite Hcs1; exact Hc0|]. split; [exact I3|]. split; [lia|].
        split; [cbn [forallb]; rewrite forallb_app, Hpl2; reflexivity|].
        constructor; [exact Logic.I|]. apply Forall_app. split; [exact Hacc2|]. constructor; [|constructor].
        unfold acc_ok, sto. cbn. unfold sc_of. rewrite Hg, Ha. reflexivity.
      + inversion H; subst st'; clear H. exists [nv]. unfold struct_ok. split; [exact Hcode1'|].
        split; [cbn; repeat split; auto; intros ? []|]. split; [unfold hi; cbn; lia|]. split; [unfold crefs; rewrite Hcs1; auto|]. split; [exact I1|]. split; [lia|].
        split; [reflexivity|]. constructor; [exact Logic.I|constructor].
    - destruct e as [| | | | |l r0| | | | |]; try discriminate. destruct l as [| |x t| | | | | | | |]; try discriminate.
      destruct t as [[c| |]| | |]; try discriminate. cbn [simple] in Hs. cbn [lower_stmt lower_expr lbind] in H.
      destruct (lower_expr structs gl args r0 st) as [[v st1]| |] eqn:Ee; cbn [lbind] in H; try discriminate.
      destruct (scope_of gl args st1 x) as [sc| |] eqn:Esc; cbn [lbind] in H; try discriminate.
      match type of H with context [emit st1 ?t ?b] => destruct (emit st1 t b) as [st2 r2] eqn:E2 end. cbn [lbind snd] in H. inversion H; subst st'; clear H.
      destruct (lower_pure_struct structs gl args r0 st v st1 Hs I Ee old Hold) as (is1 & Hc1 & Hok1 & Hh1 & Hv & Hs1 & I1 & Hn1 & Hpl1).
      pose proof (lower_pure_acc structs gl args r0 st v st1 is1 Hs I Ee Hc1) as Hacc1.
      destruct (emit_spec _ _ _ _ _ I1 E2) as (I2 & Hcode2 & Hcs2 & _ & _ & _ & Hlo2 & Hhi2).
      set (sto := {| i_ref := r2; i_ty := adapt structs 8 (TPrim (PScalar c)); i_body := IStore sc (VName x) v |}) in *.
      assert (Hsub : forall c0, In c0 (crefs st1) -> In c0 (crefs st2)) by (unfold crefs; rewrite Hcs2; auto).
      exists (is1 ++ [sto]). unfold struct_ok. split; [rewrite Hcode2, Hc1, map_app, <- app_assoc; reflexivity|].
      split.
      { apply code_ok_app; [apply (code_ok_weaken (crefs st1) (crefs st2)) with (old := old) (lo := l_next st); auto|].
        cbn. split; [lia|]. split; [reflexivity|]. split; [|exact Logic.I]. intros o0 [<-|[]].
        destruct Hv as [Hv|Hv]; [left; apply Hsub; exact Hv|right; apply in_olds; left; exact Hv]. }
      split; [rewrite hi_app; unfold hi at 1; cbn; lia|]. split; [intros c0 Hc0; apply Hsub, Hs1; exact Hc0|]. split; [exact I2|]. split; [lia|].
      split; [rewrite forallb_app, Hpl1; reflexivity|]. apply Forall_app. split; [exact Hacc1|]. constructor; [|constructor].
      unfold acc_ok, sto. cbn. apply (scope_of_sc gl args _ _ _ Esc).
  Qed.

  Lemma lower_body_struct : forall l st st', forallb simple l = true -> Forall fresh_tdecl l -> linv st -> lower_body structs gl args l st = LOk st' ->
    forall old, (forall o, In o old -> o < l_next st) -> exists is, struct_ok st st' old is.
  Proof.
    induction l as [|s r IH]; intros st st' Hs Hfr I H old Hold.
    - cbn in H. inversion H; subst st'. exists []. unfold struct_ok. split; [rewrite app_nil_r; reflexivity|]. split; [exact Logic.I|]. split; [unfold hi; cbn; lia|].
      split; [auto|]. split; [exact I|]. split; [lia|]. split; [reflexivity|constructor].
    - cbn [forallb] in Hs. apply andb_prop in Hs as [Hs1 Hsr]. inversion Hfr as [|? ? Hf1 Hfr']; subst. cbn [lower_body lbind] in H.
      destruct (lower_stmt structs gl args s st) as [st1| |] eqn:E1; cbn [lbind] in H; try discriminate.
      destruct (lower_simple_struct s st st1 Hs1 Hf1 I E1 old Hold) as (is1 & Hc1 & Hok1 & Hh1 & Hs1' & I1 & Hn1 & Hpl1 & Hacc1).
      assert (Hold1 : forall o, In o (olds old is1) -> o < l_next st1).
      { intros q Ho. apply in_olds in Ho as [Ho|Ho]; [|specialize (Hold q Ho); lia]. apply in_map_iff in Ho as (i & <- & Hi). pose proof (code_ok_refs _ _ _ _ Hok1 i Hi). lia. }
      destruct (IH st1 st' Hsr Hfr' I1 H (olds old is1) Hold1) as (is2 & Hc2 & Hok2 & Hh2 & Hs2' & I2 & Hn2 & Hpl2 & Hacc2).
      exists (is1 ++ is2). unfold struct_ok. split; [rewrite Hc2, Hc1, map_app, <- app_assoc; reflexivity|].
      split.
      { apply code_ok_app; [apply (code_ok_weaken (crefs st1) (crefs st')) with (old := old) (lo := l_next st); auto|].
        apply (code_ok_weaken (crefs st') (crefs st')) with (old := olds old is1) (lo := l_next st1); auto. }
      split; [rewrite hi_app; pose proof (hi_mono is2 _ _ Hh1); lia|]. split; [auto|]. split; [exact I2|]. split; [lia|].
      split; [rewrite forallb_app, Hpl1, Hpl2; reflexivity|]. apply Forall_app. split; assumption.
  Qed.
End Struct3.

(** ** consequences for the finished code *)
Lemma map_LI_inj : forall a b, map LI a = map LI b -> a = b.
Proof. induction a as [|x l IH]; intros [|y m] E; cbn in E; try discriminate; [reflexivity|]. inversion E; subst. f_equal. apply IH. assumption. Qed.

Lemma finish_ref args i : i_ref (finish_instr args (LI i)) = i_ref i.
Proof. cbn. destruct (i_body i) as [[] []| [] [] ?| | | | | | | | | | | | | |] eqn:Eb; reflexivity. Qed.
Lemma finish_operands args i : operands (i_body (finish_instr args (LI i))) = operands (i_body i).
Proof. cbn. destruct (i_body i) as [[] []| [] [] ?| | | | | | | | | | | | | |] eqn:Eb; cbn; rewrite ?Eb; reflexivity. Qed.
Lemma finish_plain args i : plain (finish_instr args (LI i)) = plain i.
Proof. unfold plain. cbn. destruct (i_body i) as [[] []| [] [] ?| | | | | | | | | | | | | |] eqn:Eb; cbn; rewrite ?Eb; reflexivity. Qed.

Lemma code_ok_lt cs : forall is old lo, code_ok cs old lo is -> forall pre i post, is = pre ++ i :: post ->
  (forall j, In j pre -> i_ref j < i_ref i) /\ (forall j, In j post -> i_ref i < i_ref j) /\
  (forall o, In o (operands (i_body i)) -> In o cs \/ In o old \/ In o (map i_ref pre)).
Proof.
  induction is as [|a r IH]; intros old lo H pre i post E; [destruct pre; discriminate|]. cbn in H. destruct H as (Ha & _ & Hb & Hr).
  destruct pre as [|p pre]; cbn in E; inversion E; subst.
  - split; [intros ? []|]. split; [|intros o Ho; destruct (Hb o Ho); auto].
    intros j Hj. pose proof (code_ok_refs _ _ _ _ Hr j Hj). lia.
  - destruct (IH _ _ Hr pre i post eq_refl) as (H1 & H2 & H3). split; [|split; [exact H2|]].
    + intros j [<-|Hj]; [|apply H1; exact Hj]. assert (Hin : In i (pre ++ i :: post)) by (apply in_or_app; right; left; reflexivity). pose proof (code_ok_refs _ _ _ _ Hr i Hin). lia.
    + intros o Ho. destruct (H3 o Ho) as [X|[X|X]]; auto. destruct X as [<-|X]; [right; right; left; reflexivity|auto]. right. right. right. exact X.
Qed.

Lemma code_ok_nodup cs is old lo : code_ok cs old lo is -> NoDup (map i_ref is).
Proof.
  revert old lo. induction is as [|a r IH]; intros old lo H; cbn; [constructor|]. cbn in H. destruct H as (_ & _ & _ & Hr). constructor; [|eapply IH; exact Hr].
  intro X. apply in_map_iff in X as (j & E & Hj). pose proof (code_ok_refs _ _ _ _ Hr j Hj). lia.
Qed.

Section Facc.
  Variable gl args : list string.
  Definition facc (i : instr) : Prop :=
    match i_body i with
    | ILoad sc v | IStore sc v _ => match v with VName x => sc = sc_of gl args x | VIndex _ => sc = SArg end
    | _ => True
    end.
  Lemma go_idx_in x : forall l k, In x l -> exists n, CallAgreeProofs.go_idx x l k = VIndex n.
  Proof. induction l as [|y l IH]; intros k H; [destruct H|]. cbn. destruct (String.eqb_spec x y); [eauto|]. apply IH. destruct H; [congruence|assumption]. Qed.
  Lemma existsb_in x l : existsb (String.eqb x) l = true -> In x l.
  Proof. intros H. apply existsb_exists in H as (y & Hy & E). apply String.eqb_eq in E. subst. exact Hy. Qed.

  Lemma finish_load_arg i x : i_body i = ILoad SArg (VName x) -> i_body (finish_instr args (LI i)) = ILoad SArg (arg_idx args x).
  Proof. intros Eb. unfold finish_instr. rewrite Eb. reflexivity. Qed.
  Lemma finish_store_arg i x v : i_body i = IStore SArg (VName x) v -> i_body (finish_instr args (LI i)) = IStore SArg (arg_idx args x) v.
  Proof. intros Eb. unfold finish_instr. rewrite Eb. reflexivity. Qed.
  Lemma finish_other i : (forall x, i_body i <> ILoad SArg (VName x)) -> (forall x v, i_body i <> IStore SArg (VName x) v) -> finish_instr args (LI i) = i.
  Proof.
    intros H1 H2. unfold finish_instr. destruct (i_body i) as [[] [x|n]|[] [x|n] v| | | | | | | | | | | | | |] eqn:Eb; try reflexivity.
    - exfalso. apply (H1 x). reflexivity.
    - exfalso. apply (H2 x v). reflexivity.
  Qed.

  Lemma sc_of_arg x : sc_of gl args x = SArg -> exists n, arg_idx args x = VIndex n.
  Proof.
    unfold sc_of. destruct (existsb (String.eqb x) gl); [discriminate|]. destruct (existsb (String.eqb x) args) eqn:Ea; [|discriminate]. intros _.
    rewrite CallAgreeProofs.arg_idx_go. apply go_idx_in. apply existsb_in. exact Ea.
  Qed.

  Lemma finish_facc i : acc_ok gl args i -> facc (finish_instr args (LI i)).
  Proof.
    unfold acc_ok, facc. intros H.
    destruct (i_body i) as [sc v|sc v src| | | | | | | | | | | | | |] eqn:Eb;
      try (rewrite (finish_other i) by (intros; rewrite Eb; discriminate); rewrite Eb; exact Logic.I).
    - destruct sc, v as [x|n]; try (rewrite (finish_other i) by (intros; rewrite Eb; discriminate); rewrite Eb; first [exact H|exact Logic.I|reflexivity|contradiction]).
      rewrite (finish_load_arg i x Eb). destruct (sc_of_arg x (eq_sym H)) as [n ->]. reflexivity.
    - destruct sc, v as [x|n]; try (rewrite (finish_other i) by (intros; rewrite Eb; discriminate); rewrite Eb; first [exact H|exact Logic.I|reflexivity|contradiction]).
      rewrite (finish_store_arg i x src Eb). destruct (sc_of_arg x (eq_sym H)) as [n ->]. reflexivity.
  Qed.

  Lemma scopes_agree_of_facc : forall code prev, Forall facc code -> (forall p, prev = Some p -> facc p) -> scopes_agree prev code.
  Proof.
    induction code as [|i r IH]; intros prev Hf Hp; cbn [scopes_agree]; [exact Logic.I|]. inversion Hf as [|? ? Hi Hr]; subst. split; [|apply IH; [exact Hr|intros p E; inversion E; subst; exact Hi]].
    destruct (i_body i) as [sc v| | | | | | | | | | | | | | |] eqn:Eb; try exact Logic.I. destruct prev as [p|]; [|exact Logic.I].
    specialize (Hp p eq_refl). unfold facc in Hp, Hi. rewrite Eb in Hi. destruct (i_body p) as [|sc' v' src| | | | | | | | | | | | | |]; try exact Logic.I.
    intros Hv. apply var_eqb_eq in Hv. subst v'. destruct v; congruence.
  Qed.
End Facc.

(** ** the lowered straight-line function satisfies the hypotheses of the forwarding theorem *)
Theorem straight_lowered_forwarding_hyps structs gl (f : tfunc) tl te F :
  tf_body f = tl ++ [TRet (Some te)] -> forallb simple tl = true -> tpure te = true ->
  Forall (fresh_tdecl gl (map snd (tf_args f))) tl -> lower_func structs gl f = LOk F ->
  exists bref code ret rv,
    fn_blocks F = [{| b_ref := bref; b_code := code ++ [ret] |}] /\ i_body ret = IRet rv /\ forallb plain code = true /\
    NoDup (map i_ref (code ++ [ret])) /\ operands_earlier (code ++ [ret]) /\ scopes_agree None code.
Proof.
  intros Hbody Hs Hp Hfr Hlow. unfold lower_func in Hlow. rewrite Hbody in Hlow. fold lstate0 in Hlow. rewrite lower_body_app in Hlow.
  set (args := map snd (tf_args f)) in *.
  destruct (lower_body structs gl args tl lstate0) as [st1| |] eqn:E1; cbn [lbind] in Hlow; try discriminate.
  cbn [lower_body lower_stmt lower_opt lbind] in Hlow.
  destruct (lower_expr structs gl args te st1) as [[r st2]| |] eqn:El; cbn [lbind fst snd] in Hlow; try discriminate.
  match type of Hlow with context [emit st2 ?t ?bd] => destruct (emit st2 t bd) as [st3 ref] eqn:Ee end. cbn [lbind] in Hlow.
  inversion Hlow; subst F; clear Hlow. cbn [fn_blocks end_block l_blocks].
  (* structure of the three parts *)
  destruct (lower_body_struct structs gl args tl lstate0 st1 Hs Hfr linv0 E1 [] (fun _ X => match X with end)) as (is1 & Hc1 & Hok1 & Hh1 & Hsub1 & I1 & Hn1 & Hpl1 & Hacc1).
  assert (Hold1 : forall o, In o (olds [] is1) -> o < l_next st1).
  { intros q Ho. apply in_olds in Ho as [Ho|[]]. apply in_map_iff in Ho as (i & <- & Hi). pose proof (code_ok_refs _ _ _ _ Hok1 i Hi). lia. }
  destruct (lower_pure_struct structs gl args te st1 r st2 Hp I1 El (olds [] is1) Hold1) as (is2 & Hc2 & Hok2 & Hh2 & Hr & Hsub2 & I2 & Hn2 & Hpl2).
  pose proof (lower_pure_acc structs gl args te st1 r st2 is2 Hp I1 El Hc2) as Hacc2.
  destruct (emit_spec _ _ _ _ _ I2 Ee) as (I3 & Hc3 & Hcs3 & _ & _ & _ & Hlo3 & Hhi3).
  set (reti := {| i_ref := ref; i_ty := match Some te with Some e' => adapt structs 8 (type_of e') | None => ITVoid end; i_body := IRet (Some r) |}) in *.
  (* constants and instruction references are disjoint *)
  destruct (lower_body_simple structs gl args tl lstate0 st1 Hs linv0 E1) as (_ & _ & (new1 & Hn1c & Hg1) & is1' & Hc1' & Hr1 & Hd1 & _).
  assert (is1' = is1) by (rewrite Hc1 in Hc1'; apply app_inv_head in Hc1'; apply map_LI_inj; symmetry; exact Hc1'). subst is1'.
  destruct (lower_pure_correct structs gl args te st1 r st2 Hp I1 El) as (_ & _ & _ & _ & (new2 & Hn2c & Hg2) & is2' & Hc2' & Hr2 & Hd2 & _).
  assert (is2' = is2) by (rewrite Hc2 in Hc2'; apply app_inv_head in Hc2'; apply map_LI_inj; symmetry; exact Hc2'). subst is2'.
  assert (Hdisj : forall c i, In c (l_consts st2) -> In i (is1 ++ is2) -> cref c <> i_ref i).
  { intros c i Hc Hi. apply in_app_or in Hi as [Hi|Hi]; [|apply Hd2; assumption]. rewrite Hn2c in Hc. apply in_app_or in Hc as [Hc|Hc]; [apply Hd1; assumption|].
    specialize (Hg2 c Hc). specialize (Hr1 i Hi). lia. }
  (* one block *)
  assert (Ho0 : one_block lstate0) by (left; split; reflexivity).
  pose proof (lower_body_one structs gl args tl lstate0 st1 Hs E1 Ho0) as Ho1.
  pose proof (lower_pure_one structs gl args te st1 r st2 Hp El Ho1) as Ho2.
  destruct (emit_raw_one st2 _ st3 ref Ee Ho2) as (b & code3 & Hb3 & _).
  assert (Hcode3 : code3 = map LI (is1 ++ is2) ++ [LI reti]).
  { assert (Hl3 : code3 = lcode st3) by (unfold lcode; rewrite Hb3; cbn; rewrite app_nil_r; reflexivity).
    rewrite Hl3, Hc3, Hc2, Hc1. cbn [lcode lstate0 l_blocks flat_map app]. rewrite map_app. reflexivity. }
  rewrite Hb3. cbn [map fst snd]. subst code3.
  exists b, (map (finish_instr args) (map LI (is1 ++ is2))), (finish_instr args (LI reti)), (Some r).
  split; [rewrite map_app; reflexivity|]. split; [reflexivity|].
  (* the whole code as one code_ok list *)
  assert (Hok : code_ok (crefs st2) [] 0 (is1 ++ is2)).
  { apply code_ok_app; [apply (code_ok_weaken (crefs st1) (crefs st2)) with (old := []) (lo := l_next lstate0); auto|].
    apply (code_ok_weaken (crefs st2) (crefs st2)) with (old := olds [] is1) (lo := l_next st1); auto. }
  split.
  { rewrite forallb_forall. intros j Hj. apply in_map_iff in Hj as (li & <- & Hli). apply in_map_iff in Hli as (i & <- & Hi). rewrite finish_plain.
    assert (Hall : forallb plain (is1 ++ is2) = true) by (rewrite forallb_app, Hpl1, Hpl2; reflexivity). rewrite forallb_forall in Hall. apply Hall. exact Hi. }
  assert (Hrefs : map i_ref (map (finish_instr args) (map LI (is1 ++ is2))) = map i_ref (is1 ++ is2)).
  { rewrite !map_map. apply map_ext. intros a. apply finish_ref. }
  assert (Hhi : hi 0 (is1 ++ is2) <= ref).
  { rewrite hi_app. pose proof (hi_mono is2 _ _ Hh1). cbn [lstate0 l_next] in *. lia. }
  assert (Hlt : forall j, In j (is1 ++ is2) -> i_ref j < ref) by (intros j Hj; pose proof (code_ok_refs _ _ _ _ Hok j Hj); lia).
  split.
  { rewrite map_app, Hrefs. cbn [map]. apply NoDup_app_single; [apply (code_ok_nodup _ _ _ _ Hok)|].
    rewrite finish_ref. intro X. apply in_map_iff in X as (j & E & Hj). specialize (Hlt j Hj). cbn in E. lia. }
  split.
  { (* operands are constants or earlier results, none of them defined at or after the instruction *)
    assert (Hgen : forall pre i post, is1 ++ is2 = pre ++ i :: post -> forall o, In o (operands (i_body i)) -> ~ In o (map i_ref (i :: post)) /\ o <> ref).
    { intros pre i post E o Ho. destruct (code_ok_lt _ _ _ _ Hok pre i post E) as (H1 & H2 & H3).
      assert (Hi : In i (is1 ++ is2)) by (rewrite E; apply in_or_app; right; left; reflexivity).
      destruct (H3 o Ho) as [X|[[]|X]].
      - apply in_map_iff in X as (c & <- & Hc). split.
        + intro Y. apply in_map_iff in Y as (j & Ej & Hj). apply (Hdisj c j Hc); [rewrite E; apply in_or_app; right; exact Hj|congruence].
        + pose proof (inv_consts_below _ I2 c Hc). unfold cref in *. lia.
      - apply in_map_iff in X as (p & <- & Hp'). specialize (H1 p Hp'). split.
        + intro Y. destruct Y as [Y|Y]; [lia|]. apply in_map_iff in Y as (j & Ej & Hj). specialize (H2 j Hj). lia.
        + specialize (Hlt i Hi). lia. }
    clear -Hgen Hr Hok Hdisj I2 Hlo3 Hlt. set (code := is1 ++ is2) in *.
    assert (Hrec : forall post pre, code = pre ++ post -> operands_earlier (map (finish_instr args) (map LI post) ++ [finish_instr args (LI reti)])).
    { induction post as [|i post IH]; intros pre E.
      - cbn. split; [|exact Logic.I]. intros o Ho. cbn in Ho. destruct Ho as [<-|[]]. cbn. intros [X|[]].
        destruct Hr as [Hr|Hr].
        + apply in_map_iff in Hr as (c & <- & Hc). pose proof (inv_consts_below _ I2 c Hc). unfold cref in *. lia.
        + apply in_map_iff in Hr as (j & <- & Hj). assert (Hjc : In j code) by (unfold code; apply in_or_app; right; exact Hj). specialize (Hlt j Hjc). lia.
      - cbn [map app operands_earlier]. split; [|apply (IH (pre ++ [i])); rewrite E, <- app_assoc; reflexivity].
        intros o Ho. rewrite finish_operands in Ho. destruct (Hgen pre i post E o Ho) as [Hn1 Hn2].
        cbn [map]. rewrite finish_ref. intro X. destruct X as [X|X]; [apply Hn1; left; exact X|].
        rewrite map_app in X. apply in_app_or in X as [X|X].
        + apply Hn1. right. rewrite !map_map in X. erewrite map_ext in X; [exact X|]. intros a. apply finish_ref.
        + cbn in X. destruct X as [X|[]]. apply Hn2. symmetry. exact X. }
    apply (Hrec code []). reflexivity. }
  apply (scopes_agree_of_facc gl args); [|intros p X; discriminate].
  apply Forall_forall. intros j Hj. apply in_map_iff in Hj as (li & <- & Hli). apply in_map_iff in Hli as (i & <- & Hi). apply finish_facc.
  assert (Hall : Forall (acc_ok gl args) (is1 ++ is2)) by (apply Forall_app; split; assumption). rewrite Forall_forall in Hall. apply Hall. exact Hi.
Qed.
