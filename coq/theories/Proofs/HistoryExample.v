(** Non-vacuity of [history_refines]: a module with a global and a straight-line function, a history of three calls. *)
From Coq Require Import String ZArith List Bool PrimFloat.
From NSL Require Import Base.Types Base.Syntax Model.PyNum Model.IR Model.VM Model.Elab Model.Lower Model.Opt Spec.RefSem Proofs.OpsAgree
                        Proofs.LowerExprProofs Proofs.ElabExprProofs Proofs.ReturnExprProofs Proofs.CallAgreeProofs
                        Proofs.LowerStmtProofs Proofs.ElabStmtProofs Proofs.StraightLineProofs Proofs.ForwardProofs
                        Harness.FragLib Harness.FwdLib Harness.FragLib2 Proofs.StraightLineExample Proofs.HistoryRefineProofs.
Import ListNotations.
Local Open Scope string_scope.

Definition hx_P : program := {| p_funcs := [sl_F]; p_globals := ["g"] |}.

Lemma hx_fn_ok : fn_ok sl_M hx_P sl_fn.
Proof.
  apply (fn_ok_intro sl_M hx_P sl_fn sl_body sl_e sl_tf sl_F sl_tl sl_te); try reflexivity.
  - exact sl_lits_exact.
  - intros q Hq. vm_compute in Hq. destruct Hq as [<-|[]]. reflexivity.
  - repeat constructor; cbn; auto.
  - intros x Hx Hg. cbn in Hx, Hg. destruct Hg as [Hg|[]]. subst x. destruct Hx as [Hx|[Hx|[]]]; inversion Hx.
  - repeat constructor; cbn; intuition discriminate.
Qed.

Definition hx_calls : list hcall := [(sl_fn, [RInt 3; RFloat 2.5%float]); (sl_fn, [RInt 1; RFloat 0.5%float]); (sl_fn, [RInt (-2); RFloat 4%float])].
Definition hx_g : RefSem.frame := [("g", SV (RInt 8))].
Definition hx_vs : vmstate := {| globals := [("g", VInt 8)]; hp := [] |}.

Lemma hx_GA : GA sl_M hx_g hx_vs.
Proof.
  intros x p H. unfold genvl in H. cbn [sl_M m_globals map find fst snd] in H. destruct (String.eqb_spec "g" x) as [<-|Hne]; [|discriminate]. inversion H; subst p. cbn.
  split; [left; reflexivity|]. exists (RInt 8). repeat split; reflexivity.
Qed.

Example hx_history :
  exists rs g', ref_hist sl_M 14 hx_g hx_calls = RefSem.ROk (rs, g') /\
  exists n, forall fuel', n <= fuel' ->
    exists vl vs', vm_hist fuel' hx_P hx_vs hx_calls = Some (vl, vs') /\ Forall2 (fun s v => exists w, s = SV w /\ v = v_of w) rs vl /\ GA sl_M g' vs'.
Proof.
  destruct (ref_hist sl_M 14 hx_g hx_calls) as [[rs g']| | |] eqn:E; try (vm_compute in E; discriminate).
  exists rs, g'. split; [reflexivity|].
  apply (history_refines sl_M hx_P hx_calls) with (fuel := 14) (g := hx_g); [|exact hx_GA|exact E].
  intros c Hc. cbn in Hc. destruct Hc as [<-|[<-|[<-|[]]]]; (split; [exact hx_fn_ok|repeat constructor]).
Qed.

(** evaluated: the three results and the global afterwards, on both sides *)
Example hx_values :
  (match ref_hist sl_M 14 hx_g hx_calls with RefSem.ROk (_, g') => Some g' | _ => None end) = Some [("g", SV (RInt 16))] /\
  (match vm_hist 80 hx_P hx_vs hx_calls with Some (_, vs') => Some (globals vs') | None => None end) = Some [("g", VInt 16)].
Proof. split; vm_compute; reflexivity. Qed.
